package main

// Document synthesis directed by the expression: the shape the current node must have for the
// expression to select something, instantiated with random leaves. Random documents make most
// generated paths select nothing (null), which says little about the code under test.

import (
	"encoding/json"
	"sort"
)

type shape struct {
	kind   int // 0 any, 1 object, 2 array, 3 number, 4 string
	fields map[string]*shape
	elem   *shape
	minLen int
}

func anyShape() *shape { return &shape{} }

func mergeShape(a, b *shape) *shape {
	if a == nil || a.kind == 0 {
		if b == nil {
			return anyShape()
		}
		return b
	}
	if b == nil || b.kind == 0 {
		return a
	}
	if a.kind != b.kind {
		return a
	}
	switch a.kind {
	case 1:
		m := &shape{kind: 1, fields: map[string]*shape{}}
		for k, v := range a.fields {
			m.fields[k] = v
		}
		for k, v := range b.fields {
			m.fields[k] = mergeShape(m.fields[k], v)
		}
		return m
	case 2:
		n := a.minLen
		if b.minLen > n {
			n = b.minLen
		}
		return &shape{kind: 2, elem: mergeShape(a.elem, b.elem), minLen: n}
	}
	return a
}

// req(e, out): the shape of the current node for which e yields something of shape out
func req(e *R, out *shape) *shape {
	if e == nil {
		return out
	}
	switch e.K {
	case KCurrent:
		return out
	case KField:
		return &shape{kind: 1, fields: map[string]*shape{e.Name: out}}
	case KSub, KPipe:
		return req(e.L, req(e.Rt, out))
	case KIndex:
		n := e.I + 1
		if e.I < 0 {
			n = -e.I
		}
		if n > 6 || n < 0 {
			n = 6
		}
		return req(e.L, &shape{kind: 2, elem: out, minLen: int(n)})
	case KProj:
		inner := req(e.Rt, anyShape())
		switch e.PK {
		case PList:
			return req(e.L, &shape{kind: 2, elem: inner, minLen: 2})
		case PSlice:
			return req(e.L, &shape{kind: 2, elem: inner, minLen: 4})
		case PFlatten:
			return req(e.L, &shape{kind: 2, elem: &shape{kind: 2, elem: inner, minLen: 2}, minLen: 2})
		case PFilter:
			return req(e.L, &shape{kind: 2, elem: mergeShape(inner, req(e.Cond, anyShape())), minLen: 3})
		case PValues:
			return req(e.L, &shape{kind: 1, fields: map[string]*shape{"a": inner, "b": inner}})
		}
	case KOr, KAnd, KCmp:
		return mergeShape(req(e.L, anyShape()), req(e.Rt, anyShape()))
	case KArith:
		return mergeShape(req(e.L, &shape{kind: 3}), req(e.Rt, &shape{kind: 3}))
	case KNot, KNeg, KPos:
		return req(e.Rt, anyShape())
	case KMultiList:
		var s *shape
		for _, x := range e.Es {
			s = mergeShape(s, req(x, anyShape()))
		}
		return s
	case KMultiHash:
		var s *shape
		for _, kv := range e.KEs {
			s = mergeShape(s, req(kv.E, anyShape()))
		}
		return s
	case KCall:
		var s *shape
		for i, a := range e.Args {
			want := anyShape()
			if !a.Ref && i == 0 {
				switch e.Name {
				case "sort_by", "max_by", "min_by", "group_by", "sort", "max", "min", "sum", "avg", "reverse", "join", "to_array", "length", "contains", "zip":
					want = &shape{kind: 2, elem: anyShape(), minLen: 3}
				case "keys", "values", "items", "merge":
					want = &shape{kind: 1, fields: map[string]*shape{"a": anyShape(), "b": anyShape()}}
				case "abs", "ceil", "floor":
					want = &shape{kind: 3}
				}
			}
			if a.Ref {
				continue
			}
			s = mergeShape(s, req(a.E, want))
		}
		return s
	case KLet:
		var s *shape
		for _, kv := range e.KEs {
			s = mergeShape(s, req(kv.E, anyShape()))
		}
		return mergeShape(s, req(e.Rt, out))
	}
	return anyShape()
}

func instShape(s *shape, depth int) any {
	if s == nil || s.kind == 0 {
		if depth > 3 {
			return json.Number(pick(docNumbers))
		}
		return genValue(1)
	}
	switch s.kind {
	case 1:
		m := map[string]any{}
		keys := make([]string, 0, len(s.fields))
		for k := range s.fields {
			keys = append(keys, k)
		}
		sort.Strings(keys) // the PRNG must be consumed in a fixed order: every run of a seed is the same run
		for _, k := range keys {
			m[k] = instShape(s.fields[k], depth+1)
		}
		if rng.Intn(3) == 0 {
			m[pick(fieldNames)] = genValue(1)
		}
		return m
	case 2:
		n := s.minLen + rng.Intn(2)
		a := make([]any, n)
		for i := range a {
			a[i] = instShape(s.elem, depth+1)
			if rng.Intn(6) == 0 {
				a[i] = nil // null elements exercise the pruning rules of projections
			} else if rng.Intn(9) == 0 {
				a[i] = genValue(1)
			}
		}
		return a
	case 3:
		return json.Number(pick(docNumbers))
	case 4:
		return pick(docStrings)
	}
	return nil
}

// a document on which e probably selects something
func docFor(e *R) any { return instShape(req(e, anyShape()), 0) }
