package main

// Grammar-directed generators for reference expressions and JSON documents.
// Every random choice comes from the one PRNG seeded by -seed.

import (
	"encoding/json"
	"strconv"
)

type Gen struct {
	Funcs     bool // allow a few built-in calls
	Arith     bool // allow arithmetic
	Lets      bool // allow let expressions
	NoValues  bool // avoid object enumeration (results would be order-dependent)
	NoRoot    bool // never mention the root node
	letBias   bool // generate let expressions often
	enumFuncs bool // keys / values / items / group_by / merge
	wideNames bool // quoted identifiers, escapes, unicode in names and strings
	freeVars  bool // sometimes reference variables that are not bound
	mutFuncs  bool // functions that build or reorder arrays: sort, sort_by, reverse, max_by, zip, literals
	vars      []string
}

var fieldNames = []string{"a", "b", "c", "k", "a", "b"}

func pick[T any](xs []T) T { return xs[rng.Intn(len(xs))] }

func (g *Gen) smallLit() *R {
	switch rng.Intn(9) {
	case 0:
		return litJ("null")
	case 1:
		return litJ("true")
	case 2:
		return litJ("false")
	case 3:
		return litJ(`"a"`)
	case 4:
		return litJ(`""`)
	case 5:
		return litJ(`[]`)
	case 6:
		return litJ(`[1,null,[2]]`)
	case 7:
		return litJ(`{"a":1,"b":null}`)
	}
	return lit(json.Number(pick([]string{"0", "1", "2", "1.0", "-1", "10", "2e0"})))
}

func (g *Gen) atom(d int) *R {
	n := rng.Intn(20)
	if g.wideNames && rng.Intn(5) == 0 {
		switch rng.Intn(3) {
		case 0:
			return fld(pick([]string{"x y", "é", "a\"b", "tab\t", "let", "in", "1a", "", "😀", "back\\slash", "nl\n"}))
		case 1:
			return raw(pick([]string{"it's", "a\\b", "é€😀", "`", "\"", "line\nbreak"}))
		}
		return lit(pick([]any{"a`b", "é", "q\"uote", jsonDoc("{\"k y\":[1,\"`\"]}"), jsonDoc("[1.50,-0,1e5]")}))
	}
	switch {
	case n < 9:
		return fld(pick(fieldNames))
	case n < 11:
		return cur()
	case n < 14:
		return g.smallLit()
	case n == 14:
		return raw(pick([]string{"a", "", "b c", "it's", `\x`}))
	case n == 15 && !g.NoRoot:
		return &R{K: KRoot}
	case n == 16 && len(g.vars) > 0:
		return vr(pick(g.vars))
	case n == 16 && g.freeVars && rng.Intn(4) == 0:
		return vr("$free")
	case n == 17 && d > 0:
		es := []*R{}
		for i := 0; i < 1+rng.Intn(3); i++ {
			es = append(es, g.expr(d-1))
		}
		return mlist(es...)
	case n == 18 && d > 0:
		kes := []KV{}
		for i := 0; i < 1+rng.Intn(3); i++ {
			kes = append(kes, KV{pick([]string{"a", "b", "k", "x y"}), g.expr(d - 1)})
		}
		return mhash(dedupKV(kes)...)
	case n == 19 && g.Funcs && d > 0:
		return g.call(d)
	}
	return fld(pick(fieldNames))
}

func dedupKV(kes []KV) []KV {
	seen := map[string]bool{}
	out := []KV{}
	for _, kv := range kes {
		if !seen[kv.K] {
			seen[kv.K] = true
			out = append(out, kv)
		}
	}
	return out
}

func (g *Gen) call(d int) *R {
	if g.enumFuncs && rng.Intn(2) == 0 {
		switch rng.Intn(5) {
		case 0:
			return call("keys", av(g.chain(d-1)))
		case 1:
			return call("values", av(g.chain(d-1)))
		case 2:
			return call("items", av(g.chain(d-1)))
		case 3:
			return call("group_by", av(g.chain(d-1)), ar(call("type", av(cur()))))
		}
		return call("merge", av(g.chain(d-1)), av(g.chain(d-1)))
	}
	if g.mutFuncs && rng.Intn(2) == 0 {
		switch rng.Intn(7) {
		case 0:
			return call("sort", av(g.chain(d-1)))
		case 1:
			return call("sort_by", av(g.chain(d-1)), ar(pick([]*R{cur(), fld("a"), fld("b")})))
		case 2:
			return call("reverse", av(g.chain(d-1)))
		case 3:
			return call("zip", av(g.chain(d-1)), av(g.chain(d-1)))
		case 4:
			return call("to_array", av(g.chain(d-1)))
		case 5:
			return pipe(litJ(`[3,1,2,[0]]`), pick([]*R{call("sort", av(proj(PSlice, cur(), cur()))), call("reverse", av(cur())), proj(PFlatten, cur(), cur())}))
		}
		return call("max_by", av(g.chain(d-1)), ar(pick([]*R{cur(), fld("a")})))
	}
	switch rng.Intn(10) {
	case 0:
		return call("length", av(g.expr(d-1)))
	case 1:
		return call("type", av(g.expr(d-1)))
	case 2:
		return call("not_null", av(g.expr(d-1)), av(g.expr(d-1)))
	case 3:
		return call("to_array", av(g.expr(d-1)))
	case 4:
		return call("map", ar(g.expr(d-1)), av(g.chain(d-1)))
	case 5:
		return call("sort_by", av(g.chain(d-1)), ar(g.chain(d-1)))
	case 6:
		return call("contains", av(g.expr(d-1)), av(g.expr(d-1)))
	case 7:
		return call("reverse", av(g.chain(d-1)))
	case 8:
		return call("merge", av(g.expr(d-1)), av(g.expr(d-1)))
	}
	return call("to_string", av(g.chain(d-1)))
}

var smallIdx = []int64{0, 1, -1, 2, -2, 5, -5}

// integer literals at the limits of the representations an implementation may pick (8, 16, 32, 64 bits)
var edgeIdx = []int64{255, 256, 257, -255, -256, -257, 127, 128, -128, -129, 65535, 65536, -65536, 2147483647, 2147483648, -2147483648, -2147483649, 4294967295, 4294967296, 9223372036854775807, -9223372036854775808, -9223372036854775807}

func genIdx() int64 {
	if rng.Intn(10) == 0 {
		return pick(edgeIdx)
	}
	return pick(smallIdx)
}

func (g *Gen) sliceParts() (a, b, c *int64) {
	opt := func(pool []int64) *int64 {
		if rng.Intn(3) == 0 {
			return nil
		}
		v := pick(pool)
		if rng.Intn(14) == 0 {
			v = pick(edgeIdx)
		}
		return &v
	}
	a = opt(smallIdx)
	b = opt(smallIdx)
	if rng.Intn(2) == 0 {
		c = opt([]int64{1, 2, -1, -2, 3})
	}
	return
}

// selector applied to e; when it creates a projection its right-hand side is generated too.
func (g *Gen) selector(e *R, d int) *R {
	n := rng.Intn(16)
	switch {
	case n < 5:
		return sub(e, fld(pick(fieldNames)))
	case n < 7:
		return idx(e, genIdx())
	case n < 9:
		return proj(PList, e, g.rhs(d, 9))
	case n == 9:
		a, b, c := g.sliceParts()
		return slc(e, a, b, c, g.rhs(d, 9))
	case n == 10:
		return proj(PFlatten, e, g.rhs(d, 8))
	case n == 11 || n == 12:
		return filt(e, g.cond(d), g.rhs(d, 9))
	case n == 13 && !g.NoValues:
		return proj(PValues, e, g.rhs(d, 9))
	case n == 14 && d > 0:
		es := []*R{}
		for i := 0; i < 1+rng.Intn(2); i++ {
			es = append(es, g.expr(d-1))
		}
		return sub(e, mlist(es...))
	case n == 15 && d > 0:
		return sub(e, mhash(KV{"k", g.expr(d - 1)}))
	}
	return sub(e, fld(pick(fieldNames)))
}

func (g *Gen) cond(d int) *R {
	if d <= 0 || rng.Intn(3) == 0 {
		return pick([]*R{cur(), fld("a"), fld("b"), litJ("true"), cmp("==", fld("a"), litJ("1")), cmp(">", cur(), litJ("1")), not(fld("b"))})
	}
	return g.expr(d - 1)
}

// a selector chain hanging off the current node, renderable as the right-hand
// side of a projection that collects selectors binding tighter than stop.
func (g *Gen) rhs(d int, stop int) *R {
	e := cur()
	if d > 0 && rng.Intn(8) == 0 { // a multi-select right after the projection: null elements must be dropped
		if rng.Intn(2) == 0 {
			e = sub(e, mlist(g.chain(0)))
		} else {
			e = sub(e, mhash(KV{"k", g.chain(0)}))
		}
	}
	n := rng.Intn(4)
	if d <= 0 {
		n = rng.Intn(2)
	}
	for i := 0; i < n; i++ {
		k := rng.Intn(12)
		switch {
		case k < 5:
			e = sub(e, fld(pick(fieldNames)))
		case k < 7:
			e = idx(e, genIdx())
		case k == 7:
			return proj(PList, e, g.rhs(d-1, 9))
		case k == 8 && stop < 10:
			return filt(e, g.cond(d-1), g.rhs(d-1, 9))
		case k == 9 && !g.NoValues:
			return proj(PValues, e, g.rhs(d-1, 9))
		case k == 10:
			a, b, c := g.sliceParts()
			return slc(e, a, b, c, g.rhs(d-1, 9))
		case k == 11 && d > 0:
			e = sub(e, mlist(g.expr(d-1)))
		default:
			e = sub(e, fld(pick(fieldNames)))
		}
	}
	return e
}

func (g *Gen) chain(d int) *R {
	e := g.atom(d)
	if rng.Intn(5) == 0 { // bare forms ([*]..., []..., [?..]..., [1:]..., *..., [0]) exercise the ...Current node types
		e = cur()
		if rng.Intn(3) > 0 {
			r := sub(cur(), fld(pick(fieldNames)))
			if rng.Intn(3) == 0 {
				r = g.rhs(d, 9)
			}
			switch rng.Intn(5) {
			case 0:
				e = proj(PList, e, r)
			case 1:
				e = proj(PFlatten, e, r)
			case 2:
				e = filt(e, g.cond(d-1), r)
			case 3:
				a, b, c := g.sliceParts()
				e = slc(e, a, b, c, r)
			default:
				if g.NoValues {
					e = proj(PList, e, r)
				} else {
					e = proj(PValues, e, r)
				}
			}
		}
	}
	n := rng.Intn(4)
	for i := 0; i < n; i++ {
		e = g.selector(e, d-1)
	}
	return e
}

func (g *Gen) expr(d int) *R {
	if d <= 0 {
		return g.chain(0)
	}
	n := rng.Intn(24)
	if g.letBias && rng.Intn(4) == 0 {
		return g.let(d)
	}
	switch {
	case n < 10:
		return g.chain(d)
	case n < 12:
		return pipe(g.expr(d-1), g.expr(d-1))
	case n < 14:
		return or(g.expr(d-1), g.expr(d-1))
	case n < 16:
		return and(g.expr(d-1), g.expr(d-1))
	case n == 16:
		return not(g.expr(d - 1))
	case n < 20:
		return cmp(pick([]string{"==", "!=", "<", "<=", ">", ">="}), g.expr(d-1), g.expr(d-1))
	case n == 20 && g.Lets:
		return g.let(d)
	case n == 21 && g.Arith:
		return arith(pick([]string{"+", "-", "*", "/", "//", "%"}), g.expr(d-1), g.expr(d-1))
	case n == 22 && g.Arith:
		return &R{K: pick([]Kind{KNeg, KPos}), Rt: g.expr(d - 1)}
	case n == 23 && g.Funcs:
		return g.call(d)
	}
	return g.chain(d)
}

func (g *Gen) let(d int) *R {
	names := []string{"$x", "$y", "$a"}
	bs := []KV{}
	seen := map[string]bool{}
	for i := 0; i < 1+rng.Intn(2); i++ {
		n := pick(names)
		if seen[n] {
			continue
		}
		seen[n] = true
		bs = append(bs, KV{n, g.expr(d - 1)})
	}
	saved := g.vars
	for _, b := range bs {
		g.vars = append(g.vars, b.K)
	}
	body := g.expr(d - 1)
	g.vars = saved
	return let(bs, body)
}

// ---- documents ----

var docStrings = []string{"", "a", "b", "abc", "é€", "x y"}
var docNumbers = []string{"0", "1", "2", "3", "-1", "1.0", "2.5", "10", "1e1"}

func genValue(d int) any {
	n := rng.Intn(14)
	if d <= 0 && n >= 8 {
		n = rng.Intn(8)
	}
	switch {
	case n == 0:
		return nil
	case n == 1:
		return rng.Intn(2) == 0
	case n < 4:
		return pick(docStrings)
	case n < 8:
		return json.Number(pick(docNumbers))
	case n < 11:
		l := rng.Intn(4)
		a := make([]any, l)
		for i := range a {
			a[i] = genValue(d - 1)
		}
		return a
	}
	m := map[string]any{}
	for i := 0; i < rng.Intn(4); i++ {
		m[pick(fieldNames)] = genValue(d - 1)
	}
	return m
}

func genDoc() any {
	switch rng.Intn(8) {
	case 0:
		return genValue(2)
	case 1:
		a := make([]any, rng.Intn(4))
		for i := range a {
			a[i] = genValue(2)
		}
		return a
	}
	m := map[string]any{}
	for _, k := range []string{"a", "b", "c", "k"} {
		if rng.Intn(5) > 0 {
			m[k] = genValue(3)
		}
	}
	return m
}

var _ = strconv.Itoa
