package main

// Reference AST (mirror of coq/Spec/RefAst.v), its canonical unparser (mirror of
// coq/Spec/Unparse.v; the Coq side re-checks every rendered text) and the
// emission of Coq terms.

import (
	"encoding/json"
	"fmt"
	"sort"
	"strconv"
	"strings"
)

type Kind int

const (
	KCurrent Kind = iota
	KRoot
	KField
	KLiteral
	KRaw
	KVar
	KSub
	KIndex
	KProj
	KMultiList
	KMultiHash
	KPipe
	KOr
	KAnd
	KNot
	KCmp
	KArith
	KNeg
	KPos
	KCall
	KLet
)

type PKind int

const (
	PList PKind = iota
	PSlice
	PFlatten
	PFilter
	PValues
)

type KV struct {
	K string
	E *R
}

type Arg struct {
	Ref bool
	E   *R
}

type R struct {
	K     Kind
	Name  string // field, var (with $), function name
	Lit   any    // literal JSON value
	L, Rt *R     // children (Rt = right / rhs / body / operand)
	I     int64
	PK    PKind
	Start *int64
	Stop  *int64
	Step  *int64
	Cond  *R
	Es    []*R
	KEs   []KV
	Op    string // cmp or arith operator text
	Args  []Arg
	Bare  bool // an index on the current node written without "@": [0] instead of @[0]
}

const (
	lLet  = 0
	lPipe = 1
	lOr   = 2
	lAnd  = 3
	lCmp  = 5
	lAdd  = 6
	lMul  = 7
	lProj = 8
	lPost = 9
)

func level(e *R) int {
	switch e.K {
	case KLet:
		return lLet
	case KPipe:
		return lPipe
	case KOr:
		return lOr
	case KAnd:
		return lAnd
	case KCmp:
		return lCmp
	case KArith:
		if e.Op == "+" || e.Op == "-" {
			return lAdd
		}
		return lMul
	case KNeg, KPos:
		return lMul
	case KProj:
		return lProj
	}
	return lPost
}

func plainIdent(s string) bool {
	if s == "" || s == "let" || s == "in" {
		return false
	}
	for i := 0; i < len(s); i++ {
		b := s[i]
		al := b >= 'A' && b <= 'Z' || b >= 'a' && b <= 'z' || b == '_'
		if i == 0 && !al {
			return false
		}
		if !al && !(b >= '0' && b <= '9') {
			return false
		}
	}
	return true
}

func qescape(s string) string {
	var b strings.Builder
	for i := 0; i < len(s); i++ {
		c := s[i]
		switch {
		case c == '"':
			b.WriteString(`\"`)
		case c == '\\':
			b.WriteString(`\\`)
		case c == '\n':
			b.WriteString(`\n`)
		case c == '\r':
			b.WriteString(`\r`)
		case c == '\t':
			b.WriteString(`\t`)
		case c == '\b':
			b.WriteString(`\b`)
		case c == '\f':
			b.WriteString(`\f`)
		case c < 32:
			fmt.Fprintf(&b, `\u00%c%c`, hexc(c/16), hexc(c%16))
		default:
			b.WriteByte(c)
		}
	}
	return b.String()
}

func hexc(d byte) byte {
	if d < 10 {
		return '0' + d
	}
	return 'a' + d - 10
}

func showIdent(s string) string {
	if plainIdent(s) {
		return s
	}
	return `"` + qescape(s) + `"`
}

func rescape(s string) string {
	s = strings.ReplaceAll(s, `\`, `\\`)
	return strings.ReplaceAll(s, `'`, `\'`)
}

// litText: JSON text of a literal, members in sorted key order (same order as coqValue emits)
func litText(v any) string {
	switch v := v.(type) {
	case nil:
		return "null"
	case bool:
		if v {
			return "true"
		}
		return "false"
	case string:
		return `"` + qescape(v) + `"`
	case json.Number:
		return string(v)
	case []any:
		parts := make([]string, len(v))
		for i, x := range v {
			parts[i] = litText(x)
		}
		return "[" + strings.Join(parts, ",") + "]"
	case map[string]any:
		keys := make([]string, 0, len(v))
		for k := range v {
			keys = append(keys, k)
		}
		sort.Strings(keys)
		parts := make([]string, len(keys))
		for i, k := range keys {
			parts[i] = `"` + qescape(k) + `":` + litText(v[k])
		}
		return "{" + strings.Join(parts, ",") + "}"
	}
	return "null"
}

func optInt(p *int64) string {
	if p == nil {
		return ""
	}
	return strconv.FormatInt(*p, 10)
}

func projTok(e *R, inRHS bool) string {
	switch e.PK {
	case PList:
		return "[*]"
	case PSlice:
		s := "[" + optInt(e.Start) + ":" + optInt(e.Stop)
		if e.Step != nil {
			s += ":" + optInt(e.Step)
		}
		return s + "]"
	case PFlatten:
		return "[]"
	case PFilter:
		return "[?" + show(lPipe, e.Cond) + "]"
	case PValues:
		if !inRHS && e.L.K == KCurrent {
			return "*"
		}
		return ".*"
	}
	return "?"
}

func isAtom(e *R) bool {
	switch e.K {
	case KCurrent, KRoot, KField, KLiteral, KRaw, KVar, KCall, KMultiList, KMultiHash:
		return true
	}
	return false
}

func show(p int, e *R) string {
	var body string
	switch e.K {
	case KCurrent:
		body = "@"
	case KRoot:
		body = "$"
	case KField:
		body = showIdent(e.Name)
	case KLiteral:
		body = "`" + strings.ReplaceAll(litText(e.Lit), "`", "\\`") + "`"
	case KRaw:
		body = "'" + rescape(e.Name) + "'"
	case KVar:
		body = e.Name
	case KSub:
		body = show(lPost, e.L) + "." + show(lPost, e.Rt)
	case KIndex:
		if e.Bare && e.L.K == KCurrent {
			body = "[" + strconv.FormatInt(e.I, 10) + "]"
		} else {
			body = show(lPost, e.L) + "[" + strconv.FormatInt(e.I, 10) + "]"
		}
	case KProj:
		left := ""
		if e.L.K != KCurrent {
			lv := lPost
			if e.PK == PFlatten {
				lv = lProj
			}
			left = show(lv, e.L)
		}
		body = left + projTok(e, false) + showRHS(e.Rt)
	case KMultiList:
		parts := make([]string, len(e.Es))
		for i, x := range e.Es {
			parts[i] = show(lPipe, x)
		}
		inner := strings.Join(parts, ", ")
		if strings.HasPrefix(inner, "*") {
			inner = " " + inner
		}
		body = "[" + inner + "]"
	case KMultiHash:
		parts := make([]string, len(e.KEs))
		for i, kv := range e.KEs {
			parts[i] = showIdent(kv.K) + ": " + show(lPipe, kv.E)
		}
		body = "{" + strings.Join(parts, ", ") + "}"
	case KPipe:
		body = show(lPipe, e.L) + " | " + show(lOr, e.Rt)
	case KOr:
		body = show(lOr, e.L) + " || " + show(lAnd, e.Rt)
	case KAnd:
		body = show(lAnd, e.L) + " && " + show(lCmp, e.Rt)
	case KNot:
		if isAtom(e.Rt) {
			body = "!" + show(lPost, e.Rt)
		} else {
			body = "!(" + show(lLet, e.Rt) + ")"
		}
	case KCmp:
		body = show(lCmp, e.L) + " " + e.Op + " " + show(lAdd, e.Rt)
	case KArith:
		lv := lMul
		if e.Op == "+" || e.Op == "-" {
			lv = lAdd
		}
		body = show(lv, e.L) + " " + e.Op + " " + show(lv+1, e.Rt)
	case KNeg:
		body = "- " + show(lProj, e.Rt)
	case KPos:
		body = "+ " + show(lProj, e.Rt)
	case KCall:
		parts := make([]string, len(e.Args))
		for i, a := range e.Args {
			if a.Ref {
				parts[i] = "&" + show(lPipe, a.E)
			} else {
				parts[i] = show(lPipe, a.E)
			}
		}
		body = e.Name + "(" + strings.Join(parts, ", ") + ")"
	case KLet:
		parts := make([]string, len(e.KEs))
		for i, kv := range e.KEs {
			parts[i] = kv.K + " = " + show(lPipe, kv.E)
		}
		body = "let " + strings.Join(parts, ", ") + " in " + show(lPipe, e.Rt)
	}
	if level(e) < p {
		return "(" + body + ")"
	}
	return body
}

func showRHS(r *R) string {
	switch r.K {
	case KCurrent:
		return ""
	case KSub:
		return showRHS(r.L) + "." + show(lPost, r.Rt)
	case KIndex:
		return showRHS(r.L) + "[" + strconv.FormatInt(r.I, 10) + "]"
	case KProj:
		return showRHS(r.L) + projTok(r, true) + showRHS(r.Rt)
	}
	return ".?"
}

func unparse(e *R) string { return show(lLet, e) }

// ---- Coq emission ----

func coqBytes(s string) string { return "(hex " + hx(s) + ")" }

func coqR(e *R) string {
	switch e.K {
	case KCurrent:
		return "RCurrent"
	case KRoot:
		return "RRoot"
	case KField:
		return "(RField " + coqBytes(e.Name) + ")"
	case KLiteral:
		return "(RLiteral " + coqValue(e.Lit) + ")"
	case KRaw:
		return "(RRaw " + coqBytes(e.Name) + ")"
	case KVar:
		return "(RVar " + coqBytes(e.Name) + ")"
	case KSub:
		return "(RSub " + coqR(e.L) + " " + coqR(e.Rt) + ")"
	case KIndex:
		return "(RIndex " + coqR(e.L) + " " + zlit(e.I) + ")"
	case KProj:
		var k string
		switch e.PK {
		case PList:
			k = "PList"
		case PSlice:
			k = "(PSlice " + optZ(e.Start) + " " + optZ(e.Stop) + " " + optZ(e.Step) + ")"
		case PFlatten:
			k = "PFlatten"
		case PFilter:
			k = "(PFilter " + coqR(e.Cond) + ")"
		case PValues:
			k = "PValues"
		}
		return "(RProj " + k + " " + coqR(e.L) + " " + coqR(e.Rt) + ")"
	case KMultiList:
		parts := make([]string, len(e.Es))
		for i, x := range e.Es {
			parts[i] = coqR(x)
		}
		return "(RMultiList [" + strings.Join(parts, "; ") + "])"
	case KMultiHash:
		parts := make([]string, len(e.KEs))
		for i, kv := range e.KEs {
			parts[i] = "(" + coqBytes(kv.K) + ", " + coqR(kv.E) + ")"
		}
		return "(RMultiHash [" + strings.Join(parts, "; ") + "])"
	case KPipe:
		return "(RPipe " + coqR(e.L) + " " + coqR(e.Rt) + ")"
	case KOr:
		return "(ROr " + coqR(e.L) + " " + coqR(e.Rt) + ")"
	case KAnd:
		return "(RAnd " + coqR(e.L) + " " + coqR(e.Rt) + ")"
	case KNot:
		return "(RNot " + coqR(e.Rt) + ")"
	case KCmp:
		op := map[string]string{"==": "CEq", "!=": "CNe", "<": "CLt", "<=": "CLe", ">": "CGt", ">=": "CGe"}[e.Op]
		return "(RCmp " + op + " " + coqR(e.L) + " " + coqR(e.Rt) + ")"
	case KArith:
		op := map[string]string{"+": "AAdd", "-": "ASub", "*": "AMul", "/": "ADiv", "//": "AIDiv", "%": "AMod"}[e.Op]
		return "(RArith " + op + " " + coqR(e.L) + " " + coqR(e.Rt) + ")"
	case KNeg:
		return "(RNeg " + coqR(e.Rt) + ")"
	case KPos:
		return "(RPos " + coqR(e.Rt) + ")"
	case KCall:
		parts := make([]string, len(e.Args))
		for i, a := range e.Args {
			if a.Ref {
				parts[i] = "ARef " + coqR(a.E)
			} else {
				parts[i] = "AExpr " + coqR(a.E)
			}
		}
		return "(RCall " + coqBytes(e.Name) + " [" + strings.Join(parts, "; ") + "])"
	case KLet:
		parts := make([]string, len(e.KEs))
		for i, kv := range e.KEs {
			parts[i] = "(" + coqBytes(kv.K) + ", " + coqR(kv.E) + ")"
		}
		return "(RLet [" + strings.Join(parts, "; ") + "] " + coqR(e.Rt) + ")"
	}
	return "RCurrent"
}

// constructors
func cur() *R          { return &R{K: KCurrent} }
func fld(n string) *R  { return &R{K: KField, Name: n} }
func lit(v any) *R     { return &R{K: KLiteral, Lit: v} }
func litJ(s string) *R { return &R{K: KLiteral, Lit: jsonDoc(s)} }
func raw(s string) *R  { return &R{K: KRaw, Name: s} }
func sub(l, r *R) *R   { return &R{K: KSub, L: l, Rt: r} }

// an index on the current node has two spellings, "@[n]" and the bare "[n]" (which the parser compiles to a
// node of its own): they alternate
var bareIndexCount int

func idx(l *R, i int64) *R {
	b := false
	if l != nil && l.K == KCurrent {
		bareIndexCount++
		b = bareIndexCount%2 == 0
	}
	return &R{K: KIndex, L: l, I: i, Bare: b}
}
func proj(k PKind, l, r *R) *R { return &R{K: KProj, PK: k, L: l, Rt: r} }
func filt(l, c, r *R) *R       { return &R{K: KProj, PK: PFilter, L: l, Cond: c, Rt: r} }
func slc(l *R, a, b, c *int64, r *R) *R {
	return &R{K: KProj, PK: PSlice, L: l, Start: a, Stop: b, Step: c, Rt: r}
}
func pipe(l, r *R) *R                  { return &R{K: KPipe, L: l, Rt: r} }
func or(l, r *R) *R                    { return &R{K: KOr, L: l, Rt: r} }
func and(l, r *R) *R                   { return &R{K: KAnd, L: l, Rt: r} }
func not(e *R) *R                      { return &R{K: KNot, Rt: e} }
func cmp(op string, l, r *R) *R        { return &R{K: KCmp, Op: op, L: l, Rt: r} }
func arith(op string, l, r *R) *R      { return &R{K: KArith, Op: op, L: l, Rt: r} }
func call(name string, args ...Arg) *R { return &R{K: KCall, Name: name, Args: args} }
func av(e *R) Arg                      { return Arg{E: e} }
func ar(e *R) Arg                      { return Arg{Ref: true, E: e} }
func mlist(es ...*R) *R                { return &R{K: KMultiList, Es: es} }
func mhash(kes ...KV) *R               { return &R{K: KMultiHash, KEs: kes} }
func let(bs []KV, body *R) *R          { return &R{K: KLet, KEs: bs, Rt: body} }
func vr(n string) *R                   { return &R{K: KVar, Name: n} }
func ip(i int64) *int64                { return &i }
