package main

import (
	"encoding/hex"
	"encoding/json"
	"errors"
	"fmt"
	"math"
	"math/rand"
	"os"
	"path/filepath"
	"sort"
	"strings"
	"time"

	"github.com/woodsbury/decimal128"
	"github.com/woodsbury/jmespath"
)

// ---- observed outcomes ----

type Obs struct {
	Kind  string // "val", "err", "panic", "timeout"
	Value any
	Cats  []string
	Msg   string
}

var sentinels = []struct {
	name string
	err  error
}{
	{"CSyntax", jmespath.ErrSyntax},
	{"CInvalidArity", jmespath.ErrInvalidArity},
	{"CUnknownFunction", jmespath.ErrUnknownFunction},
	{"CInvalidType", jmespath.ErrInvalidType},
	{"CInvalidValue", jmespath.ErrInvalidValue},
	{"CNotANumber", jmespath.ErrNotANumber},
	{"CUndefinedVariable", jmespath.ErrUndefinedVariable},
	{"CEvaluationFailed", jmespath.ErrEvaluationFailed},
}

func classify(err error) []string {
	var cats []string
	for _, s := range sentinels {
		if errors.Is(err, s.err) {
			cats = append(cats, s.name)
		}
	}
	return cats
}

var progressFile *os.File

func progress(s string) {
	if progressFile != nil {
		progressFile.Truncate(0)
		progressFile.WriteAt([]byte(s), 0)
	}
}

// observe runs f, recovering a panic. Formatting of the error is part of the
// observation (C03: every returned error can be formatted).
func observe(f func() (any, error)) (o Obs) {
	defer func() {
		if r := recover(); r != nil {
			o = Obs{Kind: "panic", Msg: fmt.Sprint(r)}
		}
	}()
	v, err := f()
	if err != nil {
		msg := err.Error()
		o = Obs{Kind: "err", Cats: classify(err), Msg: msg}
		if v != nil {
			o.Msg = "non-nil result with error: " + msg
			o.Cats = append(o.Cats, "NONNIL")
		}
		return o
	}
	return Obs{Kind: "val", Value: v}
}

func compileObs(expr string) Obs {
	progress(expr)
	return observe(func() (any, error) {
		_, err := jmespath.Compile(expr)
		return nil, err
	})
}

// Every evaluation the harness asks for is made through the one-step Search and, in the same breath, through a
// fresh compilation (Compile + Expression.Search, and MustCompile for every tenth call): whatever a property
// says about "a search" holds for every entry point, and the entry points must agree. The first few
// disagreements are reported as violations of the property under check.
var (
	activeSum   *Summary
	apiChecks   int
	apiReported int
)

// fingerprint: an exact rendering of a Go value as the library sees it: element order, nil-ness of slices and maps,
// the Go type of every leaf, spare capacity of slices, pointers/functions/channels by identity. Two fingerprints of
// one document taken before and after a search differ iff the search wrote to the document.
func fingerprint(v any) string {
	var b strings.Builder
	var walk func(v any, depth int)
	walk = func(v any, depth int) {
		if depth > 200 {
			b.WriteString("...")
			return
		}
		switch v := v.(type) {
		case nil:
			b.WriteString("null")
		case []any:
			if v == nil {
				b.WriteString("NILSLICE")
				return
			}
			b.WriteByte('[')
			full := v[:cap(v)]
			for i, x := range full {
				if i == len(v) {
					b.WriteString("|spare:")
				}
				walk(x, depth+1)
				b.WriteByte(',')
			}
			b.WriteByte(']')
		case map[string]any:
			if v == nil {
				b.WriteString("NILMAP")
				return
			}
			keys := make([]string, 0, len(v))
			for k := range v {
				keys = append(keys, k)
			}
			sort.Strings(keys)
			b.WriteByte('{')
			for _, k := range keys {
				fmt.Fprintf(&b, "%q:", k)
				walk(v[k], depth+1)
				b.WriteByte(',')
			}
			b.WriteByte('}')
		case string:
			fmt.Fprintf(&b, "%q", v)
		case json.Number:
			fmt.Fprintf(&b, "n%q", string(v))
		case bool, int, int8, int16, int32, int64, uint, uint8, uint16, uint32, uint64, float32, float64:
			fmt.Fprintf(&b, "%T(%v)", v, v)
		case decimal128.Decimal:
			fmt.Fprintf(&b, "d(%s)", v.String())
		default:
			fmt.Fprintf(&b, "%T@%p", v, v)
		}
	}
	func() {
		defer func() { recover() }() // %p of a non-pointer foreign value
		walk(v, 0)
	}()
	return b.String()
}

// nilContainer stands in an observed result for a nil []any / map[string]any the library returned although the
// document holds none: such a value is an array (object) to type() and length() but serialises as null, so it is
// not the JSON value any specification assigns. Every comparison against it fails (the model sees a foreign value).
type nilContainer struct{ Kind string }

func markNilContainers(v any) (any, bool) {
	switch x := v.(type) {
	case []any:
		if x == nil {
			return nilContainer{"nil []any"}, true
		}
		var c []any
		for i, e := range x {
			if m, bad := markNilContainers(e); bad {
				if c == nil {
					c = append([]any{}, x...)
				}
				c[i] = m
			}
		}
		if c != nil {
			return c, true
		}
	case map[string]any:
		if x == nil {
			return nilContainer{"nil map[string]any"}, true
		}
		var c map[string]any
		for k, e := range x {
			if m, bad := markNilContainers(e); bad {
				if c == nil {
					c = make(map[string]any, len(x))
					for k2, e2 := range x {
						c[k2] = e2
					}
				}
				c[k] = m
			}
		}
		if c != nil {
			return c, true
		}
	}
	return v, false
}

// properties for which "the search wrote to its input document" is a violation in itself: what they promise about a
// search on a document is void if the document is no longer the one the caller built
var inputGuardProps = map[string]bool{"C01": true, "C02": true, "C06": true, "C07": true, "C13": true, "C15": true, "C17": true, "C18": true, "C19": true, "C20": true}
var inputGuardReported int

func search(expr string, data any) Obs {
	progress(expr)
	guard := activeSum != nil && data != nil
	var before string
	var pre any
	if guard {
		before = fingerprint(data)
		if len(before) < 4000 {
			pre = deepCopy(data)
		}
	}
	o := observe(func() (any, error) { return jmespath.Search(expr, data) })
	if guard && inputGuardProps[activeSum.Property] && inputGuardReported < 5 {
		if after := fingerprint(data); after != before {
			inputGuardReported++
			activeSum.direct("input-modified", expr, pre, fmt.Sprintf("the search wrote to its input document: before %.300s after %.300s", before, after))
		}
	}
	if o.Kind == "val" && !strings.Contains(before, "NIL") {
		if m, bad := markNilContainers(o.Value); bad {
			o.Value = m
		}
	}
	if activeSum == nil || o.Kind == "panic" {
		return o
	}
	apiChecks++
	oc := observe(func() (any, error) {
		if apiChecks%10 == 0 {
			var x *jmespath.Expression
			var perr any
			func() {
				defer func() { perr = recover() }()
				x = jmespath.MustCompile(expr)
			}()
			if perr != nil {
				_, err := jmespath.Compile(expr)
				if err == nil {
					return nil, fmt.Errorf("MustCompile panicked (%v) although Compile succeeds", perr)
				}
				return nil, err
			}
			return x.Search(data)
		}
		x, err := jmespath.Compile(expr)
		if err != nil {
			return nil, err
		}
		return x.Search(data)
	})
	same := o.Kind == oc.Kind
	if same && o.Kind == "val" {
		same = sameAny(o.Value, oc.Value)
	}
	if same && o.Kind == "err" && !sameCats(o.Cats, oc.Cats) {
		// two faults in one expression may be reported in either order; a static fault may not
		for _, c := range append(append([]string{}, o.Cats...), oc.Cats...) {
			if c == "CSyntax" || c == "CInvalidArity" || c == "CUnknownFunction" {
				same = false
			}
		}
	}
	if !same && apiReported < 5 && !strings.Contains(expr, "*") && !strings.Contains(expr, "keys(") && !strings.Contains(expr, "values(") && !strings.Contains(expr, "items(") {
		apiReported++
		activeSum.direct("entry-points", expr, data, fmt.Sprintf("one-step Search gives %s, a fresh compilation gives %s", describe(o), describe(oc)))
	}
	return o
}

// ---- Coq term emission ----

func hx(s string) string { return `"` + hex.EncodeToString([]byte(s)) + `"` }

func zlit(z int64) string {
	if z < 0 {
		return fmt.Sprintf("(%d)", z)
	}
	return fmt.Sprint(z)
}

// coqValue renders a Go value of the library's value space as a Coq term of type value.
func coqValue(v any) string {
	switch v := v.(type) {
	case nil:
		return "VNull"
	case bool:
		if v {
			return "(VBool true)"
		}
		return "(VBool false)"
	case string:
		return "(vs " + hx(v) + ")"
	case json.Number:
		return "(jnh " + hx(string(v)) + ")"
	case decimal128.Decimal:
		return "(vd \"" + v.String() + "\")"
	case int64:
		return "(vi " + zlit(v) + ")"
	case int:
		return "(VNum (NInt IInt " + zlit(int64(v)) + "))"
	case int8:
		return "(VNum (NInt I8 " + zlit(int64(v)) + "))"
	case int16:
		return "(VNum (NInt I16 " + zlit(int64(v)) + "))"
	case int32:
		return "(VNum (NInt I32 " + zlit(int64(v)) + "))"
	case uint8:
		return "(VNum (NInt U8 " + fmt.Sprint(v) + "))"
	case uint16:
		return "(VNum (NInt U16 " + fmt.Sprint(v) + "))"
	case uint32:
		return "(VNum (NInt U32 " + fmt.Sprint(v) + "))"
	case uint64:
		return "(VNum (NInt U64 " + fmt.Sprint(v) + "))"
	case uint:
		return "(VNum (NInt UInt " + fmt.Sprint(v) + "))"
	case float64:
		return "(VNum (NFloat false " + coqFloat(v) + "))"
	case float32:
		return "(VNum (NFloat true " + coqFloat(float64(v)) + "))"
	case []any:
		parts := make([]string, len(v))
		for i, x := range v {
			parts[i] = coqValue(x)
		}
		return "(VArr [" + strings.Join(parts, "; ") + "])"
	case map[string]any:
		keys := make([]string, 0, len(v))
		for k := range v {
			keys = append(keys, k)
		}
		sort.Strings(keys)
		parts := make([]string, len(keys))
		for i, k := range keys {
			parts[i] = "kv " + hx(k) + " " + coqValue(v[k])
		}
		return "(VObj [" + strings.Join(parts, "; ") + "])"
	}
	return "(VForeign 0)"
}

func coqFloat(f float64) string {
	switch {
	case math.IsNaN(f):
		return "FNaN"
	case math.IsInf(f, 1):
		return "(FInf false)"
	case math.IsInf(f, -1):
		return "(FInf true)"
	case f == 0 && math.Signbit(f):
		return "FNegZero"
	case f == 0:
		return "(FFin 0 0)"
	}
	frac, exp := math.Frexp(f) // f = frac * 2^exp, 0.5 <= |frac| < 1
	m := int64(frac * (1 << 53))
	e := exp - 53
	for m%2 == 0 {
		m /= 2
		e++
	}
	return fmt.Sprintf("(FFin %s %s)", zlit(m), zlit(int64(e)))
}

func coqObs(o Obs) string {
	switch o.Kind {
	case "val":
		return "(OVal " + coqValue(o.Value) + ")"
	case "err":
		return "(OErr [" + strings.Join(o.Cats, "; ") + "])"
	case "panic":
		return "OPanic"
	}
	return "OTimeout"
}

func optZ(p *int64) string {
	if p == nil {
		return "None"
	}
	return "(Some " + zlit(*p) + ")"
}

// ---- shard writer ----

type Shards struct {
	dir     string
	prop    string
	imports string // Coq module of the property's checker
	ctype   string // Coq type of a case
	runner  string // Coq function: list ctype -> list Z
	per     int
	cur     []string
	n       int
	files   []string
	total   int
}

func (s *Shards) Add(term string) {
	s.cur = append(s.cur, term)
	s.total++
	if len(s.cur) >= s.per {
		s.Flush()
	}
}

func (s *Shards) Flush() {
	if len(s.cur) == 0 {
		return
	}
	name := fmt.Sprintf("cases_%s_%03d", s.prop, s.n)
	s.n++
	var b strings.Builder
	b.WriteString("From Coq Require Import List ZArith String.\nFrom JM Require Import Base.Outcome Base.Bytes Num.Dec Num.Flt Json.Value Model.Api Checks.Common " + s.imports + ".\nImport ListNotations.\nOpen Scope Z_scope. Open Scope string_scope.\n")
	b.WriteString("Definition cases : list " + s.ctype + " := [\n")
	b.WriteString(strings.Join(s.cur, ";\n"))
	b.WriteString("\n].\nDefinition bad := Eval vm_compute in " + s.runner + " cases.\nPrint bad.\n")
	path := filepath.Join(s.dir, name+".v")
	if err := os.WriteFile(path, []byte(b.String()), 0o644); err != nil {
		panic(err)
	}
	s.files = append(s.files, name+".v")
	s.cur = nil
}

// ---- summary for the evidence file ----

type Summary struct {
	Property     string         `json:"property"`
	Tier         string         `json:"tier"`
	Seed         int64          `json:"seed"`
	Cases        int            `json:"cases"`
	Distinct     int            `json:"distinct_nontrivial"`
	Rule         string         `json:"rule"`
	Samples      []any          `json:"samples"`
	Distribution map[string]int `json:"distribution"`
	Shards       []string       `json:"shards"`
	Index        map[string]any `json:"index"`             // case id -> replay information
	Direct       []any          `json:"direct_violations"` // violations decided by the harness itself
	Exhaustive   bool           `json:"exhaustive"`
	WallS        float64        `json:"wall_s"`
}

func newSummary(prop, tier string, seed int64) *Summary {
	return &Summary{Property: prop, Tier: tier, Seed: seed, Distribution: map[string]int{}, Index: map[string]any{}}
}

func (s *Summary) count(key string) { s.Distribution[key]++ }

func (s *Summary) write(dir string, start time.Time) {
	s.WallS = time.Since(start).Seconds()
	b, _ := json.MarshalIndent(s, "", " ")
	os.WriteFile(filepath.Join(dir, "summary.json"), b, 0o644)
}

func jsonDoc(s string) any {
	d := json.NewDecoder(strings.NewReader(s))
	d.UseNumber()
	var v any
	if err := d.Decode(&v); err != nil {
		panic("bad json in harness: " + s + ": " + err.Error())
	}
	return v
}

func toJSON(v any) string {
	b, err := json.Marshal(v)
	if err != nil {
		return fmt.Sprintf("<%T unmarshalable>", v)
	}
	return string(b)
}

var rng *rand.Rand

// textCases: text-only cases (model = implementation, no reference expression) that accompany the reference cases of a
// property whose checker is Checks/Spec.v (which re-exports Checks/Basic.v). Shard numbers start at 500, case ids at
// 900000, so that they never meet those of the main stream.
type textCases struct {
	sh  *Shards
	sum *Summary
	id  int
}

func newTextCases(prop, out string, sum *Summary) *textCases {
	imports := map[string]string{"C12": "Checks.C12", "C05": "Checks.C05", "C04": "Checks.C04"}[prop]
	if imports == "" {
		imports = "Checks.Spec"
	}
	return &textCases{sh: &Shards{dir: out, prop: prop, imports: imports, ctype: "bcase", runner: "basic_run", per: 300, n: 500}, sum: sum, id: 900000}
}

func (t *textCases) add(expr string, doc any, o Obs) {
	t.id++
	t.sh.Add(fmt.Sprintf("BC %d %s %s %s %s", t.id, hx(expr), coqValue(doc), hasEnumText(expr), coqObs(o)))
	t.sum.Index[fmt.Sprint(t.id)] = map[string]any{"expr": expr, "doc": toJSON(doc), "observed": obsJSON(o)}
}

// run: search and record
func (t *textCases) run(expr string, doc any) Obs {
	o := search(expr, doc)
	t.add(expr, doc, o)
	return o
}

func (t *textCases) done() {
	t.sh.Flush()
	t.sum.Shards = append(t.sum.Shards, t.sh.files...)
	t.sum.Cases += t.sh.total
}
