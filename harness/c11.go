package main

import (
	"encoding/json"
	"fmt"
	"strconv"
	"strings"
	"unicode/utf8"
)

func init() { generators["C11"] = genC11 }

var cpPool = []rune{'a', 'b', 'c', 'é', 'ü', '€', '中', '😀', 0x10FFFF, 0x301, 0xFFFD, 'A', 'z', ' ', 0x80, 0x7FF, 0x800, 0xFFFF, 0x10000}

func cpString(max int) string {
	n := rng.Intn(max + 1)
	r := make([]rune, n)
	for i := range r {
		r[i] = cpPool[rng.Intn(len(cpPool))]
	}
	return string(r)
}

// order-preserving injective renaming of code points: ASCII letters to multi-byte letters
func rename(s string, shift rune) string {
	r := []rune(s)
	for i, c := range r {
		if c >= 'a' && c <= 'z' {
			r[i] = shift + (c - 'a')
		}
	}
	return string(r)
}

func renameAny(v any, shift rune) any {
	switch v := v.(type) {
	case string:
		return rename(v, shift)
	case []any:
		c := make([]any, len(v))
		for i, x := range v {
			c[i] = renameAny(x, shift)
		}
		return c
	}
	return v
}

// independent code-point-level reference implementations
func refFind(s, sub string, start, end *int64, last bool) any {
	rs, rsub := []rune(s), []rune(sub)
	lo, hi := 0, len(rs)
	if start != nil {
		if *start > int64(len(rs)) {
			return nil
		}
		if *start > 0 {
			lo = int(*start)
		}
	}
	if end != nil {
		if *end < 0 {
			return nil
		}
		if *end < int64(len(rs)) {
			hi = int(*end)
		}
	}
	if lo > hi {
		return nil
	}
	best := -1
	for i := lo; i+len(rsub) <= hi; i++ {
		if string(rs[i:i+len(rsub)]) == sub {
			best = i
			if !last {
				break
			}
		}
	}
	if best < 0 {
		return nil
	}
	return json.Number(strconv.Itoa(best))
}

func genC11(tier, out string, sum *Summary) {
	n := 2000
	if tier == "thorough" {
		n = 50000
	}
	sh := &Shards{dir: out, prop: "C11", imports: "Checks.Basic", ctype: "bcase", runner: "basic_run", per: 300}
	distinct := map[string]bool{}
	id := 0
	run := func(expr string, doc any) Obs {
		id++
		o := search(expr, doc)
		sum.count(strings.SplitN(expr, "(", 2)[0] + "/" + o.Kind)
		sh.Add(fmt.Sprintf("BC %d %s %s false %s", id, hx(expr), coqValue(doc), coqObs(o)))
		sid := strconv.Itoa(id)
		sum.Index[sid] = map[string]any{"expr": expr, "doc": toJSON(doc), "observed": obsJSON(o)}
		if len(sum.Samples) < 8 && id%211 == 0 {
			sum.Samples = append(sum.Samples, sum.Index[sid])
		}
		// whatever comes out must be valid UTF-8
		if o.Kind == "val" {
			if bad := invalidUTF8(o.Value); bad != "" {
				sum.direct("invalid-utf8", expr, doc, "a result string is not valid UTF-8: "+strconv.Quote(bad))
			}
			distinct[expr+toJSON(doc)] = true
		}
		return o
	}
	expect := func(what, expr string, doc any, want any) {
		o := run(expr, doc)
		if !(o.Kind == "val" && sameValue(o.Value, want, false)) {
			sum.direct(what, expr, doc, "code-point semantics give "+toJSON(want)+", got "+describe(o))
		}
	}
	lit := func(i int64) string { return "`" + strconv.FormatInt(i, 10) + "`" }
	// every walk over strings whose code points have different widths next to each other: long enough
	// that several code points are skipped between two selected ones, in both directions
	for _, ms := range []string{"aébcd", "a𝌆b✓cédef", "日本a語bキc", "é€😀aé€😀a", "ab😀", "😀ba", "aé"} {
		rs := []rune(ms)
		l := int64(len(rs))
		opt := []*int64{nil}
		for _, v := range []int64{0, 1, 2, -1, -2, l - 1, l, -l, -l - 1, l + 2, 4} {
			w := v
			opt = append(opt, &w)
		}
		cnt := 0
		for _, a := range opt {
			for _, b := range opt {
				for _, st := range []int64{-9, -5, -4, -3, -2, -1, 1, 2, 3, 4, 5, 9} {
					cnt++
					if tier != "thorough" && cnt%5 != 0 && !(a == nil && b == nil) {
						continue
					}
					txt := "s["
					if a != nil {
						txt += strconv.FormatInt(*a, 10)
					}
					txt += ":"
					if b != nil {
						txt += strconv.FormatInt(*b, 10)
					}
					txt += ":" + strconv.FormatInt(st, 10) + "]"
					expect("slice-walk", txt, map[string]any{"s": ms}, string(pySlice(rs, a, b, st)))
				}
			}
		}
	}
	// white space is a set of CODE POINTS (Unicode White_Space), never of bytes: characters whose encoding ends or
	// begins with a byte that is a Latin-1 space (0x85, 0xA0) stay, the white space characters beyond ASCII go, and
	// look-alikes that are not white space (zero width space, word joiner, Mongolian vowel separator) stay
	{
		isSpace := func(r rune) bool {
			switch r {
			case '\t', '\n', '\v', '\f', '\r', ' ', 0x85, 0xA0, 0x1680, 0x2028, 0x2029, 0x202f, 0x205f, 0x3000:
				return true
			}
			return r >= 0x2000 && r <= 0x200a
		}
		edges := []string{"", " ", "\t", "\u00a0", "\u0085", "\u2003", "\u3000", "\u2028", "\u1680", "\u202f \u205f", "\v\f", "\u200b", "\u2060", "\u180e", "\ufeff", "à", "Å", "†", "だ", "\u0105", "\u00c5\u00a0", "\u0085à", "x\u00a0", "\u00a0x", "ࠅ", "𐀅", "\u2000\u200a"}
		cores := []string{"", "a", "voilà", "Å b †", "だ", "\u00a0", "a\u0085b"}
		k := 0
		for _, pre := range edges {
			for _, post := range edges {
				for _, core := range cores {
					k++
					if tier != "thorough" && k%4 != 0 && !(pre == "" || post == "") {
						continue
					}
					subj := pre + core + post
					d := map[string]any{"s": subj, "e": ""}
					l, r := strings.TrimLeftFunc(subj, isSpace), strings.TrimRightFunc(subj, isSpace)
					both := strings.TrimRightFunc(l, isSpace)
					expect("trim-space", "trim_left(s)", d, l)
					expect("trim-space", "trim_right(s)", d, r)
					expect("trim-space", "trim(s)", d, both)
					if k%3 == 0 {
						expect("trim-space", "trim_left(s, e)", d, l)
						expect("trim-space", "trim_right(s, e)", d, r)
						expect("trim-space", "trim(s, '')", d, both)
					}
				}
			}
		}
	}
	// lower / upper map code point by code point (the simple case mappings of the toolchain's unicode package, which
	// the model holds as a table regenerated on every run): pairs whose two cases have different widths in UTF-8
	// (Kelvin sign, dotless i, long s, sharp S, turned a ...), title-case letters, scripts beyond the BMP, letters
	// without a counterpart, and bytes that are not UTF-8 (each becomes U+FFFD); the number of code points never changes
	for _, str := range []string{"Kelvin K", "ı ſ ẞ ß", "ɐb Ɐ ɫ Ɫ", "Ω Ω ω", "Å Å å", "ǅ ǆ Ǆ ǈ", "İstanbul", "ΑΣ ας", "ὈΔΥΣΣΕΎΣ", "Straße", "ÉLÉMENT élément", "Привет ПРИВЕТ", "𐐀𐐨 𐐁𐐩", "Ꭰ ꭰ", "ა Ა", "ⴀ Ⴀ", "ǰ ŉ", "ﬁ ﬂ", "ÿ Ÿ", "µ Μ μ", "A\xffB", "\xc3", "é\x80É", "", "abcXYZ", "ÇA VA ça va", "日本語 テキスト", "١٢٣", "ⅰ Ⅰ ⅿ Ⅿ", "ⓐ Ⓐ", "ａ Ａ", "ꙁ Ꙁ", "ᲀ ᲁ", "Ჿ ჿ", "ꞵ Ꞵ", "𞤀 𞤢"} {
		d := map[string]any{"s": str}
		for _, e := range []string{"lower(s)", "upper(s)", "lower(upper(s))", "upper(lower(s))", "length(lower(s)) == length(s)", "length(upper(s)) == length(s)", "[lower(s), upper(s)] | [0] == [1]", "lower(s) == s", "map(&upper(@), [s, lower(s)])"} {
			o := run(e, d)
			sum.count("case-mapping/" + o.Kind)
			if strings.HasPrefix(e, "length(") && !(o.Kind == "val" && o.Value == true) {
				sum.direct("case-mapping", e, d, "a case mapping changed the number of code points: "+describe(o))
			}
		}
		if o := search("lower(s)", d); o.Kind == "val" && o.Value != strings.ToLower(str) {
			sum.direct("case-mapping", "lower(s)", d, "expected "+strconv.Quote(strings.ToLower(str))+", got "+describe(o))
		}
		if o := search("upper(s)", d); o.Kind == "val" && o.Value != strings.ToUpper(str) {
			sum.direct("case-mapping", "upper(s)", d, "expected "+strconv.Quote(strings.ToUpper(str))+", got "+describe(o))
		}
	}
	// cut sets are sets of code points: a character that shares its first byte with one in the set stays
	for _, c := range [][2]string{{"éa", "è"}, {"ààéa", "à"}, {"жук", "з"}, {"。、", "、"}, {"aéè", "è"}, {"éèé", "é"}, {"😀😁x", "😁"}, {"x😀😁", "😀"}, {"€₭", "₭"}, {"ab", ""}, {"  é ", " "}, {"éé", "éè"}} {
		subj, cut := c[0], c[1]
		d := map[string]any{"s": subj, "p": cut}
		if cut == "" {
			continue
		}
		expect("trim-cutset", "trim_left(s, p)", d, strings.TrimLeft(subj, cut))
		expect("trim-cutset", "trim_right(s, p)", d, strings.TrimRight(subj, cut))
		expect("trim-cutset", "trim(s, p)", d, strings.Trim(subj, cut))
		rs, rc := []rune(subj), []rune(cut)
		for i, j := 0, len(rs)-1; i < j; i, j = i+1, j-1 {
			rs[i], rs[j] = rs[j], rs[i]
		}
		d2 := map[string]any{"s": string(rs), "p": string(rc)}
		expect("trim-cutset", "trim_left(s, p)", d2, strings.TrimLeft(string(rs), cut))
		expect("trim-cutset", "trim_right(s, p)", d2, strings.TrimRight(string(rs), cut))
	}
	// literals are text too: a backslash the grammar leaves alone, in front of code points of every width
	for _, cp := range []string{"é", "€", "😀", "中", "\u0301", "\u00a0", "\U0010ffff", "ÿ", "z"} {
		for _, body := range []string{"\\" + cp, "a\\" + cp + "b", cp + "\\" + cp, "\\" + cp + "\\" + cp, "\\\\" + cp} {
			lt := "'" + body + "'"
			want := strings.ReplaceAll(body, "\\\\", "\\")
			expect("raw-literal", lt, nil, want)
			expect("raw-literal", "length("+lt+")", nil, json.Number(strconv.Itoa(len([]rune(want)))))
			rev := []rune(want)
			for i, j := 0, len(rev)-1; i < j; i, j = i+1, j-1 {
				rev[i], rev[j] = rev[j], rev[i]
			}
			expect("raw-literal", "reverse("+lt+")", nil, string(rev))
			expect("raw-literal", lt+"[1:]", nil, string([]rune(want)[1:]))
			expect("raw-literal", "find_first("+lt+", '"+cp+"')", nil, refFind(want, cp, nil, nil, false))
		}
	}
	// code points written as escapes: every boundary of the UTF-16 surrogate ranges and of the UTF-8 widths, as a
	// quoted identifier and inside a JSON literal, counts as ONE code point and is the character itself
	for _, cp := range []rune{0x10000, 0x103ff, 0x10400, 0x1f3ff, 0x1f600, 0x10fc00, 0x10ffff, 0xfffd, 0xffff, 0xe000, 0xd7ff, 0x7ff, 0x800, 0x7f, 0x80, 0xfc00} {
		var esc string
		if cp >= 0x10000 {
			v := cp - 0x10000
			esc = fmt.Sprintf(`\u%04x\u%04X`, 0xd800+(v>>10), 0xdc00+(v&0x3ff))
		} else {
			esc = fmt.Sprintf(`\u%04x`, cp)
		}
		ch := string(cp)
		kd := map[string]any{ch: json.Number("7"), "a" + ch + "b": json.Number("8")}
		expect("escapes", `"`+esc+`"`, kd, json.Number("7"))
		expect("escapes", `"a`+esc+`b"`, kd, json.Number("8"))
		expect("escapes", "`\""+esc+"\"`", nil, ch)
		expect("escapes", "length(`\""+esc+"\"`)", nil, json.Number("1"))
		expect("escapes", "`\""+esc+"\"` == '"+ch+"'", nil, true)
		expect("escapes", "keys({\""+esc+"\": `1`})[0] == '"+ch+"'", map[string]any{}, true)
		expect("escapes", "length(keys({\"x"+esc+"\": `1`})[0])", map[string]any{}, json.Number("2"))
		expect("escapes", "`{\""+esc+"\": 1}`.\""+esc+"\"", nil, json.Number("1"))
		expect("escapes", "reverse(`\"a"+esc+"\"`)", nil, ch+"a")
		expect("escapes", "`\""+esc+esc+"\"`[1:]", nil, ch)
	}
	for i := 0; i < n; i++ {
		s := cpString(8)
		rs := []rune(s)
		l := int64(len(rs))
		doc := map[string]any{"s": s}
		pos := func() int64 { return pick([]int64{0, 1, 2, -1, -2, l, l - 1, l + 1, -l, -l - 1, 3, 5}) }
		switch i % 9 {
		case 0:
			expect("length", "length(s)", doc, json.Number(strconv.FormatInt(l, 10)))
		case 1:
			rev := make([]rune, len(rs))
			for j := range rs {
				rev[len(rs)-1-j] = rs[j]
			}
			expect("reverse", "reverse(s)", doc, string(rev))
		case 2: // slices at code point level (the walk of C12 on the rune array)
			a, b := pos(), pos()
			st := pick([]int64{1, 2, -1, -2, 3})
			want := pySlice(rs, &a, &b, st)
			expect("slice", fmt.Sprintf("s[%d:%d:%d]", a, b, st), doc, string(want))
		case 3: // find_first / find_last: offsets in and out are code points
			sub := cpString(2)
			if len(rs) > 0 && rng.Intn(2) == 0 {
				p := rng.Intn(len(rs))
				q := p + 1 + rng.Intn(len(rs)-p)
				sub = string(rs[p:q])
			}
			if sub == "" {
				continue
			}
			d2 := map[string]any{"s": s, "p": sub}
			expect("find_first", "find_first(s, p)", d2, refFind(s, sub, nil, nil, false))
			expect("find_last", "find_last(s, p)", d2, refFind(s, sub, nil, nil, true))
			a := pick([]int64{0, 1, 2, l, l - 1, l + 1, 3})
			expect("find_first", "find_first(s, p, "+lit(a)+")", d2, refFind(s, sub, &a, nil, false))
			expect("find_last", "find_last(s, p, "+lit(a)+")", d2, refFind(s, sub, &a, nil, true))
			b := pick([]int64{0, 1, 2, l, l - 1, l + 1, 3, 5})
			expect("find_first", "find_first(s, p, "+lit(a)+", "+lit(b)+")", d2, refFind(s, sub, &a, &b, false))
			expect("find_last", "find_last(s, p, "+lit(a)+", "+lit(b)+")", d2, refFind(s, sub, &a, &b, true))
		case 4: // pad widths and pad characters
			w := int64(rng.Intn(12))
			p := string(cpPool[rng.Intn(len(cpPool))])
			d2 := map[string]any{"s": s, "p": p}
			fill := ""
			if w > l {
				fill = strings.Repeat(p, int(w-l))
			}
			expect("pad_left", "pad_left(s, "+lit(w)+", p)", d2, fill+s)
			expect("pad_right", "pad_right(s, "+lit(w)+", p)", d2, s+fill)
			sp := ""
			if w > l {
				sp = strings.Repeat(" ", int(w-l))
			}
			expect("pad_left", "pad_left(s, "+lit(w)+")", d2, sp+s)
			two := p + p
			o := run("pad_left(s, "+lit(w)+", pp)", map[string]any{"s": s, "pp": two})
			if !(o.Kind == "err" && len(o.Cats) == 1 && o.Cats[0] == "CInvalidValue") {
				sum.direct("pad", "pad_left(s, w, pp)", map[string]any{"s": s, "pp": two}, "a pad string of two code points must be an invalid-value error, got "+describe(o))
			}
		case 5: // split on the empty separator
			want := make([]any, len(rs))
			for j, r := range rs {
				want[j] = string(r)
			}
			expect("split", "split(s, '')", doc, want)
			// counts around the number of code points and around the number of bytes
			nb := int64(len(s))
			k := pick([]int64{0, 1, 2, l - 2, l - 1, l, l + 1, nb - 1, nb, nb + 1, 2 * nb, 1 << 40})
			if k < 0 {
				k = int64(rng.Intn(6))
			}
			var wk []any
			if k == 0 {
				wk = []any{s}
			} else if l == 0 {
				wk = []any{}
			} else {
				cut := k
				if cut > l-1 {
					cut = l - 1
				}
				for j := int64(0); j < cut; j++ {
					wk = append(wk, string(rs[j]))
				}
				wk = append(wk, string(rs[cut:]))
			}
			expect("split", "split(s, '', "+lit(k)+")", doc, wk)
		case 6: // ordering by code point: sort, max, min, sort_by
			arr := make([]any, 2+rng.Intn(6))
			for j := range arr {
				arr[j] = cpString(3)
			}
			o := run("sort(@)", arr)
			if o.Kind == "val" {
				res := o.Value.([]any)
				for j := 1; j < len(res); j++ {
					if cmpRunes(res[j-1].(string), res[j].(string)) > 0 {
						sum.direct("order", "sort(@)", arr, "strings are not ordered by code point: "+toJSON(res))
						break
					}
				}
			}
			om := run("max(@)", arr)
			if om.Kind == "val" {
				for _, a := range arr {
					if cmpRunes(a.(string), om.Value.(string)) > 0 {
						sum.direct("order", "max(@)", arr, "max is not the greatest by code point")
					}
				}
			}
		case 7: // renaming ASCII letters to multi-byte letters, in order, renames the result the same way
			base := []rune("abcabdxyz")
			t := make([]rune, rng.Intn(7))
			for j := range t {
				t[j] = base[rng.Intn(len(base))]
			}
			s0 := string(t)
			sub := string(base[rng.Intn(3)])
			shift := pick([]rune{0x3b1 /* greek */, 0x4e00 /* cjk */, 0x1d41a /* astral mathematical */})
			exprs := []string{"length(s)", "reverse(s)", "s[1:]", "s[::-1]", "s[:-1:2]", "find_first(s, p)", "find_last(s, p)", "find_first(s, p, `1`, `5`)", "pad_left(s, `6`, p)", "pad_right(s, `5`, p)", "split(s, p)", "split(s, '')", "split(s, p, `1`)", "replace(s, p, q)", "replace(s, p, q, `1`)", "starts_with(s, p)", "ends_with(s, p)", "contains(s, p)", "sort([s, p, q, 'b'])", "max([s, p, q])", "min([s, q])", "s < p || s == p", "join(p, [s, q, s])", "trim(s, p)", "trim_left(s, p)", "trim_right(s, p)", "sort_by([{k: s}, {k: p}, {k: q}], &k)[*].k"}
			e := pick(exprs)
			d1 := map[string]any{"s": s0, "p": sub, "q": "yz"}
			d2 := map[string]any{"s": rename(s0, shift), "p": rename(sub, shift), "q": rename("yz", shift)}
			// literals in the expression are renamed too
			e2 := strings.ReplaceAll(e, "'b'", "'"+rename("b", shift)+"'")
			o1, o2 := run(e, d1), run(e2, d2)
			if o1.Kind != o2.Kind || (o1.Kind == "val" && !sameValue(renameAny(o1.Value, shift), o2.Value, false)) {
				sum.direct("rename", e, d1, fmt.Sprintf("on %s it gives %s; after renaming letters (shift U+%04X) it gives %s", toJSON(d1), describe(o1), shift, describe(o2)))
			}
		case 8: // results on valid input are valid UTF-8: string functions with arbitrary arguments
			p := cpString(2)
			q := cpString(2)
			d2 := map[string]any{"s": s, "p": p, "q": q}
			for _, e := range []string{"replace(s, p, q)", "replace(s, '', q)", "replace(s, p, q, `2`)", "split(s, p)", "join(q, split(s, p))", "trim(s, p)", "trim(s)", "trim_left(s, p)", "trim_right(s, p)", "to_string([s, p])", "s[" + strconv.Itoa(rng.Intn(5)-2) + ":]"} {
				run(e, d2)
			}
			o := run("join('', split(s, ''))", d2)
			if !(o.Kind == "val" && o.Value == s) {
				sum.direct("split-join", "join('', split(s, ''))", d2, "splitting on the empty separator and joining does not give back the string: "+describe(o))
			}
		}
	}
	sh.Flush()
	sum.Cases = id
	sum.Shards = sh.files
	sum.Distinct = len(distinct)
	sum.Rule = "random strings over 1- to 4-byte code points (combining mark, U+FFFD, plane boundaries, U+10FFFF) x every position/length/width-taking operation with positions from {0, +-1, +-2, len, len+-1, -len, -len-1}; results compared with independent code-point-level reference implementations in the harness, must be valid UTF-8, and are invariant under an order-preserving renaming of ASCII letters to Greek / CJK / astral letters in data and literals; every case also compared with the model; distinct = (expression, document) with a value"
}

func invalidUTF8(v any) string {
	switch v := v.(type) {
	case string:
		if !utf8.ValidString(v) {
			return v
		}
	case []any:
		for _, x := range v {
			if s := invalidUTF8(x); s != "" {
				return s
			}
		}
	case map[string]any:
		for k, x := range v {
			if !utf8.ValidString(k) {
				return k
			}
			if s := invalidUTF8(x); s != "" {
				return s
			}
		}
	}
	return ""
}

// Python's slice on a rune array (independent of the library)
func pySlice(rs []rune, start, stop *int64, step int64) []rune {
	n := int64(len(rs))
	var lower, upper int64
	if step < 0 {
		lower, upper = -1, n-1
	} else {
		lower, upper = 0, n
	}
	adj := func(p *int64, dflt int64) int64 {
		if p == nil {
			return dflt
		}
		v := *p
		if v < 0 {
			v += n
			if v < lower {
				v = lower
			}
		} else if v > upper {
			v = upper
		}
		return v
	}
	var s, e int64
	if step < 0 {
		s, e = adj(start, upper), adj(stop, lower)
	} else {
		s, e = adj(start, lower), adj(stop, upper)
	}
	var out []rune
	for i := s; (step > 0 && i < e) || (step < 0 && i > e); i += step {
		out = append(out, rs[i])
	}
	return out
}
