package main

import (
	"encoding/json"
	"fmt"
	"math"
	"strconv"
	"strings"
)

func init() { generators["C12"] = genC12 }

// boundary pool for a sequence of length n
func boundPool(n int64) []*int64 {
	vals := []int64{0, 1, -1, 2, -2, n, n + 1, n - 1, -n, -n - 1, -n + 1, 1 << 31, -(1 << 31), 1 << 62, -(1 << 62), math.MaxInt64, math.MinInt64, math.MaxInt64 - 1, math.MinInt64 + 1}
	seen := map[int64]bool{}
	out := []*int64{nil}
	for _, v := range vals {
		if !seen[v] {
			seen[v] = true
			c := v
			out = append(out, &c)
		}
	}
	return out
}

func stepPool(n int64) []*int64 {
	vals := []int64{1, -1, 2, -2, 3, -3, n, -n, n + 1, 1 << 62, -(1 << 62), math.MaxInt64, math.MinInt64, 0}
	seen := map[int64]bool{}
	out := []*int64{nil}
	for _, v := range vals {
		if !seen[v] {
			seen[v] = true
			c := v
			out = append(out, &c)
		}
	}
	return out
}

var mixedRunes = []rune{'a', 'é', '€', '😀', 'b', 'ü', '́', '�', 'z', '中'}

// the grammar's number is ["-"] 1*digit: leading zeros and a negative zero are legal spellings
func spellInt(v int64) string {
	t := strconv.FormatInt(v, 10)
	if rng.Intn(6) != 0 {
		return t
	}
	if v == 0 {
		return pick([]string{"-0", "00", "-00", "000"})
	}
	if v < 0 {
		return "-" + pick([]string{"0", "00"}) + t[1:]
	}
	return pick([]string{"0", "00"}) + t
}

func sliceText(start, stop, step *int64, withStepColon bool) string {
	var b strings.Builder
	b.WriteByte('[')
	if start != nil {
		b.WriteString(spellInt(*start))
	}
	b.WriteByte(':')
	if stop != nil {
		b.WriteString(spellInt(*stop))
	}
	if step != nil || withStepColon {
		b.WriteByte(':')
		if step != nil {
			b.WriteString(spellInt(*step))
		}
	}
	b.WriteByte(']')
	return b.String()
}

func genC12(tier, out string, sum *Summary) {
	maxN := 3
	sampleEvery := 1
	if tier == "thorough" {
		maxN = 6
	}
	sh := &Shards{dir: out, prop: "C12", imports: "Checks.C12", ctype: "c12case", runner: "c12_run", per: 400}
	id := 0
	distinct := map[string]bool{}
	for n := 0; n <= maxN; n++ {
		// targets: an array of distinct numbers and a string of mixed-width code points
		arr := make([]any, n)
		for i := range arr {
			arr[i] = json.Number(strconv.Itoa(i * 10))
		}
		rs := make([]rune, n)
		for i := range rs {
			rs[i] = mixedRunes[(i*3+n)%len(mixedRunes)]
		}
		ascii := "hello!"[:n]
		withNulls := make([]any, n)
		for i := range withNulls {
			if i%2 == 0 {
				withNulls[i] = nil
			} else {
				withNulls[i] = json.Number(strconv.Itoa(i))
			}
		}
		// a string in which every other character is U+FFFD itself (valid text, three bytes)
		rs2 := append([]rune{}, rs...)
		for i := range rs2 {
			if i%2 == 1 || n == 1 {
				rs2[i] = 0xfffd
			}
		}
		targets := []any{arr, string(rs), ascii, withNulls}
		if n > 0 {
			targets = append(targets, string(rs2))
		}
		if n == 0 {
			// a slice of anything else is null, never an error
			targets = append(targets, map[string]any{"a": json.Number("1")}, json.Number("5"), true, nil, map[string]any{})
		}
		for _, target := range targets {
			for _, start := range boundPool(int64(n)) {
				for _, stop := range boundPool(int64(n)) {
					for _, step := range stepPool(int64(n)) {
						id++
						if tier == "quick" && rng.Intn(100) >= 12/sampleEvery {
							continue
						}
						form := id % 3
						text := sliceText(start, stop, step, id%2 == 0)
						var expr string
						var doc any
						switch form {
						case 0:
							expr, doc = text, target
						case 1:
							expr, doc = "@"+text, target
						default:
							expr, doc = "a"+text, map[string]any{"a": target}
						}
						o := search(expr, doc)
						kind := "array"
						if _, ok := target.(string); ok {
							kind = "string"
						} else if _, ok := target.([]any); !ok {
							kind = "other"
						}
						sum.count(kind + "/" + o.Kind)
						if step != nil && *step < 0 {
							sum.count("negative-step")
						}
						term := fmt.Sprintf("C12 %d %s %s %s %s %s %s %s", id, hx(expr), coqValue(doc), coqValue(target), optZ(start), optZ(stop), optZ(step), coqObs(o))
						sh.Add(term)
						sid := strconv.Itoa(id)
						sum.Index[sid] = map[string]any{"expr": expr, "doc": toJSON(doc), "observed": obsJSON(o)}
						if o.Kind == "val" {
							distinct[kind+toJSON(o.Value)+fmt.Sprint(n)] = true
						}
						if len(sum.Samples) < 8 && id%97 == 0 {
							sum.Samples = append(sum.Samples, sum.Index[sid])
						}
					}
				}
			}
		}
	}
	// step 0 is an invalid-value error wherever the slice is written (and nothing else about a slice is an error)
	for _, ctx := range []string{"%s", "a%s", "@%s", "length(a%s)", "join(', ', a%s)", "not_null(a[5], a%s)", "[a%s]", "{k: a%s}", "a[?b%s]", "let $v = a%s in $v", "a | %s", "a[*]%s", "(a%s)", "abs(length(%s))", "a%s || b", "!a%s", "map(&%s, a)", "sort_by(a, &b%s)", "a[0]%s", "a.b%s", "a%s.b", "a%s[0]", "a[?@%s == `1`]"} {
		for _, sl := range []string{"[::0]", "[1:3:0]", "[::-0]", "[:5:0]", "[-1::00]", "[0:0:0]"} {
			e := strings.Replace(ctx, "%s", sl, 1)
			for _, doc := range []any{jsonDoc(`{"a": [1, 2, 3], "b": "xyz"}`), nil} {
				o := search(e, doc)
				sum.count("step-zero/" + o.Kind)
				if !(o.Kind == "err" && len(o.Cats) == 1 && o.Cats[0] == "CInvalidValue") {
					sum.direct("step-zero", e, doc, "a slice with step 0 is an invalid-value error, got "+describe(o))
				}
			}
			if oc := compileObs(e); !(oc.Kind == "err" && len(oc.Cats) == 1 && oc.Cats[0] == "CInvalidValue") {
				sum.direct("step-zero", e, nil, "Compile: a slice with step 0 is an invalid-value error, got "+describe(oc))
			}
		}
		for _, sl := range []string{"[::1]", "[1:3:-1]", "[5:1]", "[::9223372036854775807]", "[-9223372036854775808::-9223372036854775808]"} {
			e := strings.Replace(ctx, "%s", sl, 1)
			if oc := compileObs(e); oc.Kind != "val" {
				sum.direct("step-zero", e, nil, "a slice with a non-zero step compiles, got "+describe(oc))
			}
		}
	}
	sh.Flush()
	sum.Cases = sh.total
	sum.Shards = sh.files
	// Go strings that are not valid UTF-8 (the caller's own data): a slice without a step hands on the bytes of the
	// subject unchanged, a stepped one decodes byte by byte (an invalid byte is one U+FFFD); the model decides
	{
		tc := newTextCases("C12", out, sum)
		for si, subj := range []string{"caf\xe9 au lait", "\xff", "a\xc3", "\xed\xa0\x80", "ab\x80cd", "\xc3\xa9\xc3", "\xf0\x9f\x98", "é\xffé", "\x80\x80\x80", "a\xe2\x82b", "\xc0\xaf", "\xf4\x90\x80\x80x"} {
			for i, sl := range sliceTexts(tier) {
				if tier != "thorough" && (i+si)%7 != 0 && sl != "[:]" && sl != "[0:]" && sl != "[::1]" && sl != "[0:4]" && sl != "[::-1]" {
					continue
				}
				for _, form := range []string{"@%s", "a%s"} {
					var doc any = subj
					if form[0] == 'a' {
						doc = map[string]any{"a": subj}
					}
					o := tc.run(fmt.Sprintf(form, sl), doc)
					sum.count("invalid-utf8-subject/" + o.Kind)
					if s, ok := o.Value.(string); ok && (sl == "[:]" || sl == "[0:]" || sl == "[::1]") && s != subj {
						sum.direct("identity-slice", fmt.Sprintf(form, sl), doc, fmt.Sprintf("the whole-string slice of %q is %q", subj, s))
					}
				}
			}
		}
		tc.done()
	}
	sum.Distinct = len(distinct)
	sum.Exhaustive = tier == "thorough"
	sum.Rule = fmt.Sprintf("every (start, stop, step) over the boundary pool (absent, 0, +-1, +-2, n, n+-1, -n, -n+-1, +-2^31, +-2^62, int64 limits) for arrays and mixed-width strings of length 0..%d, three spellings ([..], @[..], a[..]); quick samples 12%% of the combinations; a case is distinct/non-trivial by its (kind, length, result value)", maxN)
}

func obsJSON(o Obs) any {
	switch o.Kind {
	case "val":
		return map[string]any{"kind": "val", "value": toJSON(o.Value), "type": fmt.Sprintf("%T", o.Value)}
	case "err":
		return map[string]any{"kind": "err", "categories": o.Cats, "message": o.Msg}
	}
	return map[string]any{"kind": o.Kind, "message": o.Msg}
}
