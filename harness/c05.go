package main

import (
	"encoding/json"
	"fmt"
	"math"
	"math/big"
	"strconv"
	"strings"
)

func init() {
	generators["C05"] = func(tier, out string, sum *Summary) {
		runPrecision(sum, "beyond-float-precision")
		// the 64-bit limits are numbers like any other: exact quotients and remainders
		for _, c := range [][2]string{{"`-9223372036854775808` // `-1`", "9223372036854775808"}, {"`-9223372036854775808` % `-1`", "0"}, {"`9223372036854775807` // `-1`", "-9223372036854775807"}, {"`-9223372036854775808` // `1`", "-9223372036854775808"},
			{"`4611686018427387904` * `2`", "9223372036854775808"}, {"`-4611686018427387904` * `2` // - `1`", "9223372036854775808"}, {"`9223372036854775807` + `1`", "9223372036854775808"}, {"`-9223372036854775808` - `1`", "-9223372036854775809"},
			{"`-9.223372036854775808e18` // `-1.0`", "9223372036854775808"}, {"`18446744073709551615` // `1`", "18446744073709551615"}, {"`18446744073709551616` % `10`", "6"}, {"`-9223372036854775809` // `-1`", "9223372036854775809"}, {"`9223372036854775808` % `9223372036854775807`", "1"},
			{"a // b", "9223372036854775808"}, {"to_number('-9223372036854775808') // b", "9223372036854775808"}, {"abs(a)", "9223372036854775808"}, {"- a", "9223372036854775808"}, {"a * b", "9223372036854775808"}, {"a / b", "9223372036854775808"}} {
			for _, doc := range []any{map[string]any{"a": json.Number("-9223372036854775808"), "b": json.Number("-1")}, map[string]any{"a": int64(math.MinInt64), "b": int64(-1)}, map[string]any{"a": int64(math.MinInt64), "b": json.Number("-1")}} {
				o := search(c[0], doc)
				sum.count("int64-limits/" + o.Kind)
				if !(o.Kind == "val" && sameValue(o.Value, json.Number(c[1]), false)) {
					sum.direct("int64-limits", c[0], doc, "expected "+c[1]+", got "+describe(o))
				}
			}
		}
		genC05(tier, out, sum)
	}
}

func randDigits(n int) string {
	var b strings.Builder
	b.WriteByte(byte('1' + rng.Intn(9)))
	for i := 1; i < n; i++ {
		switch rng.Intn(6) {
		case 0:
			b.WriteByte('9')
		case 1:
			b.WriteByte('0')
		default:
			b.WriteByte(byte('0' + rng.Intn(10)))
		}
	}
	return b.String()
}

// a JSON number with 1..34 significant digits
func randDecimal() string {
	if rng.Intn(12) == 0 {
		return pick([]string{"0", "-0", "0.0", "1", "-1", "10", "0.1", "0.2", "0.3", "9223372036854775808", "9223372036854775807", "0.5", "2", "3", "7", "1e3", "1E-7"})
	}
	nd := 1 + rng.Intn(34)
	if rng.Intn(4) == 0 {
		nd = pick([]int{1, 2, 16, 17, 18, 19, 20, 33, 34})
	}
	d := randDigits(nd)
	sign := ""
	if rng.Intn(3) == 0 {
		sign = "-"
	}
	switch rng.Intn(5) {
	case 0:
		return sign + d
	case 1:
		p := rng.Intn(nd + 1)
		if p == 0 {
			return sign + "0." + d
		}
		if p == nd {
			return sign + d
		}
		return sign + d[:p] + "." + d[p:]
	case 2:
		return sign + d + "e" + strconv.Itoa(rng.Intn(60)-30)
	case 3:
		return sign + d[:1] + "." + d[1:] + "0E" + strconv.Itoa(rng.Intn(40)-20)
	}
	return sign + "0." + strings.Repeat("0", rng.Intn(5)) + d
}

func sameSign(a, b string) bool { return strings.HasPrefix(a, "-") == strings.HasPrefix(b, "-") }

func genC05(tier, out string, sum *Summary) {
	n := 3000
	if tier == "thorough" {
		n = 80000
	}
	sh := &Shards{dir: out, prop: "C05", imports: "Checks.C05", ctype: "c05case", runner: "c05_run", per: 300}
	distinct := map[string]bool{}
	id := 0
	emit := func(op string, args []string, expr string, doc any) Obs {
		id++
		o := search(expr, doc)
		sum.count(op + "/" + o.Kind)
		as := make([]string, len(args))
		for i, a := range args {
			as[i] = `"` + a + `"`
		}
		sh.Add(fmt.Sprintf("C5 %d %s [%s] %s %s %s", id, op, strings.Join(as, "; "), hx(expr), coqValue(doc), coqObs(o)))
		sid := strconv.Itoa(id)
		sum.Index[sid] = map[string]any{"expr": expr, "doc": toJSON(doc), "observed": obsJSON(o)}
		if len(sum.Samples) < 8 && id%331 == 0 {
			sum.Samples = append(sum.Samples, sum.Index[sid])
		}
		if o.Kind == "val" {
			distinct[op+"|"+strings.Join(args, ",")] = true
			// never a Go float, never an infinity or NaN value
			switch o.Value.(type) {
			case float64, float32:
				sum.direct("float-result", expr, doc, "the result is a Go float: "+describe(o))
			}
			if d, ok := toDec(o.Value); ok && (d.IsNaN() || d.IsInf(0)) {
				sum.direct("nan-result", expr, doc, "the result is an infinity or NaN value: "+describe(o))
			}
		}
		return o
	}
	binops := []struct{ coq, text string }{{"PAdd", "+"}, {"PSub", "-"}, {"PMul", "*"}, {"PDiv", "/"}, {"PIDiv", "//"}, {"PMod", "%"}, {"PLt", "<"}, {"PLe", "<="}, {"PGt", ">"}, {"PGe", ">="}, {"PEq", "=="}, {"PNe", "!="}}
	for i := 0; i < n; i++ {
		x, y := randDecimal(), randDecimal()
		if rng.Intn(6) == 0 { // close values: cancellation and equal comparisons
			y = x
			if rng.Intn(2) == 0 && len(x) > 2 {
				y = x[:len(x)-1] + string(byte('0'+rng.Intn(10)))
			}
		}
		doc := map[string]any{"x": json.Number(x), "y": json.Number(y)}
		switch i % 4 {
		case 0, 1:
			op := binops[rng.Intn(len(binops))]
			if (op.coq == "PIDiv" || op.coq == "PMod") && !sameSign(x, y) {
				continue // pinned only for operands of equal sign
			}
			if rng.Intn(2) == 0 {
				emit(op.coq, []string{x, y}, "x "+op.text+" y", doc)
			} else {
				emit(op.coq, []string{x, y}, "`"+x+"` "+op.text+" `"+y+"`", nil)
			}
		case 2:
			un := pick([]struct{ coq, pre, post string }{{"PNeg", "- ", ""}, {"PAbs", "abs(", ")"}, {"PCeil", "ceil(", ")"}, {"PFloor", "floor(", ")"}})
			emit(un.coq, []string{x}, un.pre+"x"+un.post, doc)
			emit("PToNumber", []string{x}, "to_number(s)", map[string]any{"s": x})
		case 3:
			k := 1 + rng.Intn(5)
			args := make([]string, k)
			arr := make([]any, k)
			for j := range args {
				args[j] = randDecimal()
				if rng.Intn(2) == 0 { // same scale: sums stay exact
					args[j] = strconv.Itoa(rng.Intn(2000)-1000) + "." + strconv.Itoa(rng.Intn(100))
				}
				arr[j] = json.Number(args[j])
			}
			f := pick([]string{"PSum", "PAvg"})
			o := emit(f, args, strings.ToLower(f[1:])+"(@)", arr)
			_ = o
		}
	}
	// quotients next to an integer and operands at the precision limit: // and % must floor the
	// EXACT quotient (a rounded quotient that crosses an integer gives a result off by one)
	nines := strings.Repeat("9", 34)
	limit := []string{nines, nines[:33] + "8", "1" + strings.Repeat("0", 33), "1" + strings.Repeat("0", 32) + "1", "5" + strings.Repeat("0", 33), nines[:17], "1" + strings.Repeat("0", 17), "0." + nines, "0." + nines[:33] + "7", "1e-33", "1.000000000000000000000000000000001", "6666666666666666666666666666666667", "3333333333333333333333333333333333"}
	small := []string{"2", "3", "7", "9", "0.5", "0.3", "0.7", "1.5", "0.6666666666666666666666666666666667", "0.3333333333333333333333333333333333", "1e-5", "3e10", "0.9999999999999999999999999999999999", "1.000000000000000000000000000000001", "11", "13", "1e17", "6"}
	for _, x := range limit {
		for _, y := range small {
			for _, neg := range []bool{false, true} {
				a, b := x, y
				if neg {
					a, b = "-"+x, "-"+y
				}
				for _, op := range binops[3:6] {
					emit(op.coq, []string{a, b}, "`"+a+"` "+op.text+" `"+b+"`", nil)
					emit(op.coq, []string{b, a}, "y "+op.text+" x", map[string]any{"x": json.Number(a), "y": json.Number(b)})
				}
			}
		}
	}
	// x = q*y exactly and one unit below / above: the quotient sits on, just under and just over an integer
	for i := 0; i < n/10; i++ {
		ny := 1 + rng.Intn(17)
		nq := 1 + rng.Intn(34-ny)
		if nq > 17 {
			nq = 17
		}
		yi, _ := strconv.ParseInt(randDigits(ny), 10, 64)
		qi, _ := strconv.ParseInt(randDigits(nq), 10, 64)
		prod := new(big.Int).Mul(big.NewInt(yi), big.NewInt(qi))
		ex := rng.Intn(20) - 10
		for _, delta := range []int64{0, -1, 1} {
			xs := new(big.Int).Add(prod, big.NewInt(delta)).String() + "e" + strconv.Itoa(ex)
			ys := strconv.FormatInt(yi, 10) + "e" + strconv.Itoa(ex)
			if delta != 0 && rng.Intn(2) == 0 { // the difference far below the 34th digit of the quotient
				xs = prod.String() + strings.Repeat("0", 34-len(prod.String())) + "e" + strconv.Itoa(ex-(34-len(prod.String())))
				xi, _ := new(big.Int).SetString(prod.String()+strings.Repeat("0", 34-len(prod.String())), 10)
				xs = new(big.Int).Add(xi, big.NewInt(delta)).String() + "e" + strconv.Itoa(ex-(34-len(prod.String())))
			}
			for _, op := range binops[3:6] {
				emit(op.coq, []string{xs, ys}, "x "+op.text+" y", map[string]any{"x": json.Number(xs), "y": json.Number(ys)})
			}
		}
	}
	// exact ties and carries at the 34th digit: the dropped part is exactly one half (round half to even),
	// just under, just over; all nines carry into a 35th digit
	nlead := 12
	if tier == "thorough" {
		nlead = 200
	}
	for i := 0; i < nlead; i++ {
		lead := randDigits(33)
		for _, last := range []string{"0", "1", "2", "5", "8", "9"} {
			x := lead + last // 34 digits
			for _, tail := range []string{"5", "50", "4999999", "5000001", "49", "51", "05", "95"} {
				// x followed by the tail: more than 34 digits, spread over two or three addends
				k := len(tail)
				e := rng.Intn(30) - 15
				a := x + strings.Repeat("0", k) + "e" + strconv.Itoa(e)
				b := tail + "e" + strconv.Itoa(e)
				if i%2 == 1 {
					a, b = "-"+a, "-"+b
				}
				emit("PAdd", []string{a, b}, "x + y", map[string]any{"x": json.Number(a), "y": json.Number(b)})
				emit("PSum", []string{a, b}, "sum(@)", []any{json.Number(a), json.Number(b)})
				emit("PSum", []string{b, a, "0"}, "sum(@)", []any{json.Number(b), json.Number(a), json.Number("0")})
				emit("PAvg", []string{a, b}, "avg(@)", []any{json.Number(a), json.Number(b)})
				emit("PAvg", []string{a, b, a, b}, "avg(@)", []any{json.Number(a), json.Number(b), json.Number(a), json.Number(b)})
				if tail == "5" || tail == "51" {
					emit("PSub", []string{a, negate(b)}, "x - y", map[string]any{"x": json.Number(a), "y": json.Number(negate(b))})
				}
			}
		}
	}
	for _, x := range limit {
		for _, t := range []string{"0.5", "0.4", "0.6", "0.49999999999999999999", "0.50000000000000000001", "1", "5e-1", "1e-40"} {
			for _, neg := range []bool{false, true} {
				a, b := x, t
				if neg {
					a, b = "-"+x, "-"+t
				}
				emit("PSum", []string{a, b}, "sum(@)", []any{json.Number(a), json.Number(b)})
				emit("PAvg", []string{a, b}, "avg(@)", []any{json.Number(a), json.Number(b)})
				emit("PAvg", []string{a, a, b}, "avg(@)", []any{json.Number(a), json.Number(a), json.Number(b)})
				emit("PAdd", []string{a, b}, "x + y", map[string]any{"x": json.Number(a), "y": json.Number(b)})
				emit("PMul", []string{a, b}, "x * y", map[string]any{"x": json.Number(a), "y": json.Number(b)})
			}
		}
	}
	// cancellation: partial sums overflow or lose digits, the exact total does not
	for _, c := range [][]string{{"1e36", "1", "-1e36"}, {"1e34", "1", "1", "1", "1", "1", "-1e34"}, {"5e33", "5e33", "0.5", "-1e34"}} {
		arr := make([]any, len(c))
		for i, x := range c {
			arr[i] = json.Number(x)
		}
		emit("PSum", c, "sum(@)", arr)
		emit("PAvg", c, "avg(@)", arr)
	}
	// the same at the ends of the exponent range (decided here: the exact total is one of the addends)
	for _, c := range []struct {
		arr  []string
		want string
	}{{[]string{"9e6144", "9e6144", "-9e6144"}, "9e6144"}, {[]string{"1e-6176", "1e-6176", "-1e-6176"}, "1e-6176"}, {[]string{"9999999999999999999999999999999999e6111", "1e6111", "-1e6111"}, "9999999999999999999999999999999999e6111"}} {
		arr := make([]any, len(c.arr))
		for i, x := range c.arr {
			arr[i] = json.Number(x)
		}
		o := search("sum(@)", arr)
		sum.count("range-ends/" + o.Kind)
		if !(o.Kind == "val" && sameValue(o.Value, json.Number(c.want), false)) {
			sum.direct("cancellation", "sum(@)", arr, "the exact total is "+c.want+", got "+describe(o))
		}
	}
	// unary plus is the identity on every number, computed ones included
	for i := 0; i < 60; i++ {
		x, y := randDecimal(), randDecimal()
		d := map[string]any{"x": json.Number(x), "y": json.Number(y)}
		emit("PToNumber", []string{x}, "+ x", d)
		emit("PToNumber", []string{x}, "+ + x", d)
		emit("PNeg", []string{x}, "- + x", d)
		emit("PAdd", []string{x, y}, "+ (x + y)", d)
		emit("PSub", []string{x, y}, "+ (x - y)", d)
		emit("PMul", []string{x, y}, "+ (x * y)", d)
		emit("PNeg", []string{x}, "+ (- x)", d)
		emit("PAbs", []string{x}, "+ abs(x)", d)
		emit("PSum", []string{x, y}, "+ sum([x, y])", d)
		emit("PToNumber", []string{x}, "+ to_number(to_string(x))", d)
		emit("PAdd", []string{x, y}, "x + + y", d)
	}
	// one number, many spellings: zero with either sign, scale and exponent; trailing zeros; exponent forms
	groups := [][]string{{"0", "-0", "0.0", "-0.0", "0e5", "-0e-5", "0.000", "0E0", "-0.00e10"}, {"1", "1.0", "1e0", "10e-1", "0.1e1", "1.000000000000000000000000000000000", "100E-2"}, {"-2.5", "-2.50", "-25e-1", "-0.25e1", "-250E-2"}, {"100", "1e2", "1E+2", "100.0", "0.1e3", "10e1"}}
	for gi, g := range groups {
		for _, a := range g {
			for _, b := range g {
				d := map[string]any{"x": json.Number(a), "y": json.Number(b)}
				for _, op := range binops[6:] { // < <= > >= == !=
					emit(op.coq, []string{a, b}, "x "+op.text+" y", d)
					emit(op.coq, []string{a, b}, "`"+a+"` "+op.text+" `"+b+"`", nil)
				}
				emit("PSub", []string{a, b}, "x - y", d)
				emit("PAdd", []string{a, b}, "x + y", d)
				emit("PMul", []string{a, b}, "x * y", d)
			}
			// against the other groups: never equal
			for _, b := range groups[(gi+1)%len(groups)] {
				d := map[string]any{"x": json.Number(a), "y": json.Number(b)}
				emit("PEq", []string{a, b}, "x == y", d)
				emit("PLt", []string{a, b}, "x < y", d)
			}
		}
	}
	// the remainder is exact whatever the size of the quotient (a quotient beyond the range is not computed).
	// Quotients of thousands of digits are decided here with math/big (the model needs a minute for each; the
	// thorough tier hands two of them to it as well)
	for pi, pr := range [][2]string{{"1e6144", "3e-10"}, {"7", "1e-6176"}, {"1e3100", "3e-3100"}, {"7e4000", "2e-4000"}, {"2.5e3200", "1e-3200"}, {"1e6144", "7"}, {"9e6144", "7e-6176"}, {"-1e6144", "-3e-10"}, {"1e40", "3"}, {"1e34", "7"}, {"123456789e6000", "9.7e-100"}, {"-7e4000", "-2e-4000"}, {"5e6100", "3e-6100"}, {"1e200", "3e-200"}, {"7e150", "9e-150"}} {
		d := map[string]any{"x": json.Number(pr[0]), "y": json.Number(pr[1])}
		x, _ := new(big.Rat).SetString(pr[0])
		y, _ := new(big.Rat).SetString(pr[1])
		q := new(big.Rat).Quo(x, y)
		qi := new(big.Int).Quo(q.Num(), q.Denom()) // operands of equal sign: truncation is the floor
		want := new(big.Rat).Sub(x, new(big.Rat).Mul(y, new(big.Rat).SetInt(qi)))
		small := len(qi.String()) < 500
		for k, c := range []struct {
			e   string
			doc any
		}{{"x % y", d}, {"`" + pr[0] + "` % `" + pr[1] + "`", nil}, {"to_number(a) % to_number(b)", map[string]any{"a": pr[0], "b": pr[1]}}} {
			var o Obs
			if small || (tier == "thorough" && pi < 2 && k == 0) {
				o = emit("PMod", []string{pr[0], pr[1]}, c.e, c.doc)
			} else {
				o = search(c.e, c.doc)
			}
			sum.count("remainder-huge-quotient/" + o.Kind)
			got := (*big.Rat)(nil)
			if dv, ok := toDec(o.Value); ok && o.Kind == "val" {
				got, _ = new(big.Rat).SetString(dv.String())
			}
			if got == nil || got.Cmp(want) != 0 {
				sum.direct("remainder", c.e, c.doc, "the exact remainder is "+want.FloatString(12)+" (x - y * floor(x / y)), got "+describe(o))
			}
		}
	}
	// averages of small integers: every quotient n/d with a small numerator and denominator keeps 34 digits
	{
		ds := []int{3, 6, 7, 9, 11, 13}
		top := 130
		if tier == "thorough" {
			ds = []int{2, 3, 4, 5, 6, 7, 8, 9, 10, 11, 12, 13, 14, 17, 19, 23, 60, 63, 64, 97}
			top = 1100
		}
		for _, d := range ds {
			for n := 1; n <= top; n++ {
				if n%d == 0 {
					continue
				}
				args := make([]string, d)
				arr := make([]any, d)
				for j := range args {
					args[j] = "0"
					if j == (n+d)%d {
						args[j] = strconv.Itoa(n)
					}
					arr[j] = json.Number(args[j])
				}
				emit("PAvg", args, "avg(@)", arr)
			}
			for _, n := range []int{512, 555, 599, 640, 699, 8192, 9999, 65536, 99999} {
				if tier != "thorough" && d > 7 {
					continue
				}
				args := []string{strconv.Itoa(n)}
				arr := []any{json.Number(args[0])}
				for j := 1; j < d; j++ {
					args = append(args, "0")
					arr = append(arr, json.Number("0"))
				}
				emit("PAvg", args, "avg(@)", arr)
			}
		}
		for _, c := range [][]string{{"64", "0", "0", "0", "0", "0", "0"}, {"10", "20", "30", "1", "2", "3", "1"}, {"0.0268", "0", "0"}, {"6399999999999999999999999999.99", "0"}, {"6399999999999999999999999999.99", "0", "0", "0", "0", "0", "0", "0", "0", "0", "0", "0", "0", "0", "0", "0", "0", "0", "0", "0", "0", "0", "0", "0", "0", "0", "0", "0", "0", "0", "0", "0", "0", "0", "0", "0", "0", "0", "0", "0", "0", "0", "0", "0", "0", "0", "0", "0", "0", "0", "0", "0", "0", "0", "0", "0", "0", "0", "0", "0", "0", "0", "0", "0"}} {
			arr := make([]any, len(c))
			for i, x := range c {
				arr[i] = json.Number(x)
			}
			emit("PAvg", c, "avg(@)", arr)
		}
	}
	// a number that no decimal holds never turns into an infinity or a NaN that travels on as a value, and never
	// makes two different numbers equal
	{
		bigN := map[string]any{"n": json.Number("1e7000"), "m": json.Number("-1e7000"), "p": json.Number("2e7000"), "q": json.Number("3e8000"), "one": json.Number("1")}
		for _, e := range []string{"abs(n)", "abs(m)", "ceil(n)", "floor(m)", "- n", "- m", "+ n", "max([one, n])", "min([m, one])", "max([n])", "sort([n, one])", "sum([n])", "avg([n, m])", "n + one", "n * one", "n - n", "n / n", "m // one", "n % one",
			"to_number(n)", "[n][0]", "not_null(n)", "abs(`1e7000`)", "- `1e7000`", "max(`[1, 1e7000]`)", "max_by([{k: n}, {k: one}], &k).k", "sort_by([{k: n}, {k: m}], &k)[0].k", "n == p", "n == q", "contains([n], q)", "[n] == [p]", "n != p", "`1e7000` == `2e7000`", "n < p", "n > one", "n >= n"} {
			o := search(e, bigN)
			sum.count("beyond-range/" + o.Kind)
			if o.Kind == "panic" {
				sum.direct("nan-result", e, bigN, describe(o))
			}
			if o.Kind != "val" {
				continue
			}
			if d, ok := toDec(o.Value); ok && (d.IsNaN() || d.IsInf(0)) {
				if _, isText := o.Value.(json.Number); !isText {
					sum.direct("nan-result", e, bigN, "the result is an infinity or NaN value: "+describe(o))
				}
			}
			if strings.Contains(e, "==") || strings.HasPrefix(e, "contains") {
				if o.Value == true {
					sum.direct("nan-result", e, bigN, "two different numbers beyond the range compare equal")
				}
			}
			if strings.Contains(e, "!=") && o.Value == false {
				sum.direct("nan-result", e, bigN, "two different numbers beyond the range compare equal")
			}
		}
	}
	// division by zero and overflow are errors, never infinities
	for _, e := range []string{"`1` / `0`", "`0` / `0`", "`-1` / `0.0`", "`1` // `0`", "`1` % `0`", "`9e6144` * `10`", "`-9e6144` * `10`", "`9e6144` + `9e6144`", "`-9e6144` - `9e6144`", "`9e6144` * `-10`", "- `9e6144` * `10`", "`9e3100` * `-9e3100`", "`-1` / `0`", "`-1` // `0`", "`-1` % `0`", "`0` // `0`", "`0` % `0`", "`9e6144` / `1e-100`", "`-9e6144` / `1e-100`", "sum(`[9e6144, 9e6144]`)", "sum(`[-9e6144, -9e6144]`)", "avg(`[9e6144, 9e6144, 9e6144]`) * `3`", "abs(`-9e6144`) * `10`", "`1e-6176` / `1e100`"} {
		o := search(e, nil)
		sum.count("traps/" + o.Kind)
		if e == "`1e-6176` / `1e100`" {
			continue // underflow: a zero or tiny value is acceptable
		}
		if !(o.Kind == "err" && len(o.Cats) == 1 && o.Cats[0] == "CNotANumber") {
			sum.direct("trap", e, nil, "expected a not-a-number error, got "+describe(o))
		}
	}
	// the known rounding behaviour of sum: one rounding per element
	big := "9999999999999999999999999999999999"
	emit("PSum", []string{big, "0.4", "0.4", "0.4", "-" + big}, "sum(@)", []any{json.Number(big), json.Number("0.4"), json.Number("0.4"), json.Number("0.4"), json.Number("-" + big)})
	sh.Flush()
	sum.Cases = id
	sum.Shards = sh.files
	sum.Distinct = len(distinct)
	sum.Rule = "random JSON numbers with 1..34 significant digits (digit-boundary lengths favoured, runs of 9 and 0, exponents, leading zeros, near-equal pairs) x all binary operators (// and % for equal signs only), unary minus, abs, ceil, floor, to_number, sum, avg, through literals and through data; the observed result is compared with exact rational arithmetic inside Coq (exact when the result fits 34 digits, else within one unit of the 34th digit); results must be decimal values, never Go floats, infinities or NaN; also compared with the model; distinct = (operation, operands)"
}

func negate(x string) string {
	if strings.HasPrefix(x, "-") {
		return x[1:]
	}
	return "-" + x
}
