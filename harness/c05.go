package main

import (
	"encoding/json"
	"fmt"
	"strconv"
	"strings"
)

func init() { generators["C05"] = genC05 }

func randDigits(n int) string {
	var b strings.Builder
	b.WriteByte(byte('1' + rng.Intn(9)))
	for i := 1; i < n; i++ {
		switch rng.Intn(6) {
		case 0:
			b.WriteByte('9')
		case 1:
			b.WriteByte('0')
		default:
			b.WriteByte(byte('0' + rng.Intn(10)))
		}
	}
	return b.String()
}

// a JSON number with 1..34 significant digits
func randDecimal() string {
	if rng.Intn(12) == 0 {
		return pick([]string{"0", "-0", "0.0", "1", "-1", "10", "0.1", "0.2", "0.3", "9223372036854775808", "9223372036854775807", "0.5", "2", "3", "7", "1e3", "1E-7"})
	}
	nd := 1 + rng.Intn(34)
	if rng.Intn(4) == 0 {
		nd = pick([]int{1, 2, 16, 17, 18, 19, 20, 33, 34})
	}
	d := randDigits(nd)
	sign := ""
	if rng.Intn(3) == 0 {
		sign = "-"
	}
	switch rng.Intn(5) {
	case 0:
		return sign + d
	case 1:
		p := rng.Intn(nd + 1)
		if p == 0 {
			return sign + "0." + d
		}
		if p == nd {
			return sign + d
		}
		return sign + d[:p] + "." + d[p:]
	case 2:
		return sign + d + "e" + strconv.Itoa(rng.Intn(60)-30)
	case 3:
		return sign + d[:1] + "." + d[1:] + "0E" + strconv.Itoa(rng.Intn(40)-20)
	}
	return sign + "0." + strings.Repeat("0", rng.Intn(5)) + d
}

func sameSign(a, b string) bool { return strings.HasPrefix(a, "-") == strings.HasPrefix(b, "-") }

func genC05(tier, out string, sum *Summary) {
	n := 3000
	if tier == "thorough" {
		n = 80000
	}
	sh := &Shards{dir: out, prop: "C05", imports: "Checks.C05", ctype: "c05case", runner: "c05_run", per: 300}
	distinct := map[string]bool{}
	id := 0
	emit := func(op string, args []string, expr string, doc any) Obs {
		id++
		o := search(expr, doc)
		sum.count(op + "/" + o.Kind)
		as := make([]string, len(args))
		for i, a := range args {
			as[i] = `"` + a + `"`
		}
		sh.Add(fmt.Sprintf("C5 %d %s [%s] %s %s %s", id, op, strings.Join(as, "; "), hx(expr), coqValue(doc), coqObs(o)))
		sid := strconv.Itoa(id)
		sum.Index[sid] = map[string]any{"expr": expr, "doc": toJSON(doc), "observed": obsJSON(o)}
		if len(sum.Samples) < 8 && id%331 == 0 {
			sum.Samples = append(sum.Samples, sum.Index[sid])
		}
		if o.Kind == "val" {
			distinct[op+"|"+strings.Join(args, ",")] = true
			// never a Go float, never an infinity or NaN value
			switch o.Value.(type) {
			case float64, float32:
				sum.direct("float-result", expr, doc, "the result is a Go float: "+describe(o))
			}
			if d, ok := toDec(o.Value); ok && (d.IsNaN() || d.IsInf(0)) {
				sum.direct("nan-result", expr, doc, "the result is an infinity or NaN value: "+describe(o))
			}
		}
		return o
	}
	binops := []struct{ coq, text string }{{"PAdd", "+"}, {"PSub", "-"}, {"PMul", "*"}, {"PDiv", "/"}, {"PIDiv", "//"}, {"PMod", "%"}, {"PLt", "<"}, {"PLe", "<="}, {"PGt", ">"}, {"PGe", ">="}, {"PEq", "=="}, {"PNe", "!="}}
	for i := 0; i < n; i++ {
		x, y := randDecimal(), randDecimal()
		if rng.Intn(6) == 0 { // close values: cancellation and equal comparisons
			y = x
			if rng.Intn(2) == 0 && len(x) > 2 {
				y = x[:len(x)-1] + string(byte('0'+rng.Intn(10)))
			}
		}
		doc := map[string]any{"x": json.Number(x), "y": json.Number(y)}
		switch i % 4 {
		case 0, 1:
			op := binops[rng.Intn(len(binops))]
			if (op.coq == "PIDiv" || op.coq == "PMod") && !sameSign(x, y) {
				continue // pinned only for operands of equal sign
			}
			if rng.Intn(2) == 0 {
				emit(op.coq, []string{x, y}, "x "+op.text+" y", doc)
			} else {
				emit(op.coq, []string{x, y}, "`"+x+"` "+op.text+" `"+y+"`", nil)
			}
		case 2:
			un := pick([]struct{ coq, pre, post string }{{"PNeg", "- ", ""}, {"PAbs", "abs(", ")"}, {"PCeil", "ceil(", ")"}, {"PFloor", "floor(", ")"}})
			emit(un.coq, []string{x}, un.pre+"x"+un.post, doc)
			emit("PToNumber", []string{x}, "to_number(s)", map[string]any{"s": x})
		case 3:
			k := 1 + rng.Intn(5)
			args := make([]string, k)
			arr := make([]any, k)
			for j := range args {
				args[j] = randDecimal()
				if rng.Intn(2) == 0 { // same scale: sums stay exact
					args[j] = strconv.Itoa(rng.Intn(2000)-1000) + "." + strconv.Itoa(rng.Intn(100))
				}
				arr[j] = json.Number(args[j])
			}
			f := pick([]string{"PSum", "PAvg"})
			o := emit(f, args, strings.ToLower(f[1:])+"(@)", arr)
			_ = o
		}
	}
	// division by zero and overflow are errors, never infinities
	for _, e := range []string{"`1` / `0`", "`0` / `0`", "`-1` / `0.0`", "`1` // `0`", "`1` % `0`", "`9e6144` * `10`", "`-9e6144` * `10`", "`9e6144` + `9e6144`", "`1e-6176` / `1e100`"} {
		o := search(e, nil)
		sum.count("traps/" + o.Kind)
		if e == "`1e-6176` / `1e100`" {
			continue // underflow: a zero or tiny value is acceptable
		}
		if !(o.Kind == "err" && len(o.Cats) == 1 && o.Cats[0] == "CNotANumber") {
			sum.direct("trap", e, nil, "expected a not-a-number error, got "+describe(o))
		}
	}
	// the known rounding behaviour of sum: one rounding per element
	big := "9999999999999999999999999999999999"
	emit("PSum", []string{big, "0.4", "0.4", "0.4", "-" + big}, "sum(@)", []any{json.Number(big), json.Number("0.4"), json.Number("0.4"), json.Number("0.4"), json.Number("-" + big)})
	sh.Flush()
	sum.Cases = id
	sum.Shards = sh.files
	sum.Distinct = len(distinct)
	sum.Rule = "random JSON numbers with 1..34 significant digits (digit-boundary lengths favoured, runs of 9 and 0, exponents, leading zeros, near-equal pairs) x all binary operators (// and % for equal signs only), unary minus, abs, ceil, floor, to_number, sum, avg, through literals and through data; the observed result is compared with exact rational arithmetic inside Coq (exact when the result fits 34 digits, else within one unit of the 34th digit); results must be decimal values, never Go floats, infinities or NaN; also compared with the model; distinct = (operation, operands)"
}
