package main

import (
	"encoding/json"
	"fmt"
	"github.com/woodsbury/jmespath"
	"math/big"
	"sort"
	"strconv"
	"strings"
)

func init() {
	generators["C20"] = func(tier, out string, sum *Summary) {
		genC20(tier, out, sum)
		c20Kinds(sum)
		extraTextCases("C20", tier, out, sum, true, false)
	}
	generators["C18"] = func(tier, out string, sum *Summary) {
		genC18(tier, out, sum)
		extraTextCases("C18", tier, out, sum, true, true)
	}
	generators["C15"] = func(tier, out string, sum *Summary) {
		for rep := 0; rep < 12; rep++ {
			runPrecision(sum, "beyond-float-precision")
		}
		genC15(tier, out, sum)
	}
}

// values with numerically equal spellings, reordered members, near misses
func c20Value(d int) any {
	n := rng.Intn(16)
	if d <= 0 && n >= 11 {
		n = rng.Intn(11)
	}
	switch {
	case n == 0:
		return nil
	case n == 1:
		return rng.Intn(2) == 0
	case n < 4:
		return pick([]string{"", "a", "1", "é", "0", "null", "[]"})
	case n < 11:
		return json.Number(pick([]string{"0", "-0", "0.0", "0e5", "1", "1.0", "1e0", "10e-1", "1.00", "2", "1.000000000000000000000000000000001", "1e400", "10", "1e1", "-1", "-1.0", "100", "1E2"}))
	case n < 14:
		a := make([]any, rng.Intn(3))
		for i := range a {
			a[i] = c20Value(d - 1)
		}
		return a
	}
	m := map[string]any{}
	for i := 0; i < rng.Intn(3); i++ {
		m[pick([]string{"a", "b", "c"})] = c20Value(d - 1)
	}
	return m
}

// a value equal to v by the specification: other spellings of numbers, rebuilt maps
func respell(v any) any {
	switch v := v.(type) {
	case json.Number:
		alts := map[string][]string{"0": {"0", "-0", "0.0", "0e5"}, "1": {"1", "1.0", "1e0", "10e-1", "1.00"}, "10": {"10", "1e1", "10.0"}, "100": {"100", "1E2"}, "-1": {"-1", "-1.0"}, "2": {"2", "2.0", "0.2e1"}}
		for _, group := range alts {
			for _, s := range group {
				if s == string(v) {
					return json.Number(pick(group))
				}
			}
		}
		return v
	case []any:
		c := make([]any, len(v))
		for i, x := range v {
			c[i] = respell(x)
		}
		return c
	case map[string]any:
		c := map[string]any{}
		keys := []string{}
		for k := range v {
			keys = append(keys, k)
		}
		sort.Strings(keys) // fixed PRNG consumption order
		for i := len(keys) - 1; i >= 0; i-- {
			c[keys[i]] = respell(v[keys[i]])
		}
		return c
	}
	return v
}

func boolOf(o Obs) (bool, bool) {
	if o.Kind != "val" {
		return false, false
	}
	b, ok := o.Value.(bool)
	return b, ok
}

func jsonType(v any) string {
	switch v.(type) {
	case nil:
		return "null"
	case bool:
		return "boolean"
	case string:
		return "string"
	case []any:
		return "array"
	case map[string]any:
		return "object"
	}
	if isNum(v) {
		return "number"
	}
	return "?"
}

func falseLike(v any) bool {
	switch v := v.(type) {
	case nil:
		return true
	case bool:
		return !v
	case string:
		return v == ""
	case []any:
		return len(v) == 0
	case map[string]any:
		return len(v) == 0
	}
	return false
}

func genC20(tier, out string, sum *Summary) {
	n := 900
	if tier == "thorough" {
		n = 20000
	}
	c := &relCtx{sh: &Shards{dir: out, prop: "C20", imports: "Spec.RefAst Checks.Spec", ctype: "speccase", runner: "spec_run", per: 300}, sum: sum, dist: map[string]bool{}}
	eq := func(l, r string) *R { return cmp("==", fld(l), fld(r)) }
	for i := 0; i < n; i++ {
		x := c20Value(2)
		var y, z any
		switch rng.Intn(5) {
		case 0:
			y = respell(x)
		case 1:
			y = c20Value(2)
		case 4:
			y = nearMiss(x)
			if _, isObj := x.(map[string]any); !isObj && rng.Intn(2) == 0 {
				x = map[string]any{"p": x, "q": nil}
				y = nearMiss(x)
			}
		default:
			y = respell(x)
			if rng.Intn(2) == 0 {
				y = c20Value(2)
			}
		}
		z = respell(y)
		if rng.Intn(3) == 0 {
			z = c20Value(2)
		}
		doc := map[string]any{"x": x, "y": y, "z": z, "l": []any{y, z}}
		run := func(e *R) Obs {
			o := search(unparse(e), doc)
			c.emit(e, doc, o, false)
			return o
		}
		xy, okxy := boolOf(run(eq("x", "y")))
		yx, okyx := boolOf(run(eq("y", "x")))
		xx, okxx := boolOf(run(eq("x", "x")))
		yz, okyz := boolOf(run(eq("y", "z")))
		xz, okxz := boolOf(run(eq("x", "z")))
		ne, okne := boolOf(run(cmp("!=", fld("x"), fld("y"))))
		sum.count("pairs")
		fail := func(what string) { sum.direct("equality", what, doc, what) }
		if !(okxy && okyx && okxx && okyz && okxz && okne) {
			fail("== or != did not return a boolean")
			continue
		}
		if !xx {
			fail("x == x is false")
		}
		if xy != yx {
			fail("x == y differs from y == x")
		}
		if xy && yz && !xz {
			fail("x == y and y == z but not x == z")
		}
		if ne == xy {
			fail("x != y is not the negation of x == y")
		}
		if xy && jsonType(x) != jsonType(y) {
			fail("values of different JSON types are equal")
		}
		if xy != sameValue(x, y, false) {
			fail(fmt.Sprintf("x == y is %v but the values are %s and %s", xy, toJSON(x), toJSON(y)))
		}
		if xy {
			c.dist["eq|"+toJSON(x)+"|"+toJSON(y)] = true
		} else {
			c.dist["ne|"+toJSON(x)] = true
		}
		// contains uses the same relation
		co := run(call("contains", av(fld("l")), av(fld("x"))))
		if cb, ok := boolOf(co); !ok || cb != (sameValue(x, y, false) || sameValue(x, z, false)) {
			fail("contains(l, x) disagrees with == on the members: " + describe(co))
		}
		// truthiness: one rule for !, &&, ||, filters; && and || return an operand unchanged
		nx, oknx := boolOf(run(not(fld("x"))))
		if !oknx || nx != falseLike(x) {
			fail("!x is " + strconv.FormatBool(nx) + " for x = " + toJSON(x))
		}
		ao := run(and(fld("x"), fld("y")))
		wantA := y
		if falseLike(x) {
			wantA = x
		}
		if ao.Kind != "val" || !sameValue(ao.Value, wantA, false) || fmt.Sprintf("%T", ao.Value) != fmt.Sprintf("%T", wantA) {
			fail("x && y is " + describe(ao))
		}
		oo := run(or(fld("x"), fld("y")))
		wantO := x
		if falseLike(x) {
			wantO = y
		}
		if oo.Kind != "val" || !sameValue(oo.Value, wantO, false) || fmt.Sprintf("%T", oo.Value) != fmt.Sprintf("%T", wantO) {
			fail("x || y is " + describe(oo))
		}
		fo := run(filt(fld("l"), fld("a"), cur()))
		_ = fo
		// truthiness is uniform for computed values too: a computed zero is a number, hence true-like; computed empty containers are false-like
		for _, ce := range []struct {
			e     string
			falsy bool
		}{{"`1` - `1`", false}, {"sum(`[]`)", false}, {"`0` * `5`", false}, {"avg(`[1,-1]`)", false}, {"abs(`0`)", false}, {"length(`[]`)", false}, {"to_number('0')", false}, {"- `0`", false}, {"`2` % `2`", false}, {"`[1]`[1:]", true}, {"keys(`{}`)", true}, {"merge(`{}`, `{}`)", true}, {"to_string(`\"\"`)", true}, {"join('', `[]`)", true}, {"'' || `null`", true}, {"trim(' ')", true}, {"reverse(`[]`)", true}} {
			on := search("!("+ce.e+")", doc)
			oa := search("("+ce.e+") && 'yes'", doc)
			oo := search("("+ce.e+") || 'fallback'", doc)
			of := search("[("+ce.e+")][?@] | length(@)", doc)
			sum.count("computed-truthiness")
			nb, okn := boolOf(on)
			good := okn && nb == ce.falsy
			if ce.falsy {
				good = good && oo.Kind == "val" && oo.Value == "fallback" && oa.Kind == "val" && oa.Value != "yes" && of.Kind == "val" && sameValue(of.Value, json.Number("0"), false)
			} else {
				good = good && oa.Kind == "val" && oa.Value == "yes" && oo.Kind == "val" && oo.Value != "fallback" && of.Kind == "val" && sameValue(of.Value, json.Number("1"), false)
			}
			if !good {
				fail(fmt.Sprintf("computed value %s: !v=%s, v && 'yes'=%s, v || 'fallback'=%s, [v][?@] | length=%s", ce.e, describe(on), describe(oa), describe(oo), describe(of)))
			}
			if i > 3 {
				break // the table does not depend on the document: a few repetitions are enough
			}
		}
		// the same rule when the filter is followed by more selectors, in every spelling of a filter projection
		wdoc := map[string]any{"w": []any{map[string]any{"v": x, "t": "x"}, map[string]any{"v": y, "t": "y"}, map[string]any{"t": "none"}, map[string]any{"v": z, "t": "z"}}}
		wantT := []any{}
		for _, p := range []struct {
			v any
			t string
		}{{x, "x"}, {y, "y"}, {z, "z"}} {
			if !falseLike(p.v) {
				wantT = append(wantT, p.t)
			}
		}
		for _, fe := range []string{"w[?v].t", "w[?v] | [*].t", "@.w[?v].t", "w[?v || `false`].t", "w[?!(!v)].t", "w[?v && v].t", "(w)[?v].t", "w[*] | [?v].t", "w[?v][].t", "w[?v].{t: t}.t", "w[?v].[t][]", "map(&t, w[?v])", "w[?v] | [?t].t", "w[?@.v].t"} {
			fo := search(fe, wdoc)
			sum.count("filter-then-selectors")
			if fo.Kind != "val" || !sameValue(fo.Value, wantT, false) {
				sum.direct("truthiness", fe, wdoc, "elements with a true-like v are "+toJSON(wantT)+", got "+describe(fo))
			}
		}
		// computed numbers: equal in value whatever scale the computation left them in
		if i < 4 {
			for _, pr := range [][2]string{{"`1.5` + `1.5`", "`1` + `2`"}, {"`2.50` * `2`", "`5`"}, {"`1` - `1`", "`0.00` * `3`"}, {"`10` / `4`", "`2.5`"}, {"`7.0` // `2`", "`3`"}, {"`7.5` % `2`", "`1.50`"}, {"- `2.0`", "`-2`"}, {"abs(`-3.000`)", "`3`"}, {"sum(`[0.5, 0.5]`)", "`1`"}, {"avg(`[1, 2]`)", "`1.5`"}, {"`1e2` + `0`", "`100`"}, {"`100` * `0.01`", "`1`"}, {"ceil(`1.5`)", "`2.0` + `0`"}, {"to_number('5.00') + `0`", "`5`"}, {"`0` * `-1`", "`0`"}} {
				for _, form := range []string{"(%s) == (%s)", "!((%s) != (%s))", "contains([%s], %s)", "[%s] == [%s]", "{k: %s} == {k: %s}", "[[%s]] == [[%s]]", "(%s) <= (%s) && (%[2]s) <= (%[1]s)", "length([%s, %s][?@ == (%[1]s)]) == `2`", "sort([%s, %s])[0] == (%[2]s)", "[{n: %s}][?n == (%s)] | length(@) == `1`"} {
					e := fmt.Sprintf(form, pr[0], pr[1])
					o := search(e, map[string]any{})
					sum.count("computed-equality")
					if b, ok := boolOf(o); !ok || !b {
						sum.direct("equality", e, nil, "computed numbers of equal value must be equal: "+describe(o))
					}
					e2 := fmt.Sprintf(form, pr[1], pr[0])
					if b, ok := boolOf(search(e2, map[string]any{})); !ok || !b {
						sum.direct("equality", e2, nil, "computed numbers of equal value must be equal (swapped)")
					}
				}
			}
		}
		f2 := search("[x][?@]", doc)
		wantF := []any{x}
		if falseLike(x) {
			wantF = []any{}
		}
		if f2.Kind != "val" || !sameValue(f2.Value, wantF, false) {
			fail("[x][?@] is " + describe(f2))
		}
	}
	// small-scope enumeration of everything that compares or tests truth: every comparison, !, &&, ||, filter and
	// contains over every pair of small operands (incl. operands that fail: && and || must not evaluate what
	// they do not need), on documents of every shape
	{
		per, d3 := 2, 600
		if tier == "thorough" {
			per, d3 = len(ssDocs), 10000
		}
		for _, sc := range smallScope(ssCfg{bools: true, errs: true, funcs: true}, per, d3) {
			if !testsTruth(sc.e) {
				continue
			}
			e, doc := sc.e, sc.doc
			text := unparse(e)
			if hasEnum(e) && orderSensitive(e) {
				if buildsObjects(e) {
					continue
				}
				doc = bestNarrow(text, doc)
			}
			o := search(text, doc)
			sum.count("small-scope/" + o.Kind)
			c.emit(e, doc, o, hasEnum(e))
		}
	}
	// the laws on fixed triples: numbers beyond the range of the decimal format (different values are never equal,
	// whatever a conversion makes of them) and Go slices that share memory (a prefix of an array is not the array)
	{
		ratOf := func(v any) *big.Rat {
			if n, ok := v.(json.Number); ok {
				if r, ok := new(big.Rat).SetString(string(n)); ok {
					return r
				}
			}
			return nil
		}
		laws := func(what string, vals []any, equal func(x, y any) (bool, bool)) {
			for _, x := range vals {
				for _, y := range vals {
					for _, z := range vals {
						doc := map[string]any{"x": x, "y": y, "z": z, "l": []any{y, z}}
						b := func(e string) (bool, bool) { return boolOf(search(e, doc)) }
						xy, ok1 := b("x == y")
						yx, ok2 := b("y == x")
						yz, ok3 := b("y == z")
						xz, ok4 := b("x == z")
						ne, ok5 := b("x != y")
						xx, ok6 := b("x == x")
						cn, ok7 := b("contains(l, x)")
						ar, ok8 := b("[x, y] == [y, x]")
						ob, ok9 := b("{p: x} == {p: y}")
						sum.count(what)
						fail := func(msg string) { sum.direct("equality", msg, doc, msg) }
						if !(ok1 && ok2 && ok3 && ok4 && ok5 && ok6 && ok7 && ok8 && ok9) {
							fail("== , != or contains did not return a boolean")
							continue
						}
						if !xx {
							fail("x == x is false")
						}
						if xy != yx {
							fail("x == y differs from y == x")
						}
						if xy && yz && !xz {
							fail("x == y and y == z but not x == z")
						}
						if ne == xy {
							fail("x != y is not the negation of x == y")
						}
						if cn != (xy || xz) {
							fail("contains(l, x) disagrees with == on the members")
						}
						if ar != xy || ob != xy {
							fail("containers of x and y compare differently from x and y")
						}
						if want, known := equal(x, y); known && want != xy {
							fail(fmt.Sprintf("x == y is %v for %s and %s", xy, toJSON(x), toJSON(y)))
						}
					}
				}
			}
		}
		big1 := []any{json.Number("1e7000"), json.Number("2e7000"), json.Number("-1e7000"), json.Number("3e9000"), json.Number("0"), json.Number("1"), "1e7000", json.Number("1e6144"), nil}
		laws("beyond-range", big1, func(x, y any) (bool, bool) {
			rx, ry := ratOf(x), ratOf(y)
			if rx == nil || ry == nil {
				return false, jsonType(x) != jsonType(y)
			}
			if rx.Cmp(ry) != 0 {
				return false, true
			}
			return true, toJSON(x) == toJSON(y)
		})
		// binary floats against number text: equal exactly when the values are (no detour through the other's format)
		exact := func(v any) *big.Rat {
			switch x := v.(type) {
			case float64:
				r := new(big.Rat)
				if r.SetFloat64(x) != nil {
					return r
				}
			case float32:
				r := new(big.Rat)
				if r.SetFloat64(float64(x)) != nil {
					return r
				}
			case json.Number:
				if r, ok := new(big.Rat).SetString(string(x)); ok {
					return r
				}
			}
			return nil
		}
		laws("float-and-text", []any{float64(9007199254740992), json.Number("9007199254740993"), json.Number("9007199254740992"), float64(0.5), json.Number("0.5"), json.Number("0.50000000000000001"), float32(0.25), json.Number("0.25"), float64(3), json.Number("3.0")}, func(x, y any) (bool, bool) {
			rx, ry := exact(x), exact(y)
			if rx == nil || ry == nil {
				return false, false
			}
			return rx.Cmp(ry) == 0, true
		})
		// a string never equals a number, however the number came about and whatever the string says
		for _, pr := range [][2]string{{"'3'", "`1` + `2`"}, {"'3'", "sum(`[1, 2]`)"}, {"'3'", "to_number('3')"}, {"'3'", "abs(`-3`)"}, {"'3'", "length('abc')"}, {"'3'", "`3`"}, {"'0.5'", "`1` / `2`"}, {"'1.5'", "avg(`[1, 2]`)"}, {"'-1'", "- `1`"}, {"'3'", "max(`[1, 3]`)"}, {"'2'", "ceil(`1.5`)"}, {"'1E+2'", "`10` * `10`"}, {"'100'", "`10` * `10`"}, {"'1e2'", "`1e2` + `0`"}, {"s", "one + two"}, {"s", "to_number(s)"}, {"h", "one / two"}} {
			d := map[string]any{"s": "3", "h": "0.5", "one": json.Number("1"), "two": json.Number("2"), "list": []any{"3", "0.5"}}
			for _, e := range []string{pr[0] + " == " + pr[1], pr[1] + " == " + pr[0], "[" + pr[0] + "] == [" + pr[1] + "]", "contains([" + pr[0] + "], " + pr[1] + ")", "contains(list, " + pr[1] + ")", "{k: " + pr[1] + "} == {k: " + pr[0] + "}", "let $n = " + pr[1] + " in list[?@ == $n] | length(@) > `0`", "!(" + pr[0] + " != " + pr[1] + ")"} {
				o := search(e, d)
				sum.count("string-vs-number")
				if !(o.Kind == "val" && o.Value == false) {
					sum.direct("equality", e, d, "a string and a number are of different JSON types: expected false, got "+describe(o))
				}
			}
		}
		all := []any{json.Number("1"), json.Number("2"), json.Number("3")}
		nested := []any{all, all[:2], "s"}
		laws("shared-memory", []any{all, all[:2], all[:1], all[:0], []any{json.Number("1"), json.Number("2")}, all[1:], nested, nested[:2], []any{all[:2], all[:2]}, []any{all, all[:2]}}, func(x, y any) (bool, bool) { return sameValue(x, y, false), true })
	}
	c.sh.Flush()
	sum.Cases = c.sh.total
	sum.Shards = c.sh.files
	sum.Distinct = len(c.dist)
	sum.Rule = "random triples (x, y, z) of JSON values (nested, numerically equal numbers in different spellings, rebuilt objects, near misses); the laws (reflexive, symmetric, transitive, type-strict, != negation, contains, truthiness of !, &&, ||, filter, operand identity) are checked on the observed outcomes; every expression is also checked against reference semantics and model; distinct = distinct (x,y) equal pairs / unequal x"
}

// ---- C18: results are plain JSON values, closed under re-query ----
func plainResult(v any) (bool, string) {
	switch v := v.(type) {
	case nil, bool, string, json.Number, int64:
		return true, ""
	case []any:
		for _, x := range v {
			if ok, why := plainResult(x); !ok {
				return false, why
			}
		}
		return true, ""
	case map[string]any:
		for _, x := range v {
			if ok, why := plainResult(x); !ok {
				return false, why
			}
		}
		return true, ""
	}
	if fmt.Sprintf("%T", v) == "decimal128.Decimal" {
		return true, ""
	}
	return false, fmt.Sprintf("%T", v)
}

func genC18(tier, out string, sum *Summary) {
	n := 1200
	if tier == "thorough" {
		n = 25000
	}
	g1 := &Gen{Funcs: true, Arith: true, Lets: true}
	g2 := &Gen{Funcs: true, Arith: true, NoRoot: true, Lets: true}
	c := &relCtx{sh: &Shards{dir: out, prop: "C18", imports: "Spec.RefAst Checks.Spec", ctype: "speccase", runner: "spec_run", per: 300}, sum: sum, dist: map[string]bool{}}
	for i := 0; i < n; i++ {
		e1 := g1.expr(2)
		e2 := g2.expr(2)
		doc := genDoc()
		if rng.Intn(4) > 0 { // a document on which e1 | e2 selects something
			doc = docFor(pipe(e1, e2))
		}
		if (hasEnum(e1) || hasEnum(e2)) && (orderSensitive(e1) || orderSensitive(e2)) && !buildsObjects(e1) && !buildsObjects(e2) {
			doc = bestNarrow(unparse(pipe(e1, e2)), doc) // one member per object: enumeration order is determined
			sum.count("narrowed-objects/enumeration-then-position")
		}
		t1 := unparse(e1)
		o1 := search(t1, doc)
		sum.count("first/" + o1.Kind)
		un := hasEnum(e1) || hasEnum(e2)
		c.emit(e1, doc, o1, hasEnum(e1))
		if i%4 == 0 { // the same through encoding/json without UseNumber: float64 leaves, incl. extreme magnitudes
			fd := floatDoc(doc)
			of := search(t1, fd)
			sum.count("float-doc/" + of.Kind)
			if of.Kind == "val" {
				if ok, why := plainResultF(of.Value); !ok {
					sum.direct("closure", t1, fd, "result contains a value of Go type "+why)
				}
				if _, err := json.Marshal(of.Value); err != nil {
					sum.direct("closure", t1, fd, "result does not serialise: "+err.Error())
				}
				o2f := search(unparse(e2), of.Value)
				opf := search(unparse(pipe(e1, e2)), fd)
				if !sameObs(o2f, opf, un) && !(o2f.Kind == "err" && opf.Kind == "err") && !(un && (orderSensitive(e1) || orderSensitive(e2)) && (buildsObjects(e1) || buildsObjects(e2))) {
					sum.direct("requery", unparse(pipe(e1, e2)), fd, fmt.Sprintf("searching e2 over the result of e1 gives %s but e1 | e2 gives %s", describe(o2f), describe(opf)))
				}
			}
		}
		if o1.Kind != "val" {
			continue
		}
		if ok, why := plainResult(o1.Value); !ok {
			sum.direct("closure", t1, doc, "result contains a value of Go type "+why)
		}
		if _, err := json.Marshal(o1.Value); err != nil {
			sum.direct("closure", t1, doc, "result does not serialise: "+err.Error())
		}
		o2 := search(unparse(e2), o1.Value)
		// the second stage through a compiled expression (results are acceptable as input to every entry point)
		if x2, err := jmespath.Compile(unparse(e2)); err == nil {
			r1 := o1.Value
			if oc := observe(func() (any, error) { return x2.Search(r1) }); !sameObs(o2, oc, hasEnum(e2)) && !(o2.Kind == "err" && oc.Kind == "err") && !(hasEnum(e2) && orderSensitive(e2)) {
				sum.direct("requery", unparse(e2), r1, fmt.Sprintf("one-shot search over the first result gives %s, the compiled expression gives %s", describe(o2), describe(oc)))
			}
		}
		if modelled(o1.Value) {
			c.emit(e2, o1.Value, o2, hasEnum(e2))
		}
		// the two texts joined by a pipe (a let at the top of e1 then extends over "| e2": same meaning)
		if oc := search(t1+" | "+unparse(e2), doc); !sameObs(o2, oc, un) && !(o2.Kind == "err" && oc.Kind == "err") && !(un && (orderSensitive(e1) || orderSensitive(e2)) && (buildsObjects(e1) || buildsObjects(e2))) {
			sum.direct("requery", t1+" | "+unparse(e2), doc, fmt.Sprintf("searching e2 over the result of e1 gives %s but the joined text gives %s", describe(o2), describe(oc)))
		}
		op := search(unparse(pipe(e1, e2)), doc)
		sum.count("second/" + o2.Kind)
		if !sameObs(o2, op, un) && !(un && (orderSensitive(e1) || orderSensitive(e2)) && (buildsObjects(e1) || buildsObjects(e2))) {
			// when both fail, any of the faults present may be reported
			if !(o2.Kind == "err" && op.Kind == "err") {
				sum.direct("requery", unparse(pipe(e1, e2)), doc, fmt.Sprintf("searching e2 over the result of e1 gives %s but e1 | e2 gives %s", describe(o2), describe(op)))
			}
		}
		if o2.Kind == "val" && o2.Value != nil {
			c.dist[t1+"|"+unparse(e2)] = true
		}
		if !hasNonJSON(o1.Value) {
			c.emit(e2, o1.Value, o2, hasEnum(e2))
		}
	}
	// documents decoded without UseNumber, with magnitudes at the edge of binary64: results must stay serialisable
	for _, fd := range []map[string]any{{"a": 1e308, "b": 1e-10, "c": -1e308, "z": 0.0}, {"a": 1.7976931348623157e308, "b": 0.5, "c": 5e-324, "z": 0.0}, {"a": 3.0, "b": 0.0, "c": -2.5, "z": 0.0}} {
		for _, e := range []string{"a / b", "a * a", "a + a", "c - a", "a // b", "a % b", "c * a", "- a", "abs(c)", "ceil(a)", "floor(c)", "a / z", "z / z", "{q: a / b}", "[a / b, b / a]", "map(&(@ / `1e-10`), [a])", "a / b | type(@)", "sum([a, a])", "avg([a, c])", "max([a, b])", "sort([a, c, b])", "a < b", "a == a", "to_string(a / c)", "[a, b][?@ / $.b > `1`]"} {
			o := search(e, fd)
			sum.count("extreme-floats/" + o.Kind)
			if o.Kind == "val" {
				if ok, why := plainResultF(o.Value); !ok {
					sum.direct("closure", e, fd, "result contains "+why+": "+describe(o))
				}
				if _, err := json.Marshal(o.Value); err != nil {
					sum.direct("closure", e, fd, "result does not serialise: "+err.Error())
				}
			} else if o.Kind != "err" {
				sum.direct("closure", e, fd, describe(o))
			}
		}
	}
	// every small first stage with every kind of second stage (selectors, functions that tell null from absent,
	// multi-selects, lets): two searches = one piped search = the compiled second stage on the first result
	{
		stage2 := []string{"@", "[0]", "a", "type(@)", "[@]", "!@", "to_array(@)", "not_null(@, 'x')", "[*]", "*", "a || 'd'", "{v: @}", "let $v = @ in [$v]", "@ == `null`", "to_string(@)", "[?@]", "length(to_array(@))", "[::-1]", "a.b", "[a, b]",
			"`[10,20]`[1]", "to_array(`5`)[0]", "[type(@)][0]", "[@ == `null`][0]", "not_null(@, `[7,8]`)[0]", "`1`", "'lit'", "`null`", "`{\"k\":1}`.k", "[@][0]", "{a: @}.a", "to_array(@)[0]", "`[1,2]`[*]", "type(@) == 'null'"}
		var x2 []*jmespath.Expression
		for _, t := range stage2 {
			x2 = append(x2, jmespath.MustCompile(t))
		}
		for i, sc := range smallScope(ssCfg{funcs: true, lets: true, bools: true, errs: true}, 1, 0) {
			if tier != "thorough" && i%3 != 0 {
				continue
			}
			t1 := unparse(sc.e)
			o1 := search(t1, sc.doc)
			if o1.Kind != "val" {
				// a first stage that fails makes the pipe fail, whatever follows it
				for _, t2 := range []string{"`1`", "'lit'", "`null`", "@", "type(@)", "[@]"} {
					if op := search("("+t1+") | "+t2, sc.doc); op.Kind != o1.Kind {
						sum.direct("requery", "("+t1+") | "+t2, sc.doc, fmt.Sprintf("e1 alone gives %s but the piped text gives %s", describe(o1), describe(op)))
					}
					if op := search(t1+" | "+t2, sc.doc); op.Kind != o1.Kind && !usesLet(sc.e) {
						sum.direct("requery", t1+" | "+t2, sc.doc, fmt.Sprintf("e1 alone gives %s but the piped text gives %s", describe(o1), describe(op)))
					}
				}
				continue
			}
			un1 := hasEnum(sc.e)
			for k, t2 := range stage2 {
				if un1 && (strings.Contains(t2, "[0]") || strings.Contains(t2, "[1]") || strings.Contains(t2, "[::-1]") || strings.Contains(t2, "to_string")) {
					continue // position or text of an enumeration
				}
				o2 := search(t2, o1.Value)
				r1 := o1.Value
				oc := observe(func() (any, error) { return x2[k].Search(r1) })
				op := search("("+t1+") | "+t2, sc.doc)
				sum.count("small-scope-stages")
				un1 := un1 || t2 == "*"
				if !sameObs(o2, oc, un1) {
					sum.direct("requery", t2, r1, fmt.Sprintf("one-shot search over the first result gives %s, the compiled expression gives %s", describe(o2), describe(oc)))
				}
				if !sameObs(o2, op, un1) && !(o2.Kind == "err" && op.Kind == "err") {
					sum.direct("requery", "("+t1+") | "+t2, sc.doc, fmt.Sprintf("searching e2 over the result of e1 gives %s but the piped text gives %s", describe(o2), describe(op)))
				}
			}
		}
	}
	// lets on both sides of the pipe, with the same names, null bindings and shadowing: the scopes of e1 and e2
	// must not leak into each other whether the texts are joined or the searches are run one after the other
	ldoc := map[string]any{"a": map[string]any{"b": json.Number("1"), "d": []any{json.Number("1"), json.Number("2")}}, "k": "top", "b": json.Number("7")}
	for _, t1 := range []string{"let $v = a in $v", "let $w = k in a", "let $v = a, $w = b in $v", "let $v = `null` in a", "a", "let $v = k in let $v = a in $v"} {
		for _, t2 := range []string{"let $v = c in [$v]", "let $v = `null` in [$v, b]", "let $w = missing in [$w, b]", "let $v = c in let $w = $v in [$w]", "let $v = b in let $v = c in [$v]", "let $v = b in [let $v = `null` in $v, $v]", "[b, let $w = `null` in $w]", "let $v = d in $v[?@ > `1`]"} {
			o1 := search(t1, ldoc)
			if o1.Kind != "val" {
				continue
			}
			o2 := search(t2, o1.Value)
			sum.count("let-pipe")
			for _, joined := range []string{t1 + " | " + t2, "(" + t1 + ") | (" + t2 + ")", "(" + t1 + ") | " + t2} {
				if oc := search(joined, ldoc); !sameObs(o2, oc, false) {
					sum.direct("requery", joined, ldoc, fmt.Sprintf("searching e2 over the result of e1 gives %s but the piped text gives %s", describe(o2), describe(oc)))
				}
			}
		}
	}
	// whatever literal Compile accepts must give a result that serialises and can be queried again
	for _, lit := range []string{"007", "-01.5", "00", "010", "1.", "1.e1", ".5", "+1", "1e", "1e+", "0x1", "01e2", "-", "1_0", "-0", "0e0", "1E400", "1e-400", "[01]", "{\"a\":01}", "[1,]", "[1 2]", "\"\\x\"", "'a'", "nul", "tru", "NaN", "Infinity", "1/2", "1 2", "1e05", "-0.0e-0", "[-]", "[.1]", "{\"a\":+1}", "1e99999", "\"\\ud800\"", "\"\\udc00\\ud800\"", "[1,,2]", "{\"a\":1,}", "{a:1}", "\"a\nb\"", "\"\t\"", " 1 ", "1 ", "true false", "null", "\"\\u00e9\""} {
		for _, form := range []string{"`%s`", "[`%s`, a]", "{n: `%s`}", "a || `%s`", "[`%s`][0]", "to_array(`%s`)"} {
			e := fmt.Sprintf(form, lit)
			o := search(e, map[string]any{"a": json.Number("1")})
			sum.count("literal-fuzz/" + o.Kind)
			if o.Kind != "val" {
				continue
			}
			if ok, why := plainResult(o.Value); !ok {
				sum.direct("closure", e, nil, "result contains a value of Go type "+why)
			}
			b, err := json.Marshal(o.Value)
			if err != nil {
				sum.direct("closure", e, nil, "result does not serialise: "+err.Error())
				continue
			}
			if o2 := search("@", o.Value); !sameObs(o2, o, false) {
				sum.direct("closure", e, nil, "the result is not acceptable as input: "+describe(o2))
			}
			back := jsonDoc(string(b))
			if !sameValue(back, o.Value, false) {
				sum.direct("closure", e, nil, "serialising and decoding the result changes it: "+string(b))
			}
		}
	}
	closed := func(e string, doc any, o Obs) {
		if o.Kind != "val" {
			return
		}
		if ok, why := plainResult(o.Value); !ok {
			sum.direct("closure", e, doc, "result contains a value of Go type "+why)
		}
		if t, bad := badNumberIn(o.Value); bad {
			sum.direct("closure", e, doc, fmt.Sprintf("the result holds the number %q, which is not the text of a JSON number", t))
		}
		b, err := json.Marshal(o.Value)
		if err != nil {
			sum.direct("closure", e, doc, "result does not serialise: "+err.Error())
			return
		}
		if o2 := search("@", o.Value); !sameObs(o2, o, false) {
			sum.direct("closure", e, doc, "the result is not acceptable as input: "+describe(o2))
		}
		if !sameValue(jsonDoc(string(b)), o.Value, false) {
			sum.direct("closure", e, doc, "serialising and decoding the result changes it: "+string(b))
		}
	}
	// in-range numbers whose exact sum is beyond the range: an error, never an infinity that travels on
	for _, e := range []string{"sum(a)", "avg(a)", "{total: sum(a), n: length(a)}", "[sum(a)]", "sum(a) | [@]", "a[0] + a[1]", "a[0] * a[1]", "sum([a[0], a[1], a[0]])", "- sum(a)", "map(&sum(@), [a])", "sum(b)", "avg(b)", "b[0] + b[1]", "b[0] - a[0]", "b[0] * `10`"} {
		doc := map[string]any{"a": []any{json.Number("9e6144"), json.Number("9e6144")}, "b": []any{json.Number("-9e6144"), json.Number("-9.9e6144")}}
		o := search(e, doc)
		sum.count("overflowing-sum/" + o.Kind)
		closed(e, doc, o)
	}
	// numbers no decimal holds (1e7000, 1e-7000 ...) under every numeric operator and built-in, as literals and as
	// data: the outcome is an error or a result that is closed (never an infinity or a NaN that travels on)
	for _, big := range []string{"1e7000", "-1e7000", "1e6145", "-9e6200", "1e999999999", "1e-7000", "123456789012345678901234567890e6130"} {
		for _, form := range []string{"X", "- X", "- - X", "+ X", "[- X]", "{k: - X}", "map(&- @, [X])", "[X][0]", "- X * `0`", "X + `1`", "X - X", "X * `1`", "X / `1`", "`1` / X", "X // `1`", "X % `7`", "abs(X)", "ceil(X)", "floor(X)", "sum([X])", "avg([X, X])", "max([X, `1`])", "min([X])",
			"sort([X, `1`])", "sort_by([{k: X}, {k: `1`}], &k)", "max_by([{k: X}], &k)", "to_number(X)", "to_string(X)", "to_number(to_string(X))", "not_null(X)", "[X, - X] | [0]", "- X | [@]", "let $v = - X in [$v, $v]", "- (X || `1`)", "!X", "X == X", "- X == - X", "X < `1`", "[X, `1`][?@ > `0`]", "zip([X], [- X])", "merge({a: - X})", "values({a: - X})", "reverse([- X, X])"} {
			for _, src := range []string{"`" + big + "`", "n"} {
				e := strings.ReplaceAll(form, "X", src)
				doc := map[string]any{"n": json.Number(big)}
				o := search(e, doc)
				sum.count("beyond-range/" + o.Kind)
				closed(e, doc, o)
			}
		}
	}
	opaqueFamily(sum, "closure")
	// strings that are nearly numbers, converted: the result is a JSON number or null, never anything else
	for _, x := range numberish(tier) {
		for _, e := range []string{"to_number(@)", "[to_number(@), type(to_number(@))]", "{n: to_number(@)}", "to_number(@) | [@, @ == @]", "map(&to_number(@), [@, @])", "to_number(@) || 'none'"} {
			o := search(e, x)
			sum.count("numberish/" + o.Kind)
			closed(e, x, o)
		}
		if !strings.ContainsAny(x, "'\\") {
			e := "to_number('" + x + "')"
			closed(e, nil, search(e, nil))
		}
	}
	// a built-in that reorders or rebuilds an array, handed a value that may still be the document's own array,
	// between two reads of the original: every read sees the same document; two searches = one piped search
	for di, d := range aliasDocs {
		if tier != "thorough" && di >= 2 {
			break
		}
		for _, e := range aliasExprs() {
			doc := jsonDoc(d)
			before := toJSON(doc)
			text := unparse(e)
			o := search(text, doc)
			sum.count("alias/" + o.Kind)
			c.emit(e, doc, o, false)
			closed(text, doc, o)
			if toJSON(doc) != before {
				sum.direct("requery", text, jsonDoc(d), "the search changed the document to "+toJSON(doc))
			}
			if e.K == KPipe && o.Kind == "val" {
				o1 := search(unparse(e.L), doc)
				if o1.Kind == "val" {
					o2 := search(unparse(e.Rt), o1.Value)
					if !sameObs(o2, o, false) {
						sum.direct("requery", text, doc, fmt.Sprintf("searching e2 over the result of e1 gives %s but e1 | e2 gives %s", describe(o2), describe(o)))
					}
				}
			}
		}
	}
	c.sh.Flush()
	sum.Cases = c.sh.total
	sum.Shards = c.sh.files
	sum.Distinct = len(c.dist)
	sum.Rule = "random pairs (e1, e2) with e2 free of the root node and outer variables, on random documents: Go dynamic types of every result node, json.Marshal, and search(e2, search(e1, d)) = search(e1 | e2, d); distinct = pairs whose second result is non-null"
}

func hasNonJSON(v any) bool { return false }

// ---- C15: determinism apart from object member order ----
func rebuild(v any) any {
	switch v := v.(type) {
	case []any:
		c := make([]any, len(v), len(v)+rng.Intn(3))
		for i, x := range v {
			c[i] = rebuild(x)
		}
		return c
	case map[string]any:
		keys := []string{}
		for k := range v {
			keys = append(keys, k)
		}
		sort.Strings(keys) // fixed PRNG consumption order
		rng.Shuffle(len(keys), func(i, j int) { keys[i], keys[j] = keys[j], keys[i] })
		c := make(map[string]any, rng.Intn(8))
		for _, k := range keys {
			c[k] = rebuild(v[k])
		}
		// force a different bucket layout now and then
		if rng.Intn(2) == 0 {
			for i := 0; i < 20; i++ {
				c["__pad"+strconv.Itoa(i)] = nil
			}
			for i := 0; i < 20; i++ {
				delete(c, "__pad"+strconv.Itoa(i))
			}
		}
		return c
	}
	return v
}

func genC15(tier, out string, sum *Summary) {
	n := 900
	if tier == "thorough" {
		n = 20000
	}
	g := &Gen{Funcs: true, Arith: true, Lets: true, enumFuncs: true}
	c := &relCtx{sh: &Shards{dir: out, prop: "C15", imports: "Spec.RefAst Checks.Spec", ctype: "speccase", runner: "spec_run", per: 300}, sum: sum, dist: map[string]bool{}}
	for i := 0; i < n; i++ {
		doc := genDocWide()
		e := g.expr(3)
		text := unparse(e)
		un := hasEnum(e)
		first := search(text, doc)
		c.emit(e, doc, first, un)
		sum.count("outcome/" + first.Kind)
		if un {
			sum.count("enumerating")
		}
		reps := 3
		if buildsObjects(e) || un {
			reps = 8
		}
		for rep := 0; rep < reps; rep++ {
			d2 := rebuild(doc)
			o := search(text, d2)
			if !sameObs(first, o, un) {
				if first.Kind == "err" && o.Kind == "err" {
					continue // several sub-expressions fail: which fault is reported may vary
				}
				if un && orderSensitive(e) {
					sum.count("enumeration-then-position")
					continue // a position, comparison or order-sensitive function applied to an enumerated array inherits the permitted variation
				}
				sum.direct("determinism", text, doc, fmt.Sprintf("first evaluation gives %s, evaluation on an equal, differently built document gives %s", describe(first), describe(o)))
			}
		}
		if first.Kind == "val" && first.Value != nil {
			c.dist[text] = true
		}
	}
	// every combination of two constructs on equal documents built differently
	for i, sc := range smallScope(ssCfg{funcs: true, lets: true, errs: true, bools: true}, 1, 1500) {
		if tier != "thorough" && i%2 != 0 {
			continue
		}
		text := unparse(sc.e)
		un := hasEnum(sc.e)
		first := search(text, sc.doc)
		sum.count("small-scope/" + first.Kind)
		if i%4 == 0 && !(first.Kind == "err" && unorderedFaults(sc.e)) {
			c.emit(sc.e, sc.doc, first, un) // the one outcome every evaluation must give is the specified one
		}
		for rep := 0; rep < 3; rep++ {
			o := search(text, rebuild(sc.doc))
			if sameObs(first, o, un) || (first.Kind == "err" && o.Kind == "err" && unorderedFaults(sc.e)) {
				continue
			}
			if un && orderSensitive(sc.e) {
				continue
			}
			sum.direct("determinism", text, sc.doc, fmt.Sprintf("first evaluation gives %s, evaluation on an equal, differently built document gives %s", describe(first), describe(o)))
			break
		}
	}
	// constructs that walk or rebuild arrays, on documents with nulls inside nested arrays: the same document searched
	// again, and an equal one built afresh, give the same outcome (a search that compacts the caller's arrays in place
	// answers correctly once and differently ever after)
	for i, text := range rebuildFamily() {
		if tier != "thorough" && i%2 != 0 || enumText(text) {
			continue
		}
		for _, ds := range rebuildDocs {
			doc := jsonDoc(ds)
			first := search(text, doc)
			sum.count("rebuild/" + first.Kind)
			for rep, d := range []any{doc, jsonDoc(ds), doc, rebuild(jsonDoc(ds))} {
				o := search(text, d)
				if !sameObs(first, o, strings.Contains(text, "*") || strings.Contains(text, "keys(") || strings.Contains(text, "values(") || strings.Contains(text, "items(")) {
					sum.direct("determinism", text, jsonDoc(ds), fmt.Sprintf("first evaluation gives %s, evaluation %d (same document again / an equal document) gives %s", describe(first), rep+2, describe(o)))
					break
				}
			}
		}
	}
	// one-step evaluation and a fresh compilation are the same function: bare words (keywords, literals spelled
	// as identifiers), and every expression of the random stream again through Compile
	kdoc := map[string]any{"in": json.Number("1"), "let": json.Number("2"), "a": json.Number("3"), "null": json.Number("4"), "true": json.Number("5"), "k": map[string]any{"in": json.Number("6")}}
	for _, text := range []string{"in", "let", "a", "null", "true", "false", "k", "k.in", "k.let", "in.a", "let.a", "@.in", "[in]", "{in: a}", "{a: in}", "a.in", "a || in", "abs", "abs.a", "length", "not_null", "$", "@", "*", "in in in", "let $in = a in $in", "let $let = a in $let"} {
		for _, d := range []any{kdoc, []any{kdoc}, nil} {
			o1 := search(text, d)
			o2 := observe(func() (any, error) {
				x, err := jmespath.Compile(text)
				if err != nil {
					return nil, err
				}
				return x.Search(d)
			})
			sum.count("fresh-compilation")
			if !(o1.Kind == o2.Kind && (o1.Kind != "val" || sameValue(o1.Value, o2.Value, true)) && (o1.Kind != "err" || sameCats(o1.Cats, o2.Cats))) {
				sum.direct("determinism", text, d, fmt.Sprintf("one-step Search gives %s, a fresh compilation gives %s", describe(o1), describe(o2)))
			}
		}
	}
	// order-insensitive aggregates over enumerated members have ONE value, whatever the enumeration order;
	// the members are chosen so that a different order of additions or comparisons would show
	aggDocs := []any{
		map[string]any{"big": json.Number("1e36"), "one": json.Number("1"), "neg": json.Number("-1e36")},
		map[string]any{"a": json.Number("9999999999999999999999999999999999"), "b": json.Number("0.4"), "c": json.Number("0.4"), "d": json.Number("0.4"), "e": json.Number("-9999999999999999999999999999999999")},
		map[string]any{"p": json.Number("0.1"), "q": json.Number("0.2"), "r": json.Number("0.3"), "s": json.Number("1e-40"), "t": json.Number("7e33"), "u": json.Number("-7e33")},
		map[string]any{"x": "b", "y": "a", "z": "c", "w": "a"},
	}
	aggExprs := []string{"sum(values(@))", "sum(*)", "avg(values(@))", "sum(items(@)[*][1])", "to_string(sum(values(@)))", "sum(values(@)) == `1`", "avg(*) * `3`", "max(values(@))", "min(*)", "sort(values(@))", "sort(keys(@))", "length(keys(@))", "sum(map(&@, values(@)))", "sum(values(merge(@, @)))", "sum(values(@)) - sum(*)", "sort_by(items(@), &[0])[*][1]", "join(',', sort(keys(@)))", "max_by(items(@), &[0])[0]", "sum(values(@)[?@ > `0`])", "sum(sort(values(@)))"}
	for _, d := range aggDocs {
		for _, e := range aggExprs {
			first := search(e, d)
			sum.count("aggregate-over-enumeration/" + first.Kind)
			for rep := 0; rep < 40; rep++ {
				o := search(e, rebuild(d))
				if !sameObs(first, o, false) {
					sum.direct("determinism", e, d, fmt.Sprintf("first evaluation gives %s, a later one on an equal document gives %s", describe(first), describe(o)))
					break
				}
			}
		}
	}
	// the members of a multi-select hash are independent of each other: the order in which they are
	// evaluated must not show (scopes, variables, errors)
	hashExprs := []string{"{a: `1`, \"a\": `2`}", "{\"\\u0061\": `1`, a: `2`, \"a\": `3`}", "{\"a\": name, a: items, \"\\u0061\": `3`}", "{a: `1`, a: `2`}", "{\"k\\u0031\": `1`, k1: `2`} | keys(@)", "let $outer = `0` in {p: let $a = name in $a, q: $a}", "let $o = `0` in {p: let $a = name in $a, q: not_null($a, 'none'), r: let $b = name in $b, s: $b}",
		"{a: let $v = `1` in $v, b: let $v = `2` in $v, c: let $w = `3` in $w}", "let $v = `0` in {a: let $v = `1` in $v, b: $v, c: let $v = `2` in $v, d: $v}",
		"items[*].{p: let $a = name in $a, q: $a}", "let $x = `1` in {a: $x, b: let $y = $x in {c: $y, d: let $z = $y in $z, e: $z}}", "{a: $undefined, b: name}", "let $n = name in {a: $n, b: let $n = `null` in $n, c: $n}"}
	hdoc := map[string]any{"name": "x", "items": []any{map[string]any{"name": "one"}, map[string]any{"name": "two"}}}
	for _, e := range hashExprs {
		first := search(e, hdoc)
		sum.count("hash-member-order/" + first.Kind)
		for rep := 0; rep < 60; rep++ {
			var o Obs
			if rep%2 == 0 {
				o = search(e, hdoc)
			} else {
				o = search(e, rebuild(hdoc))
			}
			if !sameObs(first, o, false) {
				sum.direct("determinism", e, hdoc, fmt.Sprintf("first evaluation gives %s, a later one gives %s", describe(first), describe(o)))
				break
			}
		}
	}
	// values that are not JSON data answer like any opaque value, every time (a map with keys of several Go types
	// has no order and no spelling of its keys to depend on)
	opaqueFamily(sum, "determinism")
	{
		collide := map[any]any{1: "uno", "1": "one", true: "yes", "true": "ja", 8080: "int", "8080": "text"}
		for _, e := range []string{"\"1\"", "\"true\"", "\"8080\"", "ports[0].\"8080\"", "\"1\" == 'one'", "keys(@)", "values(@)", "*", "length(@)", "type(@)", "to_array(@)[0] == @"} {
			var doc any = collide
			if strings.HasPrefix(e, "ports") {
				doc = map[string]any{"ports": []any{collide}}
			}
			first := search(e, doc)
			for rep := 0; rep < 100; rep++ {
				d2 := map[any]any{}
				for k, v := range collide {
					d2[k] = v
				}
				var dd any = d2
				if strings.HasPrefix(e, "ports") {
					dd = map[string]any{"ports": []any{d2}}
				}
				o := search(e, dd)
				sum.count("keys-of-several-types")
				if !sameObs(first, o, true) && !(first.Kind == "val" && o.Kind == "val" && !modelled(first.Value) && !modelled(o.Value)) {
					sum.direct("determinism", e, "map[any]any{1: \"uno\", \"1\": \"one\", true: \"yes\", \"true\": \"ja\", 8080: \"int\", \"8080\": \"text\"}", fmt.Sprintf("one evaluation gives %s, another on an equal map gives %s", describe(first), describe(o)))
					break
				}
			}
		}
	}
	// an outcome does not depend on which evaluations came before it in the process: evaluations that fail half way
	// (a binding, an element, a member) leave nothing behind that a later evaluation could see
	{
		poisons := []string{"let $p = 'stale', $q = 'stale', $r = 'stale', $bad = abs(name) in $p", "let $p = 'stale' in abs(name)", "{a: let $p = 'stale', $bad = $undefined in $p}", "items[*].[let $p = name, $q = abs(name) in $p]",
			"let $p = 'stale', $q = 'stale' in let $r = 'stale', $bad = `1` / `0` in $r", "let $c = 'stale', $p = $undefined in $c", "items[?let $p = name, $bad = abs(name) in $p]", "let $p = 'ok', $q = 'ok', $r = 'ok' in [$p, $q, $r]",
			"map(&(let $p = @, $bad = abs(@) in $p), ['a', 'b'])", "sort_by(items, &(let $p = name, $bad = abs(name) in $p))"}
		probes := []struct {
			e    string
			want string // a category, or "=" + JSON
		}{{"let $c = name in $p", "CUndefinedVariable"}, {"let $c = name in [$c, $q]", "CUndefinedVariable"}, {"$p", "CUndefinedVariable"}, {"let $x = `1` in $r", "CUndefinedVariable"}, {"let $p = name in $p", `="x"`},
			{"let $c = name in $c", `="x"`}, {"items[*].[let $z = name in $bad]", "CUndefinedVariable"}, {"let $a = `1` in let $b = `2` in [$a, $b]", `=[1,2]`}, {"let $q = name in {a: $q, b: not_null($q, $q)}", `={"a":"x","b":"x"}`}}
		rounds := 40
		if tier == "thorough" {
			rounds = 400
		}
		for r := 0; r < rounds; r++ {
			for _, ps := range poisons {
				search(ps, hdoc)
				if r%3 == 0 {
					search(ps, rebuild(hdoc))
				}
				for _, pb := range probes {
					o := search(pb.e, hdoc)
					sum.count("history")
					ok := false
					if strings.HasPrefix(pb.want, "=") {
						ok = o.Kind == "val" && toJSON(o.Value) == pb.want[1:]
					} else {
						ok = o.Kind == "err" && len(o.Cats) == 1 && o.Cats[0] == pb.want
					}
					if !ok {
						sum.direct("determinism", pb.e, hdoc, fmt.Sprintf("after evaluating %q the outcome is %s; alone it is %s", ps, describe(o), pb.want))
						r = rounds
						break
					}
				}
			}
		}
	}
	c.sh.Flush()
	sum.Cases = c.sh.total
	sum.Shards = c.sh.files
	sum.Distinct = len(c.dist)
	sum.Rule = "random expressions (with object enumeration, merge, group_by, let, multi-select hashes) on documents with wide objects; each is evaluated on 4 equal documents whose maps are built in different insertion orders and bucket layouts (fresh compilation each time); strict equality when the expression does not enumerate object members, equality up to permutation otherwise; distinct = expressions with a non-null result"
}

func genDocWide() any {
	m := map[string]any{}
	for _, k := range []string{"a", "b", "c", "k"} {
		if rng.Intn(5) > 0 {
			m[k] = genValue(3)
		}
	}
	w := map[string]any{}
	for i := 0; i < 3+rng.Intn(8); i++ {
		w["m"+strconv.Itoa(i)] = genValue(1)
	}
	m["a"] = w
	return m
}

// does the expression apply something position- or order-sensitive (index, slice, comparison,
// order-sensitive function) anywhere? Then a permuted enumeration may legitimately change the value.
func orderSensitive(e *R) bool {
	if e == nil {
		return false
	}
	switch e.K {
	case KIndex, KCmp:
		return true
	case KProj:
		if e.PK == PSlice || e.PK == PFlatten {
			return true
		}
	case KCall:
		switch e.Name {
		case "keys", "values", "items", "length", "sort", "type", "not_null", "to_array", "contains", "merge", "sum", "avg", "max", "min", "map", "group_by":
		default:
			return true
		}
	case KOr, KAnd, KNot:
		// truthiness of an enumerated array does not depend on its order
	}
	if orderSensitive(e.L) || orderSensitive(e.Rt) || orderSensitive(e.Cond) {
		return true
	}
	for _, x := range e.Es {
		if orderSensitive(x) {
			return true
		}
	}
	for _, kv := range e.KEs {
		if orderSensitive(kv.E) {
			return true
		}
	}
	for _, a := range e.Args {
		if orderSensitive(a.E) {
			return true
		}
	}
	return false
}

// the document as encoding/json decodes it without UseNumber; some leaves get extreme magnitudes
func floatDoc(v any) any {
	switch v := v.(type) {
	case json.Number:
		if rng.Intn(6) == 0 {
			return pick([]float64{1e308, -1e308, 1e-300, 5e-324, 1.7976931348623157e308, 0, 1e-10})
		}
		f, _ := v.Float64()
		return f
	case []any:
		c := make([]any, len(v))
		for i, x := range v {
			c[i] = floatDoc(x)
		}
		return c
	case map[string]any:
		c := map[string]any{}
		keys := make([]string, 0, len(v))
		for k := range v {
			keys = append(keys, k)
		}
		sort.Strings(keys) // fixed PRNG consumption order
		for _, k := range keys {
			c[k] = floatDoc(v[k])
		}
		return c
	}
	return v
}

func plainResultF(v any) (bool, string) {
	switch v := v.(type) {
	case float64:
		if v != v || v > 1.7976931348623157e308 || v < -1.7976931348623157e308 {
			return false, "float64 that is not a finite number"
		}
		return true, ""
	case []any:
		for _, x := range v {
			if ok, why := plainResultF(x); !ok {
				return false, why
			}
		}
		return true, ""
	case map[string]any:
		for _, x := range v {
			if ok, why := plainResultF(x); !ok {
				return false, why
			}
		}
		return true, ""
	}
	return plainResult(v)
}

// a value that differs from v in one small way: a renamed key, a null member vs a missing member,
// a different spelling that is NOT equal, an extra element
func nearMiss(v any) any {
	switch v := v.(type) {
	case map[string]any:
		c := map[string]any{}
		keys := []string{}
		for k, x := range v {
			c[k] = x
			keys = append(keys, k)
		}
		if len(keys) == 0 {
			c["a"] = nil
			return c
		}
		sort.Strings(keys) // map order must not decide which key the PRNG picks
		k := pick(keys)
		switch rng.Intn(4) {
		case 0: // rename a key, keep the value (same size, different key set)
			val := c[k]
			delete(c, k)
			c[k+"x"] = val
		case 1: // null member under another name
			delete(c, k)
			c[k+"y"] = nil
		case 2:
			c[k] = nearMiss(c[k])
		default:
			c[k] = nil
		}
		return c
	case []any:
		c := append([]any{}, v...)
		if len(c) == 0 {
			return []any{nil}
		}
		i := rng.Intn(len(c))
		if rng.Intn(2) == 0 {
			c[i] = nearMiss(c[i])
		} else {
			c = append(c, nil)
		}
		return c
	case nil:
		return pick([]any{false, "", json.Number("0"), []any{}, map[string]any{}})
	case bool:
		return !v
	case string:
		return v + "x"
	case json.Number:
		if len(v) > 20 {
			// beyond 34 significant digits the decimal package keeps some 35-digit coefficients and rounds
			// others; a near miss that far out is not a miss by value for every implementation
			return json.Number("3")
		}
		return json.Number(string(v) + "1")
	}
	return v
}

// does the expression compare values or test truth anywhere?
func testsTruth(e *R) bool {
	if e == nil {
		return false
	}
	switch e.K {
	case KCmp, KNot, KAnd, KOr:
		return true
	case KProj:
		if e.PK == PFilter {
			return true
		}
	case KCall:
		if e.Name == "contains" || e.Name == "not_null" {
			return true
		}
	}
	if testsTruth(e.L) || testsTruth(e.Rt) || testsTruth(e.Cond) {
		return true
	}
	for _, x := range e.Es {
		if testsTruth(x) {
			return true
		}
	}
	for _, kv := range e.KEs {
		if testsTruth(kv.E) {
			return true
		}
	}
	for _, a := range e.Args {
		if testsTruth(a.E) {
			return true
		}
	}
	return false
}

// equality is by VALUE whatever carries the number: every pair of Go kinds that can hold v, at the limits of the
// kinds (2^63 and 2^64-1 exist only as uint, uint64, text and decimal), against the values a wrapping conversion
// would confuse them with
func c20Kinds(sum *Summary) {
	vals := []string{"9223372036854775808", "18446744073709551615", "9223372036854775807", "-9223372036854775808", "9007199254740993", "4294967295", "4294967296", "255", "-128", "65535", "32768", "0", "1", "-1"}
	alias := map[string][]string{"9223372036854775808": {"-9223372036854775808", "9223372036854775807"}, "18446744073709551615": {"-1", "18446744073709551614", "0"}, "4294967295": {"-1"}, "4294967296": {"0"}, "255": {"-1"}, "65535": {"-1"}, "32768": {"-32768"},
		"9007199254740993": {"9007199254740992", "9007199254740994"}, "-9223372036854775808": {"9223372036854775808"}, "9223372036854775807": {"-1", "9223372036854775806"}}
	reported := 0
	check := func(expr string, doc any, want bool) {
		o := search(expr, doc)
		sum.count("kinds/" + o.Kind)
		if !(o.Kind == "val" && o.Value == want) && reported < 10 {
			reported++
			sum.direct("equality-by-value", expr, doc, fmt.Sprintf("expected %v for x of Go type %T and y of Go type %T, got %s", want, doc.(map[string]any)["x"], doc.(map[string]any)["y"], describe(o)))
		}
	}
	for _, t := range vals {
		var carriers []any
		for _, kc := range kindConvs {
			if strings.Contains(kc.name, "/") {
				continue
			}
			if v, ok := kc.conv(json.Number(t)); ok {
				carriers = append(carriers, v)
			}
		}
		for _, x := range carriers {
			for _, y := range carriers {
				d := map[string]any{"x": x, "y": y, "l": []any{json.Number("7"), y}}
				check("x == y", d, true)
				check("x != y", d, false)
				check("[x] == [y]", d, true)
				check("{k: x} == {k: y}", d, true)
				check("contains(l, x)", d, true)
				check("x == `"+t+"`", d, true)
				check("length(l[?@ == $.x]) == `1`", d, true)
			}
			for _, a := range alias[t] {
				d := map[string]any{"x": x, "y": json.Number(a), "l": []any{json.Number(a)}}
				check("x == y", d, false)
				check("y != x", d, true)
				check("contains(l, x)", d, false)
				check("x == `"+a+"`", d, false)
				check("[x] == l", d, false)
			}
		}
	}
}
