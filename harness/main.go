package main

import (
	"flag"
	"fmt"
	"math/rand"
	"os"
	"time"
)

func main() {
	prop := flag.String("prop", "", "property id")
	tier := flag.String("tier", "quick", "quick|thorough")
	seed := flag.Int64("seed", 1, "PRNG seed")
	out := flag.String("out", "", "output directory for case shards")
	replay := flag.String("replay", "", "replay file")
	caseTable := flag.Bool("casetable", false, "print coq/Gen/CaseTable.v (the case mappings of this toolchain's unicode package) and exit")
	flag.Parse()
	if *caseTable {
		printCaseTable()
		return
	}
	if *out == "" {
		fmt.Fprintln(os.Stderr, "need -out")
		os.Exit(2)
	}
	os.MkdirAll(*out, 0o755)
	rng = rand.New(rand.NewSource(*seed))
	pf, err := os.Create(*out + "/progress.txt")
	if err == nil {
		progressFile = pf
	}
	start := time.Now()
	sum := newSummary(*prop, *tier, *seed)
	activeSum = sum
	_ = replay
	gen, ok := generators[*prop]
	if !ok {
		fmt.Fprintln(os.Stderr, "unknown property", *prop)
		os.Exit(2)
	}
	if os.Getenv("VERIF_NO_CORPUS") == "" {
		runCorpus(*prop, sum, nil)
	}
	gen(*tier, *out, sum)
	sum.write(*out, start)
}

var generators = map[string]func(tier, out string, sum *Summary){}
