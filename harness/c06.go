package main

import (
	"encoding/json"
	"fmt"
	"reflect"
	"strconv"
	"strings"
	"sync"

	"github.com/woodsbury/jmespath"
)

func init() {
	generators["C06"] = genC06
	generators["C07"] = genC07
}

const sentinel = "\x00SPARE\x00"

// withSpare rebuilds v so that every slice has spare capacity filled with a sentinel
func withSpare(v any) any {
	switch v := v.(type) {
	case []any:
		extra := 1 + rng.Intn(3)
		c := make([]any, len(v), len(v)+extra)
		for i, x := range v {
			c[i] = withSpare(x)
		}
		full := c[:cap(c)]
		for i := len(v); i < len(full); i++ {
			full[i] = sentinel
		}
		return c
	case map[string]any:
		c := make(map[string]any, len(v))
		for k, x := range v {
			c[k] = withSpare(x)
		}
		return c
	}
	return v
}

// snapshot including spare capacity
func snapshot(v any) any {
	switch v := v.(type) {
	case []any:
		if v == nil {
			return "nil []any" // a nil slice is not an empty one
		}
		full := v[:cap(v)]
		c := make([]any, len(full)+1)
		c[0] = len(v)
		for i, x := range full {
			if i < len(v) {
				c[i+1] = snapshot(x)
			} else {
				c[i+1] = x
			}
		}
		return c
	case map[string]any:
		if v == nil {
			return "nil map[string]any"
		}
		c := make(map[string]any, len(v))
		for k, x := range v {
			c[k] = snapshot(x)
		}
		return c
	}
	return v
}

func mustCompilePanics(expr string) (panicked bool) {
	defer func() {
		if recover() != nil {
			panicked = true
		}
	}()
	jmespath.MustCompile(expr)
	return false
}

func genC06(tier, out string, sum *Summary) {
	n := 250
	calls := 6
	if tier == "thorough" {
		n, calls = 4000, 16
	}
	g := &Gen{Funcs: true, Arith: true, Lets: true, enumFuncs: true, mutFuncs: true}
	c := &relCtx{sh: &Shards{dir: out, prop: "C06", imports: "Spec.RefAst Checks.Spec", ctype: "speccase", runner: "spec_run", per: 300}, sum: sum, dist: map[string]bool{}}
	// the two entry points are the same function of the data, whatever its Go type: every notable leaf and
	// typed Go collections that are not []any / map[string]any
	{
		vals := append(specialLeaves(), []map[string]any{{"name": "a"}, {"name": "b"}}, []string{"x", "y"}, map[string]string{"k": "v"}, map[string][]any{"k": {json.Number("1")}}, [][]any{{json.Number("1")}},
			[]json.Number{"1", "2"}, []float64{1, 2}, map[string]json.Number{"k": "1"}, []map[string]string{{"k": "v"}}, [2]any{"a", "b"}, &[]any{"p"}, &map[string]any{"k": "v"})
		for _, text := range []string{"@", "[0]", "k", "name", "[0].name", "type(@)", "keys(@)", "length(@)", "join(',', @)", "[?@]", "[*]", "*", "to_string(@)", "@ == @", "[?name == 'b'] | length(@)", "to_array(@)", "not_null(@, 'x')", "[@]", "!@", "@ == `null`", "values(@)", "[::-1]", "sort(@)", "@ || 'd'", "{v: @}", "length(@) > `0`", "a.b", "abs(@)", "[0] == [0]"} {
			x, cerr := jmespath.Compile(text)
			if cerr != nil {
				continue
			}
			for _, v := range vals {
				for _, doc := range []any{v, []any{v}, map[string]any{"a": v}} {
					o1 := search(text, doc)
					o2 := observe(func() (any, error) { return x.Search(doc) })
					sum.count("entry-points")
					same := o1.Kind == o2.Kind && (o1.Kind != "val" || sameAny(o1.Value, o2.Value)) && (o1.Kind != "err" || sameCats(o1.Cats, o2.Cats))
					if !same {
						sum.direct("reuse", text, doc, fmt.Sprintf("Search gives %s, Expression.Search gives %s", describe(o1), describe(o2)))
					}
				}
			}
		}
	}
	opaqueFamily(sum, "reuse")
	// nil slices and maps inside the caller's data stay what they are (a result may alias them; nothing may be
	// written back), and operators applied to the caller's arrays, strings and objects leave them alone
	{
		mk := func() map[string]any {
			backing := []any{"a", "b", "guard-1", "guard-2"}
			return map[string]any{"tags": []any(nil), "meta": map[string]any(nil), "rows": []any{[]any(nil), map[string]any(nil), nil, []any{}}, "xs": withSpare([]any{"a", "b", "c"}), "ys": []any{"Y"}, "ws": []any{"W"}, "pre": backing[:2], "s": "abc", "o": map[string]any{"k": []any(nil)}}
		}
		for _, text := range []string{"@", "tags", "meta", "rows", "rows[0]", "rows[*]", "[tags, meta]", "{t: tags, m: meta}", "o", "o.k", "not_null(tags, meta)", "tags || meta", "rows[?!@]", "values(@)", "to_array(tags)", "merge(@, o)", "rows[]", "map(&@, rows)",
			"xs + ys", "xs + ws", "[xs + ys, xs + ws]", "pre + ys", "xs - ys", "xs * ys", "s + s", "o + o", "xs || ys", "xs && ys", "[xs, ys][]", "merge(o, o)", "xs | [@, @][]", "zip(xs, pre)", "sort(pre)", "reverse(pre)", "pre[::-1]", "join('', pre)"} {
			x, err := jmespath.Compile(text)
			if err != nil {
				continue
			}
			doc := mk()
			before := snapshot(doc)
			var results []any
			var snaps []any
			for k := 0; k < 4; k++ {
				var o Obs
				if k%2 == 0 {
					o = observe(func() (any, error) { return x.Search(doc) })
				} else {
					o = search(text, doc)
				}
				sum.count("nil-collections-and-operators")
				fresh := search(text, mk())
				if !sameObs(o, fresh, strings.Contains(text, "values(")) {
					sum.direct("reuse", text, doc, fmt.Sprintf("call %d gives %s, a fresh search on fresh data gives %s", k, describe(o), describe(fresh)))
				}
				if !reflect.DeepEqual(before, snapshot(doc)) {
					sum.direct("mutation", text, mk(), fmt.Sprintf("call %d modified the caller's document (nil collections, spare capacity or elements)", k))
					break
				}
				if o.Kind == "val" {
					results = append(results, o.Value)
					snaps = append(snaps, snapshotResult(o.Value))
				}
				for i := range results {
					if !reflect.DeepEqual(snaps[i], snapshotResult(results[i])) {
						sum.direct("stale-result", text, mk(), fmt.Sprintf("the result of earlier call %d changed after call %d", i, k))
					}
				}
			}
		}
	}
	// MustCompile panics exactly when Compile fails: every static fault of the error-contract catalogue
	// (syntax, arity, unknown function, expression-reference position, slice step) and every run-time one
	for _, f := range c08Faults() {
		_, cerr := jmespath.Compile(f.expr)
		sum.count("mustcompile-catalogue")
		if (cerr != nil) != f.static {
			continue // the catalogue entry is judged by the C08 check
		}
		if mustCompilePanics(f.expr) != (cerr != nil) {
			sum.direct("mustcompile", f.expr, nil, fmt.Sprintf("MustCompile panics=%v but Compile error=%v", cerr == nil, cerr))
		}
	}
	// expressions whose values come out of the compiled expression itself (literals, multi-selects) and
	// pass through every function that could sort, grow or return its argument in place
	fixed := []string{"merge(`{\"base\":\"lit\"}`, @)", "merge(`{\"a\":1}`, `{\"b\":2}`, {c: @})", "`[3,1,2]` | sort(@)", "sort(`[\"b\",\"c\",\"a\"]`)", "`[\"b\",\"c\",\"a\"]` | [@[0], sort(@)[0], @[0]]", "reverse(`[1,2,3]`)",
		"sort_by(`[{\"k\":2},{\"k\":1}]`, &k)", "`[{\"k\":2},{\"k\":1}]` | [@[0].k, sort_by(@, &k)[0].k, @[0].k]", "group_by(`[{\"k\":\"a\"},{\"k\":\"b\"}]`, &k)", "to_array(`[1]`)", "not_null(`[1,2]`, a)", "`[1,2,3]`[::-1]", "`[1,2,3]`[1:]", "`[[2,1],[3]]`[]",
		"zip(`[1,2]`, `[3,4]`)", "zip(a, b)", "map(&@, `[[1],[2]]`)", "from_items(`[[\"a\",1]]`)", "items(`{\"a\":1}`)", "values(`{\"a\":[2,1]}`)[0] | sort(@)", "[a, b] | sort(@)", "{x: a, y: b} | merge(@, {z: `1`})", "[`[2,1]`, a][0] | sort(@)",
		"merge({x: a}, @)", "merge(@, {x: a})", "sort([c, a, b][?@])", "a[*] | sort(@)", "a | sort(@)", "reverse(a)", "sort_by(a, &@)", "a[:] | reverse(@)", "to_array(a) | sort(@)", "not_null(a) | sort(@)", "a || `[2,1]` | sort(@)", "max_by(`[{\"k\":1},{\"k\":2}]`, &k)", "let $l = `[2,1]` in [sort($l), $l]", "let $l = a in [sort($l), $l, reverse($l)]",
		"sort(to_array(a))", "sort_by(to_array(a), &@)", "sort(not_null(a))", "sort(a || b)", "sort((a))", "sort(a[*])", "sort(a[:])", "sort([a][0])", "sort({k: a}.k)", "sort(let $v = a in $v)", "sort(merge({k: a}).k)", "sort(values({k: a})[0])",
		"reverse(to_array(b))", "sort_by(not_null(a), &@)", "max_by(to_array(a), &@)", "sort(to_array(b)) | [0]", "[sort(to_array(a)), a]", "sort(map(&@, a))", "sort(a) | [@, $.a]",
		"c | $.a", "a | $.c", "a[*] | [@, $.c]", "a | [?@ > $.c]", "a.{x: @, y: $.c}", "b | {inner: @, outer: $.c}", "a[0] | $", "let $o = $.c in a[*].[@, $o]", "a[*].[@, let $r = $ in $r.c]", "let $r = $ in a | [$r.c, @]",
		"a || $x", "a[?$x > @]", "c && $x", "let $y = a in b[*].[$y, $z]", "not_null(a, $x)", "[a, b][?@ == $x]"}
	type item struct {
		e    *R
		text string
		sdoc any // small-scope items carry their document
	}
	items := make([]item, 0, n+len(fixed))
	for _, t := range fixed {
		items = append(items, item{nil, t, nil})
	}
	// every combination of two constructs, compiled once and reused on three documents
	ssN := 0
	for i, sc := range smallScope(ssCfg{funcs: true, lets: true, errs: true, bools: true}, 1, 0) {
		if tier != "thorough" && i%4 != 0 {
			continue
		}
		items = append(items, item{sc.e, unparse(sc.e), sc.doc})
		ssN++
	}
	// a built-in that reorders or rebuilds an array, handed a value that may still be the caller's own array
	for i, e := range aliasExprs() {
		if tier != "thorough" && i%3 != 0 {
			continue
		}
		items = append(items, item{e, unparse(e), jsonDoc(aliasDocs[i%len(aliasDocs)])})
	}
	for i, t := range rebuildFamily() {
		if tier != "thorough" && i%2 != 0 || enumText(t) {
			continue
		}
		items = append(items, item{nil, t, jsonDoc(rebuildDocs[i%len(rebuildDocs)])})
	}
	// a compiled expression entered again while it is being evaluated (a value in the data that serialises itself
	// by querying with the same expression): the outer evaluation still sees its own document
	for _, text := range []string{"[to_string(a), $.b]", "[$.b, to_string(a), $.b, b]", "let $v = b in [to_string(a), $v, $.b]", "{p: to_string(a), q: $.b}.[p, q]", "[a, b][?to_string(@) != $.b] | [length(@), $.b]", "map(&[to_string(@), $.b], [a])", "to_string(a) | [@, $.b]"[:0] + "[to_string(a)][*].[@, $.b]"} {
		var shared *jmespath.Expression
		inner := map[string]any{"a": "nested", "b": "inner"}
		doc := map[string]any{"a": reent{&shared, text, inner}, "b": "outer"}
		fresh := search(text, doc) // every level compiles for itself
		x, err := jmespath.Compile(text)
		if err != nil {
			continue
		}
		shared = x
		o := observe(func() (any, error) { return x.Search(doc) })
		sum.count("reentrant")
		if !sameObs(o, fresh, false) {
			sum.direct("reuse", text, map[string]any{"a": "<a value whose MarshalJSON searches {a: nested, b: inner} with the same compiled expression>", "b": "outer"}, fmt.Sprintf("the compiled expression, entered again during its own evaluation, gives %s; fresh compilations give %s", describe(o), describe(fresh)))
		}
	}
	for i := 0; i < n; i++ {
		e := g.expr(3)
		items = append(items, item{e, unparse(e), nil})
	}
	for _, it := range items {
		e, text := it.e, it.text
		un := hasEnum(e)
		progress(text)
		expr, cerr := jmespath.Compile(text)
		if mustCompilePanics(text) != (cerr != nil) {
			sum.direct("mustcompile", text, nil, fmt.Sprintf("MustCompile panics=%v but Compile error=%v", cerr == nil, cerr))
		}
		sum.count("histories")
		if cerr != nil {
			sum.count("compile-error")
			continue
		}
		docs := make([]any, 3)
		for j := range docs {
			if it.sdoc != nil {
				docs[j] = withSpare(deepCopy(it.sdoc))
				if j > 0 {
					docs[j] = withSpare(jsonDoc(ssDocs[(len(text)*7+j*5)%len(ssDocs)]))
				}
			} else if j > 0 && e != nil {
				docs[j] = withSpare(docFor(e))
			} else if e == nil {
				docs[j] = withSpare(map[string]any{"a": []any{json.Number("3"), json.Number("1"), json.Number("2")}, "b": []any{"y", "x"}, "c": json.Number(strconv.Itoa(j))})
			} else {
				docs[j] = withSpare(genDoc())
			}
		}
		type past struct {
			res  any
			snap any
			doc  int
		}
		var history []past
		for k := 0; k < calls; k++ {
			di := rng.Intn(len(docs))
			doc := docs[di]
			before := snapshot(doc)
			o := observe(func() (any, error) { return expr.Search(doc) })
			fresh := search(text, deepCopy(doc))
			sum.count("calls")
			sum.count("outcome/" + o.Kind)
			if !sameObs(o, fresh, un) && !(o.Kind == "err" && fresh.Kind == "err") && !(un && orderSensitive(e)) {
				sum.direct("reuse", text, doc, fmt.Sprintf("call %d on the compiled expression gives %s, a fresh one-shot search gives %s", k, describe(o), describe(fresh)))
			}
			if !reflect.DeepEqual(before, snapshot(doc)) {
				sum.direct("mutation", text, doc, fmt.Sprintf("call %d modified the caller's document (or the spare capacity of one of its slices)", k))
			}
			if o.Kind == "val" {
				history = append(history, past{o.Value, snapshotResult(o.Value), di})
				if o.Value != nil {
					c.dist[text+"#"+strconv.Itoa(di)] = true
				}
			}
			if k == 0 && e != nil && it.sdoc == nil {
				c.emit(e, deepCopy(doc), o, un)
			}
			// a result that aliases the input must not be written by later calls: append to results
			// is the caller's business, but earlier results must stay valid:
			for hi, h := range history {
				if !reflect.DeepEqual(h.snap, snapshotResult(h.res)) {
					sum.direct("stale-result", text, docs[h.doc], fmt.Sprintf("the result of earlier call %d changed after call %d", hi, k))
				}
			}
		}
	}
	c.sh.Flush()
	sum.Cases = c.sh.total
	sum.Shards = c.sh.files
	sum.Distinct = len(c.dist)
	sum.Rule = "random expressions (sort, sort_by, reverse, merge, group_by, multi-selects, literals) compiled once and applied to a random interleaving of 3 documents whose slices carry sentinel-filled spare capacity; every call is compared with a fresh one-shot Search, a deep snapshot (including spare capacity) of the document before and after, and snapshots of all earlier results; MustCompile panics iff Compile fails; distinct = (expression, document) pairs with a non-null result"
}

func snapshotResult(v any) any { return deepCopy(v) }

type reent struct {
	x     **jmespath.Expression
	text  string
	inner any
}

func (r reent) MarshalJSON() ([]byte, error) {
	var v any
	var err error
	if *r.x != nil {
		v, err = (*r.x).Search(r.inner)
	} else {
		v, err = jmespath.Search(r.text, r.inner)
	}
	if err != nil {
		return nil, err
	}
	return json.Marshal(v)
}

func genC07(tier, out string, sum *Summary) {
	n := 40
	workers, rounds := 8, 30
	if tier == "thorough" {
		n, workers, rounds = 300, 16, 200
	}
	g := &Gen{Funcs: true, Arith: true, Lets: true, enumFuncs: true, mutFuncs: true}
	distinct := map[string]bool{}
	// scratch space kept between calls shows when the calls work on different data
	fixed := []string{"zip(a, b)", "zip(a, b, a)", "merge(@, {x: a})", "merge({x: a}, {y: b}, @)", "sort(a)", "sort_by(o, &n)[*].n", "a[*] | reverse(@)", "[a, b][]", "map(&[@, @], a)", "group_by(o, &to_string(n))", "let $v = a in [$v, b, $v]", "not_null(c, a, b)", "{p: a, q: b, r: c}", "a[?@ > c]", "max_by(o, &n)", "join(',', map(&to_string(@), a))", "from_items(zip(keys(@), values(@))) | length(@)", "to_string(@)", "a[::-1]", "sum(a) + c"}
	// the root node and variables while other goroutines evaluate the same compiled expression on other documents
	fixed = append(fixed, "o[*].[$.c, n]", "a[?@ > $.c]", "let $v = c in a[*].[$v, $.c]", "a[*].[@, $.b[0]]", "[a, b][*][?@ != $.c]", "map(&[@, $.c], a)", "sort_by(o, &($.c - n))[*].n", "a | [$.c, @[0]]", "{p: $.c, q: a[*].[$.c]}.q[0][0] == $.c")
	// anything an expression could build lazily on first use from its own literals: long literal arrays and
	// objects searched, sorted, joined and indexed by all goroutines at once from the first call on
	{
		names := make([]string, 400)
		for i := range names {
			names[i] = `"n` + strconv.Itoa(i*7%400) + `"`
		}
		long := "`[" + strings.Join(names, ",") + "]`"
		longNums := "`[" + strings.Join(strings.Split(strings.Repeat("5,3,9,1,", 60)+"0", ","), ",") + "]`"
		fixed = append(fixed, "b[?contains("+long+", @)]", "contains("+long+", b[0])", "[contains("+long+", 'n7'), contains("+long+", 'zz'), contains("+long+", c)]", "sort("+long+")[0]", "length("+long+")", "a[?contains("+longNums+", @)]", "max("+longNums+") + c",
			"join(',', "+long+") | length(@)", "sort_by("+long+", &@)[-1]", long+"[?@ == $.b[0]]", "group_by("+long+", &@) | length(@)", "reverse("+long+")[0]", "contains("+long+", 'n7') && contains(b, b[0])")
	}
	// operators on arrays and strings of the document (whatever they answer, the document is only read)
	opTexts := []string{"a + b", "b + a", "a + [c]", "[a + b, a + a]", "b + b", "a - a", "a * b", "o + o", "[a, b][] + a", "a || b", "a + a | length(@)", "a + [`1`]", "b + ['z']"}
	fixed = append(fixed, opTexts...)
	opShared := withSpare(map[string]any{"a": []any{json.Number("3"), json.Number("1"), json.Number("2")}, "b": []any{"y", "x", "z"}, "c": json.Number("5"), "o": []any{map[string]any{"n": json.Number("5")}}}).(map[string]any)
	isOp := map[string]bool{}
	for _, t := range opTexts {
		isOp[t] = true
	}
	// constructs that walk or rebuild arrays, all goroutines on ONE shared document with nulls inside nested arrays
	rebTexts := []string{}
	for i, t := range rebuildFamily() {
		if (tier == "thorough" || i%5 == 0) && !enumText(t) {
			rebTexts = append(rebTexts, t)
		}
	}
	fixed = append(fixed, rebTexts...)
	rebShared := jsonDoc(rebuildDocs[0])
	isReb := map[string]bool{}
	for _, t := range rebTexts {
		isReb[t] = true
	}
	// comparisons of large containers of ONE shared document by all goroutines at once: whatever bookkeeping a
	// comparison keeps while it runs belongs to the call
	bigTexts := []string{"l == r", "l != r", "w == w2", "contains([r, `1`], l)", "l == l && r == r", "[l] == [r]", "l[?@ == `-1`]", "{p: l} == {p: r}"}
	var bigShared map[string]any
	{
		n := 8000
		if tier == "thorough" {
			n = 60000
		}
		l, r := make([]any, n), make([]any, n)
		for i := range l {
			l[i] = json.Number(strconv.Itoa(i))
			r[i] = l[i]
		}
		r[n-1] = json.Number("-1")
		bigShared = map[string]any{"l": l, "r": r, "w": map[string]any{"p": l}, "w2": map[string]any{"p": r}}
	}
	isBig := map[string]bool{}
	for _, t := range bigTexts {
		isBig[t] = true
	}
	fixed = append(fixed, bigTexts...)
	// every combination of two constructs (a sample in the quick tier), each goroutine on its own document
	var ssItems []ssCase
	for i, sc := range smallScope(ssCfg{funcs: true, lets: true, bools: true}, 1, 0) {
		if tier == "thorough" || i%12 == 0 {
			ssItems = append(ssItems, sc)
		}
	}
	total := n + len(fixed) + len(ssItems)
	for i := 0; i < total; i++ {
		var e *R
		var text string
		var ssDocsW []any
		if i < len(fixed) {
			text = fixed[i]
		} else if i < len(fixed)+len(ssItems) {
			e = ssItems[i-len(fixed)].e
			text = unparse(e)
			for w := 0; w < workers; w++ {
				ssDocsW = append(ssDocsW, jsonDoc(ssDocs[(i+w)%len(ssDocs)]))
			}
		} else {
			e = g.expr(3)
			text = unparse(e)
		}
		un := hasEnum(e)
		progress(text)
		expr, cerr := jmespath.Compile(text)
		// one shared document, or (every other expression) a document of its own for every goroutine
		docs := make([]any, workers)
		seqs := make([]Obs, workers)
		shared := genDocWide()
		for w := range docs {
			docs[w] = shared
			if isBig[text] {
				docs[w] = bigShared
			} else if isOp[text] {
				docs[w] = opShared // one document for all goroutines, its arrays with spare capacity
			} else if isReb[text] {
				docs[w] = rebShared
			} else if ssDocsW != nil {
				docs[w] = ssDocsW[w]
			} else if i%2 == 1 || i < len(fixed) {
				if e != nil {
					docs[w] = docFor(e)
				} else {
					k := strconv.Itoa(w)
					docs[w] = map[string]any{"a": []any{json.Number(k + "3"), json.Number(k + "1"), json.Number(k + "2")}, "b": []any{"y" + k, "x" + k, "z" + k}, "c": json.Number(k + "2"), "o": []any{map[string]any{"n": json.Number(k + "5")}, map[string]any{"n": json.Number(k + "4")}}}
				}
			}
			seqs[w] = search(text, docs[w])
		}
		doc := docs[0]
		seq := seqs[0]
		sum.count("expressions")
		sum.count("outcome/" + seq.Kind)
		var wg sync.WaitGroup
		var mu sync.Mutex
		bad := ""
		for w := 0; w < workers; w++ {
			wg.Add(1)
			go func(w int) {
				defer wg.Done()
				doc, seq := docs[w], seqs[w]
				for r := 0; r < rounds; r++ {
					var o Obs
					switch (w + r) % 3 {
					case 0:
						if cerr != nil {
							continue
						}
						o = observe(func() (any, error) { return expr.Search(doc) })
					case 1:
						o = observe(func() (any, error) { return jmespath.Search(text, doc) })
					default:
						o = observe(func() (any, error) {
							x, err := jmespath.Compile(text)
							if err != nil {
								return nil, err
							}
							return x.Search(doc)
						})
					}
					if !sameObs(o, seq, un) && !(o.Kind == "err" && seq.Kind == "err") && !(un && orderSensitive(e)) {
						mu.Lock()
						bad = fmt.Sprintf("a concurrent call gives %s, the same call alone gives %s", describe(o), describe(seq))
						mu.Unlock()
					}
				}
			}(w)
		}
		wg.Wait()
		sum.Distribution["concurrent-calls"] += workers * rounds
		if bad != "" {
			sum.direct("concurrency", text, doc, bad)
		}
		if seq.Kind == "val" && seq.Value != nil {
			distinct[text] = true
		}
		if len(sum.Samples) < 6 {
			sum.Samples = append(sum.Samples, map[string]any{"expr": text, "doc": toJSON(doc), "sequential": obsJSON(seq), "goroutines": workers, "rounds": rounds})
		}
	}
	sum.Cases = n
	sum.Distinct = len(distinct)
	sum.Rule = fmt.Sprintf("%d random expressions; for each, %d goroutines x %d rounds call Expression.Search on one shared compiled Expression, one-shot Search and Compile+Search, all on one shared document, under the Go race detector; every outcome must equal the sequential one; distinct = expressions with a non-null result", n, workers, rounds)
}

// equality of arbitrary Go values as results: JSON values by value (arrays obtained by enumeration up to order),
// floats with NaN = NaN, functions / channels / pointers by identity, anything else structurally
func sameAny(a, b any) bool {
	if sameValue(a, b, true) {
		return true
	}
	switch x := a.(type) {
	case []any:
		y, ok := b.([]any)
		if !ok || len(x) != len(y) {
			return false
		}
		for i := range x {
			if !sameAny(x[i], y[i]) {
				return false
			}
		}
		return true
	case map[string]any:
		y, ok := b.(map[string]any)
		if !ok || len(x) != len(y) {
			return false
		}
		for k, v := range x {
			w, ok := y[k]
			if !ok || !sameAny(v, w) {
				return false
			}
		}
		return true
	case float64:
		y, ok := b.(float64)
		return ok && (x == y || (x != x && y != y))
	case float32:
		y, ok := b.(float32)
		return ok && (x == y || (x != x && y != y))
	}
	if a == nil || b == nil {
		return a == nil && b == nil
	}
	va, vb := reflect.ValueOf(a), reflect.ValueOf(b)
	if va.Type() != vb.Type() {
		return false
	}
	switch va.Kind() {
	case reflect.Func, reflect.Chan, reflect.UnsafePointer:
		return va.Pointer() == vb.Pointer()
	}
	return reflect.DeepEqual(a, b)
}
