package main

import (
	"fmt"
	"reflect"
	"strconv"
	"sync"

	"github.com/woodsbury/jmespath"
)

func init() {
	generators["C06"] = genC06
	generators["C07"] = genC07
}

const sentinel = "\x00SPARE\x00"

// withSpare rebuilds v so that every slice has spare capacity filled with a sentinel
func withSpare(v any) any {
	switch v := v.(type) {
	case []any:
		extra := 1 + rng.Intn(3)
		c := make([]any, len(v), len(v)+extra)
		for i, x := range v {
			c[i] = withSpare(x)
		}
		full := c[:cap(c)]
		for i := len(v); i < len(full); i++ {
			full[i] = sentinel
		}
		return c
	case map[string]any:
		c := make(map[string]any, len(v))
		for k, x := range v {
			c[k] = withSpare(x)
		}
		return c
	}
	return v
}

// snapshot including spare capacity
func snapshot(v any) any {
	switch v := v.(type) {
	case []any:
		full := v[:cap(v)]
		c := make([]any, len(full)+1)
		c[0] = len(v)
		for i, x := range full {
			if i < len(v) {
				c[i+1] = snapshot(x)
			} else {
				c[i+1] = x
			}
		}
		return c
	case map[string]any:
		c := make(map[string]any, len(v))
		for k, x := range v {
			c[k] = snapshot(x)
		}
		return c
	}
	return v
}

func mustCompilePanics(expr string) (panicked bool) {
	defer func() {
		if recover() != nil {
			panicked = true
		}
	}()
	jmespath.MustCompile(expr)
	return false
}

func genC06(tier, out string, sum *Summary) {
	n := 250
	calls := 6
	if tier == "thorough" {
		n, calls = 4000, 16
	}
	g := &Gen{Funcs: true, Arith: true, Lets: true, enumFuncs: true, mutFuncs: true}
	c := &relCtx{sh: &Shards{dir: out, prop: "C06", imports: "Spec.RefAst Checks.Spec", ctype: "speccase", runner: "spec_run", per: 300}, sum: sum, dist: map[string]bool{}}
	for i := 0; i < n; i++ {
		e := g.expr(3)
		text := unparse(e)
		un := hasEnum(e)
		progress(text)
		expr, cerr := jmespath.Compile(text)
		if mustCompilePanics(text) != (cerr != nil) {
			sum.direct("mustcompile", text, nil, fmt.Sprintf("MustCompile panics=%v but Compile error=%v", cerr == nil, cerr))
		}
		sum.count("histories")
		if cerr != nil {
			sum.count("compile-error")
			continue
		}
		docs := make([]any, 3)
		for j := range docs {
			if j > 0 {
				docs[j] = withSpare(docFor(e))
			} else {
				docs[j] = withSpare(genDoc())
			}
		}
		type past struct {
			res  any
			snap any
			doc  int
		}
		var history []past
		for k := 0; k < calls; k++ {
			di := rng.Intn(len(docs))
			doc := docs[di]
			before := snapshot(doc)
			o := observe(func() (any, error) { return expr.Search(doc) })
			fresh := search(text, deepCopy(doc))
			sum.count("calls")
			sum.count("outcome/" + o.Kind)
			if !sameObs(o, fresh, un) && !(o.Kind == "err" && fresh.Kind == "err") && !(un && orderSensitive(e)) {
				sum.direct("reuse", text, doc, fmt.Sprintf("call %d on the compiled expression gives %s, a fresh one-shot search gives %s", k, describe(o), describe(fresh)))
			}
			if !reflect.DeepEqual(before, snapshot(doc)) {
				sum.direct("mutation", text, doc, fmt.Sprintf("call %d modified the caller's document (or the spare capacity of one of its slices)", k))
			}
			if o.Kind == "val" {
				history = append(history, past{o.Value, snapshotResult(o.Value), di})
				if o.Value != nil {
					c.dist[text+"#"+strconv.Itoa(di)] = true
				}
			}
			if k == 0 {
				c.emit(e, deepCopy(doc), o, un)
			}
			// a result that aliases the input must not be written by later calls: append to results
			// is the caller's business, but earlier results must stay valid:
			for hi, h := range history {
				if !reflect.DeepEqual(h.snap, snapshotResult(h.res)) {
					sum.direct("stale-result", text, docs[h.doc], fmt.Sprintf("the result of earlier call %d changed after call %d", hi, k))
				}
			}
		}
	}
	c.sh.Flush()
	sum.Cases = c.sh.total
	sum.Shards = c.sh.files
	sum.Distinct = len(c.dist)
	sum.Rule = "random expressions (sort, sort_by, reverse, merge, group_by, multi-selects, literals) compiled once and applied to a random interleaving of 3 documents whose slices carry sentinel-filled spare capacity; every call is compared with a fresh one-shot Search, a deep snapshot (including spare capacity) of the document before and after, and snapshots of all earlier results; MustCompile panics iff Compile fails; distinct = (expression, document) pairs with a non-null result"
}

func snapshotResult(v any) any { return deepCopy(v) }

func genC07(tier, out string, sum *Summary) {
	n := 40
	workers, rounds := 8, 30
	if tier == "thorough" {
		n, workers, rounds = 300, 16, 200
	}
	g := &Gen{Funcs: true, Arith: true, Lets: true, enumFuncs: true, mutFuncs: true}
	distinct := map[string]bool{}
	for i := 0; i < n; i++ {
		e := g.expr(3)
		text := unparse(e)
		un := hasEnum(e)
		progress(text)
		expr, cerr := jmespath.Compile(text)
		doc := genDocWide()
		seq := search(text, doc)
		sum.count("expressions")
		sum.count("outcome/" + seq.Kind)
		var wg sync.WaitGroup
		var mu sync.Mutex
		bad := ""
		for w := 0; w < workers; w++ {
			wg.Add(1)
			go func(w int) {
				defer wg.Done()
				for r := 0; r < rounds; r++ {
					var o Obs
					switch (w + r) % 3 {
					case 0:
						if cerr != nil {
							continue
						}
						o = observe(func() (any, error) { return expr.Search(doc) })
					case 1:
						o = observe(func() (any, error) { return jmespath.Search(text, doc) })
					default:
						o = observe(func() (any, error) {
							x, err := jmespath.Compile(text)
							if err != nil {
								return nil, err
							}
							return x.Search(doc)
						})
					}
					if !sameObs(o, seq, un) && !(o.Kind == "err" && seq.Kind == "err") && !(un && orderSensitive(e)) {
						mu.Lock()
						bad = fmt.Sprintf("a concurrent call gives %s, the same call alone gives %s", describe(o), describe(seq))
						mu.Unlock()
					}
				}
			}(w)
		}
		wg.Wait()
		sum.Distribution["concurrent-calls"] += workers * rounds
		if bad != "" {
			sum.direct("concurrency", text, doc, bad)
		}
		if seq.Kind == "val" && seq.Value != nil {
			distinct[text] = true
		}
		if len(sum.Samples) < 6 {
			sum.Samples = append(sum.Samples, map[string]any{"expr": text, "doc": toJSON(doc), "sequential": obsJSON(seq), "goroutines": workers, "rounds": rounds})
		}
	}
	sum.Cases = n
	sum.Distinct = len(distinct)
	sum.Rule = fmt.Sprintf("%d random expressions; for each, %d goroutines x %d rounds call Expression.Search on one shared compiled Expression, one-shot Search and Compile+Search, all on one shared document, under the Go race detector; every outcome must equal the sequential one; distinct = expressions with a non-null result", n, workers, rounds)
}
