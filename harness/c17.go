package main

import (
	"encoding/json"
	"fmt"
	"strconv"
	"strings"
)

func init() {
	generators["C17"] = func(tier, out string, sum *Summary) {
		runPrecision(sum, "beyond-float-precision")
		genC17(tier, out, sum)
	}
	generators["C19"] = func(tier, out string, sum *Summary) {
		genSpecCases("C19", tier, out, sum, &Gen{Lets: true, Funcs: true, letBias: true}, 3)
		c19Direct(sum)
		extraTextCases("C19", tier, out, sum, false, true)
	}
}

// both spellings must give the same outcome on every document; both are also
// emitted as reference cases (reference semantics = implementation = model)
type relCtx struct {
	sh   *Shards
	sum  *Summary
	id   int
	dist map[string]bool
}

func (c *relCtx) emit(e *R, doc any, o Obs, unordered bool) {
	text := unparse(e)
	if hasEnum(e) && orderSensitive(e) {
		if buildsObjects(e) {
			c.sum.count("not-compared/enumeration-then-position")
			return
		}
		// objects with one member enumerate in one order only
		doc = bestNarrow(text, doc)
		o = search(text, doc)
		c.sum.count("narrowed-objects/enumeration-then-position")
	}
	c.id++
	u := "false"
	if unordered {
		u = "true"
	}
	c.sh.Add(fmt.Sprintf("SC %d %s %s %s %s %s", c.id, coqR(e), hx(text), coqValue(doc), u, coqObs(o)))
	sid := strconv.Itoa(c.id)
	c.sum.Index[sid] = map[string]any{"expr": text, "doc": toJSON(doc), "observed": obsJSON(o)}
	if len(c.sum.Samples) < 8 && c.id%157 == 0 {
		c.sum.Samples = append(c.sum.Samples, c.sum.Index[sid])
	}
}

func (c *relCtx) same(kind string, l, r *R, doc any) {
	tl, tr := unparse(l), unparse(r)
	ol, or_ := search(tl, doc), search(tr, doc)
	un := hasEnum(l) || hasEnum(r)
	c.sum.count(kind)
	c.sum.count("outcome/" + ol.Kind)
	if un && (orderSensitive(l) || orderSensitive(r)) {
		if buildsObjects(l) || buildsObjects(r) {
			c.sum.count("skipped-enumeration-then-position")
		} else {
			nd := bestNarrow(tl, doc)
			nl, nr := search(tl, nd), search(tr, nd)
			c.sum.count("narrowed-objects/identity")
			if !sameObs(nl, nr, un) {
				c.sum.direct("identity "+kind, tl, nd, fmt.Sprintf("%q gives %s but %q gives %s", tl, describe(nl), tr, describe(nr)))
			}
		}
	} else if !sameObs(ol, or_, un) {
		c.sum.direct("identity "+kind, tl, doc, fmt.Sprintf("%q gives %s but %q gives %s", tl, describe(ol), tr, describe(or_)))
	}
	if ol.Kind == "val" && ol.Value != nil {
		c.dist[kind+"|"+tl+"|"+toJSON(ol.Value)] = true
	}
	c.emit(l, doc, ol, un)
	c.emit(r, doc, or_, un)
}

// is the outcome a value of the given JSON type?
func typeOf(e *R, doc any) string {
	o := search(unparse(call("type", av(e))), doc)
	if o.Kind == "val" {
		if s, ok := o.Value.(string); ok {
			return s
		}
	}
	return "?"
}

// null-strict selector chains off the current node (field, index): map null to null
func (g *Gen) strictRHS(n int) *R {
	e := cur()
	for i := 0; i < n; i++ {
		if rng.Intn(3) == 0 {
			e = idx(e, pick(smallIdx))
		} else {
			e = sub(e, fld(pick(fieldNames)))
		}
	}
	return e
}

// graft chain b (off current) onto chain a (off current): a then b
func graft(a, b *R) *R {
	switch b.K {
	case KCurrent:
		return a
	case KSub:
		return sub(graft(a, b.L), b.Rt)
	case KIndex:
		return idx(graft(a, b.L), b.I)
	}
	return a
}

func genC17(tier, out string, sum *Summary) {
	n := 700
	if tier == "thorough" {
		n = 12000
	}
	g := &Gen{NoValues: false}
	c := &relCtx{sh: &Shards{dir: out, prop: "C17", imports: "Spec.RefAst Checks.Spec", ctype: "speccase", runner: "spec_run", per: 300}, sum: sum, dist: map[string]bool{}}
	for i := 0; i < n; i++ {
		x := g.chain(2)
		s1 := g.strictRHS(1 + rng.Intn(2))
		s2 := g.strictRHS(1 + rng.Intn(2))
		doc := genDoc()
		if rng.Intn(4) > 0 { // a document on which the chain and the selectors find something
			doc = docFor(proj(PList, x, graft(s1, s2)))
		}
		kinds := []func(l, r *R) *R{
			func(l, r *R) *R { return proj(PList, l, r) },
			func(l, r *R) *R { return proj(PFlatten, l, r) },
			func(l, r *R) *R { return filt(l, g.cond(1), r) },
			func(l, r *R) *R { a, b, st := g.sliceParts(); return slc(l, a, b, st, r) },
			func(l, r *R) *R { return proj(PValues, l, r) },
		}
		switch i % 8 {
		case 0: // a projection followed by selectors = the projected array piped into a new projection of those selectors
			k := pick(kinds)
			base := k(x, s1)
			cp := *base
			cp.Rt = graft(s1, s2)
			if base.PK == PSlice && typeOf(x, doc) == "string" {
				continue
			}
			c.same("proj-then-selectors", &cp, pipe(base, proj(PList, cur(), s2)), doc)
		case 1: // x[*].e = map(&e, x) with nulls removed, for an array x
			if typeOf(x, doc) != "array" {
				continue
			}
			e := g.rhs(1, 9)
			c.same("map", proj(PList, x, e), proj(PList, call("map", ar(e), av(x)), cur()), doc)
		case 2: // filter / flatten / slice projection = unprojected result piped into [*]
			k := pick(kinds[1:4])
			e := g.rhs(1, 9)
			full := k(x, e)
			bare := *full
			bare.Rt = cur()
			if full.PK == PSlice && typeOf(x, doc) == "string" {
				continue
			}
			c.same("unprojected-pipe", full, pipe(&bare, proj(PList, cur(), e)), doc)
		case 3: // a.b = a | b when a is not a projection
			a := g.atom(1)
			b := fld(pick(fieldNames))
			c.same("dot-is-pipe", sub(a, b), pipe(a, b), doc)
		case 4: // parenthesising or piping ends a projection
			k := pick(kinds)
			p := k(x, s1)
			if p.PK == PSlice && typeOf(x, doc) == "string" {
				continue
			}
			var applied *R
			if rng.Intn(2) == 0 {
				applied = sub(p, fld(pick(fieldNames)))
			} else {
				applied = idx(p, pick(smallIdx))
			}
			var viaPipe *R
			if applied.K == KSub {
				viaPipe = pipe(p, applied.Rt)
			} else {
				viaPipe = pipe(p, idx(cur(), applied.I))
			}
			c.same("parens-end-projection", applied, viaPipe, doc)
		case 5: // [e1,...,en] = concatenation of [ei] on a non-null current node
			es := []*R{g.expr(1), g.expr(1), g.expr(1)}[:1+rng.Intn(3)]
			whole := search(unparse(mlist(es...)), doc)
			c.sum.count("multiselect-concat")
			if doc == nil {
				continue
			}
			var concat []any
			ok := true
			for _, e := range es {
				o := search(unparse(mlist(e)), doc)
				if o.Kind != "val" {
					ok = false
					break
				}
				a, isArr := o.Value.([]any)
				if !isArr || len(a) != 1 {
					sum.direct("identity multiselect", unparse(mlist(e)), doc, "single selection is not a one-element array: "+describe(o))
					ok = false
					break
				}
				concat = append(concat, a[0])
			}
			if ok && !(whole.Kind == "val" && sameValue(whole.Value, concat, hasEnum(mlist(es...)))) {
				sum.direct("identity multiselect", unparse(mlist(es...)), doc, fmt.Sprintf("gives %s but the single selections concatenate to %s", describe(whole), toJSON(concat)))
			}
			c.emit(mlist(es...), doc, whole, hasEnum(mlist(es...)))
		case 6: // {k: e}.k = e on a non-null current node
			if doc == nil {
				continue
			}
			e := g.expr(2)
			c.same("hash-then-key", sub(mhash(KV{"k", e}), fld("k")), e, doc)
		case 7: // fused forms: a bare projection equals the same projection of @
			k := pick(kinds)
			e := g.rhs(1, 9)
			p := k(cur(), e)
			if p.PK == PSlice && typeOf(cur(), doc) == "string" {
				continue
			}
			c.same("current-explicit", p, pipe(cur(), p), doc)
		}
	}
	// the same identities with integer literals at the limits of narrower representations
	edoc := map[string]any{"a": []any{json.Number("1"), json.Number("2"), json.Number("3")}, "rows": []any{map[string]any{"cells": []any{"x", "y"}}, map[string]any{"cells": []any{"z"}}}}
	for _, v := range edgeIdx {
		c.same("dot-is-pipe", idx(fld("a"), v), pipe(fld("a"), idx(cur(), v)), edoc)
		c.same("proj-then-selectors", proj(PList, fld("rows"), idx(sub(cur(), fld("cells")), v)), pipe(proj(PList, fld("rows"), sub(cur(), fld("cells"))), proj(PList, cur(), idx(cur(), v))), edoc)
		c.same("map", proj(PList, fld("rows"), idx(sub(cur(), fld("cells")), v)), proj(PList, call("map", ar(idx(sub(cur(), fld("cells")), v)), av(fld("rows"))), cur()), edoc)
		c.same("current-explicit", idx(cur(), v), idx(cur(), v), []any{"p", "q"})
		w := v
		c.same("unprojected-pipe", slc(fld("a"), &w, nil, nil, cur()), pipe(slc(fld("a"), &w, nil, nil, cur()), proj(PList, cur(), cur())), edoc)
	}
	// small-scope identities: every kind of projection over every small operand, with every kind of right-hand
	// side (fields, indexes, multi-selects, slices, nested projections, built-in calls), on documents of every shape
	{
		cfg := ssCfg{funcs: true}
		sdocs := make([]any, len(ssDocs))
		for i, d := range ssDocs {
			sdocs[i] = jsonDoc(d)
		}
		// conditions that reject null elements: then the unprojected filter result holds exactly the elements the
		// right-hand side is applied to, whatever the right-hand side does with null
		conds := []*R{cur(), fld("a"), cmp("==", call("type", av(cur())), raw("number")), cmp("==", call("type", av(cur())), raw("object")), cmp("==", call("type", av(cur())), raw("string"))}
		var ops []*R
		for _, x := range ssLeaves(cfg) {
			ops = append(ops, x)
			if postfixOK(x) {
				ops = append(ops, sub(x, fld("a")), sub(x, fld("b")))
			}
		}
		k := 0
		for _, x := range ops {
			for _, r := range ssRHS(cfg)[1:] {
				var pairs [][2]*R
				strict := !failing(r) // selectors map null to null; built-in calls do not (type(null) is "null", abs(null) fails)
				if strict {
					for _, pk := range []PKind{PList, PFlatten, PValues} {
						pairs = append(pairs, [2]*R{proj(pk, x, r), pipe(proj(pk, x, cur()), proj(PList, cur(), r))})
					}
				}
				for _, cd := range conds {
					pairs = append(pairs, [2]*R{filt(x, cd, r), pipe(filt(x, cd, cur()), proj(PList, cur(), r))})
				}
				if strict {
					pairs = append(pairs, [2]*R{slc(x, ip(0), nil, nil, r), pipe(slc(x, ip(0), nil, nil, cur()), proj(PList, cur(), r))})
				}
				pairs = append(pairs, [2]*R{proj(PList, x, r), proj(PList, call("map", ar(r), av(x)), cur())})
				// the same under a binding the right-hand side refers to
				ro := sub(cur(), mlist(r, vr("$o")))
				if r.K == KCurrent || (r.K == KSub && r.L.K == KCurrent) {
					ro = sub(cur(), mlist(cur(), vr("$o")))
				}
				bind := func(e *R) *R { return let([]KV{{"$o", fld("b")}}, e) }
				if strict && k%3 == 0 {
					pairs = append(pairs, [2]*R{bind(proj(PList, x, ro)), bind(proj(PList, call("map", ar(ro), av(x)), cur()))},
						[2]*R{bind(proj(PList, x, ro)), bind(pipe(proj(PList, x, cur()), proj(PList, cur(), ro)))},
						[2]*R{bind(filt(x, cur(), ro)), bind(pipe(filt(x, cur(), cur()), proj(PList, cur(), ro)))})
				}
				for _, pr := range pairs {
					per := 2
					if tier == "thorough" {
						per = len(sdocs)
					}
					for q := 0; q < per; q++ {
						k++
						doc := sdocs[(k*3+q*5)%len(sdocs)]
						if pr[0].PK == PSlice && typeOf(x, doc) == "string" {
							continue // a slice of a string is a string, not a projection
						}
						inner := pr[1]
						if inner.K == KLet {
							inner = inner.Rt
						}
						if inner.K == KProj && inner.L != nil && inner.L.K == KCall && typeOf(x, doc) != "array" {
							continue // map() demands an array
						}
						c.same("small-scope", pr[0], pr[1], doc)
					}
				}
			}
		}
	}
	// right-hand sides that do not map null to null (built-in calls): the projection applies them to every element,
	// null elements included, and only then drops null results; decided against the reference semantics.
	// And a position applied to a finished projection: (p)[i] and p | [i] take the i-th of the kept results.
	{
		sdocs := make([]any, len(ssDocs))
		for i, d := range ssDocs {
			sdocs[i] = jsonDoc(d)
		}
		calls := []*R{sub(cur(), call("type", av(cur()))), sub(cur(), call("to_array", av(cur()))), sub(cur(), call("not_null", av(cur()), av(raw("none")))), sub(cur(), call("to_string", av(cur()))),
			sub(cur(), call("length", av(cur()))), sub(cur(), mlist(cur())), sub(cur(), call("type", av(sub(cur(), fld("a")))))}
		sels := []*R{cur(), sub(cur(), fld("a")), sub(cur(), fld("b")), idx(cur(), 0), sub(sub(cur(), fld("a")), fld("b"))}
		conds := []*R{cur(), fld("a"), not(fld("b")), cmp("==", call("type", av(cur())), raw("object"))}
		k := 0
		for _, x := range []*R{cur(), fld("a"), fld("b"), sub(fld("a"), fld("a")), litJ("[1, null, [2], null]")} {
			for _, r := range calls {
				for _, pk := range []PKind{PList, PFlatten, PValues} {
					for q := 0; q < 3; q++ {
						k++
						doc := sdocs[(k*7+q*5)%len(sdocs)]
						e := proj(pk, x, r)
						c.emit(e, doc, search(unparse(e), doc), hasEnum(e))
					}
				}
				for _, cd := range conds[:2] {
					k++
					doc := sdocs[(k*7)%len(sdocs)]
					e := filt(x, cd, r)
					c.emit(e, doc, search(unparse(e), doc), false)
				}
			}
			for _, r := range sels {
				var ps []*R
				for _, pk := range []PKind{PList, PFlatten} {
					ps = append(ps, proj(pk, x, r))
				}
				for _, cd := range conds {
					ps = append(ps, filt(x, cd, r))
				}
				ps = append(ps, slc(x, ip(0), nil, nil, r), slc(x, nil, nil, ip(-1), r))
				// documents in which the first selected element lacks what the right-hand side asks for
				target := []int{11, len(sdocs) - 2, len(sdocs) - 1}
				for _, p := range ps {
					for _, i := range []int64{0, 1, -1} {
						for q := 0; q < 4; q++ {
							k++
							doc := sdocs[(k*3+q*11)%len(sdocs)]
							if q > 0 {
								doc = sdocs[target[q-1]]
							}
							if p.PK == PSlice && typeOf(x, doc) == "string" {
								continue
							}
							c.same("position-after-projection", idx(p, i), pipe(p, idx(cur(), i)), doc)
						}
					}
				}
			}
		}
	}
	// the identities hold for every Go value the data may contain: what is not JSON data is opaque on both sides
	opaqueFamily(sum, "identity opaque")
	for _, v := range opaqueValues() {
		for _, doc := range []any{map[string]any{"rows": v, "x": v}, v, []any{v, v}} {
			for _, pr := range [][2]string{{"rows[*].id", "rows[*] | [*].id"}, {"(rows[*]) | [*].tags[*]", "rows[*].tags[*]"}, {"[*].rows", "[*] | [*].rows"}, {"rows[].id", "rows[] | [*].id"}, {"rows[?id].id", "rows[?id] | [*].id"},
				{"rows[0:2].id", "rows[0:2] | [*].id"}, {"rows.*.id", "rows.* | [*].id"}, {"rows.id", "rows | id"}, {"[rows, x]", "[rows] | [@[0], $.x]"}, {"{k: rows}.k", "rows"}, {"[*].id", "@[*] | [*].id"}, {"[0].id", "[0] | id"}, {"*.id", "* | [*].id"}, {"[?id]", "[?id] | [*]"}} {
				ol, or_ := search(pr[0], doc), search(pr[1], doc)
				c.sum.count("typed-data-identities")
				if !sameObs(ol, or_, true) && !(ol.Kind == "val" && or_.Kind == "val" && !modelled(ol.Value) && !modelled(or_.Value)) && !(ol.Kind == "err" && or_.Kind == "err") {
					c.sum.direct("identity typed-data", pr[0], fmt.Sprintf("%#v", doc), fmt.Sprintf("%q gives %s but %q gives %s", pr[0], describe(ol), pr[1], describe(or_)))
				}
			}
		}
	}
	// "!" is a left-hand side like any other: a.b = a | b for a = !x, -x, a literal, a call, a multi-select
	for _, a := range []string{"!x", "!o", "!!x", "- n", "+ n", "`{\"b\": 1}`", "not_null(o)", "[o][0]", "{b: n}", "(o)", "!x || o", "o && !x"} {
		for _, b := range []string{"b", "*", "[b, c]", "{k: b}", "b.c", "[b][0]"} {
			for _, d := range []string{`{"x": {"b": 1}, "o": {"b": {"c": 2}, "c": 3}, "n": 1}`, `{"x": null, "o": {"b": false}, "n": -1}`, `{"x": false, "o": null, "n": 0}`} {
				doc := jsonDoc(d)
				l, r := a+"."+b, a+" | "+b
				if strings.Contains(a, "||") || strings.Contains(a, "&&") || a[0] == '-' || a[0] == '+' {
					l, r = "("+a+")."+b, "("+a+") | "+b
				}
				ol, or_ := search(l, doc), search(r, doc)
				c.sum.count("spelled-identities")
				// a multi-select after a dot answers null for a null left-hand side; after a pipe it is evaluated on null
				nullLeft := false
				if oa := search("("+a+")", doc); oa.Kind == "val" && oa.Value == nil && (b[0] == '[' || b[0] == '{') {
					nullLeft = true
				}
				if !nullLeft && !sameObs(ol, or_, true) && !(ol.Kind == "err" && or_.Kind == "err") {
					c.sum.direct("identity spelled", l, doc, fmt.Sprintf("%q gives %s but %q gives %s", l, describe(ol), r, describe(or_)))
				}
				// parenthesising the complete left-hand side changes nothing
				if op := search("("+a+")."+b, doc); !sameObs(ol, op, true) && !(ol.Kind == "err" && op.Kind == "err") {
					c.sum.direct("identity spelled", l, doc, fmt.Sprintf("%q gives %s but %q gives %s", l, describe(ol), "("+a+")."+b, describe(op)))
				}
			}
		}
	}
	// ".[*]" (a one-element multi-select of "*") directly after a projection: the same as piping into a new projection
	for _, pr := range [][2]string{{"x[*].[*]", "x[*] | [*].[*]"}, {"x[].[*]", "x[] | [*].[*]"}, {"x[0:3].[*]", "x[0:3] | [*].[*]"}, {"x[?@ || !@].[*]", "x[?@ || !@] | [*].[*]"}, {"o.*.[*]", "o.* | [*].[*]"}, {"x[*].[*]", "x[*].[@.*]"},
		{"x[*].[ *]", "x[*].[*]"}, {"x[*].[*][0]", "x[*] | [*].[*][0]"}, {"[*].[*]", "@[*] | [*].[*]"}, {"x[*].[*].[*]", "x[*] | [*].[*] | [*].[*]"}} {
		for _, d := range []string{`{"x": [{"a": "p"}, null, {"b": "q"}], "o": {"m": {"a": 1}, "n": null}}`, `{"x": [[1], {"a": [2]}, "s", 3, null], "o": {"k": [1]}}`, `{"x": [], "o": {}}`, `{"x": null}`, `[{"a": 1}, null, {"b": {"c": 2}}]`} {
			doc := jsonDoc(d)
			ol, or_ := search(pr[0], doc), search(pr[1], doc)
			c.sum.count("spelled-identities")
			if !sameObs(ol, or_, true) {
				c.sum.direct("identity spelled", pr[0], doc, fmt.Sprintf("%q gives %s but %q gives %s", pr[0], describe(ol), pr[1], describe(or_)))
			}
		}
	}
	// a.b = a | b also when a is null and b is a multi-select whose members would fail on null: nothing is evaluated
	for _, pr := range [][2]string{{"m.[length(@), b]", "m | [length(@), b]"}, {"m.{k: abs(@), l: b}", "m | {k: abs(@), l: b}"}, {"p[*].z.[length(@), `1`]", "p[*].z | [*].[length(@), `1`]"}, {"p[0].z.[abs(@), @]", "p[0].z | [abs(@), @]"},
		{"m.[$undef, b]", "m | [$undef, b]"}, {"m.{k: $undef, l: `1`}", "m | {k: $undef, l: `1`}"}, {"p[*].[length(z), `1`]", "map(&[length(z), `1`], p)"}, {"q.[length(@), b]", "q | [length(@), b]"}} {
		for _, d := range []string{`{"p": [{"z": null}, {"y": 1}], "q": "ab"}`, `{"m": null, "p": [], "q": [1]}`, `{"p": [{"z": "s"}], "q": null}`} {
			doc := jsonDoc(d)
			ol, or_ := search(pr[0], doc), search(pr[1], doc)
			c.sum.count("null-subject-multiselect")
			if !sameObs(ol, or_, false) {
				c.sum.direct("identity null-subject", pr[0], doc, fmt.Sprintf("%q gives %s but %q gives %s", pr[0], describe(ol), pr[1], describe(or_)))
			}
		}
	}
	// fused and unfused spellings agree on WHICH elements a condition or selector is evaluated for, and so on
	// whether an error is raised: null elements, conditions and selectors that fail on some element types, subjects
	// that are not arrays
	{
		conds := []string{"length(t) > `0`", "starts_with(n, 'A')", "contains(t, 'x')", "$undef", "abs(v) > `0`", "v > `0`", "t", "@", "!@", "n == 'Al'", "length(@) > `0`", "t[0] == 'x'", "v / v == `1`", "keys(@)", "to_number(n)"}
		sels := []string{"n", "t[0]", "length(n)", "abs(v)", "[n, v]", "{k: n}", "t[*]", "*", "[0]", "to_string(@)", "n.x", "v / v"}
		docs := []string{`{"p": [{"n": "Al", "t": ["x"], "v": 1}, null, {"n": "Bo", "t": [], "v": 0}, {"n": null, "t": null, "v": null}, "s", 3, [1], {}]}`,
			`{"p": [null, null]}`, `{"p": [{"n": "Al", "t": ["x"], "v": 2}]}`, `{"p": []}`, `{"p": null}`, `{"p": {"n": "Al", "t": ["x"], "v": 1}}`, `{"p": "Al"}`, `{"p": [[{"n": "Al", "t": ["x"], "v": 1}, null], null, []]}`}
		k := 0
		for _, cnd := range conds {
			for _, sel := range sels {
				k++
				if tier != "thorough" && k%3 != 0 && !map[string]bool{"n": true, "t[0]": true, "t[*]": true, "*": true, "n.x": true}[sel] {
					continue
				}
				pairs := [][2]string{
					{"p[?" + cnd + "]." + sel, "p[?" + cnd + "] | [*]." + sel},
					{"p[?" + cnd + "]." + sel, "(p[?" + cnd + "])[*]." + sel},
					{"p | [?" + cnd + "]." + sel, "p | [?" + cnd + "] | [*]." + sel},
					{"p[]." + sel, "p[] | [*]." + sel},
					{"p[*]." + sel, "p[*] | [*]." + sel},
					{"p[1:]." + sel, "p[1:] | [*]." + sel},
					{"p[::-1]." + sel, "p[::-1] | [*]." + sel},
					{"p[*][?" + cnd + "]", "p[*] | [*][?" + cnd + "]"},
					{"p[][?" + cnd + "]." + sel, "p[] | [*][?" + cnd + "]." + sel},
					{"p[?" + cnd + "][?" + cnd + "]", "p[?" + cnd + "] | [*][?" + cnd + "]"},
					{"p[*]." + sel, "map(&" + sel + ", p)[*]"},
				}
				for _, pr := range pairs {
					if strings.HasPrefix(sel, "[") && strings.HasSuffix(pr[0], "."+sel) && !strings.Contains(sel, ",") {
						continue // ".[0]" is a multi-select of a literal index, not an index
					}
					for _, d := range docs {
						doc := jsonDoc(d)
						if _, isStr := doc.(map[string]any)["p"].(string); isStr && strings.Contains(pr[0], ":") {
							continue // a slice of a string is a string, not a projection
						}
						if strings.HasPrefix(pr[1], "map(") && (sel[0] == '[' || sel[0] == '{') {
							continue // a multi-select applied to a null element (corpus: null | [@] is [null])
						}
						if strings.HasPrefix(pr[1], "map(") {
							if a, ok := doc.(map[string]any)["p"].([]any); !ok || a == nil {
								continue // map() demands an array
							}
						}
						ol, or_ := search(pr[0], doc), search(pr[1], doc)
						c.sum.count("fused-faults/" + ol.Kind)
						// "[*]" skips null ELEMENTS before it evaluates anything, a flatten or slice projection evaluates its
						// right-hand side on them: only the filter spellings must agree on errors too
						strict := map[string]bool{"n": true, "t[0]": true, "t[*]": true, "*": true, "n.x": true}[sel]
						if !strict && !(ol.Kind == "val" && or_.Kind == "val" && !strings.Contains(d, "null")) {
							continue // a right-hand side that makes something of null (a value or an error) tells the spellings apart
						}
						if !strings.Contains(pr[0], "[?") && (ol.Kind == "err" || or_.Kind == "err") {
							continue
						}
						if !sameObs(ol, or_, strings.Contains(sel, "*")) {
							c.sum.direct("identity fused-faults", pr[0], doc, fmt.Sprintf("%q gives %s but %q gives %s", pr[0], describe(ol), pr[1], describe(or_)))
						}
					}
				}
			}
		}
	}
	c.sh.Flush()
	sum.Cases = c.sh.total
	sum.Shards = c.sh.files
	sum.Distinct = len(c.dist)
	sum.Rule = "random instantiations of the identity schemata (projection.selectors = pipe into [*], x[*].e = map(&e,x) pruned, filter/flatten/slice projection = unprojected | [*], a.b = a | b, parentheses/pipes end a projection, multi-select concatenation, {k:e}.k = e, bare = @-explicit) with generated sub-expressions and documents; both sides run on the real library and must agree; both sides are also checked against the reference semantics and the model; distinct = (schema, left text, non-null result)"
}

func c19Direct(sum *Summary) {
	docs := []any{jsonDoc(`{"a":[{"b":1,"c":[1,2]},{"b":2,"c":[3]}],"b":10,"k":"v"}`), jsonDoc(`[1,2,3]`), jsonDoc(`null`)}
	type tc struct {
		expr string
		want string // JSON of expected value, or "!undef" for an undefined-variable error
	}
	cases := []tc{
		{"let $x = b in a[*].[b, $x]", `[[1,10],[2,10]]`},
		{"let $x = b in a[?b < $x].b", `[1,2]`},
		{"let $x = b in (a | [0] | $x)", `10`},
		{"let $x = `1` in let $x = `2` in $x", `2`},
		{"let $x = `1` in [let $x = `2` in $x, $x]", `[2,1]`},
		{"let $x = `1`, $y = `2` in [$x, $y]", `[1,2]`},
		{"let $x = `1` in let $y = $x in let $x = `3` in [$x, $y]", `[3,1]`},
		{"let $x = k in a[*].c[?@ > `1`] | [$x, @]", `["v",[[2],[3]]]`},
		{"let $x = `5` in map(&[@.b, $x], a)", `[[1,5],[2,5]]`},
		{"let $x = `5` in sort_by(a, &b)[0].[b, $x]", `[1,5]`},
		{"$x", "!undef"},
		{"let $x = `1` in $y", "!undef"},
		{"let $x = $x in $x", "!undef"},
		{"let $x = `1`, $y = $x in $y", "!undef"},
		{"[let $x = `1` in $x, $x]", "!undef"},
		{"(let $x = `1` in $x) | $x", "!undef"},
		{"a[*].[let $e = b in $e] | [$e]", "!undef"},
	}
	// the only variables are those a let binds: no construct defines a name of its own (an element, an index, a
	// key, the root, an accumulator), and a user's binding of any name is what a reference to it sees everywhere
	for _, name := range []string{"$index", "$i", "$item", "$value", "$key", "$this", "$root", "$current", "$it", "$acc", "$element", "$_", "$0", "$idx", "$k", "$v", "$self", "$parent", "$length", "$count", "$e", "$x"} {
		if name == "$0" {
			continue // not a variable name
		}
		for _, form := range []string{"map(&%s, a)", "map(&[%s, b], a)", "sort_by(a, &%s)", "max_by(a, &%s)", "min_by(a, &%s)", "group_by(a, &%s)", "a[*].[%s]", "a[?%s]", "a[].[%s]", "a[0:1].[%s]", "*.[%s]", "[%s]", "{k: %s}", "a | %s", "a[*].c[?%s]", "map(&(let $q = @ in %s), a)", "not_null(%s)"} {
			e := fmt.Sprintf(form, name)
			cases = append(cases, tc{e, "!undef"})
		}
		user := "let " + name + " = 'mine' in "
		cases = append(cases, tc{user + "map(&" + name + ", a)", `["mine","mine"]`}, tc{user + "map(&[" + name + ", b], a)", `[["mine",1],["mine",2]]`}, tc{user + "a[*].[" + name + "][]", `["mine","mine"]`}, tc{user + "a[?" + name + " == 'mine'].b", `[1,2]`},
			tc{user + "sort_by(a, &" + name + ")[*].b", `[1,2]`}, tc{user + "group_by(a, &" + name + ") | keys(@)", `["mine"]`}, tc{user + "max_by(a, &" + name + ").b", `1`}, tc{user + "a[*].c[?" + name + " == 'mine'][]", `[1,2,3]`})
	}
	for _, c := range cases {
		o := search(c.expr, docs[0])
		sum.count("scoping-fixed")
		if c.want == "!undef" {
			if !(o.Kind == "err" && len(o.Cats) == 1 && o.Cats[0] == "CUndefinedVariable") {
				sum.direct("scoping", c.expr, docs[0], "expected an undefined-variable error, got "+describe(o))
			}
			continue
		}
		if !(o.Kind == "val" && sameValue(o.Value, jsonDoc(c.want), false)) {
			sum.direct("scoping", c.expr, docs[0], "expected "+c.want+", got "+describe(o))
		}
	}
}
