package main

// Regression corpus: the minimised inputs of every defect found so far (see
// known_findings.json). It runs first in the check of the property it belongs to.

import (
	_ "embed"
	"encoding/json"
)

//go:embed corpus.json
var corpusJSON []byte

type corpusCase struct {
	Prop string `json:"prop"`
	Expr string `json:"expr"`
	Doc  string `json:"doc"`
	Want string `json:"want"` // JSON of the expected value, or "!Category"
}

func runCorpus(prop string, sum *Summary, emit func(expr string, doc any, o Obs)) {
	var corpus []corpusCase
	if err := json.Unmarshal(corpusJSON, &corpus); err != nil {
		panic(err)
	}
	for _, c := range corpus {
		if c.Prop != prop {
			continue
		}
		doc := jsonDoc(c.Doc)
		o := search(c.Expr, doc)
		sum.count("corpus")
		if len(c.Want) > 0 && c.Want[0] == '!' {
			if !(o.Kind == "err" && len(o.Cats) == 1 && o.Cats[0] == c.Want[1:]) {
				sum.direct("corpus", c.Expr, doc, "expected a "+c.Want[1:]+" error, got "+describe(o))
			}
		} else if !(o.Kind == "val" && sameValue(o.Value, jsonDoc(c.Want), false)) {
			sum.direct("corpus", c.Expr, doc, "expected "+c.Want+", got "+describe(o))
		}
		if emit != nil {
			emit(c.Expr, doc, o)
		}
	}
}
