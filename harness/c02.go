package main

import (
	"encoding/json"
	"fmt"
	"math"
	"math/big"
	"sort"
	"strconv"
	"strings"

	"github.com/woodsbury/decimal128"
)

func init() {
	generators["C02"] = func(tier, out string, sum *Summary) {
		runPrecision(sum, "beyond-float-precision")
		genC02(tier, out, sum)
	}
	generators["C14"] = func(tier, out string, sum *Summary) {
		runPrecision(sum, "beyond-float-precision")
		// a binary float next to an integer no float64 holds: the arithmetic is exact whatever carries the operands
		for _, av := range []any{float64(1), float32(1), json.Number("1"), int64(1), uint8(1), decimal128.New(1, 0)} {
			for _, bv := range []any{int64(9007199254740993), json.Number("9007199254740993"), uint64(9007199254740993), int(9007199254740993)} {
				d := map[string]any{"a": av, "b": bv}
				for _, c := range [][2]string{{"(a + b) == `9007199254740994`", "true"}, {"(b + a) == `9007199254740994`", "true"}, {"(b - a) == `9007199254740992`", "true"}, {"(a - b) == `-9007199254740992`", "true"}, {"(a * b) == b", "true"}, {"(b * a) == `9007199254740993`", "true"},
					{"(a + b) == `9007199254740992`", "false"}, {"b + a > b", "true"}, {"sum([a, b]) == `9007199254740994`", "true"}, {"max([a, b]) == b", "true"}, {"b // a == b", "true"}, {"b % `2` == a", "true"}} {
					o := search(c[0], d)
					sum.count("float-next-to-big-integer/" + o.Kind)
					if !(o.Kind == "val" && fmt.Sprint(o.Value) == c[1]) {
						sum.direct("kind-dependence", c[0], d, fmt.Sprintf("a is %T, b is %T: expected %s, got %s", av, bv, c[1], describe(o)))
					}
				}
			}
		}
		genC14(tier, out, sum)
	}
}

// the specification's signatures: argument types per position ("any", "number", "string", "array", "object",
// "array|string" ..., "expref"), minimum and maximum arity
type sig struct {
	name string
	args []string // types of the maximal argument list; "&" = expression reference
	min  int
	vary bool // variadic
}

var sigs = []sig{
	{"abs", []string{"number"}, 1, false}, {"avg", []string{"array"}, 1, false}, {"ceil", []string{"number"}, 1, false},
	{"contains", []string{"array|string", "any"}, 2, false}, {"ends_with", []string{"string", "string"}, 2, false},
	{"find_first", []string{"string", "string", "number", "number"}, 2, false}, {"find_last", []string{"string", "string", "number", "number"}, 2, false},
	{"floor", []string{"number"}, 1, false}, {"from_items", []string{"array"}, 1, false}, {"group_by", []string{"array", "&"}, 2, false},
	{"items", []string{"object"}, 1, false}, {"join", []string{"string", "array"}, 2, false}, {"keys", []string{"object"}, 1, false},
	{"length", []string{"array|object|string"}, 1, false}, {"lower", []string{"string"}, 1, false}, {"map", []string{"&", "array"}, 2, false},
	{"max", []string{"array"}, 1, false}, {"max_by", []string{"array", "&"}, 2, false}, {"merge", []string{"object"}, 1, true},
	{"min", []string{"array"}, 1, false}, {"min_by", []string{"array", "&"}, 2, false}, {"not_null", []string{"any"}, 1, true},
	{"pad_left", []string{"string", "number", "string"}, 2, false}, {"pad_right", []string{"string", "number", "string"}, 2, false},
	{"replace", []string{"string", "string", "string", "number"}, 3, false}, {"reverse", []string{"array|string"}, 1, false},
	{"sort", []string{"array"}, 1, false}, {"sort_by", []string{"array", "&"}, 2, false}, {"split", []string{"string", "string", "number"}, 2, false},
	{"starts_with", []string{"string", "string"}, 2, false}, {"sum", []string{"array"}, 1, false}, {"to_array", []string{"any"}, 1, false},
	{"to_number", []string{"any"}, 1, false}, {"to_string", []string{"any"}, 1, false}, {"trim", []string{"string", "string"}, 1, false},
	{"trim_left", []string{"string", "string"}, 1, false}, {"trim_right", []string{"string", "string"}, 1, false}, {"type", []string{"any"}, 1, false},
	{"upper", []string{"string"}, 1, false}, {"values", []string{"object"}, 1, false}, {"zip", []string{"array"}, 1, true},
}

var typedVals = map[string][]any{
	"null":    {nil},
	"boolean": {true, false},
	"number":  {json.Number("0"), json.Number("1"), json.Number("2"), json.Number("-1"), json.Number("3.0"), json.Number("2.5"), json.Number("1e0"), json.Number("-0.5"), json.Number("100")},
	"string":  {"", "a", "abc", "aébcab", " x ", "1", "a,b,,c", "é"},
	"array":   {[]any{}, []any{true}, []any{nil}, []any{map[string]any{"a": nil}}, []any{json.Number("1"), json.Number("2")}, []any{"b", "a"}, []any{[]any{"k", json.Number("1")}}, []any{json.Number("1"), "a"}, []any{nil, json.Number("3")}, []any{map[string]any{"a": json.Number("1")}, map[string]any{"a": json.Number("0")}}},
	"object":  {map[string]any{}, map[string]any{"a": json.Number("1"), "b": "x"}, map[string]any{"k": nil}},
}
var allTypes = []string{"null", "boolean", "number", "string", "array", "object"}

func genC02(tier, out string, sum *Summary) {
	sh := &Shards{dir: out, prop: "C02", imports: "Checks.Basic", ctype: "bcase", runner: "basic_run", per: 300}
	distinct := map[string]bool{}
	id := 0
	run := func(expr string, doc any, enum bool) Obs {
		id++
		o := search(expr, doc)
		sh.Add(fmt.Sprintf("BC %d %s %s %v %s", id, hx(expr), coqValue(doc), enum, coqObs(o)))
		sid := strconv.Itoa(id)
		sum.Index[sid] = map[string]any{"expr": expr, "doc": toJSON(doc), "observed": obsJSON(o)}
		if len(sum.Samples) < 8 && id%257 == 0 {
			sum.Samples = append(sum.Samples, sum.Index[sid])
		}
		if o.Kind == "val" && o.Value != nil {
			distinct[expr+"|"+toJSON(doc)] = true
		}
		return o
	}
	argNames := []string{"x0", "x1", "x2", "x3"}
	for _, f := range sigs {
		maxA := len(f.args)
		enum := f.name == "keys" || f.name == "values" || f.name == "items"
		// arity: every count from 0 to max+1
		for k := 0; k <= maxA+2; k++ {
			if f.vary && k > 3 {
				continue
			}
			parts := []string{}
			for j := 0; j < k; j++ {
				t := "any"
				if j < len(f.args) {
					t = f.args[j]
				} else if f.vary {
					t = f.args[0]
				}
				if t == "&" {
					parts = append(parts, "&@")
				} else {
					parts = append(parts, argNames[j%4])
				}
			}
			expr := f.name + "(" + strings.Join(parts, ", ") + ")"
			o := compileObs(expr)
			okArity := k >= f.min && (f.vary || k <= maxA)
			sum.count("arity")
			if okArity && o.Kind != "val" {
				sum.direct("arity", expr, nil, fmt.Sprintf("%d arguments are within the signature but Compile fails: %s", k, describe(o)))
			}
			if !okArity && !(o.Kind == "err" && len(o.Cats) == 1 && o.Cats[0] == "CInvalidArity") {
				sum.direct("arity", expr, nil, fmt.Sprintf("%d arguments are outside the signature (%d..%d) but the outcome is %s", k, f.min, maxA, describe(o)))
			}
			// surplus arguments of every form: an expression reference, a literal, a nested call, a parenthesised pipe
			if !okArity && k > maxA && !f.vary {
				for _, extra := range []string{"&@", "&x0", "&x0.y", "`1`", "'s'", "abs(x0)", "(x0 | x1)", "[x0]", "{k: x0}", "!x0", "&(x0 || x1)"} {
					alt := append(append([]string{}, parts[:k-1]...), extra)
					e2 := f.name + "(" + strings.Join(alt, ", ") + ")"
					o2 := compileObs(e2)
					sum.count("arity-surplus")
					if !(o2.Kind == "err" && len(o2.Cats) == 1 && o2.Cats[0] == "CInvalidArity") {
						sum.direct("arity", e2, nil, fmt.Sprintf("%d arguments are outside the signature (%d..%d) but the outcome is %s", k, f.min, maxA, describe(o2)))
					}
				}
			}
		}
		// types: every JSON type at every position, other positions well-typed
		for nargs := f.min; nargs <= maxA; nargs++ {
			if f.vary && nargs > 2 {
				break
			}
			na := nargs
			if f.vary {
				na = 2
			}
			for pos := 0; pos < na; pos++ {
				want := f.args[0]
				if pos < len(f.args) {
					want = f.args[pos]
				}
				if want == "&" {
					continue
				}
				for _, t := range allTypes {
					for rep := 0; rep < 2; rep++ {
						doc := map[string]any{}
						parts := []string{}
						for j := 0; j < na; j++ {
							at := f.args[0]
							if j < len(f.args) {
								at = f.args[j]
							}
							if at == "&" {
								parts = append(parts, pick([]string{"&@", "&a", "&[0]"}))
								continue
							}
							var v any
							if j == pos {
								v = pick(typedVals[t])
							} else {
								v = pick(typedVals[goodType(at)])
							}
							doc[argNames[j]] = v
							parts = append(parts, argNames[j])
						}
						expr := f.name + "(" + strings.Join(parts, ", ") + ")"
						o := run(expr, doc, enum)
						sum.count("types/" + o.Kind)
						typeOK := want == "any" || strings.Contains("|"+want+"|", "|"+t+"|")
						if !typeOK {
							// contains(array|string, any): a non-string needle in a string is simply false
							if !(o.Kind == "err" && len(o.Cats) == 1 && o.Cats[0] == "CInvalidType") {
								sum.direct("type", expr, doc, fmt.Sprintf("argument %d of type %s is outside the signature (%s) but the outcome is %s", pos, t, want, describe(o)))
							}
						} else if o.Kind == "err" && len(o.Cats) == 1 && o.Cats[0] == "CInvalidType" && elementTypesOK(f.name, doc) {
							sum.direct("type", expr, doc, fmt.Sprintf("all arguments are within the signature but the outcome is %s", describe(o)))
						}
					}
				}
			}
		}
	}
	// value-range errors and defaults of optional arguments
	vr := map[string]any{"s": "aébcab", "e": "", "n": json.Number("2")}
	type ex struct {
		expr string
		want any // value, or "!InvalidValue" / "!InvalidType"
	}
	fixed := []ex{
		{"pad_left(s, `-1`)", "!CInvalidValue"}, {"pad_right(s, `2.5`)", "!CInvalidValue"}, {"pad_left(s, `8`, 'xy')", "!CInvalidValue"}, {"pad_left(s, `8`, '')", "!CInvalidValue"},
		{"pad_left(s, `8.0`)", "  aébcab"}, {"pad_right(s, `8e0`, '-')", "aébcab--"}, {"pad_left(s, `3`)", "aébcab"},
		{"split(s, 'b', `-1`)", "!CInvalidValue"}, {"split(s, 'b', `0.5`)", "!CInvalidValue"}, {"split(s, 'b', `1.0`)", []any{"aé", "cab"}}, {"split(s, 'b', `0`)", []any{"aébcab"}},
		{"split(s, 'b')", []any{"aé", "ca", ""}}, {"split(e, 'b')", []any{}}, {"split(s, '', `2`)", []any{"a", "é", "bcab"}}, {"split(s, 'zz')", []any{"aébcab"}}, {"split(s, 'b', `99`)", []any{"aé", "ca", ""}},
		{"find_first(s, 'b', `1.5`)", "!CInvalidValue"}, {"find_first(s, 'b', `0`, `0.5`)", "!CInvalidValue"}, {"find_first(s, 'b', `3.0`)", json.Number("5")},
		{"find_first(s, 'b', `4`, `2`)", nil}, {"find_last(s, 'b', `4`, `2`)", nil}, {"find_first(s, 'b', `0`, `99`)", json.Number("2")}, {"find_last(s, 'a', `-5`)", json.Number("4")}, {"find_first(s, 'a', `0`, `-1`)", nil},
		{"find_first(e, 'a')", nil}, {"find_first(s, '')", nil}, {"find_last(s, 'é')", json.Number("1")},
		{"replace(s, 'a', 'X', `1.5`)", "!CInvalidValue"}, {"replace(s, 'a', 'X', `1`)", "Xébcab"}, {"replace(s, 'a', 'X', `0`)", "aébcab"}, {"replace(s, 'a', 'X')", "XébcXb"}, {"replace(s, 'a', 'X', `2.0`)", "XébcXb"},
		{"from_items([['a', `1`], ['b', `2`]])", map[string]any{"a": json.Number("1"), "b": json.Number("2")}}, {"from_items([['a', `1`], ['a', `2`]])", map[string]any{"a": json.Number("2")}},
		{"from_items([['a']])", "!CInvalidValue"}, {"from_items([[`1`, `2`]])", "!CInvalidValue"}, {"from_items([[null, `2`]])", "!CInvalidValue"}, {"from_items([`1`])", "!CInvalidType"}, {"from_items(`[]`)", map[string]any{}},
		{"trim(' x ')", "x"}, {"trim('xxaxx', 'x')", "a"}, {"trim_left('xxaxx', 'x')", "axx"}, {"trim_right('xxaxx', 'x')", "xxa"}, {"trim(' a ', '')", "a"},
		{"to_number('3.0')", json.Number("3")}, {"to_number('abc')", nil}, {"to_number('null')", nil}, {"to_number('+1')", nil}, {"to_number('.5')", nil}, {"to_number('5.')", nil}, {"to_number(' 1')", nil}, {"to_number('1e2')", json.Number("100")}, {"to_number(`true`)", nil}, {"to_number(`2`)", json.Number("2")},
		{"avg(`[]`)", nil}, {"sum(`[]`)", json.Number("0")}, {"max(`[]`)", nil}, {"min(`[]`)", nil}, {"sort(`[]`)", []any{}}, {"reverse(`[]`)", []any{}}, {"join(',', `[]`)", ""}, {"merge({a: `1`}, {a: `2`, b: `3`})", map[string]any{"a": json.Number("2"), "b": json.Number("3")}},
		{"zip([`1`, `2`], ['a'])", []any{[]any{json.Number("1"), "a"}}}, {"not_null(null, `false`, `1`)", false}, {"not_null(null, null)", nil},
		{"map(&n, [{n: `1`}, `{}`])", []any{json.Number("1"), nil}}, {"let $v = `10` in map(&[@, $v], [`1`])", []any{[]any{json.Number("1"), json.Number("10")}}},
		{"let $v = `1` in sort_by([{k: `2`}, {k: `1`}], &(k * $v))[0].k", json.Number("1")}, {"max_by([{k: 'b'}, {k: 'c'}, {k: 'a'}], &k).k", "c"},
		{"group_by([{t: 'x', i: `1`}, {t: 'y', i: `2`}, {t: 'x', i: `3`}], &t)", map[string]any{"x": []any{map[string]any{"t": "x", "i": json.Number("1")}, map[string]any{"t": "x", "i": json.Number("3")}}, "y": []any{map[string]any{"t": "y", "i": json.Number("2")}}}},
		{"abs(`-2.5`)", json.Number("2.5")}, {"ceil(`1.2`)", json.Number("2")}, {"floor(`-1.2`)", json.Number("-2")}, {"ceil(`-0.5`)", json.Number("0")}, {"avg([`1`, `2`])", json.Number("1.5")},
		{"contains('abc', 'bc')", true}, {"contains('abc', `1`)", false}, {"contains([`1`, 'a'], `1.0`)", true}, {"length('aé😀')", json.Number("3")}, {"type(`1.5`)", "number"}, {"type(n)", "number"}, {"to_array(`1`)", []any{json.Number("1")}}, {"to_array([`1`])", []any{json.Number("1")}},
		{"to_string(`{\"b\":1,\"a\":[true,null]}`)", `{"a":[true,null],"b":1}`}, {"to_string('x')", "x"}, {"keys({a: `1`})", []any{"a"}}, {"items({a: `1`})", []any{[]any{"a", json.Number("1")}}}, {"values({a: `1`})", []any{json.Number("1")}},
		{"starts_with('abc', '')", true}, {"ends_with('abc', 'bc')", true}, {"lower('AbC')", "abc"}, {"upper('aBc')", "ABC"}, {"join('-', ['a', 'b'])", "a-b"},
	}
	for _, c := range fixed {
		o := run(c.expr, vr, false)
		sum.count("fixed")
		if w, ok := c.want.(string); ok && strings.HasPrefix(w, "!") {
			if !(o.Kind == "err" && len(o.Cats) == 1 && o.Cats[0] == w[1:]) {
				sum.direct("spec-example", c.expr, vr, "expected "+w[1:]+", got "+describe(o))
			}
			continue
		}
		if !(o.Kind == "val" && sameValue(o.Value, c.want, false)) {
			sum.direct("spec-example", c.expr, vr, "expected "+toJSON(c.want)+", got "+describe(o))
		}
	}
	// a fault in every argument position of every built-in and arity: the error of the argument is the outcome
	for _, af := range argFaultFamily() {
		o := run(af.expr, af.doc, false)
		sum.count("arg-fault/" + o.Kind)
		want := af.want
		if af.fn == "not_null" {
			want = "" // lazy: arguments after the first non-null one are not evaluated
		}
		if want != "" && !(o.Kind == "err" && len(o.Cats) == 1 && o.Cats[0] == want) {
			sum.direct("arg-fault", af.expr, af.doc, "an argument fails with "+want+"; the call must fail the same way, got "+describe(o))
		}
	}
	// one value from every source into every consumer (families.go)
	runValueSources(sum, "source-independence", 9, func(expr string, doc any, o Obs) {
		id++
		sh.Add(fmt.Sprintf("BC %d %s %s %s %s", id, hx(expr), coqValue(doc), hasEnumText(expr), coqObs(o)))
		sum.Index[strconv.Itoa(id)] = map[string]any{"expr": expr, "doc": toJSON(doc), "observed": obsJSON(o)}
	})
	// every window: find_first / find_last with every start and end around the ends of the subject (negative ones count
	// from the end, those before the beginning are the beginning), on subjects with repeated and multi-byte matches
	{
		k := 0
		for _, sub := range []struct{ s, p string }{{"abcabc", "c"}, {"abcabc", "bc"}, {"ab", "a"}, {"héllo wörld", "l"}, {"aaa", "aa"}, {"abc", "x"}, {"é€é€", "€"}} {
			n := len([]rune(sub.s))
			for a := -n - 2; a <= n+2; a++ {
				for _, f := range []string{"find_first", "find_last"} {
					run(fmt.Sprintf("%s(s, p, `%d`)", f, a), map[string]any{"s": sub.s, "p": sub.p}, false)
					for b := -n - 2; b <= n+2; b++ {
						k++
						if tier != "thorough" && k%3 != 0 {
							continue
						}
						run(fmt.Sprintf("%s(s, p, `%d`, `%d`)", f, a, b), map[string]any{"s": sub.s, "p": sub.p}, false)
						sum.count("find-window")
					}
				}
			}
		}
	}
	// to_number on text that is, or nearly is, a JSON number: a number exactly for the JSON number grammar
	// (no leading zeros, no bare exponent, no surrounding blanks, none of the words other parsers accept)
	for _, x := range numberish(tier) {
		d := map[string]any{"s": x}
		o := run("to_number(s)", d, false)
		sum.count("to_number-numberish")
		if isJSONNumberText(x) {
			if want, ok := toDec(json.Number(x)); ok && !want.IsNaN() && !want.IsInf(0) {
				if !(o.Kind == "val" && sameValue(o.Value, json.Number(x), false)) {
					sum.direct("spec-example", "to_number(s)", d, "the string is a JSON number; expected its value, got "+describe(o))
				}
			}
		} else if !(o.Kind == "val" && o.Value == nil) {
			sum.direct("spec-example", "to_number(s)", d, "the string is not a JSON number; expected null, got "+describe(o))
		}
		if !strings.ContainsAny(x, "'\\") {
			run("to_number('"+x+"')", nil, false)
		}
	}
	// numbers carried by Go integer kinds at the limits of the kind: the numeric built-ins answer with the
	// mathematical value (the magnitude of the most negative value of a kind does not fit the kind)
	for _, v := range []any{int8(-128), int8(127), int16(-32768), int16(32767), int32(math.MinInt32), int32(math.MaxInt32), int64(math.MinInt64), int64(math.MaxInt64), int(math.MinInt), int(math.MaxInt),
		uint8(255), uint16(65535), uint32(math.MaxUint32), uint64(math.MaxUint64), uint(math.MaxUint), int64(-1), int8(-1), uint8(0)} {
		bi, _ := new(big.Int).SetString(fmt.Sprint(v), 10)
		neg := new(big.Int).Neg(bi)
		abs := new(big.Int).Abs(bi)
		for _, c := range []struct {
			e    string
			want *big.Int
		}{{"abs(@)", abs}, {"ceil(@)", bi}, {"floor(@)", bi}, {"- @", neg}, {"+ @", bi}, {"@ * `1`", bi}, {"sum([@])", bi}, {"max([@])", bi}, {"min([@, @])", bi}, {"to_number(@)", bi}, {"abs(@) - abs(@) + abs(@)", abs}, {"avg([@])", bi}, {"abs(- @)", abs}} {
			o := run(c.e, v, false)
			sum.count("kind-limits")
			if !(o.Kind == "val" && sameValue(o.Value, json.Number(c.want.String()), false)) {
				sum.direct("spec-example", c.e, v, fmt.Sprintf("for the %T %v the value is %s, got %s", v, v, c.want, describe(o)))
			}
		}
		o := run("abs(@) >= `0` && type(abs(@)) == 'number'", v, false)
		if !(o.Kind == "val" && o.Value == true) {
			sum.direct("spec-example", "abs(@) >= `0`", v, "an absolute value is a non-negative number, got "+describe(o))
		}
	}
	// to_string writes JSON text: the characters < > & inside nested strings and keys come back when the text is
	// decoded again, and text that merely looks like an escape is kept as it is
	for _, str := range []string{"<", ">", "&", "a<b>&c", `\u003c`, `\u003e`, `\u0026`, `x\u003cy`, `\\u003c`, "\u2028", `\`, `"`, `\"`, "<\\u003c>", "&amp;", "</script>"} {
		for _, doc := range []any{[]any{str}, map[string]any{str: str}, []any{[]any{str, map[string]any{"k": str}}}, str} {
			o := run("to_string(@)", doc, false)
			sum.count("to_string-text")
			txt, ok := o.Value.(string)
			if o.Kind != "val" || !ok {
				sum.direct("spec-example", "to_string(@)", doc, "expected a string, got "+describe(o))
				continue
			}
			if _, isStr := doc.(string); isStr {
				if txt != str {
					sum.direct("spec-example", "to_string(@)", doc, "to_string of a string is the string, got "+describe(o))
				}
				continue
			}
			var back any
			if err := json.Unmarshal([]byte(txt), &back); err != nil || !sameValue(back, doc, false) {
				sum.direct("spec-example", "to_string(@)", doc, fmt.Sprintf("the text %q does not decode to the value again", txt))
			}
		}
	}
	// small-scope enumeration of calls: every built-in around every small operand and every small expression
	// reference, on documents of every shape (null elements, mixed arrays, scalars where arrays are expected)
	{
		per, d3 := 2, 400
		if tier == "thorough" {
			per, d3 = len(ssDocs), 8000
		}
		for _, sc := range smallScope(ssCfg{funcs: true, errs: true}, per, d3) {
			if !hasCall(sc.e) {
				continue
			}
			text := unparse(sc.e)
			doc := sc.doc
			if hasEnum(sc.e) && orderSensitive(sc.e) {
				if buildsObjects(sc.e) {
					continue
				}
				doc = bestNarrow(text, doc)
			}
			run(text, doc, hasEnum(sc.e))
			sum.count("small-scope")
		}
	}
	// a JSON number that no decimal128 can hold is still a number: the numeric built-ins must not call it an
	// argument of the wrong type (recorded as a known finding: they do)
	bigN := map[string]any{"n": json.Number("1e7000"), "m": json.Number("-1e7000"), "t": json.Number("1e-7000")}
	for _, e := range []string{"abs(n)", "ceil(n)", "floor(m)", "sum([n])", "avg([n, n])", "max([n])", "min([m, n])", "sort([n, m])", "pad_left('a', n)", "abs(`1e7000`)", "n + `1`", "n * m", "- n"} {
		o := search(e, bigN)
		sum.count("number-out-of-decimal-range")
		if o.Kind == "err" && len(o.Cats) == 1 && o.Cats[0] == "CInvalidType" {
			sum.direct("number-out-of-decimal-range", e, bigN, "the argument is a JSON number (type() says number) but the call fails with "+describe(o))
		}
	}
	// a type fault anywhere wins over a value fault anywhere else
	for _, e := range []string{"pad_left('a', `-1`, `5`)", "pad_left(`1`, `-1`)", "pad_right('a', `1.5`, `1`)", "pad_right(`1`, `2`, 'xy')", "split('a', `1`, `-1`)", "split(`1`, 'a', `-1`)", "split(`1`, 'a', `0.5`)",
		"replace('a', 'a', `1`, `-1`)", "replace('a', `1`, 'b', `1.5`)", "replace(`1`, 'a', 'b', `-1`)", "find_first('a', 'a', `1.5`, 'x')", "find_last('a', 'a', `1.5`, 'x')", "find_first('a', 'a', `1.5`, `null`)", "find_last('a', 'a', `0.5`, `[]`)",
		"find_first('a', `1`, `1.5`)", "find_last(`1`, 'a', `0.5`, `1`)", "find_first(`1`, 'a', `0`, `1.5`)", "find_last('a', `{}`, `0`, `1.5`)", "from_items([['a'], `1`])", "from_items([[`1`, `2`], 'x'])", "from_items([['a', `1`, `2`], `null`])"} {
		o := run(e, vr, false)
		sum.count("mixed-faults")
		if !(o.Kind == "err" && len(o.Cats) == 1 && o.Cats[0] == "CInvalidType") {
			sum.direct("spec-example", e, vr, "an argument outside the signature must be an invalid-type error even when another argument is out of range, got "+describe(o))
		}
	}
	// counts and offsets around the number of code points and the number of bytes, against a rune-level reference
	for _, subj := range []string{"", "a", "éa", "aébcab", "日本語", "ab😀", "αβγ", "héllo", "a,b,,c", "é"} {
		rs := []rune(subj)
		l, nb := int64(len(rs)), int64(len(subj))
		for _, sep := range []string{"", "a", "b", ",", "é", "😀", "ll"} {
			for _, k := range []int64{0, 1, 2, l - 2, l - 1, l, l + 1, nb - 1, nb, nb + 1, 2 * nb, 99} {
				if k < 0 {
					continue
				}
				d := map[string]any{"s": subj, "p": sep}
				e := "split(s, p, `" + strconv.FormatInt(k, 10) + "`)"
				o := run(e, d, false)
				sum.count("count-boundaries")
				if want := refSplit(subj, sep, k); !(o.Kind == "val" && sameValue(o.Value, want, false)) {
					sum.direct("spec-example", e, d, "expected "+toJSON(want)+", got "+describe(o))
				}
				if sep != "" {
					e2 := "replace(s, p, '-', `" + strconv.FormatInt(k, 10) + "`)"
					o2 := run(e2, d, false)
					if want := strings.Replace(subj, sep, "-", int(k)); !(o2.Kind == "val" && o2.Value == want) {
						sum.direct("spec-example", e2, d, "expected "+toJSON(want)+", got "+describe(o2))
					}
				}
			}
			d := map[string]any{"s": subj, "p": sep}
			if o := run("split(s, p)", d, false); !(o.Kind == "val" && sameValue(o.Value, refSplit(subj, sep, 1<<40), false)) {
				sum.direct("spec-example", "split(s, p)", d, "expected "+toJSON(refSplit(subj, sep, 1<<40))+", got "+describe(o))
			}
		}
	}
	// the three trims: an omitted, an empty and an explicit character set, on subjects padded at either end
	for _, subj := range []string{"  x  ", "x  ", "  x", "\t x \n", "xx a xx", "", "   ", "a b"} {
		d := map[string]any{"s": subj}
		for _, f := range []struct {
			name        string
			left, right bool
		}{{"trim", true, true}, {"trim_left", true, false}, {"trim_right", false, true}} {
			want := subj
			if f.left {
				want = strings.TrimLeft(want, " \t\n\r")
			}
			if f.right {
				want = strings.TrimRight(want, " \t\n\r")
			}
			for _, e := range []string{f.name + "(s)", f.name + "(s, '')"} {
				o := run(e, d, false)
				sum.count("trim-defaults")
				if !(o.Kind == "val" && o.Value == want) {
					sum.direct("spec-example", e, d, "expected "+toJSON(want)+", got "+describe(o))
				}
			}
			wx := subj
			if f.left {
				wx = strings.TrimLeft(wx, "x ")
			}
			if f.right {
				wx = strings.TrimRight(wx, "x ")
			}
			if o := run(f.name+"(s, 'x ')", d, false); !(o.Kind == "val" && o.Value == wx) {
				sum.direct("spec-example", f.name+"(s, 'x ')", d, "expected "+toJSON(wx)+", got "+describe(o))
			}
		}
	}
	// aggregates round once, half to even
	for _, c := range []ex{{"sum(`[20000000000000000000000000000000000, 5]`)", json.Number("2e34")}, {"sum(`[20000000000000000000000000000000000, 15]`)", json.Number("20000000000000000000000000000000020")}, {"sum(`[2e34, 2, 3]`)", json.Number("2e34")},
		{"sum(`[20000000000000000000000000000000000, 5.000000001]`)", json.Number("20000000000000000000000000000000010")}, {"avg(`[4e34, 10]`)", json.Number("2e34")}, {"sum(`[9999999999999999999999999999999999, 0.5]`)", json.Number("1e34")}, {"avg(`[1, 1, 0.9999999999999999999999999999999999]`)", json.Number("1")},
		{"sum(`[1e36, 1, -1e36]`)", json.Number("1")}, {"avg(`[1e36, 3, -1e36]`)", json.Number("1")}, {"sum(`[0.1, 0.2]`)", json.Number("0.3")}} {
		o := run(c.expr, vr, false)
		sum.count("aggregate-rounding")
		if !(o.Kind == "val" && sameValue(o.Value, c.want, false)) {
			sum.direct("spec-example", c.expr, vr, "expected "+toJSON(c.want)+", got "+describe(o))
		}
	}
	sh.Flush()
	sum.Cases = id
	sum.Shards = sh.files
	sum.Distinct = len(distinct)
	sum.Exhaustive = true
	sum.Rule = "for each of the built-ins: every argument count from 0 to max+2 (arity error exactly outside the signature), every JSON type at every position with the other positions well-typed (invalid-type error exactly when the type is outside the signature of the specification, listed independently in the harness), and a table of specified results for optional-argument defaults, value-range errors and boundary values; every call is also compared with the model; distinct = (expression, document) with a non-null result"
}

func goodType(t string) string {
	if t == "any" {
		return pick(allTypes)
	}
	return strings.Split(t, "|")[0]
}

// functions whose array argument must have elements of particular types: an invalid-type error
// caused by an element is legitimate
func elementTypesOK(name string, doc map[string]any) bool {
	switch name {
	case "avg", "sum", "max", "min", "sort", "join", "from_items", "max_by", "min_by", "sort_by", "group_by", "zip", "merge", "map":
		return false
	}
	return true
}

// ---- C14: results do not depend on which Go type carries a number ----
type kindConv struct {
	name string
	conv func(n json.Number) (any, bool)
}

func intConv[T any](name string, lo, hi float64, f func(int64) T) kindConv {
	return kindConv{name, func(n json.Number) (any, bool) {
		i, err := strconv.ParseInt(string(n), 10, 64)
		if err != nil || float64(i) < lo || float64(i) > hi {
			return nil, false
		}
		return f(i), true
	}}
}

var kindConvs = []kindConv{
	{"json.Number", func(n json.Number) (any, bool) { return n, true }},
	{"decimal", func(n json.Number) (any, bool) { d, err := decimal128.Parse(string(n)); return d, err == nil }},
	// the same value in another spelling: a fraction part of zeros, an exponent, a scaled coefficient
	{"json.Number/spelled", func(n json.Number) (any, bool) {
		t := string(n)
		if strings.ContainsAny(t, "eE") {
			return nil, false
		}
		if !strings.Contains(t, ".") {
			return json.Number(pick([]string{t + ".0", t + "e0", t + "0E-1", t + ".000", t + "00e-2"})), true
		}
		return json.Number(pick([]string{t + "0", t + "e0", t + "00"})), true
	}},
	{"decimal/scaled", func(n json.Number) (any, bool) {
		t := string(n)
		if strings.ContainsAny(t, "eE") {
			return nil, false
		}
		if !strings.Contains(t, ".") {
			t += "."
		}
		d, err := decimal128.Parse(t + pick([]string{"0", "00", "0000"}))
		return d, err == nil
	}},
	{"float64", func(n json.Number) (any, bool) {
		f, err := strconv.ParseFloat(string(n), 64)
		if err != nil {
			return nil, false
		}
		d, _ := decimal128.Parse(string(n))
		if !decimal128.FromFloat64(f).Equal(d) {
			return nil, false // not exactly representable
		}
		return f, true
	}},
	{"float32", func(n json.Number) (any, bool) {
		f, err := strconv.ParseFloat(string(n), 32)
		if err != nil {
			return nil, false
		}
		d, _ := decimal128.Parse(string(n))
		if !decimal128.FromFloat64(float64(float32(f))).Equal(d) {
			return nil, false
		}
		return float32(f), true
	}},
	intConv("int", math.MinInt64, math.MaxInt64, func(i int64) int { return int(i) }),
	intConv("int8", -128, 127, func(i int64) int8 { return int8(i) }),
	intConv("int16", -32768, 32767, func(i int64) int16 { return int16(i) }),
	intConv("int32", math.MinInt32, math.MaxInt32, func(i int64) int32 { return int32(i) }),
	intConv("int64", math.MinInt64, math.MaxInt64, func(i int64) int64 { return i }),
	{"uint", func(n json.Number) (any, bool) { // 64 bits wide here: every value up to 2^64-1
		u, err := strconv.ParseUint(string(n), 10, 64)
		return uint(u), err == nil
	}},
	intConv("uint8", 0, 255, func(i int64) uint8 { return uint8(i) }),
	intConv("uint16", 0, 65535, func(i int64) uint16 { return uint16(i) }),
	intConv("uint32", 0, math.MaxUint32, func(i int64) uint32 { return uint32(i) }),
	{"uint64", func(n json.Number) (any, bool) {
		u, err := strconv.ParseUint(string(n), 10, 64)
		return u, err == nil
	}},
}

// replace every number leaf by another representation of the same value (chosen per leaf)
func rekind(v any, choose func(n json.Number) any) any {
	switch v := v.(type) {
	case json.Number:
		return choose(v)
	case []any:
		c := make([]any, len(v))
		for i, x := range v {
			c[i] = rekind(x, choose)
		}
		return c
	case map[string]any:
		c := map[string]any{}
		keys := make([]string, 0, len(v))
		for k := range v {
			keys = append(keys, k)
		}
		sort.Strings(keys) // choose draws from the PRNG: visit the members in a fixed order
		for _, k := range keys {
			c[k] = rekind(v[k], choose)
		}
		return c
	}
	return v
}

func usesFloat(v any) bool {
	switch v := v.(type) {
	case float64, float32:
		return true
	case []any:
		for _, x := range v {
			if usesFloat(x) {
				return true
			}
		}
	case map[string]any:
		for _, x := range v {
			if usesFloat(x) {
				return true
			}
		}
	}
	return false
}

var c14Exprs = []string{
	"a + b", "a - b", "a * b", "a // b", "a % b", "- a", "+ a", "a == b", "a != b", "a < b", "a <= b", "a > b", "a >= b", "a == `2`", "l[?@ > `1`]", "l[?@ == a]",
	"sort(l)", "sort_by(o, &n)[*].n", "max(l)", "min(l)", "max_by(o, &n).n", "min_by(o, &n).n", "sum(l)", "avg(l)", "abs(c)", "ceil(h)", "floor(h)", "type(a)", "to_number(a)",
	"!a", "a && b", "a || b", "contains(l, a)", "contains(l, `2`)", "l[a]", "length(l) == a", "not_null(a)", "to_array(a)", "[a, b] == [`2`, `3`]", "{x: a} == {x: `2`}",
	"pad_left('x', a)", "pad_right('x', b, '-')", "split('a,b,c,d', ',', a)", "replace('aaaa', 'a', 'b', a)", "find_first('abcabc', 'b', a)", "find_last('abcabc', 'b', z, b)", "find_first('abc', 'c', h)", "pad_left('x', z)",
	"h < c", "h <= h", "sort([h, c, a])", "max([h, c])", "l[?@ < h]", "h == c", "min_by(o, &n).n", "h - c", "h + a",
	"a / a", "h + h", "h * a", "(a + b) * c", "l[*] | [?@ >= a]", "zip(l, l)", "merge({k: a}, {j: b})", "join('', map(&to_string(type(@)), l))", "group_by(o, &to_string(type(n)))", "o[?n == a].n", "h // a", "c // a", "c % a", "- c // a",
}

func genC14(tier, out string, sum *Summary) {
	n := 400
	if tier == "thorough" {
		n = 8000
	}
	sh := &Shards{dir: out, prop: "C14", imports: "Checks.Basic", ctype: "bcase", runner: "basic_run", per: 300}
	distinct := map[string]bool{}
	id := 0
	base := func() map[string]any {
		nums := []string{"0", "1", "2", "3", "4", "7", "-7", "-1", "100", "0.5", "2.5", "-2.5", "1.0", "3.0", "127", "255"}
		if rng.Intn(3) == 0 { // integers beyond the binary64 mantissa and at the 64-bit limits (never representable as floats)
			nums = []string{"9007199254740992", "9007199254740993", "9007199254740994", "-9007199254740993", "9223372036854775807", "9223372036854775806", "-9223372036854775808", "9223372036854775808", "18446744073709551615", "18446744073709551616", "4611686018427387904", "4611686018427387905", "2", "1"}
		}
		pn := func() json.Number { return json.Number(pick(nums)) }
		pi := func() json.Number { return json.Number(pick([]string{"0", "1", "2", "3", "4", "7"})) }
		return map[string]any{"a": pi(), "b": json.Number(pick([]string{"1", "2", "3", "5"})), "c": json.Number(pick([]string{"-7", "7", "-1", "9"})), "h": pn(), "z": json.Number("0"),
			"l": []any{pn(), pi(), pn(), json.Number("2")}, "o": []any{map[string]any{"n": pn()}, map[string]any{"n": pi()}, map[string]any{"n": pn()}}}
	}
	for i := 0; i < n; i++ {
		doc := base()
		e := pick(c14Exprs)
		ref := search(e, doc)
		sum.count("reference/" + ref.Kind)
		for rep := 0; rep < 5; rep++ {
			floats := rng.Intn(3) == 0 // float kinds only for whole documents: mixing float and decimal arithmetic is not comparable
			uniform := kindConvs[rng.Intn(len(kindConvs))]
			d2 := rekind(doc, func(num json.Number) any {
				for try := 0; try < 6; try++ {
					k := kindConvs[rng.Intn(len(kindConvs))]
					if rep == 0 {
						k = uniform
					}
					if (k.name == "float64" || k.name == "float32") != floats && !(rep == 0) {
						continue
					}
					if v, ok := k.conv(num); ok {
						return v
					}
				}
				return num
			})
			if usesFloat(d2) && !allNumbersFloat(d2) {
				continue
			}
			o := search(e, d2)
			id++
			sum.count("kinds")
			if usesFloat(d2) {
				sum.count("float-documents")
			}
			sh.Add(fmt.Sprintf("BC %d %s %s false %s", id, hx(e), coqValue(d2), coqObs(o)))
			sid := strconv.Itoa(id)
			sum.Index[sid] = map[string]any{"expr": e, "doc": fmt.Sprintf("%#v", d2), "observed": obsJSON(o)}
			if len(sum.Samples) < 8 && id%97 == 0 {
				sum.Samples = append(sum.Samples, sum.Index[sid])
			}
			if !sameObs(ref, o, false) {
				if usesFloat(d2) && floatRounding(ref, o) {
					// an intermediate value is not exactly representable in binary: outside the property's premise
					sum.count("float-rounding-skipped")
				} else {
					sum.direct("kind-dependence", e, doc, fmt.Sprintf("with json.Number leaves %s; with leaves %s it gives %s", describe(ref), fmt.Sprintf("%#v", d2), describe(o)))
				}
			}
			if ref.Kind == "val" && ref.Value != nil {
				distinct[e+toJSON(doc)] = true
			}
		}
	}
	// every combination of two constructs on documents whose numbers are carried by every kind in turn
	{
		ndocs := []any{jsonDoc(`{"a": [3, 1, 2, 1], "b": 2}`), jsonDoc(`{"a": {"a": 1, "b": [3, 0]}, "b": [{"a": 2}, {"a": 1}, 5]}`), jsonDoc(`[[1, 2], [3], [], 0]`), jsonDoc(`{"a": -3, "b": 7}`), jsonDoc(`[{"a": 1, "b": 2}, {"a": 3}, null, {"a": 0, "b": 1}]`), jsonDoc(`{"a": 127, "b": [255, 1, 0]}`)}
		k := 0
		for i, sc := range smallScope(ssCfg{funcs: true, bools: true, lets: true}, 1, 0) {
			if tier != "thorough" && i%4 != 0 {
				continue
			}
			text := unparse(sc.e)
			doc := ndocs[i%len(ndocs)]
			ref := search(text, doc)
			un := hasEnum(sc.e)
			if un && orderSensitive(sc.e) {
				continue
			}
			for rep := 0; rep < 3; rep++ {
				k++
				kc := kindConvs[k%len(kindConvs)]
				if strings.Contains(text, "to_string") && (kc.name == "float64" || kc.name == "float32" || strings.HasPrefix(kc.name, "decimal") || strings.Contains(kc.name, "spelled")) {
					continue // the text of a number is not kind-independent
				}
				d2 := rekind(doc, func(num json.Number) any {
					if v, ok := kc.conv(num); ok {
						return v
					}
					return num
				})
				if usesFloat(d2) && !allNumbersFloat(d2) {
					continue
				}
				o := search(text, d2)
				sum.count("small-scope")
				if !sameObs(ref, o, un) {
					sum.direct("kind-dependence", text, doc, fmt.Sprintf("with json.Number leaves %s; with %s leaves (%#v) it gives %s", describe(ref), kc.name, d2, describe(o)))
				}
			}
		}
	}
	// powers of two are exact in every representation that can hold them: the limits of the integer kinds as floats
	for _, t := range []string{"9223372036854775808", "-9223372036854775808", "9007199254740992", "18446744073709551616", "4294967296", "-2147483648", "1", "0"} {
		docJ := map[string]any{"a": json.Number(t)}
		for _, e := range []string{"sum([a])", "avg([a])", "max([a])", "min([a, a])", "a == a", "sum([a]) == a", "sum([a]) > `0`", "type(sum([a]))", "abs(a) == a || abs(a) > a", "- a == - a", "sort([a])[0] == a", "sum([a, a]) == a + a", "[a][?@ == $.a] | length(@)", "to_number(a) == a", "ceil(a) == floor(a)", "max_by([{n: a}], &n).n == a"} {
			ref := search(e, docJ)
			for _, kn := range []string{"float64", "float32", "decimal", "uint64", "int64", "uint", "int", "json.Number/spelled", "decimal/scaled"} {
				v, ok := convByName(kn)(json.Number(t))
				if !ok {
					continue
				}
				o := search(e, map[string]any{"a": v})
				sum.count("exact-powers")
				if !sameObs(ref, o, false) {
					sum.direct("kind-dependence", e, docJ, fmt.Sprintf("with a json.Number %s; with a %s (%#v) it gives %s", describe(ref), kn, v, describe(o)))
				}
			}
		}
	}
	// integer arguments at and beyond the limits of int64, carried by every kind that can hold the value: the same
	// outcome as for the json.Number (no call here builds anything whose size depends on the value)
	for _, t := range []string{"9223372036854775807", "9223372036854775808", "9223372036854775809", "18446744073709551615", "-9223372036854775808", "4611686018427387904", "4294967296", "2147483648", "3", "0", "-1"} {
		docJ := map[string]any{"a": json.Number(t), "s": "abcabc"}
		for _, e := range []string{"find_first(s, 'c', a)", "find_first(s, 'c', `0`, a)", "find_last(s, 'c', a)", "find_last(s, 'c', `0`, a)", "find_first(s, 'c', a, a)", "split(s, 'b', a)", "replace(s, 'b', 'x', a)", "pad_left(s, a)", "pad_right(s, a, '-')", "find_last(s, 'b', `1`, a)"} {
			if strings.HasPrefix(e, "pad_") && !(len(t) <= 2 || strings.HasPrefix(t, "-") || t == "9223372036854775808" || t == "9223372036854775809" || t == "18446744073709551615") {
				continue // a width that is a legal size would be built
			}
			ref := search(e, docJ)
			for _, k := range kindConvs {
				if k.name == "float64" || k.name == "float32" {
					continue
				}
				v, ok := k.conv(json.Number(t))
				if !ok {
					continue
				}
				o := search(e, map[string]any{"a": v, "s": "abcabc"})
				sum.count("integer-arguments")
				if !sameObs(ref, o, false) {
					sum.direct("kind-dependence", e, docJ, fmt.Sprintf("with a json.Number %s; with a %s (%#v) it gives %s", describe(ref), k.name, v, describe(o)))
				}
			}
		}
	}
	// one value, every spelling a JSON number can have (exponents without a decimal point, trailing zeros, scaled
	// coefficients) and every kind that holds it: rounding functions and comparisons see the value, not the text
	for _, grp := range [][]string{{"1.5", "15e-1", "150E-2", "1.50", "0.15e1", "0.015E+2"}, {"-0.5", "-5e-1", "-50e-2", "-0.50"}, {"0.25", "25e-2", "2.5e-1"}, {"1200", "12e2", "1.2e3", "1200.0", "120E1"}, {"-2.5", "-25e-1", "-250e-2"}, {"3", "3.0", "30e-1", "0.3e1", "3e0"}, {"0", "0e-3", "0.0", "-0", "0E5"},
		{"1e70", "1" + strings.Repeat("0", 70), "1" + strings.Repeat("0", 70) + ".000", "0.1e71", strings.Repeat("0", 0) + "10" + strings.Repeat("0", 69) + "e0"}, {"1e-71", "0." + strings.Repeat("0", 70) + "1", "0." + strings.Repeat("0", 70) + "10", "10e-72"},
		{"123456789012345678901234567890123", "123456789012345678901234567890123." + strings.Repeat("0", 40), "123456789012345678901234567890123" + strings.Repeat("0", 40) + "e-40"}, {"7", "7." + strings.Repeat("0", 100), strings.Repeat("0", 0) + "7" + strings.Repeat("0", 100) + "e-100"}} {
		docJ := map[string]any{"a": json.Number(grp[0])}
		for _, e := range []string{"ceil(a)", "floor(a)", "[ceil(a), floor(a)]", "abs(a)", "- a", "a + `0`", "a * `2`", "a == `1.5`", "a < `1`", "to_number(a)", "sort([a, `1`])", "max([a, `1`])", "sum([a])", "avg([a, a])", "a // `1`", "a % `1`", "ceil(a) == floor(a)", "!a", "contains([a], a)", "type(a)", "floor(- a)", "ceil(a + a)"} {
			ref := search(e, docJ)
			var vals []any
			for _, sp := range grp[1:] {
				vals = append(vals, json.Number(sp))
				if d, err := decimal128.Parse(sp); err == nil {
					vals = append(vals, d)
				}
			}
			for _, k := range kindConvs {
				if v, ok := k.conv(json.Number(grp[0])); ok && k.name != "json.Number" {
					vals = append(vals, v)
				}
			}
			for _, v := range vals {
				if _, isF := v.(float64); isF && strings.ContainsAny(e, "%") {
					continue
				}
				o := search(e, map[string]any{"a": v})
				sum.count("spellings")
				if !sameObs(ref, o, false) && !(usesFloat(v) && floatRounding(ref, o)) {
					sum.direct("kind-dependence", e, docJ, fmt.Sprintf("with the json.Number %s it gives %s; with %#v it gives %s", grp[0], describe(ref), v, describe(o)))
				}
			}
		}
	}
	// functions that only order or compare may see floats next to every other kind
	for _, trio := range [][3]string{{"2.5", "1", "3"}, {"3", "2", "1"}, {"0.5", "-1", "0"}, {"2", "2.5", "2"}, {"9007199254740992", "1", "9007199254740993"}} {
		docJ := map[string]any{"l": []any{json.Number(trio[0]), json.Number(trio[1]), json.Number(trio[2])}}
		for _, e := range []string{"sort(l)", "max(l)", "min(l)", "sort_by(l, &@)", "max_by(l, &@)", "l[?@ > `1`]", "l[0] == l[2]", "contains(l, `2`)", "sort(l)[0] == min(l)", "l[0] < l[1]", "[l[0], l[1]] == [l[0], l[1]]"} {
			ref := search(e, docJ)
			for fi := 0; fi < 3; fi++ {
				for _, k := range kindConvs {
					if k.name == "float64" || k.name == "float32" {
						continue
					}
					vals := make([]any, 3)
					okAll := true
					for j := range vals {
						conv := k.conv
						if j == fi {
							conv = convByName("float64")
						}
						v, ok := conv(json.Number(trio[j]))
						if !ok {
							okAll = false
						}
						vals[j] = v
					}
					if !okAll {
						continue
					}
					d2 := map[string]any{"l": vals}
					o := search(e, d2)
					sum.count("float-among-kinds")
					if !sameObs(ref, o, false) {
						sum.direct("kind-dependence", e, docJ, fmt.Sprintf("with json.Number elements %s; with elements %#v it gives %s", describe(ref), vals, describe(o)))
					}
				}
			}
		}
	}
	// systematic matrix: every operator x sign / magnitude combinations x every kind (uniform documents)
	pairs := [][2]string{{"7", "2"}, {"-7", "2"}, {"7", "-2"}, {"-7", "-2"}, {"2.5", "-0.5"}, {"-2.5", "0.5"}, {"0", "3"}, {"3", "3"},
		{"9007199254740992", "9007199254740993"}, {"9007199254740993", "9007199254740992"}, {"9223372036854775806", "9223372036854775807"}, {"-9223372036854775808", "-9223372036854775807"},
		{"4611686018427387904", "4611686018427387905"}, {"18446744073709551614", "18446744073709551615"}, {"127", "-128"}, {"255", "1"},
		{"9999999999999", "10000000000000"}, {"29999999999999", "10000000000000"}, {"-10000000000001", "10000000000000"}, {"6999999999999", "1000000000000"}, {"9007199254740991", "9007199254740992"}, {"4503599627370497", "4503599627370496"},
		{"-128", "127"}, {"-32768", "1"}, {"-2147483648", "3"}, {"-9223372036854775808", "1"}, {"9223372036854775808", "1"}, {"9223372036854775808", "-9223372036854775808"}, {"18446744073709551616", "2"}, {"4294967296", "65536"}}
	ops := []string{"a < b", "a <= b", "a > b", "a >= b", "a == b", "a != b", "a + b", "a - b", "a * b", "a / b", "a // b", "a % b", "- a // b", "max([a, b])", "min([a, b])", "sort([a, b])", "[a, b][?@ > $.a]", "[a, b][?@ <= $.b]", "max_by([{n: a}, {n: b}], &n).n", "sort_by([{n: a}, {n: b}], &n)[0].n", "abs(a)", "- a", "- a > `0`", "a + - a", "sum([a, b])", "avg([a, b])", "sum([a])", "max([a, - a])", "+ a", "type(+ a)", "ceil(a)", "floor(b)", "to_number(a)", "sum([a, b]) > `0`", "a // b * b + a % b", "contains([a], b)", "a && b", "type(a)"}
	for pi, pr := range pairs {
		docJ := map[string]any{"a": json.Number(pr[0]), "b": json.Number(pr[1])}
		for _, e := range ops {
			ref := search(e, docJ)
			for _, k := range kindConvs {
				if k.name == "float64" || k.name == "float32" {
					// whole numbers below 2^53 whose quotient is next to an integer: floor division, sums and comparisons
					// are exact in binary, the other operations are not
					nearInt := pi >= 16 && pi < 22
					if nearInt && !(e == "a // b" || e == "- a // b" || e == "a < b" || e == "a == b" || e == "a - b" || e == "a >= b" || e == "max([a, b])") {
						continue
					}
					if pi >= 22 {
						continue // quotients and sums of these pairs are not exactly representable in binary
					}
				}
				va, oka := k.conv(json.Number(pr[0]))
				vb, okb := k.conv(json.Number(pr[1]))
				if !oka || !okb {
					continue
				}
				d2 := map[string]any{"a": va, "b": vb}
				o := search(e, d2)
				id++
				sum.count("matrix")
				sh.Add(fmt.Sprintf("BC %d %s %s false %s", id, hx(e), coqValue(d2), coqObs(o)))
				sum.Index[strconv.Itoa(id)] = map[string]any{"expr": e, "doc": fmt.Sprintf("%#v", d2), "observed": obsJSON(o)}
				if !sameObs(ref, o, false) {
					sum.direct("kind-dependence", e, docJ, fmt.Sprintf("with json.Number operands %s; with %s operands (%#v) it gives %s", describe(ref), k.name, d2, describe(o)))
				}
				distinct[e+pr[0]+pr[1]] = true
			}
		}
	}
	sh.Flush()
	sum.Cases = id
	sum.Shards = sh.files
	sum.Distinct = len(distinct)
	sum.Rule = "expressions covering comparisons, equality, sorting, extrema, truthiness, type(), arithmetic and every integer-argument position, on documents whose number leaves (small integers and halves, exactly representable everywhere) are re-typed leaf by leaf as json.Number, decimal, int, int8..int64, uint..uint64, and (whole documents) float32/float64; every outcome must equal the json.Number outcome by value; also compared with the model; distinct = (expression, document) with a non-null result"
}

func allNumbersFloat(v any) bool {
	switch v := v.(type) {
	case float64, float32:
		return true
	case []any:
		for _, x := range v {
			if !allNumbersFloat(x) {
				return false
			}
		}
		return true
	case map[string]any:
		for _, x := range v {
			if !allNumbersFloat(x) {
				return false
			}
		}
		return true
	case nil, bool, string:
		return true
	}
	return false
}

// split at the level of code points: at most k cuts
func refSplit(s, sep string, k int64) any {
	if k == 0 {
		return []any{s}
	}
	if s == "" {
		return []any{}
	}
	var parts []string
	if sep == "" {
		rs := []rune(s)
		cut := k
		if cut > int64(len(rs))-1 {
			cut = int64(len(rs)) - 1
		}
		for i := int64(0); i < cut; i++ {
			parts = append(parts, string(rs[i]))
		}
		parts = append(parts, string(rs[cut:]))
	} else {
		n := int(k) + 1
		if k > 1<<30 {
			n = -1
		}
		parts = strings.SplitN(s, sep, n)
	}
	out := make([]any, len(parts))
	for i, p := range parts {
		out[i] = p
	}
	return out
}

func hasCall(e *R) bool {
	if e == nil {
		return false
	}
	if e.K == KCall {
		return true
	}
	if hasCall(e.L) || hasCall(e.Rt) || hasCall(e.Cond) {
		return true
	}
	for _, x := range e.Es {
		if hasCall(x) {
			return true
		}
	}
	for _, kv := range e.KEs {
		if hasCall(kv.E) {
			return true
		}
	}
	for _, a := range e.Args {
		if hasCall(a.E) {
			return true
		}
	}
	return false
}

// do two outcomes differ only by binary rounding of a number (relative error below 1e-12)?
func floatRounding(a, b Obs) bool {
	if a.Kind != "val" || b.Kind != "val" {
		return false
	}
	return nearValues(a.Value, b.Value)
}

func nearValues(x, y any) bool {
	if dx, ok := toDec(x); ok {
		dy, ok2 := toDec(y)
		if !ok2 || dx.IsNaN() || dy.IsNaN() || dx.IsInf(0) || dy.IsInf(0) {
			return false
		}
		fx, fy := dx.Float64(), dy.Float64()
		d := math.Abs(fx - fy)
		m := math.Max(math.Abs(fx), math.Abs(fy))
		return d <= 1e-12*m
	}
	switch xv := x.(type) {
	case []any:
		yv, ok := y.([]any)
		if !ok || len(xv) != len(yv) {
			return false
		}
		for i := range xv {
			if !sameValue(xv[i], yv[i], false) && !nearValues(xv[i], yv[i]) {
				return false
			}
		}
		return true
	case map[string]any:
		yv, ok := y.(map[string]any)
		if !ok || len(xv) != len(yv) {
			return false
		}
		for k, v := range xv {
			w, ok := yv[k]
			if !ok || (!sameValue(v, w, false) && !nearValues(v, w)) {
				return false
			}
		}
		return true
	}
	return false
}

func convByName(name string) func(json.Number) (any, bool) {
	for _, k := range kindConvs {
		if k.name == name {
			return k.conv
		}
	}
	panic("no such kind " + name)
}
