package main

// Small-scope enumeration: every expression of depth <= 2 over a small set of leaves and every
// construct of the language (plus a deterministic sample of depth 3), on a fixed set of small
// documents that put every JSON type under every construct. Random generation reaches deep
// combinations; this stream makes sure that no shallow combination of two constructs is left to chance
// (a construct applied to a value of the "wrong" type, an operand that fails behind an operator that
// must not evaluate it, a right-hand side that is not a plain field, ...).

import "encoding/json"

type ssCfg struct {
	funcs bool // built-in calls
	lets  bool // let expressions and variables
	errs  bool // leaves that fail (undefined variable, type error)
	bools bool // the full comparison / boolean operator set
}

func ssLeaves(c ssCfg) []*R {
	l := []*R{cur(), fld("a"), fld("b"), lit(nil), litJ("1"), lit("x"), litJ("[]"), litJ("false"), litJ("[1, null, [2]]")}
	if c.errs {
		l = append(l, vr("$u"), call("abs", av(raw("x"))))
	}
	return l
}

// right-hand sides of projections: chains off the current node
func ssRHS(c ssCfg) []*R {
	r := []*R{cur(), sub(cur(), fld("a")), idx(cur(), 0), sub(cur(), mlist(cur())), sub(cur(), mhash(KV{"k", cur()})),
		slc(cur(), ip(0), ip(1), nil, cur()), slc(cur(), nil, nil, ip(-1), cur()), proj(PList, cur(), cur()), sub(sub(cur(), fld("a")), fld("b"))}
	if c.funcs {
		r = append(r, sub(cur(), call("type", av(cur()))), sub(cur(), call("abs", av(cur()))), sub(cur(), call("to_string", av(cur()))))
	}
	// right-hand sides that look outside their element: the root, an enclosing binding
	r = append(r, sub(cur(), mlist(cur(), sub(&R{K: KRoot}, fld("b")))))
	if c.lets {
		r = append(r, sub(cur(), mlist(cur(), vr("$o"))))
	}
	return r
}

func postfixOK(x *R) bool { return x.K != KNot } // the canonical printer writes (!a)[0] as !a[0]

func ssUnary(x *R, c ssCfg) []*R {
	var out []*R
	if postfixOK(x) {
		out = append(out, sub(x, fld("a")), idx(x, 0), idx(x, -1), idx(x, 1), sub(x, mlist(cur())), sub(x, mlist(fld("a"), cur())), sub(x, mhash(KV{"k", fld("a")})),
			slc(x, ip(1), nil, nil, cur()), slc(x, nil, ip(-1), nil, cur()), slc(x, nil, nil, ip(-1), cur()), slc(x, nil, nil, ip(2), cur()))
		for _, r := range ssRHS(c) {
			ps := []*R{proj(PList, x, r), proj(PFlatten, x, r), proj(PValues, x, r), filt(x, cur(), r), filt(x, fld("a"), r)}
			if usesVar(r, "$o") {
				for i, p := range ps {
					ps[i] = let([]KV{{"$o", fld("b")}}, p)
				}
			}
			out = append(out, ps...)
		}
		if c.funcs {
			out = append(out, sub(x, call("type", av(cur()))), sub(x, call("length", av(cur()))))
		}
	}
	out = append(out, not(x), &R{K: KNeg, Rt: x}, &R{K: KPos, Rt: x}, mlist(x), mlist(x, x), mhash(KV{"k", x}), pipe(x, cur()), pipe(x, idx(cur(), 0)), pipe(x, proj(PList, cur(), cur())), pipe(x, mlist(cur())))
	if c.funcs {
		for _, f := range []string{"type", "length", "abs", "keys", "values", "to_array", "to_string", "to_number", "not_null", "sort", "reverse", "max", "min", "sum", "avg", "ceil", "floor", "items", "from_items", "lower", "trim"} {
			out = append(out, call(f, av(x)))
		}
		for _, r := range []*R{cur(), fld("a"), call("type", av(cur())), mlist(cur()), idx(cur(), 0)} {
			out = append(out, call("map", ar(r), av(x)), call("sort_by", av(x), ar(r)), call("max_by", av(x), ar(r)), call("group_by", av(x), ar(call("to_string", av(r)))))
		}
		if c.errs {
			out = append(out, call("map", ar(vr("$u")), av(x)), call("group_by", av(x), ar(vr("$u"))), call("sort_by", av(x), ar(vr("$u"))))
		}
	}
	if c.lets {
		out = append(out, let([]KV{{"$v", x}, {"$w", fld("a")}}, let([]KV{{"$v", fld("b")}}, mlist(vr("$v"), vr("$w")))),
			let([]KV{{"$w", fld("b")}}, let([]KV{{"$v", x}, {"$w", fld("a")}}, let([]KV{{"$v", lit("n")}}, mlist(vr("$v"), vr("$w"))))),
			let([]KV{{"$v", x}}, pipe(fld("a"), vr("$v"))), let([]KV{{"$v", x}}, pipe(vr("$v"), mlist(cur(), vr("$v")))))
		if c.funcs {
			out = append(out, let([]KV{{"$v", x}}, call("to_string", av(vr("$v")))), let([]KV{{"$v", x}}, call("type", av(vr("$v")))), let([]KV{{"$o", x}}, call("map", ar(mlist(cur(), vr("$o"))), av(fld("a")))))
		}
		out = append(out, let([]KV{{"$v", x}}, vr("$v")), let([]KV{{"$v", x}}, mlist(vr("$v"), cur())), let([]KV{{"$v", x}}, proj(PList, fld("a"), sub(cur(), mlist(cur(), vr("$v"))))),
			let([]KV{{"$v", x}}, let([]KV{{"$w", fld("a")}}, mlist(vr("$v"), vr("$w")))), let([]KV{{"$v", fld("a")}}, let([]KV{{"$v", x}}, vr("$v"))), let([]KV{{"$v", fld("b")}}, mlist(let([]KV{{"$v", x}}, vr("$v")), vr("$v"))))
	}
	return out
}

// can the expression fail? (then a sibling that can fail too must be evaluated in a specified order)
func failing(e *R) bool {
	if e == nil {
		return false
	}
	if e.K == KVar && e.Name == "$u" {
		return true
	}
	if e.K == KCall {
		return true // any built-in may reject its argument
	}
	if e.K == KArith || e.K == KNeg {
		return true
	}
	if failing(e.L) || failing(e.Rt) || failing(e.Cond) {
		return true
	}
	for _, x := range e.Es {
		if failing(x) {
			return true
		}
	}
	for _, kv := range e.KEs {
		if failing(kv.E) {
			return true
		}
	}
	for _, a := range e.Args {
		if failing(a.E) {
			return true
		}
	}
	return false
}

func ssBinary(x, y *R, c ssCfg) []*R {
	out := []*R{pipe(x, y), or(x, y), and(x, y), cmp("==", x, y), cmp("<", x, y), arith("+", x, y), mlist(x, y)}
	// the members of a multi-select hash and the bindings of a let are evaluated in no specified order:
	// which of two faults is reported is not determined
	both := failing(x) && failing(y)
	if !both {
		out = append(out, mhash(KV{"p", x}, KV{"q", y}))
	}
	if c.bools {
		out = append(out, cmp("!=", x, y), cmp("<=", x, y), cmp(">", x, y), cmp(">=", x, y), not(cmp("<", x, y)), not(cmp(">=", x, y)), not(cmp("==", x, y)), not(and(x, y)), not(or(x, y)),
			arith("-", x, y), arith("*", x, y), arith("/", x, y), arith("//", x, y), arith("%", x, y))
	}
	if postfixOK(x) {
		out = append(out, filt(x, y, cur()), filt(x, y, sub(cur(), fld("a"))), filt(x, cmp("==", cur(), y), cur()), sub(x, mlist(y)), filt(x, and(y, cur()), cur()), filt(x, or(y, cur()), sub(cur(), mlist(cur()))))
	}
	if c.funcs {
		out = append(out, call("contains", av(x), av(y)), call("not_null", av(x), av(y)), call("merge", av(x), av(y)), call("zip", av(x), av(y)), call("join", av(x), av(y)), call("starts_with", av(x), av(y)))
	}
	if c.lets {
		if !both {
			out = append(out, let([]KV{{"$v", x}, {"$w", y}}, mlist(vr("$v"), vr("$w"))))
		}
		out = append(out, let([]KV{{"$v", x}}, pipe(y, mlist(cur(), vr("$v")))))
	}
	return out
}

var ssDocs = []string{
	`null`, `1`, `"abc"`, `[1, "x", null, [2], {"a": 1}]`, `{"a": [1, null, 2], "b": "str"}`,
	`{"a": {"a": 1, "b": [3]}, "b": [{"a": "k"}, {"a": null}, 5]}`, `[[1, 2], [3], []]`, `{"a": "abc", "b": false}`, `{"a": [], "b": {}}`, `["b", "a", "b"]`,
	`{"a": -3, "b": 2.5}`, `[{"a": 1, "b": 2}, {"a": 3}, null, {"a": null, "b": "s"}]`, `{"a": [[1, "s"], {"a": 2}], "b": [0, -1]}`, `{"a": true, "b": null}`,
	`{"a": {"x": null, "k": 1}, "b": {"y": null, "k": 1}}`, `{"a": 1.50, "b": 12345678901234567890123456789012345678}`, `{"a": [{"x": null}, {"y": null}, {}], "b": {"x": null}}`,
	`[{"a": 1}, {"a": 2, "b": "s"}, {"b": 3}, null]`, `{"a": [{"a": 1}, null, {"a": 2, "b": "s"}, {"b": 3}], "b": [null, {"a": {"b": 1}}]}`,
}

type ssCase struct {
	e   *R
	doc any
}

// all depth-2 expressions and a strided sample of depth 3, each on a rotating window of documents
func smallScope(c ssCfg, perExpr int, depth3 int) []ssCase {
	leaves := ssLeaves(c)
	var d2 []*R
	for _, x := range leaves {
		d2 = append(d2, ssUnary(x, c)...)
		for _, y := range leaves {
			d2 = append(d2, ssBinary(x, y, c)...)
		}
	}
	exprs := append([]*R{}, leaves...)
	exprs = append(exprs, d2...)
	// depth 3: a construct around a depth-2 expression, or a binary construct with one depth-2 operand
	if depth3 > 0 {
		var d3 []*R
		for i, x := range d2 {
			us := ssUnary(x, c)
			d3 = append(d3, us[i%len(us)])
			y := leaves[i%len(leaves)]
			bs := ssBinary(x, y, c)
			d3 = append(d3, bs[i%len(bs)])
			bs2 := ssBinary(y, x, c)
			d3 = append(d3, bs2[(i/3)%len(bs2)])
		}
		stride := len(d3)/depth3 + 1
		for i := 0; i < len(d3); i += stride {
			exprs = append(exprs, d3[i])
		}
	}
	docs := make([]any, len(ssDocs))
	for i, d := range ssDocs {
		docs[i] = jsonDoc(d)
	}
	var out []ssCase
	for i, e := range exprs {
		for k := 0; k < perExpr; k++ {
			out = append(out, ssCase{e, docs[(i*5+k*3)%len(docs)]})
		}
	}
	return out
}

var _ = json.Number("")

func usesVar(e *R, name string) bool {
	if e == nil {
		return false
	}
	if e.K == KVar && e.Name == name {
		return true
	}
	if usesVar(e.L, name) || usesVar(e.Rt, name) || usesVar(e.Cond, name) {
		return true
	}
	for _, x := range e.Es {
		if usesVar(x, name) {
			return true
		}
	}
	for _, kv := range e.KEs {
		if usesVar(kv.E, name) {
			return true
		}
	}
	for _, a := range e.Args {
		if usesVar(a.E, name) {
			return true
		}
	}
	return false
}
