package main

import (
	"fmt"
	"strconv"
	"strings"
)

func init() { generators["C10"] = genC10 }

type binSpelling struct {
	text  string // as written in the expression
	ascii string // canonical ASCII spelling
	level int    // the specification's order: pipe 1 < or 2 < and 3 < comparison 5 < additive 6 < multiplicative 7
}

var binSpellings = []binSpelling{
	{"|", "|", 1}, {"||", "||", 2}, {"&&", "&&", 3},
	{"==", "==", 5}, {"!=", "!=", 5}, {"<", "<", 5}, {"<=", "<=", 5}, {">", ">", 5}, {">=", ">=", 5},
	{"+", "+", 6}, {"-", "-", 6}, {"−", "-", 6},
	{"*", "*", 7}, {"×", "*", 7}, {"/", "/", 7}, {"÷", "/", 7}, {"//", "//", 7}, {"%", "%", 7},
}

func mkBin(op string, l, r *R) *R {
	switch op {
	case "|":
		return pipe(l, r)
	case "||":
		return or(l, r)
	case "&&":
		return and(l, r)
	case "==", "!=", "<", "<=", ">", ">=":
		return cmp(op, l, r)
	}
	return arith(op, l, r)
}

var c10Docs = []string{
	`{"a":7,"b":2,"c":3,"d":5}`,
	`{"a":false,"b":true,"c":false,"d":true}`,
	`{"a":null,"b":1,"c":0,"d":-2}`,
	`{"a":-7,"b":2,"c":-3,"d":4}`,
	`{"a":{"b":1,"c":2},"b":{"c":3},"c":2,"d":[1]}`,
	`{"a":1,"b":1,"c":true,"d":"x"}`,
	`{"a":2.5,"b":0.5,"c":10,"d":3}`,
	`{"a":[],"b":"","c":1,"d":null}`,
}

func genC10(tier, out string, sum *Summary) {
	sh := &Shards{dir: out, prop: "C10", imports: "Spec.RefAst Checks.Spec", ctype: "speccase", runner: "spec_run", per: 300}
	docs := make([]any, len(c10Docs))
	for i, d := range c10Docs {
		docs[i] = jsonDoc(d)
	}
	id := 0
	distinct := map[string]bool{}
	emit := func(e *R, text string, doc any, o Obs) {
		id++
		sh.Add(fmt.Sprintf("SC %d %s %s %s false %s", id, coqR(e), hx(text), coqValue(doc), coqObs(o)))
		sid := strconv.Itoa(id)
		sum.Index[sid] = map[string]any{"expr": text, "doc": toJSON(doc), "observed": obsJSON(o)}
		if len(sum.Samples) < 8 && id%173 == 0 {
			sum.Samples = append(sum.Samples, sum.Index[sid])
		}
	}
	// compare flat spelling with the explicitly parenthesised one, on every document
	relate := func(flat, paren string, tree *R) {
		for di, doc := range docs {
			of := search(flat, doc)
			op := search(paren, doc)
			sum.count("outcome/" + of.Kind)
			if !sameObs(of, op, false) {
				sum.direct("grouping", flat, doc, fmt.Sprintf("%q gives %s but %q gives %s", flat, describe(of), paren, describe(op)))
			}
			if of.Kind == "val" && of.Value != nil {
				distinct[flat+"#"+strconv.Itoa(di)] = true
			}
			if tree != nil && unparse(tree) == flat && (tier == "thorough" || (id+di)%3 == 0) {
				emit(tree, flat, doc, of)
			}
		}
	}
	ops := []*R{fld("a"), fld("b"), fld("c"), fld("d")}
	// all ordered pairs
	for _, o1 := range binSpellings {
		for _, o2 := range binSpellings {
			flat := "a " + o1.text + " b " + o2.text + " c"
			var paren string
			var tree *R
			if o1.level >= o2.level {
				paren = "(a " + o1.text + " b) " + o2.text + " c"
				tree = mkBin(o2.ascii, mkBin(o1.ascii, ops[0], ops[1]), ops[2])
			} else {
				paren = "a " + o1.text + " (b " + o2.text + " c)"
				tree = mkBin(o1.ascii, ops[0], mkBin(o2.ascii, ops[1], ops[2]))
			}
			sum.count("pairs")
			if o1.text != o1.ascii || o2.text != o2.ascii {
				// Unicode spelling: must behave as the ASCII spelling; the reference text uses ASCII
				asciiFlat := "a " + o1.ascii + " b " + o2.ascii + " c"
				relate(flat, asciiFlat, nil)
				relate(flat, paren, nil)
				continue
			}
			if unparse(tree) != flat {
				sum.direct("harness", flat, nil, "unparser renders the grouped tree as "+unparse(tree))
				continue
			}
			relate(flat, paren, tree)
		}
	}
	// operands that FAIL (statically: unknown function, arity, argument kind, step zero; or when evaluated): the
	// outcome that the implied parentheses must not change includes which error it is
	{
		faults := []string{"nosuch(b)", "length(b, c)", "sort_by(b, c)", "b[::0]", "abs('x')", "$undef", "(`1` / `0`)", "map(b, c)", "length()", "b[1:2:0].c", "not_null()"}
		k := 0
		for _, o1 := range binSpellings {
			for _, o2 := range binSpellings {
				if o1.text != o1.ascii || o2.text != o2.ascii {
					continue
				}
				for pos := 0; pos < 3; pos++ {
					k++
					f := faults[k%len(faults)]
					xs := []string{"a", "b", "c"}
					xs[pos] = f
					flat := xs[0] + " " + o1.text + " " + xs[1] + " " + o2.text + " " + xs[2]
					var paren string
					if o1.level >= o2.level {
						paren = "(" + xs[0] + " " + o1.text + " " + xs[1] + ") " + o2.text + " " + xs[2]
					} else {
						paren = xs[0] + " " + o1.text + " (" + xs[1] + " " + o2.text + " " + xs[2] + ")"
					}
					sum.count("failing-operands")
					relate(flat, paren, nil)
					xs[pos] = "(" + f + ")"
					relate(flat, xs[0]+" "+o1.text+" "+xs[1]+" "+o2.text+" "+xs[2], nil)
					relate(flat, "("+flat+")", nil)
				}
			}
		}
		// both operands fail, each in its own way: operands are taken from left to right, with or without the implied
		// parentheses, under every operator
		for _, o1 := range binSpellings {
			for _, pr := range [][4]string{{"abs('x')", "$undef", "CInvalidType", "CUndefinedVariable"}, {"$undef", "(`1` / `0`)", "CUndefinedVariable", "CNotANumber"}, {"(`1` / `0`)", "pad_left('', `-1`)", "CNotANumber", "CInvalidValue"}} {
				for _, form := range []string{"<L> <OP> <R>", "(<L>) <OP> (<R>)", "a <OP> <L> <OP> <R>", "[<L> <OP> <R>]"} {
					for k := 0; k < 2; k++ {
						l, r, want := pr[0], pr[1], pr[2]
						if k == 1 {
							l, r, want = pr[1], pr[0], pr[3]
						}
						e := strings.NewReplacer("<L>", l, "<R>", r, "<OP>", o1.text).Replace(form)
						if strings.HasPrefix(form, "a ") && (o1.ascii == "||" || o1.ascii == "&&") {
							continue // the first operand may decide
						}
						o := search(e, docs[0])
						sum.count("two-failing-operands")
						if !(o.Kind == "err" && len(o.Cats) == 1 && o.Cats[0] == want) {
							sum.direct("operand-order", e, docs[0], "both operands fail; the left one is evaluated first and must decide ("+want+"), got "+describe(o))
						}
					}
				}
			}
		}
		for _, f := range faults {
			for _, ctx := range []string{"!%s", "- %s", "[%s]", "{k: %s}", "a[?%s]", "abs(%s)", "a | %s", "%s | a", "let $v = %s in a", "let $v = a in %s", "sort_by(a, &%s)", "a[*].[%s]", "a && !%s"} {
				flat := fmt.Sprintf(ctx, f)
				relate(flat, fmt.Sprintf(ctx, "("+f+")"), nil)
				relate(flat, fmt.Sprintf(ctx, "(("+f+"))"), nil)
			}
		}
	}
	// "for all operand expressions": the same pairs with operands of every syntactic shape that evaluates to
	// the plain field (selectors, indexes, calls, multi-selects, literals in the data, pipes in parentheses)
	shapes := []string{"%s", "(%s)", "@.%s", "[%s][0]", "{k: %s}.k", "not_null(%s)", "[%s, `0`][0]", "[%s][-1]", "[[%s]][0][0]", "(%s | @)", "{k: [%s]}.k[0]", "([%s][0:1])[0]", "([%s][?`true`])[0]", "not_null(`null`, %s)", "([%s] | [0])"}
	for _, o1 := range binSpellings {
		for _, o2 := range binSpellings {
			if o1.text != o1.ascii || o2.text != o2.ascii {
				continue
			}
			reps := 3
			if tier == "thorough" {
				reps = 40
			}
			for r := 0; r < reps; r++ {
				fa, fb, fc := fmt.Sprintf(pick(shapes), "a"), fmt.Sprintf(pick(shapes), "b"), fmt.Sprintf(pick(shapes), "c")
				flat := fa + " " + o1.text + " " + fb + " " + o2.text + " " + fc
				var paren string
				if o1.level >= o2.level {
					paren = "(" + fa + " " + o1.text + " " + fb + ") " + o2.text + " " + fc
				} else {
					paren = fa + " " + o1.text + " (" + fb + " " + o2.text + " " + fc + ")"
				}
				plain := "a " + o1.text + " b " + o2.text + " c"
				sum.count("shaped-operands")
				relate(flat, paren, nil)
				relate(flat, plain, nil)
			}
		}
	}
	// triples (sampled in quick, all in thorough)
	for _, o1 := range binSpellings {
		for _, o2 := range binSpellings {
			for _, o3 := range binSpellings {
				if tier != "thorough" && rng.Intn(40) != 0 {
					continue
				}
				if o1.text != o1.ascii || o2.text != o2.ascii || o3.text != o3.ascii {
					continue
				}
				// build by precedence climbing, independent of the library: left-assoc, higher level binds tighter
				toks := []binSpelling{o1, o2, o3}
				tree := climb(ops, toks)
				flat := "a " + o1.text + " b " + o2.text + " c " + o3.text + " d"
				sum.count("triples")
				if unparse(tree) != flat {
					sum.direct("harness", flat, nil, "unparser renders the grouped tree as "+unparse(tree))
					continue
				}
				relate(flat, fullParen(tree), tree)
			}
		}
	}
	// unary operators against every binary operator
	for _, u := range []string{"!", "-", "+"} {
		for _, o := range binSpellings {
			if o.text != o.ascii {
				continue
			}
			mkU := func(x *R) *R {
				switch u {
				case "!":
					return not(x)
				case "-":
					return &R{K: KNeg, Rt: x}
				}
				return &R{K: KPos, Rt: x}
			}
			sp := ""
			if u != "!" {
				sp = " "
			}
			sum.count("unary")
			flat := u + sp + "a " + o.text + " b"
			relate(flat, "("+u+sp+"a) "+o.text+" b", mkBin(o.ascii, mkU(ops[0]), ops[1]))
			flat2 := "a " + o.text + " " + u + sp + "b"
			relate(flat2, "a "+o.text+" ("+u+sp+"b)", nil)
			// parentheses override: a op1 (b op2 c) keeps its grouping whatever the levels
			flat3 := "(a " + o.text + " b) * c"
			relate(flat3, "(a "+o.text+" b) * c", mkBin("*", mkBin(o.ascii, ops[0], ops[1]), ops[2]))
		}
	}
	// prefix operators against every postfix selector, around operands of every shape: "!" binds tighter than
	// ".", ".*", "[?" and "[]" but looser than "[n]", "[a:b]" and "[*]"; the operand of a sign takes every selector
	{
		operands := []string{"a", "@", "$", "b", "`false`", "`[false, [1]]`", "(a)", "[a]", "{a: a}", "not_null(a)", "b[1]", "''"}
		posts := []struct {
			text   string
			inside bool // inside the operand of "!"
		}{{".a", false}, {".*", false}, {"[?@]", false}, {"[]", false}, {"[0]", true}, {"[0:1]", true}, {"[*]", true}, {"[-1]", true}, {".a.b", false}, {"[0].a", true}, {"[*].a", true}, {".[a]", false}, {".{k: a}", false}}
		for _, x := range operands {
			for _, ps := range posts {
				sum.count("prefix-postfix")
				flat := "!" + x + ps.text
				var explicit string
				if ps.inside {
					// the first selector joins the operand; anything after a dot binds looser than "!" again
					first, rest := ps.text, ""
					if i := strings.Index(ps.text[1:], "."); i >= 0 && ps.text[0] == '[' {
						first, rest = ps.text[:i+1], ps.text[i+1:]
					}
					explicit = "!(" + x + first + ")"
					if first == "[*]" && rest != "" {
						// a projection takes the selectors that follow it, whatever encloses it
						explicit, rest = "!("+x+ps.text+")", ""
					}
					if rest != "" {
						explicit = "(" + explicit + ")" + rest
					}
				} else {
					explicit = "(!" + x + ")" + ps.text
				}
				relate(flat, explicit, nil)
				for _, u := range []string{"- ", "+ "} {
					relate(u+x+ps.text, u+"("+x+ps.text+")", nil)
				}
				// a second prefix operator changes nothing about the selector
				relate("!!"+x+ps.text, strings.Replace(explicit, "!", "!!", 1), nil)
			}
		}
	}
	// runs of prefix operators in front of selectors: each operator takes what its own binding power lets it take,
	// whatever stands in front of it ("!" stops before ".", ".*", "[?", "[]"; a sign takes every selector)
	{
		type post struct {
			text string
			hi   bool // binds tighter than "!"
		}
		seqs := [][]post{{{".a", false}}, {{".b", false}}, {{".*", false}}, {{"[?@]", false}}, {{"[]", false}}, {{"[0]", true}}, {{"[0:1]", true}}, {{"[-1]", true}}, {{".a", false}, {".b", false}}, {{"[0]", true}, {".a", false}}, {{".b", false}, {"[0]", true}}, {{"[0]", true}, {"[0]", true}}}
		runs := [][]string{{"!", "-"}, {"!", "+"}, {"!", "!", "-"}, {"-", "!"}, {"+", "!"}, {"!", "-", "!"}, {"-", "-"}, {"-", "+"}, {"+", "-"}, {"!", "-", "-"}, {"-", "!", "-"}, {"!", "!", "!"}, {"-", "!", "!"}, {"!", "+", "!", "-"}}
		for _, x := range []string{"a", "b", "d", "@", "(a)", "[a, d]", "not_null(a)", "`[[1], 2]`", "{a: a, b: b}"} {
			for _, ps := range seqs {
				for _, run := range runs {
					pos := 0
					var build func(run []string, power int) string
					build = func(run []string, power int) string {
						var t string
						if len(run) == 0 {
							t = x
						} else {
							pu := 12
							if run[0] != "!" {
								pu = 7
							}
							t = run[0] + " (" + build(run[1:], pu) + ")"
						}
						for pos < len(ps) {
							pw := 10
							if ps[pos].hi {
								pw = 20
							}
							if pw <= power {
								break
							}
							t = "(" + t + ")" + ps[pos].text
							pos++
						}
						return t
					}
					explicit := build(run, 0)
					flat := strings.Join(run, "") + x
					for _, q := range ps {
						flat += q.text
					}
					sum.count("prefix-runs")
					relate(flat, explicit, nil)
				}
			}
		}
	}
	// an operand that starts with a literal is an operand like any other: what follows it groups by the table
	for _, o1 := range binSpellings {
		for _, o2 := range binSpellings {
			if o1.text != o1.ascii || o2.text != o2.ascii {
				continue
			}
			for k, opd := range [][3]string{{"`7`", "b", "c"}, {"a", "`2`", "c"}, {"a", "b", "`3`"}, {"'x'", "b", "c"}, {"a", "`[1, 3]`[1]", "c"}, {"a", "`{\"k\": 2}`.k", "c"}, {"a", "`2`", "`3`"}} {
				flat := opd[0] + " " + o1.text + " " + opd[1] + " " + o2.text + " " + opd[2]
				paren := "(" + opd[0] + " " + o1.text + " " + opd[1] + ") " + o2.text + " " + opd[2]
				if o1.level < o2.level {
					paren = opd[0] + " " + o1.text + " (" + opd[1] + " " + o2.text + " " + opd[2] + ")"
				}
				if tier != "thorough" && k >= 3 && (o1.level != 5 && o2.level != 5) {
					continue
				}
				sum.count("literal-operands")
				relate(flat, paren, nil)
			}
		}
		// a selector after a literal belongs to the literal, on either side of every operator
		if o1.text == o1.ascii {
			relate("a "+o1.text+" `[1, 3]`[1]", "a "+o1.text+" (`[1, 3]`[1])", nil)
			relate("`[1, 3]`[1] "+o1.text+" a", "(`[1, 3]`[1]) "+o1.text+" a", nil)
			relate("b "+o1.text+" `{\"k\": 2}`.k", "b "+o1.text+" (`{\"k\": 2}`.k)", nil)
			relate("a "+o1.text+" 'xy'[0:1]", "a "+o1.text+" ('xy'[0:1])", nil)
		}
	}
	// long chains: the implied parentheses of a left-associative chain nest as deep as the chain is long, and
	// writing them (or any number of redundant ones) changes nothing
	for _, n := range []int{3, 130, 200, 400} {
		for _, o := range []string{"-", "||", "+", "&&", "|", "//", "=="} {
			flat := "a" + strings.Repeat(" "+o+" b", n)
			paren := strings.Repeat("(", n) + "a" + strings.Repeat(" "+o+" b)", n)
			sum.count("long-chains")
			relate(flat, paren, nil)
		}
		relate("a - b", strings.Repeat("(", n)+"a"+strings.Repeat(")", n)+" - "+strings.Repeat("(", n)+"b"+strings.Repeat(")", n), nil)
		relate("a - b * c", "a - "+strings.Repeat("(", n)+"b * c"+strings.Repeat(")", n), nil)
	}
	// selectors and projections bind tighter than every binary operator
	for _, o := range binSpellings {
		if o.text != o.ascii {
			continue
		}
		relate("a.b "+o.text+" d[0]", "(a.b) "+o.text+" (d[0])", mkBin(o.ascii, sub(fld("a"), fld("b")), idx(fld("d"), 0)))
		relate("d[*] "+o.text+" a.c", "(d[*]) "+o.text+" (a.c)", mkBin(o.ascii, proj(PList, fld("d"), cur()), sub(fld("a"), fld("c"))))
	}
	sh.Flush()
	sum.Cases = sh.total
	sum.Shards = sh.files
	sum.Distinct = len(distinct)
	sum.Exhaustive = true
	sum.Rule = "all 18x18 ordered pairs of binary operator spellings (triples: all in thorough, 1/40 sampled in quick), 3 prefix operators x 18, selectors vs operators; each flat spelling is compared with its explicitly parenthesised form (grouping from an independent precedence-climbing of the specification's table) on 8 documents chosen to distinguish the groupings; distinct = (expression, document) with a non-null result"
}

// precedence climbing over operands x0..xn and operators o1..on (left associative)
func climb(xs []*R, os []binSpelling) *R {
	pos := 0
	return parseRight(xs, os, &pos, 0)
}

func parseRight(xs []*R, os []binSpelling, pos *int, minLevel int) *R {
	left := xs[*pos]
	for *pos < len(os) && os[*pos].level >= minLevel {
		o := os[*pos]
		*pos++
		right := parseRight(xs, os, pos, o.level+1)
		left = mkBin(o.ascii, left, right)
	}
	return left
}

func fullParen(e *R) string {
	switch e.K {
	case KPipe, KOr, KAnd, KCmp, KArith:
		op := e.Op
		switch e.K {
		case KPipe:
			op = "|"
		case KOr:
			op = "||"
		case KAnd:
			op = "&&"
		}
		return "(" + fullParen(e.L) + " " + op + " " + fullParen(e.Rt) + ")"
	}
	return unparse(e)
}

var _ = strings.Join
