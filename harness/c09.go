package main

import (
	"encoding/json"
	"fmt"
	"github.com/woodsbury/jmespath"
	"os"
	"os/exec"
	"runtime"
	"strconv"
	"strings"
	"time"
)

func init() {
	generators["C09"] = genC09
	generators["child"] = childEval
}

// measured call: wall time and bytes allocated, with a watchdog: if the call does not
// return within the limit the harness reports the input and exits (a goroutine cannot be killed)
func measured(sum *Summary, expr string, doc any, limit time.Duration, out string) (Obs, time.Duration, uint64) {
	done := make(chan struct{})
	var o Obs
	var ms0, ms1 runtime.MemStats
	runtime.ReadMemStats(&ms0)
	t0 := time.Now()
	go func() {
		o = search(expr, doc)
		close(done)
	}()
	select {
	case <-done:
	case <-time.After(limit):
		sum.direct("timeout", expr, doc, fmt.Sprintf("the call did not return within %v although expression and document are tiny", limit))
		sum.Cases++
		sum.write(out, t0)
		fmt.Println("watchdog: call did not return:", expr)
		os.Exit(3)
	}
	el := time.Since(t0)
	runtime.ReadMemStats(&ms1)
	return o, el, ms1.TotalAlloc - ms0.TotalAlloc
}

var magnitudes = []string{"0", "1", "-1", "2", "-2", "3", "7", "-7", "100", "-100", "65536", "2147483647", "-2147483648", "4294967296", "4611686018427387904", "-4611686018427387904", "9223372036854775806", "9223372036854775807", "-9223372036854775807", "-9223372036854775808"}

func genC09(tier, out string, sum *Summary) {
	limit := 2 * time.Second
	const allocLimit = 64 << 20
	distinct := map[string]bool{}
	id := 0
	docs := []any{
		map[string]any{"s": "aébcab€xyz", "a": []any{json.Number("1"), json.Number("2"), json.Number("3"), json.Number("4"), json.Number("5")}, "e": "", "z": []any{}},
	}
	check := func(expr string, doc any) {
		id++
		o, el, alloc := measured(sum, expr, doc, limit, out)
		sum.count("outcome/" + o.Kind)
		if el > limit/2 {
			sum.direct("slow", expr, doc, fmt.Sprintf("took %v", el))
		}
		if alloc > allocLimit {
			sum.direct("allocation", expr, doc, fmt.Sprintf("allocated %d bytes for a tiny expression, document and result (%s)", alloc, describe(o)))
		}
		if o.Kind == "panic" {
			sum.direct("panic", expr, doc, o.Msg)
		}
		distinct[expr] = true
		if len(sum.Samples) < 8 && id%97 == 0 {
			sum.Samples = append(sum.Samples, map[string]any{"expr": expr, "doc": toJSON(doc), "observed": obsJSON(o), "ns": el.Nanoseconds(), "alloc": alloc})
		}
	}
	// slices: every (start, stop, step) over the magnitudes, on strings and arrays
	per := 1
	if tier == "quick" {
		per = 9
	}
	k := 0
	for _, target := range []string{"s", "a", "e", "z"} {
		for _, st := range append([]string{""}, magnitudes...) {
			for _, sp := range append([]string{""}, magnitudes...) {
				for _, step := range append([]string{""}, magnitudes...) {
					k++
					if k%per != 0 {
						continue
					}
					e := target + "[" + st + ":" + sp
					if step != "" {
						e += ":" + step
					}
					check(e+"]", docs[0])
				}
			}
		}
	}
	// indices
	for _, m := range magnitudes {
		check("a["+m+"]", docs[0])
		check("s["+m+":]", docs[0])
	}
	// search offsets, split and replace counts (pad widths decide the size of the result and are kept small)
	for _, m := range magnitudes {
		lit := "`" + m + "`"
		for _, f := range []string{"find_first(s, 'b', %s)", "find_last(s, 'b', %s)", "find_first(s, 'b', `0`, %s)", "find_last(s, 'b', %s, `5`)", "split(s, 'b', %s)", "split(s, '', %s)", "replace(s, 'b', 'c', %s)", "replace(s, '', 'c', %s)", "split(e, '', %s)", "find_first(e, 'a', %s)"} {
			check(fmt.Sprintf(f, lit), docs[0])
		}
		for _, m2 := range []string{"0", "9223372036854775807", "-9223372036854775808", "4611686018427387904"} {
			check("find_first(s, 'b', `"+m+"`, `"+m2+"`)", docs[0])
		}
	}
	for _, w := range []string{"0", "5", "40", "-1", "-9223372036854775808", "1.5"} {
		check("pad_left(s, `"+w+"`)", docs[0])
		check("pad_right(s, `"+w+"`, 'x')", docs[0])
	}
	// a pad that will be rejected must be rejected before the width is used for anything
	for _, w := range magnitudes {
		for _, f := range []string{"pad_left(s, `%s`, '')", "pad_right(s, `%s`, '')", "pad_left(s, `%s`, 'ab')", "pad_right(s, `%s`, '<>')", "pad_left(s, `%s`, a)", "pad_right(s, `%s`, `null`)", "pad_left(a, `%s`)", "pad_right(`1`, `%s`, 'x')", "pad_left(s, `%s`, 'é́')"} {
			check(fmt.Sprintf(f, w), docs[0])
		}
	}
	// numeric text over the whole decimal range
	for _, t := range []string{"1e6111", "1e-6176", "9e6144", "1e99999", "1e-99999", "123456789012345678901234567890123456789012345678901234567890", "0." + strings.Repeat("0", 300) + "1", "1" + strings.Repeat("0", 300), "1e400", "-1e400"} {
		d := map[string]any{"n": json.Number(t), "m": json.Number("3")}
		for _, e := range []string{"n + m", "n * n", "n / m", "n // m", "n % m", "n < m", "n == n", "abs(n)", "ceil(n)", "floor(n)", "to_string(n)", "sort([n, m])", "sum([n, m, n])", "avg([n, m])", "max([n, m])", "to_number(to_string(n))", "pad_left('x', n)", "s[n:]", "find_first('abc', 'b', n)", "split('a,b', ',', n)", "`" + t + "` + `1`"} {
			check(e, d)
		}
	}
	// what is not needed is not computed: an argument after the one that decides (the first non-null argument of
	// not_null, an operand after a short-circuit, an argument after one of the wrong type in merge and zip) costs
	// nothing, whatever width it asks for (limits: 50 ms, 1 MiB)
	for _, e := range []string{"not_null(name, pad_left('', `33554432`))", "not_null(name, pad_right('', `33554432`), pad_left('', `33554432`))", "name || pad_left('', `33554432`)", "missing && pad_left('', `33554432`)",
		"merge(name, {a: pad_left('', `16777216`)})", "zip(name, [pad_left('', `16777216`)])", "not_null(`1`, join('', map(&pad_left('', `1048576`), xs)))", "[name][?@] || pad_left('', `33554432`)", "let $v = name in not_null($v, pad_left('', `33554432`))"} {
		id++
		d := map[string]any{"name": "x", "xs": []any{json.Number("1"), json.Number("2"), json.Number("3"), json.Number("4"), json.Number("5"), json.Number("6"), json.Number("7"), json.Number("8")}}
		o, el, alloc := measured(sum, e, d, limit, out)
		sum.count("unneeded-argument/" + o.Kind)
		if el > 50*time.Millisecond || alloc > 1<<20 {
			sum.direct("magnitude", e, d, fmt.Sprintf("took %v and allocated %d bytes although the costly argument is not needed for the outcome (%s)", el, alloc, describe(o)))
		}
	}
	// the exponent of a number is a magnitude like any other: a handful of bytes of number text, whatever they
	// say, cost a handful of bytes of work (limits: 50 ms, 1 MiB)
	for _, t := range []string{"1e999999", "-1e999999", "2.5e-999999", "1e1000000", "1e-1000000", "1e99999999", "1e-99999999", "1e2147483647", "1e-2147483648", "1e9223372036854775807", "1e18446744073709551616", "0e999999999", "1E+999999", "123e-999999"} {
		d := map[string]any{"n": json.Number(t), "m": json.Number("3"), "xs": []any{json.Number(t), json.Number("-" + strings.TrimPrefix(t, "-")), json.Number("1")}, "s": t}
		for _, e := range []string{"n + m", "n * n", "n / m", "m / n", "n // m", "n % m", "n < m", "n == n", "n == m", "abs(n)", "ceil(n)", "floor(n)", "- n", "to_string(n)", "sort([n, m])", "sum(xs)", "avg(xs)", "sum(xs[:2])", "max(xs)", "min([n, m])", "to_number(s)", "to_number(to_string(n))",
			"find_first('abc', 'b', n)", "split('a,b', ',', n)", "replace('aa', 'a', 'b', n)", "pad_left('x', n)", "contains(xs, n)", "sort_by([{k: n}, {k: m}], &k)", "max_by([{k: n}], &k)", "type(n)", "!n", "[n][?@ > `1`]", "group_by([{k: n}], &to_string(k))"} {
			id++
			o, el, alloc := measured(sum, e, d, limit, out)
			sum.count("exponents/" + o.Kind)
			if el > 50*time.Millisecond || alloc > 1<<20 {
				sum.direct("magnitude", e, d, fmt.Sprintf("took %v and allocated %d bytes for a number written in %d bytes (%s)", el, alloc, len(t), describe(o)))
			}
			if o.Kind == "panic" {
				sum.direct("panic", e, d, o.Msg)
			}
			distinct[e] = true
		}
		if !strings.ContainsAny(t, "-+") || true {
			id++
			e := "`" + t + "` + `1`"
			o, el, alloc := measured(sum, e, nil, limit, out)
			if el > 50*time.Millisecond || alloc > 1<<20 {
				sum.direct("magnitude", e, nil, fmt.Sprintf("took %v and allocated %d bytes (%s)", el, alloc, describe(o)))
			}
		}
	}
	// a value in the data that answers its own serialisation by searching again (with the package-level Search):
	// the outer call still returns
	{
		inner := map[string]any{"name": "x"}
		var none *jmespath.Expression
		for _, e := range []string{"to_string(record)", "to_string(@)", "[to_string(record), name]", "map(&to_string(@), [record, record])", "record | to_string(@)"} {
			check(e, map[string]any{"record": reent{&none, "{name: name}", inner}, "name": "outer"})
		}
	}
	// deeply nested data (48 levels, a handful of nodes): whatever walks a value must walk it once, not once per
	// level above it
	{
		nestObj := func(d int) any {
			var v any = json.Number("1")
			for i := 0; i < d; i++ {
				v = map[string]any{"k": v}
			}
			return v
		}
		nestArr := func(d int) any {
			var v any = json.Number("1")
			for i := 0; i < d; i++ {
				v = []any{v}
			}
			return v
		}
		nestMix := func(d int) any {
			var v any = "leaf"
			for i := 0; i < d; i++ {
				if i%2 == 0 {
					v = map[string]any{"k": v, "n": json.Number("1")}
				} else {
					v = []any{v, nil}
				}
			}
			return v
		}
		for _, mk := range []func(int) any{nestObj, nestArr, nestMix} {
			for _, d := range []int{12, 24, 48} {
				doc := map[string]any{"a": mk(d), "b": mk(d), "c": mk(d - 1)}
				for _, e := range []string{"a == b", "a != b", "a == c", "contains([a, c], b)", "[a] == [b]", "{x: a} == {x: b}", "to_string(a) == to_string(b)", "length(to_string(a))", "[a, b, c][?@ == $.a] | length(@)", "merge({x: a}, {x: b}).x == a",
					"not_null(a) == b", "[a, b] | [0] == [1]", "sort_by([{v: a}, {v: b}], &to_string(v)) | length(@)", "a && b == a", "(a || b) == b", "type(a)", "a[]", "a.*", "to_array(a) == to_array(b)", "let $v = a in $v == b", "map(&(@ == $.a), [a, b, c])", "values({p: a, q: b})[0] == a", "group_by([{v: a}], &type(v))"} {
					check(e, doc)
				}
			}
		}
	}
	// every construct nested in itself through its operand: the cost must stay proportional to the
	// depth (an operand evaluated twice per level doubles it at each level)
	wrappers := []string{"(X)[:]", "(X)[*]", "(X)[]", "(X)[?`true`]", "(X)[::2]", "(X)[::-1]", "(X)[-3:]", "X[:]", "X[*]", "X[::1]", "X[?@]", "(X)[0:][*]",
		"to_array(X)[:]", "reverse(X)[:]", "sort(X)[:]", "not_null(X)", "not_null(`null`, X)", "[X][0]", "[X][0][:]", "{a: X}.a", "{a: X}.a[:]", "(X) | @", "(X) | @[:]",
		"let $v = X in $v", "let $v = X in $v[:]", "map(&@, X)", "map(&@, X)[:]", "(X || `[]`)", "(X)[:] || `[]`", "merge({a: X}).a", "values({a: X})[0]", "(X)[:][0:]", "[X][*][*]", "(X)[*] | [:]",
		"sort_by(X, &@)", "sort_by(X, &@)[:]", "(X)[?@ == @]", "(X)[?@ == @][:]", "[X][][]", "!(X)", "- (X)", "(X) == `1`", "abs(X)", "to_string(X)", "length(to_array(X))"}
	for _, w := range wrappers {
		for _, d := range []int{4, 16, 48} {
			e := "a"
			for i := 0; i < d; i++ {
				e = strings.Replace(w, "X", e, 1)
			}
			check(e, docs[0])
		}
	}
	// a binding is evaluated once however often its variable is used: chains in which every level uses the
	// previous variable twice (null, false-like and ordinary values alike)
	for _, seed := range []string{"missing", "a", "e", "z", "`null`", "`false`", "s"} {
		for _, use := range []string{"$P || $P", "$P && $P", "[$P, $P][0]", "not_null($P, $P)", "[$P, $P] | [0]", "{p: $P, q: $P}.p", "$P == $P && $P", "not_null($P) || $P"} {
			for _, d := range []int{8, 48} {
				var b strings.Builder
				b.WriteString("let $v0 = " + seed + " in ")
				for i := 1; i <= d; i++ {
					b.WriteString("let $v" + strconv.Itoa(i) + " = " + strings.ReplaceAll(use, "$P", "$v"+strconv.Itoa(i-1)) + " in ")
				}
				b.WriteString("$v" + strconv.Itoa(d))
				check(b.String(), docs[0])
			}
		}
	}
	// nesting depth up to the expression length
	depths := []int{10, 100, 1000, 10000}
	if tier == "thorough" {
		depths = append(depths, 100000)
	}
	for _, d := range depths {
		check(strings.Repeat("(", d)+"a"+strings.Repeat(")", d), docs[0])
		check(strings.Repeat("!", d)+"a", docs[0])
		check("a"+strings.Repeat("[0]", d), docs[0])
		check("a"+strings.Repeat(".b", d), docs[0])
		check("a"+strings.Repeat(" || a", d), docs[0])
		check(strings.Repeat("[", d)+"a"+strings.Repeat("]", d), docs[0])
		check("`"+strings.Repeat("[", d)+strings.Repeat("]", d)+"`", docs[0])
		check(strings.Repeat("- ", d)+"a", docs[0])
		check("length("+strings.Repeat("to_array(", d)+"a"+strings.Repeat(")", d)+")", docs[0])
	}
	// growth: doubling the document must not more than ~quadruple the time (quadratic is the allowed ceiling)
	for _, e := range []string{"a[*]", "a[]", "a[?@ > `1`]", "sort(a)", "sort_by(a, &@)", "reverse(a)", "a[::-1]", "join(',', map(&to_string(@), a))", "max(a)", "sum(a)", "length(a)", "a[-1]", "contains(a, `-1`)", "group_by(map(&{k: to_string(@)}, a), &k) | length(@)"} {
		var prev time.Duration
		for _, size := range []int{2000, 4000, 8000} {
			arr := make([]any, size)
			for i := range arr {
				arr[i] = json.Number(strconv.Itoa((i * 7919) % size))
			}
			d := map[string]any{"a": arr}
			best := time.Hour
			for rep := 0; rep < 3; rep++ {
				_, el, _ := measured(sum, e, d, 10*time.Second, out)
				if el < best {
					best = el
				}
			}
			id++
			if prev > 2*time.Millisecond && best > prev*10 {
				sum.direct("growth", e, nil, fmt.Sprintf("doubling the array to %d elements multiplied the time by %.1f (%v -> %v)", size, float64(best)/float64(prev), prev, best))
			}
			prev = best
		}
		sum.count("growth-checks")
	}
	// deep nesting at the scale where the Go stack gives out is run in a child process (thorough only)
	if tier == "thorough" {
		for _, d := range []int{1000000} {
			for _, mk := range []func(int) string{func(d int) string { return strings.Repeat("(", d) + "a" + strings.Repeat(")", d) }, func(d int) string { return strings.Repeat("!", d) + "a" }} {
				expr := mk(d)
				self, _ := os.Executable()
				f, _ := os.CreateTemp(out, "deep")
				f.WriteString(expr)
				f.Close()
				cmd := exec.Command(self, "-prop", "child", "-out", out, "-replay", f.Name())
				outb, err := cmd.CombinedOutput()
				id++
				sum.count("child-process")
				if err != nil {
					msg := string(outb)
					if len(msg) > 300 {
						msg = msg[:300]
					}
					sum.direct("crash", expr[:20]+fmt.Sprintf("...(%d levels)", d), nil, "the process died: "+err.Error()+": "+msg)
				}
				os.Remove(f.Name())
			}
		}
	}
	sum.Cases = id
	sum.Distinct = len(distinct)
	sum.Rule = "tiny documents (a 10-code-point string, a 5-element array, empty ones) with integer parameters ranging over 20 magnitudes up to the 64-bit limits at every slice position, index, search offset, split/replace count; numeric text over the whole decimal range; nesting depth 10..10^4 (10^5 and, in a child process, 10^6 in thorough); every call must return within 2 s and allocate under 64 MiB; doubling an 2000..8000-element array must not multiply the time by more than 10; distinct = distinct expressions"
}

// child process: evaluate the expression stored in the file named by -replay
func childEval(tier, out string, sum *Summary) {
	for i, a := range os.Args {
		if a == "-replay" && i+1 < len(os.Args) {
			b, err := os.ReadFile(os.Args[i+1])
			if err != nil {
				os.Exit(2)
			}
			o := search(string(b), nil)
			fmt.Println(o.Kind)
			os.Exit(0)
		}
	}
	os.Exit(2)
}
