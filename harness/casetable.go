package main

import (
	"fmt"
	"strings"
	"unicode"
)

// the simple case mappings of the unicode package of the toolchain that builds the library, as ranges, for the model
func table(name string, f func(rune) rune) string {
	var parts []string
	lo, hi, d := rune(-1), rune(-1), rune(0)
	flush := func() {
		if lo >= 0 {
			parts = append(parts, fmt.Sprintf("(%d, %d, %d)", lo, hi, d))
		}
	}
	for r := rune(0); r <= unicode.MaxRune; r++ {
		dd := f(r) - r
		if dd != 0 && lo >= 0 && r == hi+1 && dd == d {
			hi = r
			continue
		}
		if dd != 0 {
			flush()
			lo, hi, d = r, r, dd
		} else if lo >= 0 {
			flush()
			lo = -1
		}
	}
	flush()
	var b strings.Builder
	fmt.Fprintf(&b, "Definition %s : list (Z * Z * Z) := [\n", name)
	for i := 0; i < len(parts); i += 8 {
		j := i + 8
		if j > len(parts) {
			j = len(parts)
		}
		sep := ";\n"
		if j == len(parts) {
			sep = "\n"
		}
		b.WriteString("  " + strings.Join(parts[i:j], "; ") + sep)
	}
	b.WriteString("].\n")
	return b.String()
}

func printCaseTable() {
	fmt.Printf("(* GENERATED from the unicode package of the Go toolchain that builds the library (Unicode %s) -- do not edit.\n   (lo, hi, d): every code point r with lo <= r <= hi maps to r + d; all others map to themselves. *)\n", unicode.Version)
	fmt.Print("From Coq Require Import List ZArith.\nImport ListNotations.\nOpen Scope Z_scope.\n\n")
	fmt.Print(table("case_lower_table", unicode.ToLower))
	fmt.Print("\n")
	fmt.Print(table("case_upper_table", unicode.ToUpper))
}
