package main

import (
	"encoding/json"
	"fmt"
	"math"
	"math/big"
	"sort"
	"strconv"
	"strings"

	"github.com/woodsbury/decimal128"
)

func init() {
	generators["C13"] = func(tier, out string, sum *Summary) {
		runPrecision(sum, "beyond-float-precision")
		genC13(tier, out, sum)
	}
	generators["C16"] = genC16
}

var spellings = [][]string{{"0", "0.0", "-0", "0e3"}, {"1", "1.0", "1e0", "10e-1"}, {"2", "2.00", "0.2e1"}, {"-1", "-1.0"}, {"10", "1e1", "10.0"}, {"2.5", "25e-1"}, {"100", "1e2"}, {"-3", "-3.000"}, {"0.5", "5e-1"}, {"7", "7.0"}}
var bigNative = []any{int64(1) << 53, int64(1)<<53 + 1, int64(1)<<53 + 2, uint64(1)<<53 + 1, json.Number("9007199254740993"), uint64(math.MaxUint64), uint64(math.MaxUint64) - 1, uint64(math.MaxUint64) - 2, int64(math.MaxInt64), int64(math.MaxInt64) - 1, uint64(math.MaxInt64) + 1, int64(math.MinInt64), int64(math.MinInt64) + 1, int(1)<<60 + 1, int(1) << 60, uint(1)<<60 + 2, float64(1 << 53), json.Number("18446744073709551615"), json.Number("-9223372036854775807")}
var strPool = []string{"", "a", "b", "ab", "B", "é", "z", "€", "😀", "ｚ", "aa", "𝌆", "ﬀ", "ü", "\U00010000", "\uffff", "中", "\ue000", "á", "\ufffd", "~", "0", "A", "😀a", "ｚa", "a😀", "aｚ"}

func cmpAny(a, b any) int {
	if as, ok := a.(string); ok {
		return strings.Compare(as, b.(string))
	}
	da, _ := toDec(a)
	db, _ := toDec(b)
	return decimal128.Compare(da, db)
}

// byte order on valid UTF-8 is code point order; compare by runes to have an independent oracle
func cmpRunes(a, b string) int {
	ra, rb := []rune(a), []rune(b)
	for i := 0; i < len(ra) && i < len(rb); i++ {
		if ra[i] != rb[i] {
			if ra[i] < rb[i] {
				return -1
			}
			return 1
		}
	}
	return len(ra) - len(rb)
}

func keyCmp(a, b any) int {
	if as, ok := a.(string); ok {
		return cmpRunes(as, b.(string))
	}
	return cmpAny(a, b)
}

func genC13(tier, out string, sum *Summary) {
	n := 600
	maxLen := 60
	if tier == "thorough" {
		n, maxLen = 8000, 400
	}
	sh := &Shards{dir: out, prop: "C13", imports: "Checks.Basic", ctype: "bcase", runner: "basic_run", per: 150}
	distinct := map[string]bool{}
	id := 0
	emit := func(expr string, doc any, o Obs) {
		id++
		if len(toJSON(doc)) < 3000 {
			sh.Add(fmt.Sprintf("BC %d %s %s false %s", id, hx(expr), coqValue(doc), coqObs(o)))
			sid := strconv.Itoa(id)
			sum.Index[sid] = map[string]any{"expr": expr, "doc": toJSON(doc), "observed": obsJSON(o)}
			if len(sum.Samples) < 6 && id%53 == 0 {
				sum.Samples = append(sum.Samples, sum.Index[sid])
			}
		}
	}
	for i := 0; i < n; i++ {
		l := rng.Intn(maxLen + 1)
		if i%5 == 0 {
			l = rng.Intn(4)
		}
		if i%7 == 0 {
			l = 13 + rng.Intn(maxLen) // beyond the insertion-sort threshold of the library's sort routines
		}
		useStr := rng.Intn(2) == 0
		strOff := rng.Intn(len(strPool)) // a window of the pool: neighbours in it differ in plane, width or case
		nativeBig := !useStr && i%6 == 1
		nkeys := 1 + rng.Intn(4) // heavy duplication
		arr := make([]any, l)
		for j := range arr {
			var key any
			if useStr {
				key = strPool[(strOff+rng.Intn(nkeys*3))%len(strPool)]
			} else {
				g := spellings[rng.Intn(nkeys+1)%len(spellings)]
				key = json.Number(pick(g))
				if nativeBig {
					// neighbours beyond 2^53 carried by Go integer kinds: ordering must stay exact
					key = bigNative[rng.Intn(nkeys*2+1)%len(bigNative)]
				}
			}
			arr[j] = map[string]any{"k": key, "i": json.Number(strconv.Itoa(j))}
		}
		mix := rng.Intn(12)
		if mix == 0 && l > 0 { // mixed keys: must be an invalid-type error
			p := rng.Intn(l)
			if useStr {
				arr[p].(map[string]any)["k"] = json.Number("1")
			} else {
				// a string among numbers, whether or not its text looks like a number
				arr[p].(map[string]any)["k"] = pick([]string{"x", "20", "1", "-3", "1e2", "0.5", "", "1.0"})
			}
		} else if mix == 1 && l > 0 {
			arr[rng.Intn(l)].(map[string]any)["k"] = pick([]any{nil, true, []any{}, map[string]any{}})
		}
		before := toJSON(arr)
		// sort_by
		o := search("sort_by(@, &k)", arr)
		emit("sort_by(@, &k)", arr, o)
		sum.count("sort_by/" + o.Kind)
		keysOK, kind := uniformKeys(arr)
		if l > 12 {
			sum.count("longer-than-threshold")
		}
		if !keysOK && l > 0 {
			if !(o.Kind == "err" && len(o.Cats) == 1 && o.Cats[0] == "CInvalidType") {
				sum.direct("sort_by-type", "sort_by(@, &k)", arr, "keys of mixed or non-sortable types must be an invalid-type error, got "+describe(o))
			}
		} else if o.Kind != "val" {
			sum.direct("sort_by", "sort_by(@, &k)", arr, "unexpected "+describe(o))
		} else {
			res, _ := o.Value.([]any)
			if why := checkStableSorted(arr, res); why != "" {
				sum.direct("sort_by", "sort_by(@, &k)", arr, why+"; result "+toJSON(res))
			}
			distinct[kind+toJSON(res)] = true
			// an index, a slice or a pipe after the call sees the same stable order
			if len(res) > 0 {
				for _, q := range []struct {
					e    string
					want any
				}{{"sort_by(@, &k)[-1]", res[len(res)-1]}, {"sort_by(@, &k)[0]", res[0]}, {"sort_by(@, &k) | [-1]", res[len(res)-1]}, {"(sort_by(@, &k)[-1:])[0]", res[len(res)-1]}, {"reverse(sort_by(@, &k))[0]", res[len(res)-1]}, {"sort_by(@, &k)[*] | [0]", res[0]}} {
					if oi := search(q.e, arr); !(oi.Kind == "val" && sameValue(oi.Value, q.want, false)) {
						sum.direct("sort_by", q.e, arr, "expected "+toJSON(q.want)+" (the stable order), got "+describe(oi))
					}
				}
			}
		}
		// sort on the bare keys
		keys := make([]any, l)
		for j := range arr {
			keys[j] = arr[j].(map[string]any)["k"]
		}
		os := search("sort(@)", keys)
		emit("sort(@)", keys, os)
		sum.count("sort/" + os.Kind)
		if !keysOK && l > 0 {
			if !(os.Kind == "err" && len(os.Cats) == 1 && os.Cats[0] == "CInvalidType") {
				sum.direct("sort-type", "sort(@)", keys, "an array that mixes types must be an invalid-type error, got "+describe(os))
			}
		} else if os.Kind == "val" {
			res, _ := os.Value.([]any)
			if len(res) != len(keys) {
				sum.direct("sort", "sort(@)", keys, "result is not a permutation: "+toJSON(res))
			} else {
				for j := 1; j < len(res); j++ {
					if keyCmp(res[j-1], res[j]) > 0 {
						sum.direct("sort", "sort(@)", keys, "result is not ordered by value: "+toJSON(res))
						break
					}
				}
				if !sameValue(res, keys, true) {
					sum.direct("sort", "sort(@)", keys, "result is not a permutation of the input: "+toJSON(res))
				}
			}
		} else {
			sum.direct("sort", "sort(@)", keys, "unexpected "+describe(os))
		}
		// extrema
		for _, fn := range []string{"max", "min"} {
			oe := search(fn+"(@)", keys)
			ob := search(fn+"_by(@, &k)", arr)
			emit(fn+"(@)", keys, oe)
			emit(fn+"_by(@, &k)", arr, ob)
			if !keysOK || l == 0 {
				if l == 0 && !(oe.Kind == "val" && oe.Value == nil && ob.Kind == "val" && ob.Value == nil) {
					sum.direct(fn, fn+"(@)", keys, "extremum of an empty array must be null, got "+describe(oe)+" / "+describe(ob))
				}
				if l > 0 && !(oe.Kind == "err" && len(oe.Cats) == 1 && oe.Cats[0] == "CInvalidType" && ob.Kind == "err" && len(ob.Cats) == 1 && ob.Cats[0] == "CInvalidType") {
					sum.direct(fn+"-type", fn+"(@)", keys, "mixed types must be an invalid-type error, got "+describe(oe)+" / "+describe(ob))
				}
				continue
			}
			if oe.Kind != "val" || ob.Kind != "val" {
				sum.direct(fn, fn+"(@)", keys, "unexpected "+describe(oe)+" / "+describe(ob))
				continue
			}
			sign := 1
			if fn == "min" {
				sign = -1
			}
			found := false
			for _, k := range keys {
				if sign*keyCmp(k, oe.Value) > 0 {
					sum.direct(fn, fn+"(@)", keys, fmt.Sprintf("%s is not extremal: %s beats it", toJSON(oe.Value), toJSON(k)))
					break
				}
				if keyCmp(k, oe.Value) == 0 {
					found = true
				}
			}
			if !found {
				sum.direct(fn, fn+"(@)", keys, "result "+toJSON(oe.Value)+" is not the value of an element")
			}
			bm, _ := ob.Value.(map[string]any)
			if bm == nil || keyCmp(bm["k"], oe.Value) != 0 {
				sum.direct(fn+"_by", fn+"_by(@, &k)", arr, "result "+toJSON(ob.Value)+" does not carry the extremal key "+toJSON(oe.Value))
			} else {
				isElem := false
				for _, a := range arr {
					if sameValue(a, ob.Value, false) {
						isElem = true
					}
				}
				if !isElem {
					sum.direct(fn+"_by", fn+"_by(@, &k)", arr, "result is not an element of the input")
				}
			}
		}
		if toJSON(arr) != before {
			sum.direct("input-modified", "sort_by(@, &k)", arr, "the input array was modified")
		}
	}
	// strings whose text is a number do not mix with numbers, wherever they stand
	for _, txt := range []string{`[3, "20", 1]`, `["20", 3, 1]`, `[3, 1, "20"]`, `[1, "1"]`, `["1", 1]`, `[2, "1e0", 3]`, `[0, "-0"]`, `[5, "4", "3"]`, `["a", 1]`, `[1, "1.0", 1.0]`} {
		keys := jsonDoc(txt).([]any)
		arr := make([]any, len(keys))
		for j, k := range keys {
			arr[j] = map[string]any{"k": k, "i": json.Number(strconv.Itoa(j))}
		}
		for _, q := range []struct {
			e   string
			doc any
		}{{"sort(@)", keys}, {"sort_by(@, &k)", arr}, {"max(@)", keys}, {"min(@)", keys}, {"max_by(@, &k)", arr}, {"min_by(@, &k)", arr}} {
			o := search(q.e, q.doc)
			emit(q.e, q.doc, o)
			sum.count("number-like-strings/" + o.Kind)
			if !(o.Kind == "err" && len(o.Cats) == 1 && o.Cats[0] == "CInvalidType") {
				sum.direct("sort-type", q.e, q.doc, "numbers and strings in one array must be an invalid-type error, got "+describe(o))
			}
		}
	}
	// numbers beyond the range of the decimal format among ordinary ones: whatever the call answers, it never
	// returns an array that is out of numeric order, and it answers like the model
	ratOf := func(v any) *big.Rat {
		if n, ok := v.(json.Number); ok {
			if r, ok := new(big.Rat).SetString(string(n)); ok {
				return r
			}
		}
		return nil
	}
	for _, txt := range []string{`[5, 1e7000, -3]`, `[1e7000, 2e7000]`, `[2e7000, 1e7000]`, `[-1e7000, 0, 1]`, `[1, -1e7000]`, `[3, 2, 1e7000, 1]`, `[1e7000]`, `[1e6144, 1e7000, 9e6144]`, `[9e6144, 1e7000, 1e6144]`, `[-1e7000, -2e7000]`} {
		keys := jsonDoc(txt).([]any)
		arr := make([]any, len(keys))
		for j, k := range keys {
			arr[j] = map[string]any{"k": k, "i": json.Number(strconv.Itoa(j))}
		}
		for _, q := range []struct {
			e   string
			doc any
		}{{"sort(@)", keys}, {"sort_by(@, &k)[*].k", arr}, {"max(@)", keys}, {"min(@)", keys}, {"max_by(@, &k).k", arr}, {"min_by(@, &k).k", arr}, {"sort(@)[0]", keys}, {"reverse(sort(@))", keys}} {
			o := search(q.e, q.doc)
			emit(q.e, q.doc, o)
			sum.count("beyond-range/" + o.Kind)
			if o.Kind != "val" {
				continue
			}
			if res, ok := o.Value.([]any); ok && !strings.HasPrefix(q.e, "reverse") {
				for j := 1; j < len(res); j++ {
					a, b := ratOf(res[j-1]), ratOf(res[j])
					if a != nil && b != nil && a.Cmp(b) > 0 {
						sum.direct("sort", q.e, q.doc, "result is not ordered by value: "+toJSON(res))
						break
					}
				}
			} else if r := ratOf(o.Value); r != nil {
				for _, k := range keys {
					kr := ratOf(k)
					if kr == nil {
						continue
					}
					if (strings.HasPrefix(q.e, "max") && kr.Cmp(r) > 0) || (strings.HasPrefix(q.e, "min") && kr.Cmp(r) < 0) || (strings.HasPrefix(q.e, "sort(@)[0]") && kr.Cmp(r) < 0) {
						sum.direct("extremum", q.e, q.doc, fmt.Sprintf("%s is not extremal: %s beats it", toJSON(o.Value), toJSON(k)))
						break
					}
				}
			}
		}
	}
	// an inadmissible key on an early element and a key expression that fails on a later one: the elements are taken in
	// order, so the first fault is the outcome (the model decides which)
	for _, f := range []string{"sort_by", "max_by", "min_by"} {
		for _, ke := range []string{"(k || `1` / `0`)", "(k || pad_left('x', `-1`))", "(k || $undef)", "(k && abs('x'))", "(!k && $undef || k)", "k"} {
			for _, d := range []string{`[{"k": true}, {"k": false}]`, `[{"k": 1}, {"k": "a"}, {"k": false}]`, `[{"k": "a"}, {"k": 1}, {"k": null}]`, `[{"k": false}, {"k": true}]`, `[{"k": 1}, {"k": true}, {"k": false}]`, `[{"k": null}, {"k": 1}]`, `[{"k": 1}, {"k": 2}, {"k": false}]`} {
				e := f + "(@, &" + ke + ")"
				o := search(e, jsonDoc(d))
				sum.count("two-key-faults/" + o.Kind)
				emit(e, jsonDoc(d), o)
			}
		}
	}
	// the key expression fails on the first, a middle or the last element: the error is the outcome
	for _, af := range argFaultFamily() {
		if af.doc != nil || strings.HasPrefix(af.fn, "sort") || strings.HasPrefix(af.fn, "max") || strings.HasPrefix(af.fn, "min") {
			o := search(af.expr, af.doc)
			sum.count("key-fault/" + o.Kind)
			emit(af.expr, af.doc, o)
			if af.want != "" && !(o.Kind == "err" && len(o.Cats) == 1 && o.Cats[0] == af.want) {
				sum.direct("key-fault", af.expr, af.doc, "an argument fails with "+af.want+"; got "+describe(o))
			}
		}
	}
	sh.Flush()
	sum.Cases = id
	sum.Shards = sh.files
	sum.Distinct = len(distinct)
	sum.Rule = fmt.Sprintf("random arrays of 0..%d elements (1/7 forced beyond 12 elements) with 1-4 distinct keys (heavy duplication), numbers equal in value but different in spelling, strings across the Unicode planes, occasional mixed or non-sortable keys; permutation, ordering by value / code point, stability (the index field of equal keys stays ascending), extremality and the invalid-type rule are checked on the observed output, independently of the model; distinct = distinct sort_by results", maxLen)
}

func uniformKeys(arr []any) (bool, string) {
	kind := ""
	for _, a := range arr {
		k := a.(map[string]any)["k"]
		t := jsonType(k)
		if t != "string" && t != "number" {
			return false, ""
		}
		if kind == "" {
			kind = t
		} else if kind != t {
			return false, ""
		}
	}
	return true, kind
}

func checkStableSorted(in, out []any) string {
	if len(in) != len(out) {
		return "result length differs from input length"
	}
	seen := map[string]bool{}
	for j, x := range out {
		m, ok := x.(map[string]any)
		if !ok {
			return "result element is not an input element"
		}
		idx := string(m["i"].(json.Number))
		if seen[idx] {
			return "element " + idx + " appears twice: not a permutation"
		}
		seen[idx] = true
		orig, _ := strconv.Atoi(idx)
		if orig >= len(in) || !sameValue(in[orig], x, false) {
			return "result element is not the input element with the same index"
		}
		if j > 0 {
			p := out[j-1].(map[string]any)
			c := keyCmp(p["k"], m["k"])
			if c > 0 {
				return "keys are not in ascending order at position " + strconv.Itoa(j)
			}
			if c == 0 {
				pi, _ := strconv.Atoi(string(p["i"].(json.Number)))
				if pi > orig {
					return fmt.Sprintf("elements with equal keys changed their relative order (input positions %d and %d)", pi, orig)
				}
			}
		}
	}
	return ""
}

var _ = sort.Ints

// ---- C16: every string and key can be written literally ----
func randString() string {
	n := rng.Intn(10)
	var b strings.Builder
	pool := []rune{'a', 'b', ' ', '\'', '"', '`', '\\', '\n', '\t', '\r', 0, 1, 0x1f, 0x7f, 0x80, 'é', '€', '😀', 0x10FFFF, 0xFFFD, 0xD7FF, 0xE000, '/', '{', '[', '|', '$', '&', 'u', '0', 'n', '中', 0x301, 0xFEFF, 0x200B, 0x2028, 0xA0, 0x85, 0x0B, 0x0C}
	for i := 0; i < n; i++ {
		if rng.Intn(4) == 0 { // runs of escapes
			b.WriteString(pick([]string{`\\`, `\'`, `\"`, "\\`", `\n`, `A`, `😀`, `''`, `""`, "``", `\`}))
		} else {
			b.WriteRune(pool[rng.Intn(len(pool))])
		}
	}
	return b.String()
}

func rawQuote(s string) string {
	return "'" + strings.ReplaceAll(strings.ReplaceAll(s, `\`, `\\`), `'`, `\'`) + "'"
}

func jsonQuote(s string) string {
	b, _ := json.Marshal(s)
	return string(b)
}

func genC16(tier, out string, sum *Summary) {
	n := 1500
	if tier == "thorough" {
		n = 40000
	}
	sh := &Shards{dir: out, prop: "C16", imports: "Checks.Basic", ctype: "bcase", runner: "basic_run", per: 300}
	distinct := map[string]bool{}
	id := 0
	run := func(expr string, doc any, want any, what string) {
		id++
		o := search(expr, doc)
		sum.count(what + "/" + o.Kind)
		if !(o.Kind == "val" && sameValue(o.Value, want, false) && (want == nil || fmt.Sprintf("%T", want) != "string" || o.Value == want)) {
			sum.direct(what, expr, doc, "expected "+toJSON(want)+", got "+describe(o))
		}
		if o.Kind == "val" {
			if t, bad := badNumberIn(o.Value); bad {
				sum.direct(what, expr, doc, fmt.Sprintf("the result holds the number %q, which is not the text of a JSON number", t))
			}
		}
		distinct[what+"|"+expr] = true
		sh.Add(fmt.Sprintf("BC %d %s %s false %s", id, hx(expr), coqValue(doc), coqObs(o)))
		sid := strconv.Itoa(id)
		sum.Index[sid] = map[string]any{"expr": expr, "doc": toJSON(doc), "observed": obsJSON(o)}
		if len(sum.Samples) < 8 && id%131 == 0 {
			sum.Samples = append(sum.Samples, sum.Index[sid])
		}
	}
	for i := 0; i < n; i++ {
		s := randString()
		switch i % 5 {
		case 0: // raw string literal
			run(rawQuote(s), nil, s, "raw-string")
		case 1: // JSON string literal between backticks
			run("`"+strings.ReplaceAll(jsonQuote(s), "`", "\\`")+"`", nil, s, "json-string-literal")
		case 2: // quoted identifier selects the member named s
			doc := map[string]any{s: json.Number("1"), s + "x": json.Number("2")}
			run(quotedIdent(s), doc, json.Number("1"), "quoted-identifier")
			// the same with some code points written as \\uXXXX escapes, in identifiers and in JSON string literals
			escapeSome = true
			s2 := s + string(pick([]rune{0xe9, 0xff, 0x80, 0x7f, 0x100, 0x7ff, 0x800, 0xffff, 0x10000, 0x10ffff, 'A'}))
			run(quotedIdent(s2), map[string]any{s2: json.Number("3")}, json.Number("3"), "quoted-identifier-escapes")
			run("`"+strings.ReplaceAll(quotedIdent(s2), "`", "\\`")+"`", nil, s2, "json-string-escapes")
			run("{"+quotedIdent(s2)+": `1`}", nil, map[string]any{s2: json.Number("1")}, "hash-key-escapes")
			escapeSome = false
		case 3: // JSON value literal, numbers kept at full precision
			v := literalValue(2)
			run("`"+strings.ReplaceAll(toJSONPlain(v), "`", "\\`")+"`", nil, v, "json-literal")
			// JSON text may be surrounded by white space; strings in it may hold escaped backticks
			sv := []any{s, map[string]any{s: v}, v}
			pad := pick([]string{" ", "\n", "\t ", " \r\n"})
			run("`"+pad+strings.ReplaceAll(toJSONPlain(sv), "`", "\\`")+pad+"`", nil, sv, "json-literal-padded")
			run("`"+pad+strings.ReplaceAll(jsonQuote(s), "`", "\\`")+"`", nil, s, "json-literal-padded")
			// numbers keep their spelling: to_string shows the digits
			num := pick([]string{"1.50", "100000000000000000000000000000000000001", "1e400", "-0.0", "12345678901234567890.123456789"})
			run("to_string(`"+num+"`)", nil, num, "number-precision")
		case 4: // escapes the grammar leaves untouched are preserved verbatim in raw strings
			c := pick([]string{"n", "t", "x", "u0041", "\"", "`", "a", " ", "é", "€", "😀", "✓", "\u00a0", "ÿ", "\U0010ffff", "0", "/", "(", "\u0080"})
			run(`'a\`+c+`b'`, nil, `a\`+c+`b`, "raw-preserved-escape")
			// \uXXXX escapes, incl. surrogate pairs, in quoted identifiers and JSON literals
			doc := map[string]any{"A😀é": json.Number("7")}
			run(`"A😀é"`, doc, json.Number("7"), "unicode-escape")
			run("`\"\\u0041\\ud83d\\ude00\\u00e9\"`", nil, "A😀é", "unicode-escape")
		}
	}
	// every escape of the JSON string grammar, alone, as the first escape after plain text, after another escape and
	// at the end, in quoted identifiers, hash keys and JSON string literals (the decoder has a branch per escape)
	{
		escs := []struct{ text, val string }{{`\"`, "\""}, {`\\`, "\\"}, {`\/`, "/"}, {`\b`, "\b"}, {`\f`, "\f"}, {`\n`, "\n"}, {`\r`, "\r"}, {`\t`, "\t"},
			{`\u0041`, "A"}, {`\u00e9`, "é"}, {`\u20AC`, "€"}, {`\ud83d\ude00`, "😀"}, {`\uD83D\uDE00`, "😀"}, {`\u0000`, "\x00"}, {`\u007f`, "\x7f"}, {`\uffff`, "\uffff"}}
		for i, e := range escs {
			f := escs[(i+3)%len(escs)]
			for _, form := range [][2]string{{e.text, e.val}, {"ab" + e.text, "ab" + e.val}, {e.text + "cd", e.val + "cd"}, {"x" + e.text + "y" + f.text + "z", "x" + e.val + "y" + f.val + "z"},
				{f.text + e.text, f.val + e.val}, {e.text + e.text, e.val + e.val}, {"é" + e.text + "€", "é" + e.val + "€"}} {
				q := "\"" + form[0] + "\""
				run(q, map[string]any{form[1]: json.Number("1"), form[1] + "x": json.Number("2"), "x" + form[1]: json.Number("3")}, json.Number("1"), "every-escape")
				run("{"+q+": `1`}", nil, map[string]any{form[1]: json.Number("1")}, "every-escape")
				run("`"+q+"`", nil, form[1], "every-escape")
				run("a."+q, map[string]any{"a": map[string]any{form[1]: json.Number("4")}}, json.Number("4"), "every-escape")
			}
		}
	}
	// one value from every source into every consumer (families.go)
	runValueSources(sum, "source-independence", 9, func(expr string, doc any, o Obs) {
		id++
		sh.Add(fmt.Sprintf("BC %d %s %s %s %s", id, hx(expr), coqValue(doc), hasEnumText(expr), coqObs(o)))
		sum.Index[strconv.Itoa(id)] = map[string]any{"expr": expr, "doc": toJSON(doc), "observed": obsJSON(o)}
	})
	// a quoted identifier is ONE name wherever it stands: after a field, a parenthesis, an index, a pipe
	for _, name := range []string{"x.y", ".", "a.b.c", "1.5", "x[0]", "a b", "x|y", "*", "@", "$", "x.y.z", "..", "a.", ".a", "[0]", "x,y", "a:b"} {
		q := quotedIdent(name)
		doc := map[string]any{"a": map[string]any{name: json.Number("4"), "x": map[string]any{"y": json.Number("9"), "y.z": json.Number("8")}, "b": map[string]any{name: json.Number("5")}}, "x": map[string]any{"y": json.Number("7")}, name: json.Number("6")}
		run("a."+q, doc, json.Number("4"), "quoted-after-field")
		run("a.b."+q, doc, json.Number("5"), "quoted-after-field")
		run("\"a\"."+q, doc, json.Number("4"), "quoted-after-field")
		run("(a)."+q, doc, json.Number("4"), "quoted-after-field")
		run("[a][0]."+q, doc, json.Number("4"), "quoted-after-field")
		run("a | "+q, doc, json.Number("4"), "quoted-after-field")
		run(q, doc, json.Number("6"), "quoted-after-field")
		run("@."+q, doc, json.Number("6"), "quoted-after-field")
		run("a.\"b\"."+q, doc, json.Number("5"), "quoted-after-field")
	}
	// numbers between backticks in every spelling, bare and padded with the white space JSON allows on either
	// side, alone and inside containers: the value, and the digits as to_string shows them
	for _, num := range []string{"0", "-0", "1", "-1", "7", "10", "1.0", "1.50", "-0.10e+2", "1e2", "1E-2", "15e-1", "0.000", "123456789012345678901234567890.5", "1e400", "-2.5e-3", "9223372036854775808"} {
		for _, pre := range []string{"", " ", "\n", "\t\r "} {
			for _, post := range []string{"", " ", "\n", " \t\r\n"} {
				run("`"+pre+num+post+"`", nil, json.Number(num), "json-number-padded")
				run("to_string(`"+pre+num+post+"`)", nil, num, "json-number-padded")
				if pre == "" || post == "" {
					run("`["+pre+num+post+","+pre+num+post+"]`", nil, []any{json.Number(num), json.Number(num)}, "json-number-padded")
					run("`{\"k\":"+pre+num+post+"}`.k", nil, json.Number(num), "json-number-padded")
				}
			}
		}
	}
	// JSON text is not touched between the backticks: strings and keys that look like JSON punctuation (a comma
	// before a closing bracket, brackets, colons, comment marks, a backslash-u that is text) stay what they are
	for _, str := range []string{"a,]", "a, }", ",]", ", \n]", "[0-9,]+", "{\"k\": 1,}", "k, }", "//", "/* */", "#", "a:b", "[", "]", "{", "}", "\\u0041", "',", "`", "tru", "nul", ",", " ", "\t,\t]"} {
		q := jsonQuote(str)
		esc := strings.ReplaceAll(q, "`", "\\`")
		run("`["+esc+"]`", nil, []any{str}, "json-text-untouched")
		run("`["+esc+", 12345678901234567890]`", nil, []any{str, json.Number("12345678901234567890")}, "json-text-untouched")
		run("`{"+esc+": true}`", nil, map[string]any{str: true}, "json-text-untouched")
		run("`{"+esc+": ["+esc+"]}`."+q, nil, []any{str}, "json-text-untouched")
		run("`[{\"pattern\": "+esc+"}, 1]`[0].pattern", nil, str, "json-text-untouched")
		run("`[ "+esc+" , "+esc+" ]`[1]", nil, str, "json-text-untouched")
	}
	// runs of backslashes and quotes in raw strings: pairs collapse from the left, one at a time
	for _, body := range []string{`\\\\`, `\\\\\\`, `\\\\\\\\`, `\\\'`, `\\\\\'`, `\'\\`, `\'\'`, `\\\'\\`, `\\\\\\\'`, `\\\\\\d+`, `\\\\server\\share`, `a\\\\\\\\b`, `\\\\\\\\\\`, `\\x\\\\`, `\\\\\\\'\\\\`} {
		// decode as the grammar prescribes: \' is a quote, \\ is a backslash, any other backslash stays
		var want strings.Builder
		for i := 0; i < len(body); i++ {
			if body[i] == '\\' && i+1 < len(body) && (body[i+1] == '\'' || body[i+1] == '\\') {
				want.WriteByte(body[i+1])
				i++
				continue
			}
			want.WriteByte(body[i])
		}
		run("'"+body+"'", nil, want.String(), "raw-escape-runs")
		run("['"+body+"', '"+body+"'][1]", map[string]any{}, want.String(), "raw-escape-runs")
	}
	sh.Flush()
	sum.Cases = id
	sum.Shards = sh.files
	sum.Distinct = len(distinct)
	sum.Rule = "random Unicode strings (quotes, backslashes, backticks, control characters, astral code points, U+FFFD, runs of escape-like text) written as raw string, JSON string literal and quoted identifier must evaluate to the string / select the member; random JSON values between backticks evaluate to themselves with number text preserved; untouched raw-string escapes are preserved; every case also compared with the model; distinct = distinct (syntax, expression)"
}

var escapeSome bool

func quotedIdent(s string) string {
	// JSON escaping without HTML escaping; any code point may also be written as a \\uXXXX escape (or surrogate pair)
	var b strings.Builder
	b.WriteByte('"')
	for _, r := range s {
		if escapeSome && rng.Intn(3) == 0 {
			if r >= 0x10000 {
				r -= 0x10000
				fmt.Fprintf(&b, `\u%04x\u%04X`, 0xd800+(r>>10), 0xdc00+(r&0x3ff))
			} else {
				fmt.Fprintf(&b, pick([]string{`\u%04x`, `\u%04X`}), r)
			}
			continue
		}
		switch {
		case r == '"':
			b.WriteString(`\"`)
		case r == '\\':
			b.WriteString(`\\`)
		case r == '\n':
			b.WriteString(`\n`)
		case r == '\r':
			b.WriteString(`\r`)
		case r == '\t':
			b.WriteString(`\t`)
		case r < 0x20:
			fmt.Fprintf(&b, `\u%04x`, r)
		default:
			b.WriteRune(r)
		}
	}
	b.WriteByte('"')
	return b.String()
}

func toJSONPlain(v any) string { return litText(v) }

func literalValue(d int) any {
	n := rng.Intn(12)
	if d <= 0 && n >= 8 {
		n = rng.Intn(8)
	}
	switch {
	case n == 0:
		return nil
	case n == 1:
		return rng.Intn(2) == 0
	case n < 4:
		return randString()
	case n < 8:
		return json.Number(pick([]string{"0", "-0", "1.50", "1e5", "1E-5", "123456789012345678901234567890.5", "-2", "0.1"}))
	case n < 10:
		a := make([]any, rng.Intn(3))
		for i := range a {
			a[i] = literalValue(d - 1)
		}
		return a
	}
	m := map[string]any{}
	for i := 0; i < rng.Intn(3); i++ {
		m[randString()] = literalValue(d - 1)
	}
	return m
}
