package main

import (
	"encoding/json"
	"fmt"
	"github.com/woodsbury/decimal128"
	"math"
	"strconv"
	"strings"

	"github.com/woodsbury/jmespath"
)

func init() { generators["C08"] = genC08 }

type fault struct {
	expr    string
	cat     string // expected category
	static  bool   // decided by the expression text alone
	wrapped bool   // a catalogue fault placed inside another construct
}

func c08Faults() []fault {
	fs := []fault{}
	add := func(cat string, static bool, exprs ...string) {
		for _, e := range exprs {
			fs = append(fs, fault{e, cat, static, false})
		}
	}
	add("CSyntax", true, "a.", "a[", "a[0", "a.b.", "(a", "a)", "a b", "a ||", "|| a", "a[?b", "a[?]", "{a}", "{a:}", "{: a}", "[a,]", "[,a]",
		"a[0:1:2:3]", "a..b", "a.[", "@@", "a.1", "`{`", "`[1,]`", "'abc", "\"abc", "`1", "a[*", "a[* ]", "!", "a == ", "a & b", "&a", "a # b", "a[1.5]", "a[a]",
		"let", "in", "let in", "in a", "a in b", "$1", "let $1 = a in $1", "let $x = 1 in", "let x = a in x", "let $x a in $x", "$x =", "abs(a", "abs(a b)", "sort_by(a, &)", "a.{b}", "a | | b", "a[::1:]", "{a: b c: d}", "{1: a}")
	add("CInvalidArity", true, "abs()", "abs(a, b)", "length()", "length(a, b, c)", "contains(a)", "contains(a, b, c)", "join(a)", "sort_by(a)", "sort_by(a, &b, &c)",
		"map(&a)", "merge()", "not_null()", "zip()", "pad_left(a)", "pad_left(a, b, c, d)", "replace(a, b)", "replace(a, b, c, d, e)", "find_first(a)", "find_first(a, b, c, d, e)",
		"trim()", "trim(a, b, c)", "split(a)", "split(a, b, c, d)", "to_number()", "type(a, b)", "group_by(a)", "max_by(a)", "min_by(a, &b, c)")
	add("CUnknownFunction", true, "foo(a)", "lenght(a)", "ABS(a)", "to_int(a)", "a.foo(b)", "[foo(a)]", "a[?foo(@)]", "sort_by(a, &foo(@))",
		"nosuch()", "now()", "a.nosuch()", "a[*].nosuch()", "a || nosuch()", "sort_by(a, &nosuch())", "[nosuch()]", "nosuch(a, b, c, d, e, f)", "nosuch(&a)", "Abs()", "abs_(a)", "_abs(a)", "sort_By(a, &b)")
	add("CInvalidType", true, "sort_by(a, b)", "max_by(a, b)", "min_by(a, `1`)", "group_by(a, 'x')", "map(a, b)", "map(b, &a)")
	add("CInvalidValue", true, "a[::0]", "a[1:2:0]", "[::0]", "a[*][::0]")
	// the same static faults inside every construct that holds a sub-expression: the category is the fault's
	for _, f := range append([]fault{}, fs...) {
		if f.cat == "CSyntax" {
			continue
		}
		for _, ctx := range []string{"let $x = %s in $x", "let $x = `1` in %s", "let $x = `1`, $y = %s in $x", "a[?%s]", "[%s]", "{k: %s}", "a | %s", "a.b || %s", "%s && a", "!(%s)", "(%s)", "a[*].[%s]", "sort_by(a, &%s)", "map(&%s, a)", "not_null(a, %s)", "abs(%s)", "a[?b == %s]", "[a, [b, %s]]", "a[?let $v = %s in $v]", "%s | a", "`1` + %s", "- %s"} {
			fs = append(fs, fault{fmt.Sprintf(ctx, f.expr), f.cat, true, true})
		}
	}
	// run-time faults (the document decides)
	add("CInvalidType", false, "abs('x')", "abs(s)", "length(`1`)", "length(n)", "sort(o)", "sort(mixed)", "join(',', nums)", "join(`1`, strs)", "keys(arr)", "values(s)",
		"max(mixed)", "sum(strs)", "avg(o)", "ceil(s)", "floor(arr)", "starts_with(n, 'a')", "ends_with(s, n)", "reverse(n)", "to_string(s) + `1`", "n + s", "s * n", "arr / n", "n % o",
		"sort_by(objs, &s)[0] && sort_by(mixedobjs, &k)", "max_by(objs, &o)", "map(&@, n)", "merge(o, arr)", "zip(arr, n)", "pad_left(n, `1`)", "pad_left(s, 'x')", "split(n, ',')", "find_first(s, n)",
		"replace(s, 'a', n)", "trim(n)", "contains(n, `1`)", "from_items(n)", "from_items([`1`])", "items(arr)", "group_by(objs, &n)", "find_first(s, 'a', 'x')", "split(s, ',', 'x')")
	add("CInvalidValue", false, "pad_left(s, `-1`)", "pad_left(s, `1.5`)", "pad_right(s, `3`, 'ab')", "pad_left(s, `3`, '')", "split(s, ',', `-1`)", "split(s, ',', `0.5`)",
		"from_items([['a']])", "from_items([[`1`, `2`]])", "from_items([['a', `1`, `2`]])", "find_first(s, 'a', `0.5`)", "find_last(s, 'a', `0`, `1.5`)", "replace(s, 'a', 'b', `1.5`)",
		"pad_left(s, `1e40`)", "find_first(s, 'a', `99999999999999999999`)",
		"pad_left(s, `1e400`)", "pad_right(s, `-1e400`)", "split(s, ',', `1e400`)", "find_last(s, 'a', `-1e400`, `2`)", "replace(s, 'a', 'b', `1e309`)", "find_first(s, 'a', `1e6000`)", "find_first(s, 'a', `0`, `1e999`)",
		"pad_left(s, `1e-400`)", "pad_left(s, `2.0000000000000000001`)", "split(s, ',', `1e-10`)", "find_first(s, 'a', `0.00000000000000000000000000000000000001`)", "replace(s, 'a', 'b', `9223372036854775808`)", "pad_left(s, `-9223372036854775809`)")
	add("CNotANumber", false, "n / `0`", "`1` / `0`", "`0` / `0`", "n // `0`", "n % `0`", "`1e6000` * `1e6000`", "`-1e6000` * `1e6000`", "`9e6144` * `10`", "sum([`9e6144`, `9e6144`])")
	add("CUndefinedVariable", false, "$x", "a | $x", "[$y]", "let $x = `1` in $y", "a[?$z]", "arr[*].[$q]", "let $x = $x in $x")
	return fs
}

var c08Docs = []string{
	`{"a":1,"b":2,"n":3,"s":"abc","arr":[1,2],"o":{"k":1},"mixed":[1,"a"],"nums":[1,2],"strs":["a","b"],"objs":[{"s":"x","n":1,"o":{},"k":1}],"mixedobjs":[{"k":1},{"k":"a"}]}`,
	`{"a":[1],"b":"x","n":-3.5,"s":"","arr":[[],{}],"o":{},"mixed":["a",1],"nums":[0],"strs":["",""],"objs":[{"s":"y","n":2,"o":{"a":1},"k":2},{"s":"x","n":1,"o":{},"k":1}],"mixedobjs":[{"k":"a"},{"k":1}]}`,
	`null`, `[]`, `"text"`,
}

func genC08(tier, out string, sum *Summary) {
	sh := &Shards{dir: out, prop: "C08", imports: "Checks.Basic", ctype: "bcase", runner: "basic_run", per: 300}
	docs := make([]any, len(c08Docs))
	for i, d := range c08Docs {
		docs[i] = jsonDoc(d)
	}
	id := 0
	distinct := map[string]bool{}
	emitToModel := true
	check := func(expr string, doc any, want string, static bool) Obs {
		o := search(expr, doc)
		id++
		sum.count("outcome/" + o.Kind)
		for _, cat := range o.Cats {
			sum.count("category/" + cat)
		}
		if o.Kind == "err" {
			if len(o.Cats) != 1 {
				sum.direct("one-category", expr, doc, fmt.Sprintf("the error matches %v under errors.Is (exactly one exported category expected): %s", o.Cats, o.Msg))
			}
			if want != "" && (len(o.Cats) != 1 || o.Cats[0] != want) {
				sum.direct("category", expr, doc, fmt.Sprintf("expected category %s, got %v (%s)", want, o.Cats, o.Msg))
			}
			distinct[expr] = true
		} else if want != "" && static {
			sum.direct("category", expr, doc, "expected a "+want+" error, got "+describe(o))
		}
		if modelled(doc) && emitToModel && !heavyForModel(expr, doc) && !(hasEnumText(expr) == "true" && strings.ContainsAny(expr, "[<>=!")) {
			sh.Add(fmt.Sprintf("BC %d %s %s %s %s", id, hx(expr), coqValue(doc), hasEnumText(expr), coqObs(o)))
		}
		sid := strconv.Itoa(id)
		sum.Index[sid] = map[string]any{"expr": expr, "doc": toJSON(doc), "observed": obsJSON(o)}
		if len(sum.Samples) < 8 && id%97 == 0 {
			sum.Samples = append(sum.Samples, sum.Index[sid])
		}
		return o
	}
	for _, f := range c08Faults() {
		sum.count("fault/" + f.cat)
		// Compile decides static faults; a compiled Expression never reports them
		progress(f.expr)
		x, cerr := jmespath.Compile(f.expr)
		if f.static {
			if cerr == nil {
				sum.direct("static", f.expr, nil, "Compile accepted an expression with a static "+f.cat+" fault")
			} else {
				if x != nil {
					sum.direct("nil-result", f.expr, nil, "Compile returned a non-nil Expression together with an error")
				}
				cc := classify(cerr)
				_ = cerr.Error()
				var first Obs
				for di, doc := range docs {
					emitToModel = di == 0 || !f.wrapped // a static fault is the same for every document: the model sees the wrapped ones once
					o := check(f.expr, doc, f.cat, true)
					emitToModel = true
					if di == 0 {
						first = o
					} else if !sameObs(first, o, false) {
						sum.direct("doc-independence", f.expr, doc, fmt.Sprintf("a static fault is reported as %s for one document and %s for another", describe(first), describe(o)))
					}
					if o.Kind == "err" && !sameCats(o.Cats, cc) {
						sum.direct("compile-vs-search", f.expr, doc, fmt.Sprintf("Compile reports %v, Search reports %v", cc, o.Cats))
					}
				}
			}
			continue
		}
		if cerr != nil {
			sum.direct("static", f.expr, nil, "Compile rejected an expression whose only fault is at run time: "+cerr.Error())
			continue
		}
		hit := false
		for _, doc := range docs[:2] {
			o := check(f.expr, doc, "", false)
			eo := observe(func() (any, error) { return x.Search(doc) })
			if !sameObs(o, eo, false) {
				sum.direct("compile-vs-search", f.expr, doc, fmt.Sprintf("Search gives %s, Expression.Search gives %s", describe(o), describe(eo)))
			}
			if eo.Kind == "err" {
				for _, c := range eo.Cats {
					if c == "CSyntax" || c == "CInvalidArity" || c == "CUnknownFunction" {
						sum.direct("compiled-never-static", f.expr, doc, "a compiled Expression reported the static category "+c)
					}
				}
				if len(eo.Cats) == 1 && eo.Cats[0] == f.cat {
					hit = true
				} else {
					sum.direct("category", f.expr, doc, fmt.Sprintf("expected category %s, got %v (%s)", f.cat, eo.Cats, eo.Msg))
				}
			}
		}
		if !hit {
			sum.direct("category", f.expr, docs[0], "expected a "+f.cat+" error on at least one of the two fault documents, got none")
		}
	}
	// a fault in every argument position of every built-in
	for _, af := range argFaultFamily() {
		want := af.want
		if af.fn == "not_null" {
			want = ""
		}
		sum.count("arg-fault")
		o := check(af.expr, af.doc, want, false)
		if want != "" && o.Kind != "err" {
			sum.direct("category", af.expr, af.doc, "an argument fails with "+want+" but the call returns "+describe(o))
		}
	}
	// two faults in one call: an argument outside the signature decides (invalid-type), whatever is wrong with the
	// VALUE of another argument
	for _, tf := range []struct{ expr, want string }{
		{"pad_left('abc', `-1`, `1`)", "CInvalidType"}, {"pad_left('abc', `1.5`, `[]`)", "CInvalidType"}, {"pad_right('abc', `-1`, `1`)", "CInvalidType"}, {"pad_right('abc', `1.5`, `{}`)", "CInvalidType"},
		{"pad_left(`1`, `-1`)", "CInvalidType"}, {"pad_right(`1`, `1.5`, 'x')", "CInvalidType"}, {"pad_left('a', `-1`, '')", "CInvalidValue"}, {"pad_left('a', `2`, 'xy')", "CInvalidValue"}, {"pad_left('a', 'x', 'xy')", "CInvalidType"},
		{"split(`1`, ',', `-1`)", "CInvalidType"}, {"split('a', `1`, `-1`)", "CInvalidType"}, {"split('a', ',', `1.5`)", "CInvalidValue"}, {"split('a', ',', `-1`)", "CInvalidValue"}, {"split('a', `1`, `1.5`)", "CInvalidType"},
		{"replace(`1`, 'a', 'b', `-1`)", "CInvalidType"}, {"replace('a', `1`, 'b', `-1`)", "CInvalidType"}, {"replace('a', 'a', `1`, `-1`)", "CInvalidType"}, {"replace('a', 'a', 'b', `1.5`)", "CInvalidValue"}, {"replace('a', 'a', 'b', `-1`)", "CInvalidValue"},
		{"find_first(`1`, 'a', `1.5`)", "CInvalidType"}, {"find_first('a', `1`, `1.5`)", "CInvalidType"}, {"find_first('a', 'a', `1.5`, 'x')", "CInvalidType"}, {"find_last('a', 'a', `1.5`, `[]`)", "CInvalidType"}, {"find_last('a', 'a', 'x', `1.5`)", "CInvalidType"},
		{"find_first('a', 'a', `1.5`)", "CInvalidValue"}, {"find_last('a', 'a', `0`, `1.5`)", "CInvalidValue"}, {"from_items(`[[1, 2], 3]`)", "CInvalidType"}, {"from_items(`[[\"a\", 1, 2], 3]`)", "CInvalidType"}, {"from_items(`[[1, 2]]`)", "CInvalidValue"},
		{"pad_left(s, n, a)", "CInvalidType"}, {"pad_right(s, f, a)", "CInvalidType"}, {"split(n, s, f)", "CInvalidType"}, {"replace(s, s, s, f)", "CInvalidValue"}, {"replace(s, a, s, f)", "CInvalidType"}} {
		sum.count("two-faults")
		check(tf.expr, map[string]any{"s": "abc", "n": json.Number("-1"), "f": json.Number("1.5"), "a": []any{}}, tf.want, false)
	}
	for _, h := range []string{"+041", "-041", " 041", "0x41", "_041", "004", "00g1", "+fff"} {
		for _, form := range []string{"\"\\u%s\"", "a.\"\\u%s\"", "{\"\\u%s\": a}", "length(\"\\u%s\")", "\"\\ud83d\\u%s\""} {
			sum.count("escape-faults")
			for _, d := range docs[:2] {
				check(fmt.Sprintf(form, h), d, "CSyntax", true)
			}
		}
	}
	// every combination of two constructs with failing operands: whatever fails obeys the contract (nil result,
	// exactly one category, Compile = Search for static faults, compiled expressions never report static ones)
	for i, sc := range smallScope(ssCfg{funcs: true, lets: true, errs: true, bools: true}, 1, 2000) {
		text := unparse(sc.e)
		emitToModel = i%6 == 0 && !(hasEnum(sc.e) && orderSensitive(sc.e))
		o := check(text, sc.doc, "", false)
		emitToModel = true
		x, cerr := jmespath.Compile(text)
		if cerr != nil {
			sum.direct("static", text, nil, "Compile rejected a well-formed expression: "+cerr.Error())
			continue
		}
		eo := observe(func() (any, error) { return x.Search(sc.doc) })
		if eo.Kind != o.Kind || (eo.Kind == "err" && !sameCats(eo.Cats, o.Cats) && !unorderedFaults(sc.e)) {
			sum.direct("compile-vs-search", text, sc.doc, fmt.Sprintf("Search gives %s, Expression.Search gives %s", describe(o), describe(eo)))
		}
		if eo.Kind == "err" {
			for _, c := range eo.Cats {
				if c == "CSyntax" || c == "CInvalidArity" || c == "CUnknownFunction" {
					sum.direct("compiled-never-static", text, sc.doc, "a compiled Expression reported the static category "+c)
				}
			}
		}
	}
	// well-formed expressions without functions, variables or arithmetic never fail, whatever the document
	for _, e := range []string{"[*].[*]", "a[*].[*]", "[].[*]", "*.[*]", "[?a].[*]", "[0:1].[*]", "[*].[*].[*]", "a.[*]", "@.[*]", "a.*.[*]", "[*].*", "*.*", "a[*].*.*", "[*].[ *]", "a.[ *, b]", "[*].{a: *}", "a[?b].[*][0]", "[*].[*] | [0]", "a | [*].[*]", "(a)[*].[*]", "a[*].[*][*]", "a[][].[*]", "[::2].[*]", "[::-1].[*].[*]",
		"a[*][*]", "a[][]", "a[?@][?@]", "a.*.*", "[*][0]", "[0][*]", "a[0:][0:]", "a[::-1][::-1]", "a.b.c.d", "a[0][1][2]", "[a, b][*]", "{x: a}.x[*]", "a || b || c", "a && b", "!a", "a == b", "a != a", "@", "$", "$.a[*].b", "(a | b)[*]", "a[*] | [*] | [*]"} {
		for _, d := range append(docs, jsonDoc(`[[1,2],[3]]`), jsonDoc(`{"a":[[1],[2,[3]]],"b":{"a":1}}`), jsonDoc(`[{"a":1},{"a":[1,2]},null,3]`), jsonDoc(`{"a":{"b":[{"c":1}]}}`)) {
			emitToModel = false
			o := check(e, d, "", false)
			emitToModel = true
			if o.Kind != "val" {
				sum.direct("category", e, d, "an expression made of selectors and comparisons only cannot fail, got "+describe(o))
			}
		}
	}
	// integer arguments carried by Go kinds that JSON decoding never produces: out of range is a value fault,
	// never a type fault (the argument IS a number)
	{
		nat := map[string]any{"u64": uint64(math.MaxUint64), "u": uint(1) << 63, "i64": int64(math.MinInt64), "f": 1.5, "nan": math.NaN(), "inf": math.Inf(1), "dnan": decimal128.NaN(), "dinf": decimal128.Inf(-1),
			"big": float64(1 << 63), "f32": float32(2.5), "i8": int8(-1), "jn": json.Number("NaN"), "jinf": json.Number("-Infinity"), "s": "abc"}
		emitToModel = false
		for _, a := range []string{"u64", "u", "i64", "f", "nan", "inf", "dnan", "dinf", "big", "f32", "i8", "jn", "jinf"} {
			for _, f := range []string{"pad_left(s, %s)", "pad_right(s, %s, 'x')", "split(s, 'b', %s)", "replace(s, 'b', 'c', %s)"} {
				check(fmt.Sprintf(f, a), nat, "CInvalidValue", false)
			}
		}
		for _, a := range []string{"u64", "u", "f", "nan", "inf", "dnan", "dinf", "big", "f32", "jn", "jinf"} {
			for _, f := range []string{"find_first(s, 'b', %s)", "find_last(s, 'b', %s)", "find_first(s, 'b', `0`, %s)", "find_last(s, 'b', %s, `2`)"} {
				check(fmt.Sprintf(f, a), nat, "CInvalidValue", false)
			}
		}
		emitToModel = true
	}
	// an array argument with an element of the wrong type is a type fault wherever the element stands and whatever
	// the other elements are (a not-a-number value before it does not turn the fault into another category)
	{
		emitToModel = false
		for _, nl := range []any{math.NaN(), float32(math.NaN()), math.Inf(1), json.Number("NaN"), json.Number("-Infinity"), decimal128.NaN(), decimal128.Inf(1), json.Number("1e7000")} {
			for _, wrong := range []any{"x", nil, true, []any{}, map[string]any{}} {
				for _, arr := range [][]any{{nl, wrong}, {wrong, nl}, {json.Number("1"), nl, wrong}, {nl, json.Number("1"), wrong, nl}} {
					for _, e := range []string{"sum(@)", "avg(@)", "sum(a)", "avg(a || a)"} {
						var d any = arr
						if strings.Contains(e, "a") && e != "avg(@)" {
							d = map[string]any{"a": arr}
						}
						check(e, d, "CInvalidType", false)
					}
				}
			}
		}
		emitToModel = true
	}
	// values whose serialisation fails with an error that itself matches an exported category
	for _, sn := range sentinels {
		for _, e := range []string{"to_string(@)", "to_string(v)", "[v][*].to_string(@)", "to_string([v])"} {
			bad := badMarshal{fmt.Errorf("wrapped: %w", sn.err)}
			check(e, map[string]any{"v": bad}, "CEvaluationFailed", false)
			check(e, bad, "", false)
		}
	}
	for i := 0; i < 300; i++ {
		text := soup()
		doc := pick(docs)
		o := check(text, doc, "", false)
		_, cerr := jmespath.Compile(text)
		if cerr != nil && (o.Kind != "err" || !sameCats(o.Cats, classify(cerr))) {
			sum.direct("compile-vs-search", text, doc, fmt.Sprintf("Compile reports %v, Search gives %s", classify(cerr), describe(o)))
		}
		if cerr == nil && o.Kind == "err" {
			for _, c := range o.Cats {
				if c == "CSyntax" || c == "CInvalidArity" || c == "CUnknownFunction" {
					sum.direct("compiled-never-static", text, doc, "Compile succeeds but Search reports the static category "+c)
				}
			}
		}
	}
	// random expressions: whatever fails must obey the contract
	g := &Gen{Funcs: true, Arith: true, Lets: true, enumFuncs: true, mutFuncs: true, freeVars: true}
	n := 1200
	if tier == "thorough" {
		n = 30000
	}
	for i := 0; i < n; i++ {
		e := g.expr(3)
		text := unparse(e)
		if rng.Intn(3) == 0 {
			text = mutate(text)
		}
		doc := genDoc()
		o := check(text, doc, "", false)
		_, cerr := jmespath.Compile(text)
		if cerr != nil {
			// static: Search must report the same for unrelated documents
			o2 := search(text, docs[rng.Intn(len(docs))])
			if !sameObs(o, o2, false) {
				sum.direct("doc-independence", text, doc, fmt.Sprintf("Compile fails (%v) but Search gives %s on one document and %s on another", cerr, describe(o), describe(o2)))
			}
			if o.Kind != "err" || !sameCats(o.Cats, classify(cerr)) {
				sum.direct("compile-vs-search", text, doc, fmt.Sprintf("Compile reports %v, Search gives %s", classify(cerr), describe(o)))
			}
		} else if o.Kind == "err" {
			for _, c := range o.Cats {
				if c == "CSyntax" || c == "CInvalidArity" || c == "CUnknownFunction" {
					sum.direct("compiled-never-static", text, doc, "Compile succeeds but Search reports the static category "+c)
				}
			}
		}
	}
	sh.Flush()
	sum.Cases = sh.total
	sum.Shards = sh.files
	sum.Distinct = len(distinct)
	sum.Rule = "a catalogue of single-fault expressions for every fault site and category (static: syntax, arity, unknown function, expression-reference position, slice step; run time: type, value range, not-a-number, undefined variable) on 5 unrelated documents, plus random and mutated expressions; checks: nil result, exactly one exported category, the specified category, Compile = Search, document independence of static faults, compiled expressions never report static categories; distinct = failing expressions"
}

// small textual mutations of a valid expression
func mutate(s string) string {
	if len(s) == 0 {
		return s
	}
	b := []byte(s)
	switch rng.Intn(6) {
	case 0: // delete a byte
		i := rng.Intn(len(b))
		return string(append(b[:i:i], b[i+1:]...))
	case 1: // insert a token
		i := rng.Intn(len(b) + 1)
		ins := pick([]string{"]", "[", ")", "(", ".", ",", "|", "&", "'", "`", "\"", "*", ":", "}", "{", " in ", "$", "?", "=", "!", "@", "\\"})
		return string(b[:i]) + ins + string(b[i:])
	case 2: // truncate
		return string(b[:rng.Intn(len(b))])
	case 3: // swap two bytes
		i, j := rng.Intn(len(b)), rng.Intn(len(b))
		b[i], b[j] = b[j], b[i]
		return string(b)
	case 4: // duplicate a byte
		i := rng.Intn(len(b))
		return string(b[:i]) + string(b[i]) + string(b[i:])
	}
	i := rng.Intn(len(b))
	b[i] = byte(pick([]int{0, 0x80, 0xff, 0xc3, 'A', '9', ' ', '\n'}))
	return string(b)
}

type badMarshal struct{ err error }

func (b badMarshal) MarshalJSON() ([]byte, error) { return nil, b.err }

// can two faults of different categories compete in an unspecified order (members of a multi-select hash,
// bindings of a let)?
func unorderedFaults(e *R) bool {
	if e == nil {
		return false
	}
	if (e.K == KMultiHash || e.K == KLet) && len(e.KEs) > 1 {
		return true
	}
	if unorderedFaults(e.L) || unorderedFaults(e.Rt) || unorderedFaults(e.Cond) {
		return true
	}
	for _, x := range e.Es {
		if unorderedFaults(x) {
			return true
		}
	}
	for _, kv := range e.KEs {
		if unorderedFaults(kv.E) {
			return true
		}
	}
	for _, a := range e.Args {
		if unorderedFaults(a.E) {
			return true
		}
	}
	return false
}
