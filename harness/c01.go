package main

import (
	"fmt"
	"strconv"
)

func init() {
	generators["C01"] = func(tier, out string, sum *Summary) {
		genSpecCases("C01", tier, out, sum, &Gen{}, 3)
	}
}

// genSpecCases: reference expression + document -> (text, observed outcome);
// the Coq side checks unparse = text, reference semantics = observed, model = observed.
func genSpecCases(prop, tier, out string, sum *Summary, g *Gen, depth int) {
	n := 2500
	if tier == "thorough" {
		n = 40000
	}
	sh := &Shards{dir: out, prop: prop, imports: "Spec.RefAst Checks.Spec", ctype: "speccase", runner: "spec_run", per: 300}
	distinct := map[string]bool{}
	docs := make([]any, 40)
	for i := range docs {
		docs[i] = genDoc()
	}
	for id := 1; id <= n; id++ {
		e := g.expr(depth)
		text := unparse(e)
		doc := docs[rng.Intn(len(docs))]
		if rng.Intn(4) == 0 {
			doc = genDoc()
		}
		o := search(text, doc)
		unordered := "false"
		if hasEnum(e) {
			unordered = "true"
		}
		sum.count("outcome/" + o.Kind)
		sum.count("toplevel/" + kindName(e))
		if o.Kind == "val" {
			sum.count(fmt.Sprintf("result/%T", o.Value))
			if o.Value != nil {
				distinct[text+"|"+toJSON(o.Value)] = true
			}
		}
		if hasEnum(e) && orderSensitive(e) {
			sum.count("not-compared/enumeration-then-position")
			continue // a position or comparison applied to an enumerated array inherits the permitted variation
		}
		sh.Add(fmt.Sprintf("SC %d %s %s %s %s %s", id, coqR(e), hx(text), coqValue(doc), unordered, coqObs(o)))
		sid := strconv.Itoa(id)
		sum.Index[sid] = map[string]any{"expr": text, "doc": toJSON(doc), "observed": obsJSON(o)}
		if len(sum.Samples) < 8 && id%211 == 0 {
			sum.Samples = append(sum.Samples, sum.Index[sid])
		}
	}
	sh.Flush()
	sum.Cases = sh.total
	sum.Shards = sh.files
	sum.Distinct = len(distinct)
	sum.Rule = "random reference expressions (depth <= " + strconv.Itoa(depth) + ") from the grammar-directed generator, rendered with minimal parentheses, on random documents over keys a,b,c,k with every JSON type at every position; distinct/non-trivial = distinct (expression text, non-null result)"
}

func kindName(e *R) string {
	return [...]string{"current", "root", "field", "literal", "raw", "var", "sub", "index", "proj", "multilist", "multihash", "pipe", "or", "and", "not", "cmp", "arith", "neg", "pos", "call", "let"}[e.K]
}

// does the expression enumerate object members (result order then depends on map order)?
func hasEnum(e *R) bool {
	if e == nil {
		return false
	}
	if e.K == KProj && e.PK == PValues {
		return true
	}
	if e.K == KCall && (e.Name == "keys" || e.Name == "values" || e.Name == "items") {
		return true
	}
	if hasEnum(e.L) || hasEnum(e.Rt) || hasEnum(e.Cond) {
		return true
	}
	for _, x := range e.Es {
		if hasEnum(x) {
			return true
		}
	}
	for _, kv := range e.KEs {
		if hasEnum(kv.E) {
			return true
		}
	}
	for _, a := range e.Args {
		if hasEnum(a.E) {
			return true
		}
	}
	return false
}
