package main

import (
	"encoding/json"
	"fmt"
	"regexp"
	"sort"
	"strconv"
	"strings"
)

var longNumberRE = regexp.MustCompile(`[0-9]{35,}`)

func init() {
	generators["C01"] = func(tier, out string, sum *Summary) {
		genSpecCases("C01", tier, out, sum, &Gen{Lets: true}, 3)
		extraTextCases("C01", tier, out, sum, true, true)
	}
}

// genSpecCases: reference expression + document -> (text, observed outcome);
// the Coq side checks unparse = text, reference semantics = observed, model = observed.
func genSpecCases(prop, tier, out string, sum *Summary, g *Gen, depth int) {
	n := 2500
	if tier == "thorough" {
		n = 40000
	}
	sh := &Shards{dir: out, prop: prop, imports: "Spec.RefAst Checks.Spec", ctype: "speccase", runner: "spec_run", per: 300}
	distinct := map[string]bool{}
	docs := make([]any, 40)
	for i := range docs {
		docs[i] = genDoc()
	}
	docs = append(docs, shapedDocs()...)
	// integer literals at the limits of the narrower representations a parser may choose for them, in every
	// position an index can stand: alone, after a pipe, at the head of a right-hand side, in a reference
	var fixedE []*R
	if prop == "C01" {
		for _, v := range edgeIdx {
			fixedE = append(fixedE, idx(cur(), v), pipe(fld("a"), idx(cur(), v)), proj(PList, fld("b"), idx(cur(), v)), idx(fld("a"), v),
				call("map", ar(idx(cur(), v)), av(fld("b"))), proj(PList, fld("b"), sub(idx(cur(), v), fld("a"))), mlist(idx(cur(), v), idx(fld("a"), v)))
			w := v
			fixedE = append(fixedE, slc(cur(), &w, nil, nil, cur()), slc(fld("a"), nil, &w, nil, cur()), pipe(fld("a"), slc(cur(), &w, nil, nil, cur())))
		}
	}
	if prop == "C01" {
		// the scope chain: inner bodies that use outer bindings, shadowing at every depth, bindings used under
		// projections, filters, pipes and multi-selects
		A, B, C := vr("$a"), vr("$b"), vr("$c")
		bind := func(n string, e *R) KV { return KV{n, e} }
		fixedE = append(fixedE,
			let([]KV{bind("$a", fld("a"))}, let([]KV{bind("$b", fld("b"))}, mlist(A, B))),
			let([]KV{bind("$a", fld("a"))}, let([]KV{bind("$b", fld("b"))}, let([]KV{bind("$c", fld("k"))}, mlist(A, B, C)))),
			let([]KV{bind("$a", fld("a"))}, let([]KV{bind("$b", A)}, mlist(A, B))),
			let([]KV{bind("$a", fld("a"))}, let([]KV{bind("$a", fld("b"))}, mlist(A))),
			let([]KV{bind("$a", fld("a"))}, mlist(let([]KV{bind("$a", fld("b"))}, A), A)),
			let([]KV{bind("$a", fld("a")), bind("$b", fld("b"))}, let([]KV{bind("$c", fld("k"))}, proj(PList, B, sub(cur(), mlist(cur(), A, C))))),
			let([]KV{bind("$a", fld("k"))}, let([]KV{bind("$b", fld("a"))}, filt(fld("b"), cmp("==", cur(), A), cur()))),
			let([]KV{bind("$a", fld("a"))}, pipe(let([]KV{bind("$b", fld("b"))}, B), mlist(cur(), A))),
			let([]KV{bind("$a", fld("k"))}, let([]KV{bind("$b", &R{K: KLiteral, Lit: nil})}, mlist(A, B, let([]KV{bind("$a", &R{K: KLiteral, Lit: nil})}, A), A))),
			let([]KV{bind("$a", fld("a"))}, mhash(KV{"p", let([]KV{bind("$b", fld("b"))}, mlist(A, B))}, KV{"q", A})),
			let([]KV{bind("$a", fld("a"))}, call("map", ar(let([]KV{bind("$b", cur())}, mlist(A, B))), av(fld("b")))))
	}
	gl := &Gen{Lets: true, letBias: true, Funcs: g.Funcs}
	for id := 1; id <= n+len(fixedE); id++ {
		e := g.expr(depth)
		if id > n {
			e = fixedE[id-n-1]
		} else if prop == "C01" && id%12 == 0 {
			e = gl.expr(depth) // let-bindings are part of the core language: nested and shadowing lets
		}
		text := unparse(e)
		doc := docs[rng.Intn(len(docs))]
		if id > n {
			doc = map[string]any{"a": []any{json.Number("1"), json.Number("2"), json.Number("3")}, "b": []any{[]any{"x", "y"}, []any{"z"}, "s"}}
			if id%2 == 0 {
				doc = []any{"p", "q", "r"}
			}
		} else if rng.Intn(4) == 0 {
			doc = genDoc()
		} else if rng.Intn(5) > 0 {
			// a document on which the expression selects something: synthesised from the
			// expression's paths, or the best of a few pool documents
			cands := []any{docFor(e), docFor(e), docFor(e), docFor(e)}
			doc = fitDoc(text, append(cands[1:], docs...), cands[0])
		}
		if hasEnum(e) && orderSensitive(e) && !buildsObjects(e) {
			// objects with at most one member enumerate in one order only: the position or
			// comparison applied to the enumeration is then determined
			doc = bestNarrow(text, doc)
			sum.count("narrowed-objects/enumeration-then-position")
		}
		o := search(text, doc)
		unordered := "false"
		if hasEnum(e) {
			unordered = "true"
		}
		sum.count("outcome/" + o.Kind)
		sum.count("toplevel/" + kindName(e))
		if o.Kind == "val" {
			sum.count(fmt.Sprintf("result/%T", o.Value))
			if o.Value != nil {
				distinct[text+"|"+toJSON(o.Value)] = true
			}
		}
		if hasEnum(e) && orderSensitive(e) && buildsObjects(e) {
			sum.count("not-compared/enumeration-then-position")
			continue // a position or comparison applied to an enumerated array inherits the permitted variation
		}
		sh.Add(fmt.Sprintf("SC %d %s %s %s %s %s", id, coqR(e), hx(text), coqValue(doc), unordered, coqObs(o)))
		sid := strconv.Itoa(id)
		sum.Index[sid] = map[string]any{"expr": text, "doc": toJSON(doc), "observed": obsJSON(o)}
		if len(sum.Samples) < 8 && id%211 == 0 {
			sum.Samples = append(sum.Samples, sum.Index[sid])
		}
	}
	// small-scope enumeration: every combination of two constructs, on documents of every shape
	cfg := ssCfg{lets: true, errs: true, bools: true}
	per, d3 := 2, 1500
	if prop == "C19" {
		cfg = ssCfg{lets: true, errs: true, funcs: true}
		per, d3 = 1, 800
	}
	if tier == "thorough" {
		per, d3 = len(ssDocs), 20000
	}
	id := n + len(fixedE)
	for _, sc := range smallScope(cfg, per, d3) {
		if prop == "C19" && !usesLet(sc.e) {
			continue
		}
		id++
		e, doc := sc.e, sc.doc
		text := unparse(e)
		if (strings.Contains(text, "%") || strings.Contains(text, "//")) && longNumberRE.MatchString(toJSON(doc)) {
			// a remainder or floored quotient of a number with more than 34 digits: the operand itself is outside the
			// decimals (it is rounded when it is read), and these two operators are not continuous in it
			sum.count("not-compared/remainder-of-unrepresentable-operand")
			continue
		}
		if hasEnum(e) && orderSensitive(e) {
			if buildsObjects(e) {
				continue
			}
			doc = bestNarrow(text, doc)
		}
		o := search(text, doc)
		unordered := "false"
		if hasEnum(e) {
			unordered = "true"
		}
		sum.count("small-scope/" + o.Kind)
		if o.Kind == "val" && o.Value != nil {
			distinct[text+"|"+toJSON(o.Value)] = true
		}
		sh.Add(fmt.Sprintf("SC %d %s %s %s %s %s", id, coqR(e), hx(text), coqValue(doc), unordered, coqObs(o)))
		sum.Index[strconv.Itoa(id)] = map[string]any{"expr": text, "doc": toJSON(doc), "observed": obsJSON(o)}
	}
	// deterministic families with their own documents
	type fam struct {
		e   *R
		doc any
	}
	var fams []fam
	if prop == "C01" {
		// slices: every combination of omitted / zero / positive / negative start and stop with every sign of step,
		// on an array with a null element, on a string of mixed-width characters, bare and after a projection
		arr := jsonDoc(`{"a": [1, null, 3, "x", 5], "s": "héllo", "m": [[1, 2, 3], "abc", [null, 4]]}`)
		opt := []*int64{nil, ip(0), ip(1), ip(-1), ip(2), ip(-2), ip(5), ip(-5)}
		steps := []*int64{nil, ip(1), ip(-1), ip(2), ip(-2)}
		if tier != "thorough" {
			opt = []*int64{nil, ip(0), ip(1), ip(-1), ip(-2), ip(5)}
		}
		for _, a := range opt {
			for _, b := range opt {
				for _, st := range steps {
					fams = append(fams, fam{slc(fld("a"), a, b, st, cur()), arr}, fam{slc(fld("s"), a, b, st, cur()), arr}, fam{proj(PList, fld("m"), slc(cur(), a, b, st, cur())), arr})
				}
			}
		}
	}
	if prop == "C01" {
		// a document that is a Go string is a JSON string, whatever its text looks like (JSON text, digits, blanks)
		texts := []string{"[1, 2]", `{"a": 1}`, " [1]", "[]", "{}", "null", "12", "[1, 2", `"x"`, "true", `[{"a": [1]}]`, "[10]", ""}
		for _, t := range texts {
			for _, e := range []*R{cur(), idx(cur(), 0), fld("a"), proj(PList, cur(), cur()), proj(PFlatten, cur(), cur()), filt(cur(), cur(), cur()), slc(cur(), ip(1), ip(3), nil, cur()), proj(PValues, cur(), cur()),
				cmp("==", cur(), litJ("[]")), call("length", av(cur())), call("type", av(cur())), mlist(cur()), pipe(cur(), idx(cur(), 0)), call("to_array", av(cur())), sub(mhash(KV{"d", cur()}), fld("d"))} {
				fams = append(fams, fam{e, t}, fam{pipe(fld("d"), e), map[string]any{"d": t}})
			}
		}
	}
	// shadowing under projections and filters over arrays of every small length: the innermost binding wins
	// whatever the number of elements
	for _, n := range []int{0, 1, 2, 7, 8, 9, 16, 17, 33} {
		items := make([]any, n)
		for i := range items {
			items[i] = json.Number(strconv.Itoa(i))
		}
		doc := map[string]any{"items": items, "limit": json.Number("3"), "o": map[string]any{"p": items}}
		A, T := vr("$a"), vr("$t")
		outer := func(e *R) *R { return let([]KV{{"$a", raw("outer")}, {"$t", litJ("100")}}, e) }
		inner := func(e *R) *R { return let([]KV{{"$a", raw("inner")}, {"$t", fld("limit")}}, e) }
		for _, body := range []*R{proj(PList, fld("items"), sub(cur(), mlist(A))), proj(PFlatten, proj(PList, fld("items"), sub(cur(), mlist(A))), cur()), filt(fld("items"), cmp(">", cur(), T), cur()),
			filt(fld("items"), cmp("<", cur(), T), sub(cur(), mlist(cur(), A))), proj(PFlatten, fld("items"), sub(cur(), mlist(A, T))), proj(PValues, fld("o"), proj(PList, cur(), sub(cur(), mlist(A)))),
			call("map", ar(mlist(cur(), A)), av(fld("items")))} {
			fams = append(fams, fam{outer(inner(body)), doc}, fam{outer(mlist(inner(body), body)), doc}, fam{outer(inner(let([]KV{{"$a", raw("third")}}, body))), doc},
				fam{inner(outer(body)), doc}, fam{outer(pipe(fld("items"), inner(proj(PList, cur(), sub(cur(), mlist(A, T)))))), doc})
		}
	}
	for _, f := range fams {
		id++
		text := unparse(f.e)
		o := search(text, f.doc)
		sum.count("families/" + o.Kind)
		if o.Kind == "val" && o.Value != nil {
			distinct[text+"|"+toJSON(o.Value)] = true
		}
		unordered := "false"
		if hasEnum(f.e) {
			unordered = "true"
		}
		sh.Add(fmt.Sprintf("SC %d %s %s %s %s %s", id, coqR(f.e), hx(text), coqValue(f.doc), unordered, coqObs(o)))
		sum.Index[strconv.Itoa(id)] = map[string]any{"expr": text, "doc": toJSON(f.doc), "observed": obsJSON(o)}
	}
	sh.Flush()
	sum.Cases = sh.total
	sum.Shards = sh.files
	sum.Distinct = len(distinct)
	sum.Rule = "small-scope enumeration (every expression of depth <= 2 over 11 leaves and every construct, a strided sample of depth 3, on 14 fixed documents of every shape) + random reference expressions (depth <= " + strconv.Itoa(depth) + ") from the grammar-directed generator, rendered with minimal parentheses, on random documents over keys a,b,c,k with every JSON type at every position; distinct/non-trivial = distinct (expression text, non-null result)"
}

func kindName(e *R) string {
	return [...]string{"current", "root", "field", "literal", "raw", "var", "sub", "index", "proj", "multilist", "multihash", "pipe", "or", "and", "not", "cmp", "arith", "neg", "pos", "call", "let"}[e.K]
}

// does the expression enumerate object members (result order then depends on map order)?
func hasEnum(e *R) bool {
	if e == nil {
		return false
	}
	if e.K == KProj && e.PK == PValues {
		return true
	}
	if e.K == KCall && (e.Name == "keys" || e.Name == "values" || e.Name == "items") {
		return true
	}
	if hasEnum(e.L) || hasEnum(e.Rt) || hasEnum(e.Cond) {
		return true
	}
	for _, x := range e.Es {
		if hasEnum(x) {
			return true
		}
	}
	for _, kv := range e.KEs {
		if hasEnum(kv.E) {
			return true
		}
	}
	for _, a := range e.Args {
		if hasEnum(a.E) {
			return true
		}
	}
	return false
}

// score of an outcome: the more the expression selected, the better the case discriminates
func outcomeScore(o Obs) int {
	if o.Kind != "val" {
		return 0
	}
	switch v := o.Value.(type) {
	case nil:
		return 1
	case bool:
		if v {
			return 3
		}
		return 2
	case []any:
		if len(v) == 0 {
			return 2
		}
		for _, x := range v {
			if x != nil {
				return 5
			}
		}
		return 3
	case map[string]any:
		if len(v) == 0 {
			return 2
		}
		return 5
	case string:
		if v == "" {
			return 2
		}
		return 4
	}
	return 4
}

// the best of a few candidate documents for this expression (ties keep the first)
func fitDoc(text string, pool []any, fallback any) any {
	best, bestScore := fallback, outcomeScore(search(text, fallback))
	// the candidates are drawn before any of them is tried: what the code under test returns must not
	// change how much of the PRNG stream is used, or one seed would not be one run
	var picks [8]int
	for i := range picks {
		picks[i] = rng.Intn(len(pool))
	}
	for i := 0; i < 8 && bestScore < 5; i++ {
		d := pool[picks[i]]
		if i < 3 && i < len(pool) {
			d = pool[i]
		}
		if sc := outcomeScore(search(text, d)); sc > bestScore {
			best, bestScore = d, sc
		}
	}
	return best
}

// documents shaped like the paths the generator writes: arrays of objects, nested objects and
// arrays of arrays over the generator's field names
func shapedDocs() []any {
	num := func(s string) any { return json.Number(s) }
	row := func(a, b, c any) any { return map[string]any{"a": a, "b": b, "c": c, "k": "k"} }
	rows := []any{row(num("1"), "x", []any{num("1"), num("2")}), row(num("2"), "y", nil), nil, row(nil, "x", []any{}), row(num("1"), nil, []any{nil, num("3")})}
	nested := map[string]any{"a": map[string]any{"a": rows, "b": map[string]any{"a": num("1"), "b": []any{num("1"), nil, num("2")}, "c": "s"}, "c": []any{[]any{num("1"), nil}, []any{}, []any{[]any{num("2")}}}, "k": true},
		"b": rows, "c": []any{[]any{num("1"), num("2")}, []any{num("3"), nil}, []any{[]any{num("5"), nil}, num("6")}}, "k": "v"}
	return []any{rows, nested, map[string]any{"a": rows, "b": nested, "c": map[string]any{"a": nested, "b": rows}, "k": num("0")},
		map[string]any{"a": []any{num("3"), num("1"), nil, num("2")}, "b": []any{"b", "a", ""}, "c": []any{true, false, nil}, "k": map[string]any{"a": num("1"), "b": num("2")}}}
}

// does the expression build objects with two or more members itself (multi-select hashes, object
// literals, merge / from_items / group_by)? Their enumeration order is not controlled by the document.
func buildsObjects(e *R) bool {
	if e == nil {
		return false
	}
	switch e.K {
	case KMultiHash:
		if len(e.KEs) > 1 {
			return true
		}
	case KLiteral:
		if hasWideObject(e.Lit) {
			return true
		}
	case KCall:
		switch e.Name {
		case "merge", "from_items", "group_by":
			return true
		}
	}
	if buildsObjects(e.L) || buildsObjects(e.Rt) || buildsObjects(e.Cond) {
		return true
	}
	for _, x := range e.Es {
		if buildsObjects(x) {
			return true
		}
	}
	for _, kv := range e.KEs {
		if buildsObjects(kv.E) {
			return true
		}
	}
	for _, a := range e.Args {
		if buildsObjects(a.E) {
			return true
		}
	}
	return false
}

func hasWideObject(v any) bool {
	switch v := v.(type) {
	case map[string]any:
		if len(v) > 1 {
			return true
		}
		for _, x := range v {
			if hasWideObject(x) {
				return true
			}
		}
	case []any:
		for _, x := range v {
			if hasWideObject(x) {
				return true
			}
		}
	}
	return false
}

// the same document with every object cut down to one member (the k-th in key order, cyclically)
func narrowDoc(v any, k int) any {
	switch v := v.(type) {
	case map[string]any:
		if len(v) == 0 {
			return v
		}
		keys := make([]string, 0, len(v))
		for k := range v {
			keys = append(keys, k)
		}
		sort.Strings(keys)
		key := keys[k%len(keys)]
		return map[string]any{key: narrowDoc(v[key], k)}
	case []any:
		c := make([]any, len(v))
		for i, x := range v {
			c[i] = narrowDoc(x, k)
		}
		return c
	}
	return v
}

// the narrowing of doc (one member per object) on which the expression selects most
func bestNarrow(text string, doc any) any {
	bestDoc, bestScore := narrowDoc(doc, 0), -1
	for k := 0; k < 4; k++ {
		d := narrowDoc(doc, k)
		if sc := outcomeScore(search(text, d)); sc > bestScore {
			bestDoc, bestScore = d, sc
		}
	}
	return bestDoc
}

func usesLet(e *R) bool {
	if e == nil {
		return false
	}
	if e.K == KLet || e.K == KVar {
		return true
	}
	if usesLet(e.L) || usesLet(e.Rt) || usesLet(e.Cond) {
		return true
	}
	for _, x := range e.Es {
		if usesLet(x) {
			return true
		}
	}
	for _, kv := range e.KEs {
		if usesLet(kv.E) {
			return true
		}
	}
	for _, a := range e.Args {
		if usesLet(a.E) {
			return true
		}
	}
	return false
}
