package main

import (
	"encoding/json"
	"fmt"
	"math"
	"reflect"
	"sort"

	"github.com/woodsbury/decimal128"
)

// toDec gives the mathematical value of any Go number the library accepts.
func toDec(v any) (decimal128.Decimal, bool) {
	switch v := v.(type) {
	case decimal128.Decimal:
		return v, true
	case json.Number:
		d, err := decimal128.Parse(string(v))
		return d, err == nil
	case float32:
		return decimal128.FromFloat64(float64(v)), true
	case float64:
		return decimal128.FromFloat64(v), true
	case int:
		return decimal128.FromInt64(int64(v)), true
	case int8:
		return decimal128.FromInt64(int64(v)), true
	case int16:
		return decimal128.FromInt64(int64(v)), true
	case int32:
		return decimal128.FromInt64(int64(v)), true
	case int64:
		return decimal128.FromInt64(v), true
	case uint:
		return decimal128.FromUint64(uint64(v)), true
	case uint8:
		return decimal128.FromUint64(uint64(v)), true
	case uint16:
		return decimal128.FromUint64(uint64(v)), true
	case uint32:
		return decimal128.FromUint64(uint64(v)), true
	case uint64:
		return decimal128.FromUint64(v), true
	}
	return decimal128.Decimal{}, false
}

func isNum(v any) bool { _, ok := toDec(v); return ok }

// sameValue: structural equality with numbers compared by value; with
// unordered, arrays are compared as multisets at every depth.
func sameValue(a, b any, unordered bool) bool {
	if da, ok := toDec(a); ok {
		db, ok2 := toDec(b)
		if !ok2 {
			return false
		}
		if da.IsNaN() && db.IsNaN() {
			return true
		}
		return da.Equal(db)
	}
	switch a := a.(type) {
	case nil:
		return b == nil
	case bool:
		bb, ok := b.(bool)
		return ok && a == bb
	case string:
		bs, ok := b.(string)
		return ok && a == bs
	case []any:
		bb, ok := b.([]any)
		if !ok || len(a) != len(bb) {
			return false
		}
		if !unordered {
			for i := range a {
				if !sameValue(a[i], bb[i], false) {
					return false
				}
			}
			return true
		}
		used := make([]bool, len(bb))
	outer:
		for _, x := range a {
			for j, y := range bb {
				if !used[j] && sameValue(x, y, true) {
					used[j] = true
					continue outer
				}
			}
			return false
		}
		return true
	case map[string]any:
		bm, ok := b.(map[string]any)
		if !ok || len(a) != len(bm) {
			return false
		}
		for k, x := range a {
			y, ok := bm[k]
			if !ok || !sameValue(x, y, unordered) {
				return false
			}
		}
		return true
	}
	return reflect.DeepEqual(a, b)
}

func sameCats(a, b []string) bool {
	if len(a) != len(b) {
		return false
	}
	x := append([]string{}, a...)
	y := append([]string{}, b...)
	sort.Strings(x)
	sort.Strings(y)
	for i := range x {
		if x[i] != y[i] {
			return false
		}
	}
	return true
}

func sameObs(a, b Obs, unordered bool) bool {
	if a.Kind != b.Kind {
		return false
	}
	switch a.Kind {
	case "val":
		return sameValue(a.Value, b.Value, unordered)
	case "err":
		return sameCats(a.Cats, b.Cats)
	}
	return true
}

// deepCopy of a document in the library's value space (spare capacity not preserved)
func deepCopy(v any) any {
	switch v := v.(type) {
	case []any:
		c := make([]any, len(v))
		for i, x := range v {
			c[i] = deepCopy(x)
		}
		return c
	case map[string]any:
		c := make(map[string]any, len(v))
		for k, x := range v {
			c[k] = deepCopy(x)
		}
		return c
	}
	return v
}

func (s *Summary) direct(kind, expr string, doc any, detail string) {
	s.Direct = append(s.Direct, map[string]any{"expr": expr, "doc": toJSON(doc), "site": kind, "reason": kind + ": " + detail})
}

func describe(o Obs) string {
	switch o.Kind {
	case "val":
		return fmt.Sprintf("value %s (%T)", toJSON(o.Value), o.Value)
	case "err":
		return fmt.Sprintf("error %v %q", o.Cats, o.Msg)
	}
	return o.Kind + " " + o.Msg
}

var _ = math.Inf
