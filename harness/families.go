package main

// Deterministic families shared by several properties: text that is almost a number, slices with every
// combination of written and omitted parts, aliasing Go slices.

import (
	"encoding/json"
	"fmt"
	"strings"

	"github.com/woodsbury/jmespath"
)

// numberish: strings that are, or nearly are, JSON numbers. Every string of up to three (thorough: four)
// symbols over the characters a number is made of, plus a structured product of sign x integer part x
// fraction x exponent x trailing blank, plus the words other number parsers accept.
func numberish(tier string) []string {
	seen := map[string]bool{}
	var out []string
	add := func(s string) {
		if !seen[s] {
			seen[s] = true
			out = append(out, s)
		}
	}
	alpha := []string{"0", "1", "-", "+", ".", "e", "E", " "}
	depth := 3
	if tier == "thorough" {
		depth = 4
	}
	var words func(p string, left int)
	words = func(p string, left int) {
		if p != "" {
			add(p)
		}
		if left == 0 {
			return
		}
		for _, c := range alpha {
			words(p+c, left-1)
		}
	}
	words("", depth)
	for _, sign := range []string{"", "-"} {
		for _, ip := range []string{"0", "1", "00", "01", "10", "007", "9"} {
			for _, fr := range []string{"", ".", ".0", ".5", ".50"} {
				for _, ex := range []string{"", "e", "E", "e+", "e-", "e1", "E+1", "e-1", "e01", "e-2"} {
					for _, tail := range []string{"", " "} {
						add(sign + ip + fr + ex + tail)
					}
				}
			}
		}
	}
	for _, w := range []string{"NaN", "-NaN", "nan", "-nan", "+NaN", "sNaN", "Inf", "-Inf", "+Inf", "inf", "-inf", "Infinity", "-Infinity", "infinity", "-infinity", "1_000", "1_0", "-1_0", "_1", "1_", "1__0", "1.", "-.5", ".5", "+.5", "0x10", "0X1", "0b1", "0o7", "1e5_0", "1e", "2.5E", "-0e", "10e", "1e+", "1e-", "1E+", "١", "１", "1 ", "\t1", "1\n", "1 2", "1,2", "1e1e1", "1.2.3", "--1", "-+1", "+-1", "- 1", "1f", "1d", "1L", "0.", "-0.", "-0", "-00", "0e0", "0E-0", "00.5", "-01", "01e2", "010", "08", "15e-1", "150E-2", "-5e-1", "25e-2", "12e2", "1e400", "1e7000", "-1e7000", "1e-7000", "1e99999999999999999999"} {
		add(w)
	}
	return out
}

// is s exactly a JSON number (RFC 8259)?  Decided by encoding/json, not by the library under test.
func isJSONNumberText(s string) bool {
	if s == "" || !(s[0] == '-' || (s[0] >= '0' && s[0] <= '9')) {
		return false
	}
	if strings.ContainsAny(s, " \t\r\n") {
		return false
	}
	return json.Valid([]byte(s))
}

// every json.Number inside a result must be the text of a JSON number
func badNumberIn(v any) (string, bool) {
	switch x := v.(type) {
	case json.Number:
		if !isJSONNumberText(string(x)) {
			return string(x), true
		}
	case []any:
		for _, e := range x {
			if s, bad := badNumberIn(e); bad {
				return s, true
			}
		}
	case map[string]any:
		for _, e := range x {
			if s, bad := badNumberIn(e); bad {
				return s, true
			}
		}
	}
	return "", false
}

// slice texts with every combination of omitted, zero, small, negative and extreme parts
func sliceTexts(tier string) []string {
	parts := []string{"", "0", "1", "2", "-1", "-2", "3", "-3", "5", "-5"}
	steps := []string{"", "1", "-1", "2", "-2", "3", "-3"}
	if tier == "thorough" {
		parts = append(parts, "4", "-4", "9223372036854775807", "-9223372036854775808", "-9223372036854775807", "2147483648", "-2147483649")
		steps = append(steps, "9223372036854775807", "-9223372036854775808", "-9223372036854775807")
	}
	var out []string
	for _, a := range parts {
		for _, b := range parts {
			for _, s := range steps {
				out = append(out, "["+a+":"+b+":"+s+"]")
			}
			out = append(out, "["+a+":"+b+"]")
		}
	}
	// the 64-bit limits in every position (quick tier too)
	for _, x := range []string{"9223372036854775807", "-9223372036854775808", "-9223372036854775807", "9223372036854775806"} {
		out = append(out, "["+x+":]", "[:"+x+"]", "[::"+x+"]", "["+x+":"+x+"]", "[1:"+x+":2]", "["+x+"::-1]", "[:"+x+":-1]", "[0:"+x+":-1]", "["+x+":0:-1]", "[::"+x+"]")
	}
	return out
}

// expressions in which a built-in that reorders or rebuilds an array is handed a value that may still be the
// caller's own array (a projection, a filter or a slice that kept every element, a variable, a parenthesised or
// piped field), between two reads of the original: [a[0], f(P), a[0], a]
func aliasExprs() []*R {
	a := fld("a")
	ps := []*R{a, proj(PList, a, cur()), filt(a, cmp("==", cur(), cur()), cur()), slc(a, nil, nil, nil, cur()), slc(a, ip(0), nil, nil, cur()), proj(PFlatten, a, cur()), pipe(a, cur()), pipe(a, proj(PList, cur(), cur())),
		call("not_null", av(a)), call("to_array", av(a)), or(a, fld("b")), and(a, a), idx(mlist(a), 0), sub(mhash(KV{"k", a}), fld("k")), let([]KV{{"$v", a}}, vr("$v")), idx(call("values", av(mhash(KV{"k", a}))), 0),
		proj(PList, proj(PList, a, cur()), cur()), call("map", ar(cur()), av(a)), call("merge", av(mhash(KV{"k", a}))), sub(call("merge", av(mhash(KV{"k", a})), av(mhash(KV{"j", a}))), fld("k")), proj(PList, pipe(a, cur()), cur())}
	var out []*R
	for _, p := range ps {
		fs := []*R{call("sort", av(p)), call("sort_by", av(p), ar(cur())), call("reverse", av(p)), slc(p, nil, nil, ip(-1), cur()), call("max", av(p)), call("min_by", av(p), ar(cur())),
			call("group_by", av(p), ar(call("to_string", av(cur())))), call("zip", av(p), av(p)), call("join", av(raw(",")), av(p)), proj(PFlatten, p, cur()), call("sort_by", av(p), ar(call("length", av(call("to_string", av(cur()))))))}
		for _, f := range fs {
			out = append(out, mlist(idx(a, 0), f, idx(a, 0), a), pipe(mlist(a, f, a), mlist(idx(idx(cur(), 0), 0), idx(cur(), 1), idx(idx(cur(), 2), 0))))
		}
	}
	return out
}

var aliasDocs = []string{`{"a": ["c", "a", "b"], "b": ["z"]}`, `{"a": [3, 1, 2], "b": []}`, `{"a": ["b", "a"], "b": null}`, `{"a": [2, 1, 3, 0, 9, 8, 7, 6, 5, 4, 12, 11, 10, 15, 14, 13], "b": [1]}`}

// Go values that are not JSON data (typed slices and maps, pointers, structs, byte slices, maps with non-string
// keys) are opaque: every expression that does not serialise them answers exactly as it answers for any other
// opaque value, at the root and nested, through both entry points.
type opaqueRef struct{ K string }

func opaqueValues() []any {
	var nilMap *map[string]any
	var nilInt *int
	one := 1
	pone := &one
	return []any{[]map[string]any{{"id": json.Number("1"), "name": "a"}, {"id": json.Number("2"), "name": "b"}}, []string{"x", "y"}, map[string]string{"k": "v", "name": "n"}, map[string][]any{"k": {json.Number("1")}}, [][]any{{json.Number("1")}},
		[]json.Number{"1", "2"}, []float64{1, 2}, []int{1, 2}, map[string]json.Number{"k": "1"}, [2]any{"a", "b"}, &[]any{"p"}, &map[string]any{"k": "v"}, map[any]any{"k": "v", 1: "uno", "1": "one", true: "yes", "true": "ja"},
		map[int]any{1: "x"}, struct{ K string }{"v"}, &struct{ K string }{"v"}, json.RawMessage(`[1, 2]`), []byte(`{"k": 1}`), nilMap, nilInt, &pone, []map[any]any{{"k": "v"}}, map[string]map[string]any{"k": {"k": "v"}}, []*int{pone}}
}

var opaqueExprs = []string{"[0]", "k", "name", "[0].name", "\"1\"", "\"true\"", "type(@)", "keys(@)", "length(@)", "[?@]", "[*]", "*", "values(@)", "[::-1]", "[1:]", "[]", "sort(@)", "k.k", "abs(@)", "to_array(@) | length(@)", "!@", "@ || 'd'", "@ && 'd'",
	"[@] | length(@)", "not_null(@, 'x') == 'x'", "@ == `null`", "[*].id", "[*] | [*].id", "[?id == `1`]", "map(&id, @)", "items(@)", "reverse(@)", "max(@)", "join(',', @)", "contains(@, 'x')", "merge(@, @)", "[0] == [0]", "@ < `1`", "@ + `1`", "- @", "starts_with(@, 'x')", "sum(@)"}

func opaqueFamily(sum *Summary, site string) {
	ref := opaqueRef{"v"}
	for _, text := range opaqueExprs {
		x, cerr := jmespath.Compile(text)
		if cerr != nil {
			continue
		}
		for k, wrap := range []func(any) any{func(v any) any { return v }, func(v any) any { return map[string]any{"a": v} }, func(v any) any { return []any{v} }} {
			t := text
			if k == 1 {
				t = "a | " + text
			} else if k == 2 {
				t = "[0] | " + text
			}
			if k > 0 {
				var err error
				if x, err = jmespath.Compile(t); err != nil {
					continue
				}
			}
			want := search(t, wrap(ref))
			for _, v := range opaqueValues() {
				doc := wrap(v)
				o1 := search(t, doc)
				o2 := observe(func() (any, error) { return x.Search(doc) })
				sum.count("opaque-values")
				for _, o := range []Obs{o1, o2} {
					ok := o.Kind == want.Kind && (o.Kind != "err" || sameCats(o.Cats, want.Cats)) && (o.Kind != "val" || sameValue(o.Value, want.Value, false) || (!modelled(o.Value) && !modelled(want.Value)))
					if !ok {
						sum.direct(site, t, fmt.Sprintf("%#v", doc), fmt.Sprintf("a %T is not JSON data: expected what any opaque value gives (%s), got %s", v, describe(want), describe(o)))
						break
					}
				}
			}
		}
	}
}

// ---- a fault in every argument position of every built-in (added after measuring which statements of the
// library no stream executed: the error returns after each argument evaluation, and the error returns inside the
// loops that apply an expression reference to the first and to a later element) ----

type argFault struct {
	expr string
	doc  any
	want string // the category the outcome must have
	fn   string
}

var faultExprs = []struct{ text, cat string }{
	{"$u_", "CUndefinedVariable"},
	{"(`1` / `0`)", "CNotANumber"},
	{"abs('x')", "CInvalidType"},
	{"pad_left('', `-1`)", "CInvalidValue"},
}

func argFaultFamily() []argFault {
	var out []argFault
	lit := func(t string) string {
		switch {
		case strings.Contains(t, "number"):
			return "`2`"
		case t == "string":
			return "'ab'"
		case strings.Contains(t, "array"):
			return "`[1, 2]`"
		case t == "object":
			return "`{\"a\": 1}`"
		}
		return "`[3]`"
	}
	for _, f := range sigs {
		maxA := len(f.args)
		hi := maxA
		if f.vary {
			hi = 3
		}
		for n := f.min; n <= hi; n++ {
			typ := func(j int) string {
				if j < len(f.args) {
					return f.args[j]
				}
				return f.args[0]
			}
			build := func(sub map[int]string) string {
				parts := make([]string, n)
				for j := 0; j < n; j++ {
					s, ok := sub[j]
					if !ok {
						s = lit(typ(j))
						if typ(j) == "&" {
							s = "&@"
						}
					} else if typ(j) == "&" {
						s = "&" + s
					}
					parts[j] = s
				}
				return f.name + "(" + strings.Join(parts, ", ") + ")"
			}
			for pos := 0; pos < n; pos++ {
				for k, fe := range faultExprs {
					out = append(out, argFault{build(map[int]string{pos: fe.text}), nil, fe.cat, f.name})
					// two faults: the earlier argument decides (expression references are applied after all
					// arguments have been evaluated, so a reference never decides against a plain argument)
					for pos2 := pos + 1; pos2 < n; pos2++ {
						fe2 := faultExprs[(k+1)%len(faultExprs)]
						want := fe.cat
						if typ(pos) == "&" && typ(pos2) != "&" {
							want = fe2.cat
						}
						out = append(out, argFault{build(map[int]string{pos: fe.text, pos2: fe2.text}), nil, want, f.name})
					}
				}
			}
		}
	}
	// the expression reference fails on the first, a middle or the last element only
	for _, f := range []string{"sort_by(@, &abs(@))", "max_by(@, &abs(@))", "min_by(@, &abs(@))", "group_by(@, &to_string(abs(@)))", "map(&abs(@), @)",
		"sort_by(@, &ceil(@))", "max_by(@, &floor(@))", "min_by(@, &-@ * `1` / @)", "map(&(`1` / @), @)", "sort_by(@, &`1` / @)", "max_by(@, &`1` % @)", "min_by(@, &`1` // @)"} {
		for _, d := range []string{`["x", 1, 2, 3]`, `[1, 2, "x", 3]`, `[1, 2, 3, "x"]`, `[0, 1, 2]`, `[1, 0, 2]`, `[1, 2, 0]`, `[3, 1, 2]`, `[1, null]`, `[[1], 2]`} {
			out = append(out, argFault{f, jsonDoc(d), "", f[:strings.Index(f, "(")]})
		}
	}
	return out
}

// ---- every construct that walks or rebuilds an array, on documents with nulls at every position of nested
// arrays, between reads of the untouched document: [E, @], [@, E, @] and let forms. Added after the eighth wave:
// library helpers that compact "in place" (slices.DeleteFunc and friends) return the right value and ruin the
// caller's array; only a second look at the same data shows it.
var rebuildDocs = []string{
	`{"a":[[1,null,2],[null,3],4,null,[null],[]],"b":{"x":[null,1],"y":null,"z":[[null,2]]},"c":[3,1,2],"o":{"p":1,"q":null},"s":["b",null,"a"],"g":[{"k":"x","v":null},{"k":"x"},null,{"k":"y","v":[null,1]}]}`,
	`{"a":[null,[null,null,1],[2,null],[[3,null,4]]],"b":{"x":[1,null,null,2]},"c":[2,null,1],"o":{"q":null},"s":[null,"a"],"g":[null,{"k":"x","v":[1,null,2]}]}`,
	`{"a":[[null,1],[null,2]],"b":{"x":[null],"y":[null,1]},"c":[],"o":{},"s":["a"],"g":[{"k":"z","v":null}]}`,
}

func rebuildFamily() []string {
	es := []string{"a[]", "a[][]", "a[*]", "a[*][*]", "a[?@]", "a[?@ != `null`]", "a[:]", "a[::2]", "a[::-1]", "a[1:]", "a[*][]", "a[][*]", "a[0][]", "a[1][*]", "a[0][*]", "a[3][]", "b.*", "b.*[]", "b.x[*]", "b.x[]", "b.z[][]",
		"sort(c[?@])", "reverse(a)", "reverse(a[0])", "map(&@, a)", "map(&[], a)", "map(&[*], a)", "map(&[?@], a)", "not_null(a)[]", "to_array(a)[]", "to_array(a[0])[*]", "merge(o, o)", "merge(b, o)", "keys(o)", "values(b)[]", "values(o)", "items(o)",
		"zip(a, a)", "zip(a[0], a[1])", "a[] | [*]", "a | []", "(a)[]", "(a[0])[*]", "s[]", "s[*]", "s[?@]", "join(',', s[*])", "g[*].v", "g[*].v[]", "g[].v[]", "g[?v].v[*]", "g[*].v[*]", "g[?k == 'x']", "group_by(g[*], &k)", "from_items(items(o))", "a[1:][]", "a[?@][]",
		"a[*][0]", "a[][0]", "a[*][*][*]", "a[][][]", "[a[0], a[1]][]", "[a[0], a[1]][*][*]", "{x: a[0]}.x[*]", "{x: a}.x[]", "a[0] | [*]", "a[0] | []", "a[0][?@]", "max_by(g[*], &k)", "sort_by(g[?k], &k)", "min_by(g[*], &k)", "a[*] | [0][*]", "b.x | [*]", "b.y || b.x[*]", "a[0] && a[0][*]",
		"let $v = a in $v[]", "let $v = a in $v[*]", "let $v = a[0] in $v[*]", "let $v = a in [$v[*], $v]", "let $v = a in [$v[], $v]", "let $v = a[0], $w = a[0][*] in [$v, $w]", "let $v = a in [$v[0][*], $v[0]]", "let $v = b.x in [$v[*], $v, $v[?@], $v]", "let $v = a in map(&[*], $v) && $v"}
	var out []string
	for _, e := range es {
		out = append(out, "["+e+", @]", "[@, "+e+", @]", "[a, "+e+"] | [1]")
		if !strings.HasPrefix(e, "let ") {
			out = append(out, "let $d = @ in ["+e+", $d, "+e+"]", "["+e+", "+e+"]")
		}
	}
	return out
}

// ---- one value, every way of obtaining it, every consumer (added after the eighth wave) ----
// A JSON value reaches an operator or a built-in as a literal (plain or padded with the blanks JSON allows), as the
// current node, a field, an element, the root, a variable, or out of a multi-select, a pipe, a parenthesis or a
// built-in that hands its argument on. What a consumer (truthiness, equality, type, to_string, a filter ...) makes
// of the value does not depend on where it came from: all outcomes of one (value, consumer) pair must be the same.
// Changes that special-case ONE source (constant folding of literal operands, a fast path of the literal decoder,
// a built-in that returns a nil slice for "empty") are invisible to streams that draw operands from documents only.
type vsCase struct {
	expr string
	doc  any
	key  string
}

func valueSourceFamily() []vsCase {
	var out []vsCase
	consumers := func(j string) []string {
		return []string{"!(X)", "(X) && 'r'", "(X) || 'r'", "'l' && (X)", "`null` || (X)", "`[]` || (X)", "(X) == (X)", "(X) != (X)", "[(X)]", "{k: (X)}", "to_string(X)", "type(X)", "not_null(X, 'd')", "to_array(X)",
			"(X) == `" + j + "`", "`" + j + "` == (X)", "(X) != `" + j + "`", "contains([(X)], `" + j + "`)", "contains(`[" + j + "]`, (X))", "[(X), (X)][?@]", "(X) | !@", "let $x = (X) in `[1, 2]`[?$x]", "let $x = (X) in [$x && 'r', !$x, $x == (X), to_string($x)]",
			"to_string([(X)])", "to_string({k: (X)})", "(X) < `1`", "(X) >= `0`", "sort([(X), (X)])", "sum([(X)])", "length(X)", "to_number(X)", "(X) && (X) || 'e'", "!(!(X))", "[(X)][?@ == `" + j + "`]", "(X) == `null`", "(X) == `[]`", "(X) == ''",
			"to_string(X) == to_string(`" + j + "`)", "{a: (X), b: `" + j + "`} | a == b", "[(X), `" + j + "`] | @[0] == @[1]", "keys({k: (X)})", "(X)[0]", "(X).a", "(X)[*]", "(X)[]", "(X)[:1]", "(X).*", "(X) + `1`", "- (X)", "abs(X)", "join('', [to_string(X)])", "reverse([(X), `1`])", "zip([(X)], [`1`])", "merge({a: (X)}, {b: (X)})"}
	}
	var zdoc any = map[string]any{"z": json.Number("1")} // literal sources: any non-null document (a multi-select on a null current node is null)
	add := func(j, src string, doc any) {
		for _, c := range consumers(j) {
			out = append(out, vsCase{strings.ReplaceAll(c, "X", src), doc, j + " / " + c})
		}
	}
	values := []string{"null", "true", "false", "0", "1", "20", "-3", "1.0", "1e2", "0.5", `""`, `"a"`, `"null"`, `"0"`, `" "`, `"[]"`, "[]", "[null]", "[0]", "[[]]", `["a",null]`, "[1,2]", "{}", `{"a":null}`, `{"a":[]}`, "[{}]", `{"a":{}}`}
	for _, j := range values {
		v := jsonDoc(j)
		add(j, "`"+j+"`", zdoc)
		add(j, "`"+j+" `", zdoc)
		add(j, "` "+j+"`", zdoc)
		add(j, "`\n"+j+"\t\r\n `", zdoc)
		if s, ok := v.(string); ok && !strings.ContainsAny(s, "'\\") {
			add(j, "'"+s+"'", zdoc)
		}
		if v != nil {
			add(j, "@", v)
			add(j, "$", v)
		}
		add(j, "`["+j+"]`[0]", zdoc)
		add(j, "`{\"k\": "+j+"}`.k", zdoc)
		add(j, "`[["+j+"]]`[0][0]", zdoc)
		fd := map[string]any{"a": v}
		for _, src := range []string{"a", "$.a", "@.a", "(a)", "a | @", "let $v = a in $v", "let $v = @ in $v.a", "not_null(a)", "[a][0]", "[a, a][1]", "{k: a}.k", "merge({k: a}).k", "values({k: a})[0]", "reverse([a])[0]", "map(&@, [a])[0]", "sort_by([a], &`1`)[0]", "max_by([a], &`1`)", "min_by([a, a], &`1`)",
			"from_items([['k', a]]).k", "zip([a], [a])[0][1]", "items({k: a})[0][1]", "a || a", "a && a", "to_array([a])[0]", "[a][-1]", "([a][::-1])[0]", "([a][0:1])[0]", "not_null(`null`, a)", "group_by([{g: 'x', v: a}], &g).x[0].v", "(a || `null`) || a", "([[a]][])[0]", "let $v = a in [$v][0]", "map(&a, [@])[0]"} {
			add(j, src, fd)
		}
		add(j, "a[0]", map[string]any{"a": []any{v}})
		add(j, "a[-1]", map[string]any{"a": []any{json.Number("7"), v}})
		add(j, "a.b.c", map[string]any{"a": map[string]any{"b": map[string]any{"c": v}}})
		add(j, "[0]", []any{v})
		add(j, "[0][0]", []any{[]any{v}})
	}
	// built-ins and constructs that PRODUCE a value: the empty array, the empty object, the empty string, zero, null,
	// the booleans, out of everything that can yield them
	producers := map[string][]string{
		"[]": {"values(`{}`)", "keys(`{}`)", "items(`{}`)", "`[1]`[?`false`]", "`[[]]`[]", "to_array(`[]`)", "reverse(`[]`)", "sort(`[]`)", "map(&@, `[]`)", "`[1]`[1:]", "zip(`[]`)", "zip(`[]`, `[1]`)", "`[]`[*]", "`{}`.*", "not_null(`[]`)", "`[null]`[*]", "`[null, null]`[*]", "`[null]`[]", "`[null]`[?@]", "`{\"a\":null}`.*",
			"`[1]`[:0]", "`[1]`[::-1][1:]", "[`[]`][0]", "`[[]]`[0]", "`[]`[]", "`[]`[?@]", "`[]`[:]", "`[]`[::-1]", "`[]`[::2]", "sort_by(`[]`, &@)", "`[1]`[*].a", "`[1]`[].a", "`{\"a\":1}`.*.b", "`[null]`[*][*]", "merge(`{}`).*", "`[[null]]`[0][*]", "map(&@, `[null]`)[*]", "`[{}]`[*].a", "`[[], []]`[]"},
		"{}":    {"merge(`{}`, `{}`)", "from_items(`[]`)", "`[{}]`[0]", "{k: `{}`}.k", "merge(`{}`)", "not_null(`{}`)", "`[{}]`[*] | [0]", "merge(`{}`, `{}`, `{}`)", "from_items(items(`{}`))", "from_items(zip(`[]`, `[]`))"},
		`""`:    {"''", "join('', `[]`)", "lower('')", "trim(' ')", "'abc'[1:1]", "to_string('')", "replace('a', 'a', '')", "pad_left('', `0`)", "reverse('')", "trim_left(' ')", "trim_right(' ')", "'a'[5:]", "upper('')", "join(',', [''])", "'a'[:0]", "'ab'[::-1][2:]", "pad_right('', `0`, 'x')", "replace('', 'a', 'b')", "trim('x', 'x')", "join('', ['', ''])", "split('a', 'a')[0]", "split('a', 'a')[1]"},
		"0":     {"length('')", "length(`[]`)", "sum(`[]`)", "`1` - `1`", "abs(`0`)", "to_number('0')", "ceil(`0`)", "floor(`0.5`)", "find_first('a', 'a')", "`0` * `5`", "`2` % `2`", "`0` // `1`", "length(`{}`)", "avg(`[0]`)", "min(`[0, 1]`)", "max(`[0, -1]`)", "sum(`[1, -1]`)", "find_last('a', 'a')", "`0` / `5`", "to_number(`0`)"},
		"null":  {"a", "`[]`[0]", "not_null(`null`)", "`{}`.a", "to_number('x')", "max(`[]`)", "min(`[]`)", "`1` < 'a'", "find_first('a', 'b')", "''.a", "`1`[0]", "`1`.a", "'a'[*]", "`{}`[*]", "`1`.*", "`1`[]", "to_number(`true`)", "avg(`[]`)", "max_by(`[]`, &@)", "`[1]`[5]", "`[1]`[-5]", "`null`.a.b", "`true` && `null`", "`null` && `true`", "`false` || `null`", "not_null(`null`, `null`)", "`{\"a\":null}`.a", "to_number('')", "to_number(' 1')", "to_number('1 ')", "`\"a\"`[0]"},
		"false": {"`1` == `2`", "!`1`", "contains(`[]`, `1`)", "starts_with('a', 'b')", "ends_with('a', 'b')", "`1` != `1`", "`1` > `2`", "!'a'", "!`[0]`", "!`{\"a\":1}`", "`[]` == `{}`", "'' == `null`", "`0` == `false`", "`1` == '1'", "contains('a', 'b')", "contains('1', `1`)", "!`0`", "!`true`", "`false` && `true`", "`null` == `false`", "`[]` == `[null]`"},
		"true":  {"`1` == `1`", "!`null`", "!''", "!`[]`", "!`{}`", "contains('a', 'a')", "`1` < `2`", "`1.0` == `1`", "`[]` == `[]`", "`{}` == `{}`", "!`false`", "starts_with('a', '')", "contains(`[null]`, `null`)", "`null` == `null`", "`1` != `2`", "`\"\"` == ''", "`1e0` == `1`", "`[1, 2]` != `[2, 1]`", "`{\"a\": 1, \"b\": 2}` == `{\"b\": 2, \"a\": 1}`", "contains('', '')", "ends_with('a', '')"},
	}
	for _, j := range []string{"[]", "{}", `""`, "0", "null", "false", "true"} {
		add(j, "`"+j+"`", zdoc)
		for _, p := range producers[j] {
			if p == "" {
				continue
			}
			add(j, p, map[string]any{"z": json.Number("1")})
		}
	}
	return out
}

// runValueSources evaluates the family; emit (if not nil) hands a sample to the model comparison
func runValueSources(sum *Summary, site string, stride int, emit func(expr string, doc any, o Obs)) {
	type ref struct {
		o    Obs
		expr string
		doc  any
	}
	groups := map[string]ref{}
	reported := 0
	for i, c := range valueSourceFamily() {
		o := search(c.expr, c.doc)
		sum.count("value-source/" + o.Kind)
		if emit != nil && stride > 0 && i%stride == 0 && o.Kind != "panic" {
			emit(c.expr, c.doc, o)
		}
		first, ok := groups[c.key]
		if !ok {
			groups[c.key] = ref{o, c.expr, c.doc}
			continue
		}
		if !sameObs(first.o, o, false) && reported < 12 {
			reported++
			sum.direct(site, c.expr, c.doc, fmt.Sprintf("the same value from another source gives another outcome: %q on %s gives %s, but %q gives %s", first.expr, toJSON(first.doc), describe(first.o), c.expr, describe(o)))
		}
	}
}

// extraTextCases: the text-only families of a property whose main stream consists of reference cases
func extraTextCases(prop, tier, out string, sum *Summary, values, rebuilds bool) {
	tc := newTextCases(prop, out, sum)
	if prop == "C01" || prop == "C20" {
		runPrecision(sum, "beyond-float-precision")
	}
	if values {
		stride := 9
		if tier == "thorough" {
			stride = 2
		}
		runValueSources(sum, "source-independence", stride, tc.add)
	}
	if rebuilds {
		for i, text := range rebuildFamily() {
			if tier != "thorough" && i%2 != 0 {
				continue
			}
			if strings.Contains(text, "group_by") || strings.Contains(text, "merge(") || strings.Contains(text, "from_items(") {
				continue // objects built from enumerations: compared by the properties that own them
			}
			for _, ds := range rebuildDocs {
				o := search(text, jsonDoc(ds))
				sum.count("rebuild/" + o.Kind)
				if hasEnumText(text) != "true" || strings.Contains(text, "g[*]") || strings.Contains(text, "a[*]") || strings.Contains(text, "s[*]") || strings.Contains(text, "[*]") && !strings.Contains(text, ".*") && !strings.Contains(text, "values(") && !strings.Contains(text, "keys(") && !strings.Contains(text, "items(") {
					tc.add(text, jsonDoc(ds), o) // (enumerations of object members have no order to compare)
				}
			}
		}
	}
	tc.done()
}

// enumText: the text enumerates the members of an object (their order is Go's map order)
func enumText(t string) bool {
	for _, w := range []string{".*", "values(", "keys(", "items(", "merge(", "group_by(", "from_items(", "| *", "[*, ", "(*)"} {
		if strings.Contains(t, w) {
			return true
		}
	}
	return false
}

// ---- numbers that differ only beyond the precision of a float64 (or below its range), in every place where
// numbers are compared, ordered, searched or subtracted (ninth wave: "compare through float64" looks like a harmless
// speed-up and is invisible to every value a float64 holds exactly) ----
type precCase struct {
	expr string
	doc  any
	want any
}

func precisionFamily() []precCase {
	var out []precCase
	pairs := [][2]string{{"9007199254740992", "9007199254740993"}, {"-9007199254740993", "-9007199254740992"}, {"1234567890123456788", "1234567890123456789"}, {"0.3", "0.30000000000000000001"}, {"1", "1.00000000000000000001"}, {"0", "1e-400"},
		{"9223372036854775807", "9223372036854775808"}, {"18446744073709551615", "18446744073709551616"}, {"0.1", "0.1000000000000000000001"}, {"12345678901234567890", "12345678901234567891"}, {"-1e-400", "0"}, {"1e400", "1.0000000000000000000001e400"}}
	for _, p := range pairs {
		X, Y := json.Number(p[0]), json.Number(p[1])
		doc := func() any {
			return map[string]any{"x": X, "y": Y, "l": []any{Y, X}, "o": []any{map[string]any{"k": Y, "i": "b"}, map[string]any{"k": X, "i": "a"}},
				"m": map[string]any{"p": map[string]any{"k": Y, "i": "b"}, "q": map[string]any{"k": X, "i": "a"}}}
		}
		lx, ly := "`"+p[0]+"`", "`"+p[1]+"`"
		add := func(e string, want any) { out = append(out, precCase{e, doc(), want}) }
		add("x < y", true)
		add("y > x", true)
		add("x >= y", false)
		add("y <= x", false)
		add("x <= y", true)
		add("x == y", false)
		add("x != y", true)
		add("x < "+ly, true)
		add(lx+" < y", true)
		add(ly+" > "+lx, true)
		add(lx+" >= "+ly, false)
		add(lx+" == "+ly, false)
		add("y == "+ly, true)
		add("sort(l)", []any{X, Y})
		add("sort(l)[0] == x", true)
		add("sort_by(o, &k)[*].i", []any{"a", "b"})
		add("sort_by(values(m), &k)[*].i", []any{"a", "b"})
		add("sort_by(*, &k)[*].i"[:0]+"sort_by(m.*, &k)[*].i", []any{"a", "b"})
		add("max(l) == y", true)
		add("min(l) == x", true)
		add("max(l) == x", false)
		add("max_by(o, &k).i", "b")
		add("min_by(o, &k).i", "a")
		add("max_by(values(m), &k).i", "b")
		add("l[?@ > "+lx+"]", []any{Y})
		add("l[?@ < "+ly+"]", []any{X})
		add("l[?@ == "+ly+"]", []any{Y})
		add("l[?@ != "+ly+"]", []any{X})
		add("o[?k == "+ly+"].i", []any{"b"})
		add("o[?k == "+ly+"] | [*].i", []any{"b"})
		add("o[?k > "+lx+"].i", []any{"b"})
		add("o[?k < "+ly+"] | [*].i", []any{"a"})
		add("o[?k >= "+ly+"] | [*].i", []any{"b"})
		add("length(o[?k == "+lx+"])", json.Number("1"))
		add("contains(l, "+lx+")", true)
		add("contains([x], y)", false)
		add("[x, y] == [y, x]", false)
		add("{a: x} == {a: y}", false)
		add("length(group_by(o, &to_string(k)))", json.Number("2"))
		add("reverse(sort(l))[0] == y", true)
		add("sort([y, x, y])[0] == x", true)
		add("let $v = x in l[?@ > $v] == [y]", true)
		add("map(&(@ > $.x), l)", []any{true, false})
	}
	return out
}

func runPrecision(sum *Summary, site string) {
	reported := 0
	for _, c := range precisionFamily() {
		o := search(c.expr, c.doc)
		sum.count("precision/" + o.Kind)
		if !(o.Kind == "val" && sameValue(o.Value, c.want, false)) && reported < 8 {
			reported++
			sum.direct(site, c.expr, c.doc, "two numbers that differ beyond float64 precision: expected "+toJSON(c.want)+", got "+describe(o))
		}
	}
}
