package main

import (
	"encoding/json"
	"fmt"
	"math"
	"regexp"
	"strconv"
	"strings"

	"github.com/woodsbury/decimal128"
)

func init() {
	generators["C03"] = genC03
	generators["C04"] = genC04
}

type foreign struct{ X int }

// the whole Go value space the library may be handed
func zooValue(d int) any {
	n := rng.Intn(34)
	if d <= 0 && n >= 28 {
		n = rng.Intn(28)
	}
	switch n {
	case 0:
		return nil
	case 1:
		return rng.Intn(2) == 0
	case 2:
		return pick([]string{"", "a", "aéb", "\xff\xfe", "€😀", "a\x00b", "\xe2\x82"})
	case 3:
		return json.Number(pick([]string{"1", "-2.5", "1e3", "", "abc", "NaN", "Inf", "-inf", "1e99999", "0x10", "1_000", "1__0", "_1", "1_", "1_.5", "1._5", "1e1_0", "-1_0", "1_e2", "infinity", "+Inf", "nan", "-NaN", "1e-99999", "0e99999", "+5", ".5", "5.", "١", "1e", "--1", "9223372036854775808", "3.0", "1e400"}))
	case 4:
		return pick([]float64{0, 1.5, -2, math.NaN(), math.Inf(1), math.Inf(-1), math.Copysign(0, -1), 1e308, 5e-324, 9.223372036854775807e18, -9.3e18, 3})
	case 5:
		return pick([]float32{0, 2.5, float32(math.NaN()), float32(math.Inf(1)), 16777216, -1})
	case 6:
		return pick([]int{0, 1, -1, math.MaxInt64, math.MinInt64, 2})
	case 7:
		return pick([]int8{0, 127, -128})
	case 8:
		return pick([]int16{0, 32767, -32768, 3})
	case 9:
		return pick([]int32{0, math.MaxInt32, math.MinInt32, 2})
	case 10:
		return pick([]int64{0, math.MaxInt64, math.MinInt64, 1, 2, 3})
	case 11:
		return pick([]uint{0, math.MaxUint64, 1, 2})
	case 12:
		return pick([]uint8{0, 255, 1})
	case 13:
		return pick([]uint16{0, 65535})
	case 14:
		return pick([]uint32{0, math.MaxUint32, 2})
	case 15:
		return pick([]uint64{0, math.MaxUint64, math.MaxInt64 + 1, 3})
	case 16:
		return pick([]decimal128.Decimal{decimal128.NaN(), decimal128.Inf(1), decimal128.Inf(-1), decimal128.New(25, -1), decimal128.New(0, 0), decimal128.New(-3, 0), decimal128.New(1, 40), decimal128.New(2, 0)})
	case 17:
		return foreign{1}
	case 18:
		return &foreign{2}
	case 19:
		return []string{"not", "any"}
	case 20:
		return map[string]int{"x": 1}
	case 21:
		return []int{1, 2}
	case 22:
		return struct{}{}
	case 23:
		var p *int
		return p
	case 24:
		return []any(nil)
	case 25:
		return map[string]any(nil)
	case 26:
		return func() {}
	case 27:
		return make(chan int)
	case 28, 29, 30:
		a := make([]any, rng.Intn(4))
		for i := range a {
			a[i] = zooValue(d - 1)
		}
		return a
	}
	m := map[string]any{}
	for i := 0; i < rng.Intn(4); i++ {
		m[pick([]string{"a", "b", "c", "k", "", "\xff"})] = zooValue(d - 1)
	}
	return m
}

func modelled(v any) bool {
	switch v := v.(type) {
	case nil, bool, string, json.Number, float64, float32, int, int8, int16, int32, int64, uint, uint8, uint16, uint32, uint64:
		return true
	case decimal128.Decimal:
		return true
	case []any:
		if v == nil {
			return false
		}
		for _, x := range v {
			if !modelled(x) {
				return false
			}
		}
		return true
	case map[string]any:
		if v == nil {
			return false
		}
		for _, x := range v {
			if !modelled(x) {
				return false
			}
		}
		return true
	}
	return false
}

var tokenSoup = []string{"a", "b", "@", "$", "$x", "*", ".", ".*", "[", "]", "[*]", "[]", "[?", "(", ")", "{", "}", ",", ":", "|", "||", "&&", "&", "!", "==", "!=", "<", "<=", ">", ">=", "+", "-", "×", "÷", "−", "/", "//", "%", "`1`", "`\"x\"`", "'s'", "\"q\"", "0", "-1", "1:", "let", "in", "=", "abs(", "length(", "sort_by(", "map(&", "foo(", " ", "\n", "`", "'", "\"", "\\", "\xff", "\xc3", "9223372036854775808", "-9223372036854775809", "€", "😀", "$1", "$0a", "$_", "1a", "_1", "a1", "&&&", "|||", "[[", "]]", "[*", "*]", "[ ]", ".[", ".{", "?", "\"\\ud800\"", "\"\\u00e9\"", "`[1]]`", "`{}}`", "`1 2`", "`\"a\" `"}

func soup() string {
	var b strings.Builder
	for i := 0; i < 1+rng.Intn(8); i++ {
		b.WriteString(pick(tokenSoup))
		if rng.Intn(3) == 0 {
			b.WriteByte(' ')
		}
	}
	return b.String()
}

func randomBytes() string {
	b := make([]byte, rng.Intn(12))
	for i := range b {
		b[i] = byte(rng.Intn(256))
	}
	return string(b)
}

var intFuncs = []string{"t[%s:%s]", "t[%s:%s:%s]", "find_first(t, 'l', %s, %s)", "find_first(s, 'a', %s)", "find_first(s, 'a', %s, %s)", "find_last(s, 'b', %s, %s)", "find_last(s, 'a', %s)", "pad_left(s, %p)", "pad_right(s, %p, 'x')", "split(s, 'a', %s)", "split(s, '', %s)", "replace(s, 'a', 'b', %s)", "s[%s:%s:%s]", "arr[%s:%s:%s]", "arr[%s]", "s[%s:%s]"}

func intArgPool() []string {
	return []string{"`0`", "`1`", "`-1`", "`2`", "`3`", "`4`", "`5`", "`100`", "`-100`", "`9223372036854775807`", "`-9223372036854775808`", "`9223372036854775808`", "`1e30`", "`1.5`", "`-0.5`", "`1e-5`", "`4611686018427387904`", "`2147483648`", "n", "f", "nan", "inf", "big"}
}

func genC03(tier, out string, sum *Summary) {
	n := 2500
	if tier == "thorough" {
		n = 60000
	}
	sh := &Shards{dir: out, prop: "C03", imports: "Checks.Basic", ctype: "bcase", runner: "basic_run", per: 300}
	g := &Gen{Funcs: true, Arith: true, Lets: true, enumFuncs: true, mutFuncs: true, freeVars: true}
	distinct := map[string]bool{}
	id := 0
	run := func(expr string, doc any, stream string) {
		id++
		o := search(expr, doc)
		sum.count(stream + "/" + o.Kind)
		if o.Kind == "panic" {
			sum.direct("panic", expr, doc, "Search panicked: "+o.Msg)
		}
		distinct[stream+"|"+o.Kind+"|"+strings.Join(o.Cats, ",")+"|"+fmt.Sprintf("%T", o.Value)] = true
		if modelled(doc) && len(expr) < 400 && !(hasEnumText(expr) == "true" && strings.ContainsAny(expr, "[<>=!")) && !heavyForModel(expr, doc) {
			sh.Add(fmt.Sprintf("BC %d %s %s %v %s", id, hx(expr), coqValue(doc), hasEnumText(expr), coqObs(o)))
			sid := strconv.Itoa(id)
			sum.Index[sid] = map[string]any{"expr": expr, "doc": fmt.Sprintf("%#v", doc), "observed": obsJSON(o)}
			if len(sum.Samples) < 8 && id%311 == 0 {
				sum.Samples = append(sum.Samples, sum.Index[sid])
			}
		}
	}
	intDoc := map[string]any{"t": "hello", "s": "aébcab€", "arr": []any{json.Number("1"), "x", nil, json.Number("2")}, "n": json.Number("2"), "f": 2.5, "nan": decimal128.NaN(), "inf": math.Inf(1), "big": uint64(math.MaxUint64)}
	for i := 0; i < n; i++ {
		switch i % 6 {
		case 0: // valid expressions on the kind zoo
			run(unparse(g.expr(3)), zooValue(3), "valid-on-zoo")
		case 1: // mutated expressions
			t := unparse(g.expr(3))
			for k := 0; k <= rng.Intn(3); k++ {
				t = mutate(t)
			}
			run(t, genDoc(), "mutated")
		case 2:
			run(soup(), genDoc(), "token-soup")
		case 3:
			if rng.Intn(2) == 0 {
				run(escapeFuzz(), genDoc(), "escape-fuzz")
			} else {
				run(randomBytes(), zooValue(2), "random-bytes")
			}
		case 4: // boundary integers at every integer-taking position
			f := pick(intFuncs)
			// pad widths decide the size of the result, so only small and invalid widths are swept
			for strings.Contains(f, "%p") {
				f = strings.Replace(f, "%p", pick([]string{"`0`", "`1`", "`9`", "`40`", "`-1`", "`-9223372036854775808`", "`1.5`", "`1e-3`", "`3.0`", "`1e1`", "f", "nan", "n"}), 1)
			}
			args := []any{}
			for k := 0; k < strings.Count(f, "%s"); k++ {
				a := pick(intArgPool())
				if strings.Contains(f, "[") { // index / slice syntax takes bare integers
					a = strings.Trim(a, "`")
					if _, err := strconv.ParseInt(a, 10, 64); err != nil && a != "" {
						a = pick([]string{"", "0", "-1", "9223372036854775807", "-9223372036854775808", "2", "4611686018427387904"})
					}
					if strings.HasPrefix(f, "arr[%s]") && a == "" {
						a = "0"
					}
				}
				args = append(args, a)
			}
			expr := fmt.Sprintf(f, args...)
			if strings.Contains(expr, "::0]") || strings.HasSuffix(expr, ":0]") {
				// step 0 is a static error; still run it
			}
			run(expr, intDoc, "boundary-integers")
		case 5: // functions on the zoo: every builtin with zoo arguments
			fn := pick([]string{"abs", "avg", "ceil", "floor", "from_items", "items", "keys", "length", "lower", "max", "min", "reverse", "sort", "sum", "to_array", "to_number", "to_string", "trim", "type", "upper", "values"})
			run(fn+"(@)", zooValue(2), "builtin-on-zoo")
			run("sort_by(@, &@) || max_by(@, &a) || group_by(@, &a)", zooValue(2), "builtin-on-zoo")
			run("@ == a || @ < `1` || contains(@, a) || -@ || +@ || @ + a || @ // a || @ % a", zooValue(2), "builtin-on-zoo")
			// two values of the same (possibly uncomparable, foreign) Go type against each other
			z := zooValue(1)
			run(pick([]string{"a == b", "a != b", "a == a", "contains([a], b)", "[a][?@ == $.b]", "{p: a} == {p: b}", "[a, b] == [b, a]", "sort_by([{k: a}], &k)", "max_by([{k: a}, {k: b}], &k)", "a < b", "merge({x: a}, {x: b})", "not_null(a, b)", "[a, b][?@]", "zip([a], [b])", "group_by([{k: a}], &k)", "to_array(a) == to_array(b)"}), map[string]any{"a": z, "b": sameTypeAs(z)}, "same-type-pairs")
		}
	}
	// every built-in x every notable leaf x the shapes it can arrive in: systematic, not sampled
	// (only the absence of panics is decided here; one call in nine is also handed to the model)
	quiet := func(expr string, doc any, stream string) {
		id++
		o := search(expr, doc)
		sum.count(stream + "/" + o.Kind)
		if o.Kind == "panic" {
			sum.direct("panic", expr, doc, "Search panicked: "+o.Msg)
		}
	}
	leaves := specialLeaves()
	unary := []string{"abs(@)", "avg(@)", "ceil(@)", "floor(@)", "from_items(@)", "items(@)", "keys(@)", "length(@)", "lower(@)", "max(@)", "min(@)", "reverse(@)", "sort(@)", "sum(@)", "to_array(@)", "to_number(@)", "to_string(@)", "trim(@)", "type(@)", "upper(@)", "values(@)",
		"sort_by(@, &@)", "max_by(@, &@)", "min_by(@, &@)", "group_by(@, &@)", "map(&@, @)", "sort_by(@, &a)", "max_by(@, &a)", "group_by(@, &a)", "zip(@, @)", "merge(@, @)", "not_null(@)", "join('', @)", "join(@, @)", "contains(@, @)", "contains(@, `1`)", "starts_with(@, @)", "find_first(@, @)", "find_first('a', 'a', @)", "find_first('a', 'a', `0`, @)", "find_last('ab', 'b', @, @)",
		"pad_left(@, `2`)", "pad_right('a', `2`, @)", "split(@, @)", "split('a', '', @)", "replace(@, @, @)", "replace('a', 'a', 'b', @)", "trim(@, @)", "@[0]", "@[1:]", "@[::-1]", "@[::2]", "@[*]", "@[]", "@.*", "@[?@]", "@[?@ == @]", "@ == @", "@ != `1`", "@ < @", "@ <= `1`", "@ + @", "@ - `1`", "@ * @", "@ / @", "@ // @", "@ % @", "- @", "+ @", "!@", "@ && @", "@ || @", "[@, @]", "{a: @}", "@.a", "@ | @", "let $v = @ in $v == $v"}
	// widths and counts taken from the leaf itself: every leaf except finite numbers above 1000 (the width decides
	// the size of the result)
	for _, lf := range leaves {
		if d, ok := toDec(lf); ok && !d.IsNaN() && !d.IsInf(0) {
			if a := decimal128.Abs(d); a.Cmp(decimal128.New(1000, 0)).Greater() {
				continue
			}
		}
		for _, f := range []string{"pad_left('a', @)", "pad_right('a', @, 'x')", "pad_left(@, @)", "pad_right('ab', @, @)"} {
			quiet(f, lf, "width-from-leaf")
			quiet(strings.ReplaceAll(f, "@", "a"), map[string]any{"a": lf}, "width-from-leaf")
		}
	}
	k := 0
	for _, f := range unary {
		for _, lf := range leaves {
			for shape := 0; shape < 7; shape++ {
				var doc any
				switch shape {
				case 0:
					doc = lf
				case 1:
					doc = []any{lf}
				case 2:
					doc = []any{json.Number("1"), lf}
				case 3:
					doc = []any{lf, lf, "s"}
				case 4:
					doc = map[string]any{"a": lf}
				case 5:
					doc = []any{[]any{lf}, []any{lf, lf}}
				case 6:
					doc = []any{map[string]any{"a": lf}, map[string]any{"a": lf}}
				}
				k++
				if tier != "thorough" && k%3 != 0 {
					continue
				}
				if k%9 == 0 {
					run(f, doc, "builtin-x-leaf-x-shape")
				} else {
					quiet(f, doc, "builtin-x-leaf-x-shape")
				}
			}
		}
	}
	// one hostile argument among well-formed ones: every position of every built-in holds the leaf, the others hold a
	// non-empty value of the type the position wants (a nil map merged WITH something, a NaN padded BY something ...)
	{
		good := func(t string) string {
			switch {
			case strings.Contains(t, "number"):
				return "`2`"
			case t == "string":
				return "'ab'"
			case strings.Contains(t, "array"):
				return "`[1, \"a\"]`"
			case t == "object":
				return "`{\"a\": 1}`"
			}
			return "`[3]`"
		}
		k := 0
		for _, f := range sigs {
			hi := len(f.args)
			if f.vary {
				hi = 3
			}
			for n := 2; n <= hi; n++ {
				if n < f.min {
					continue
				}
				for pos := 0; pos < n; pos++ {
					parts := make([]string, n)
					for j := range parts {
						t := f.args[0]
						if j < len(f.args) {
							t = f.args[j]
						}
						switch {
						case t == "&" && j == pos:
							parts[j] = "&$.x"
						case t == "&":
							parts[j] = "&@"
						case j == pos:
							parts[j] = "x"
						default:
							parts[j] = good(t)
						}
					}
					e := f.name + "(" + strings.Join(parts, ", ") + ")"
					for _, lf := range leaves {
						k++
						if tier != "thorough" && k%2 != 0 {
							continue
						}
						if strings.HasPrefix(f.name, "pad_") && pos == 1 {
							if d, ok := toDec(lf); ok && !d.IsNaN() && !d.IsInf(0) && decimal128.Abs(d).Cmp(decimal128.New(1000, 0)).Greater() {
								continue // the width decides the size of the result
							}
						}
						quiet(e, map[string]any{"x": lf}, "one-hostile-argument")
					}
				}
			}
		}
	}
	// a step of zero in every spelling the lexer accepts, with bounds that make the walk non-empty in either direction
	for _, z := range []string{"0", "-0", "00", "000", "-00", "-000"} {
		for _, b := range []string{"3:0", "2:0", "4:1", ":0", "3:", "0:3", ":", "-1:0", "0:-1", "1:1"} {
			for _, tgt := range []string{"a", "s", "@", "a[*]", "[a, s][*]"} {
				quiet(tgt+"["+b+":"+z+"]", map[string]any{"a": []any{json.Number("1"), json.Number("2"), json.Number("3"), json.Number("4"), json.Number("5")}, "s": "héllo"}, "zero-step-spellings")
				quiet("["+b+":"+z+"]", []any{json.Number("1"), json.Number("2"), json.Number("3"), json.Number("4")}, "zero-step-spellings")
				quiet("["+b+":"+z+"]", "abcdef", "zero-step-spellings")
			}
		}
	}
	// every start/stop (and a few steps) around the ends of short ASCII strings, mixed-width strings and arrays
	for _, tgt := range []string{"'hello'", "'h'", "''", "'héllo€'", "`[1,2,3,4,5]`", "`[]`", "@"} {
		for a := -7; a <= 7; a++ {
			for b := -7; b <= 7; b++ {
				quiet(fmt.Sprintf("%s[%d:%d]", tgt, a, b), "hello", "small-slices")
				if (a+b)%3 == 0 {
					quiet(fmt.Sprintf("%s[%d:%d:%d]", tgt, a, b, 1+(a+7)%3), "hello", "small-slices")
					quiet(fmt.Sprintf("%s[%d:%d:-%d]", tgt, a, b, 1+(b+7)%3), []any{"x", "y", "z"}, "small-slices")
				}
			}
			quiet(fmt.Sprintf("%s[%d:]", tgt, a), "hello", "small-slices")
			quiet(fmt.Sprintf("%s[:%d]", tgt, a), "hello", "small-slices")
			quiet(fmt.Sprintf("%s[%d]", tgt, a), []any{"x", "y"}, "small-slices")
		}
	}
	for _, af := range argFaultFamily() {
		quiet(af.expr, af.doc, "arg-fault")
	}
	// every combination of two constructs on hostile values, and the spellings the canonical printer never produces
	for _, sc := range smallScope(ssCfg{funcs: true, lets: true, errs: true, bools: true}, 1, 3000) {
		text := unparse(sc.e)
		quiet(text, sc.doc, "small-scope")
		quiet(text, leaves[rng.Intn(len(leaves))], "small-scope")
		quiet(text, []any{leaves[rng.Intn(len(leaves))], map[string]any{"a": leaves[rng.Intn(len(leaves))], "b": []any{leaves[rng.Intn(len(leaves))]}}}, "small-scope")
	}
	for _, e := range []string{"[*].[*]", "a[*].[*]", "[].[*]", "*.[*]", "[?a].[*]", "[0:1].[*]", "[*].[*].[*]", "a.[*]", "@.[*]", "a.*.[*]", "[*].*", "*.*", "a[*].*.*", "[*].[ *]", "a.[ *, b]", "[*].{a: *}", "a[?b].[*][0]", "[*].[*] | [0]", "map(&[*], @)", "a | [*].[*]", "(a)[*].[*]", "a[*].[*][*]", "a[][].[*]", "[::2].[*]", "[::-1].[*].[*]"} {
		for _, d := range []string{`[[1,2],[3]]`, `{"a":[[1],[2,[3]]],"b":{"a":1}}`, `[{"a":1},{"a":[1,2]},null,3]`, `null`, `"s"`, `[]`, `{}`} {
			run(e, jsonDoc(d), "special-spellings")
		}
	}
	// every string of up to four symbols over the delimiters, the escape character and a one- and a
	// two-byte letter: unterminated and oddly escaped literals of every kind
	alphabet := []string{"`", "'", "\"", "\\", "a", "\u00e9", "[", "]", " ", "{"}
	var words func(prefix string, left int)
	words = func(prefix string, left int) {
		if prefix != "" {
			quiet(prefix, nil, "delimiter-words")
			quiet("a["+"?"+prefix, nil, "delimiter-words")
		}
		if left == 0 {
			return
		}
		for _, c := range alphabet {
			words(prefix+c, left-1)
		}
	}
	words("", 4)
	// text that is nearly a number, wherever a number is read: to_number, literals, data, index positions
	for k, x := range numberish(tier) {
		run("to_number(@)", x, "numberish")
		if !strings.ContainsAny(x, "`\\") {
			run("`"+x+"`", nil, "numberish")
		}
		if k%3 == 0 {
			run(pick([]string{"@ + `1`", "abs(@)", "[@, @] | sort(@)", "@ == @", "sum([@])", "to_string(@)", "find_first('abc', 'b', @)", "split('a,b', ',', @)", "replace('aaa', 'a', 'b', @)"}), json.Number(x), "numberish")
			run("a["+x+"]", intDoc, "numberish")
		}
	}
	// every token directly after a complete operand, in every context (a table indexed by token type must cover
	// the whole enumeration)
	for _, tok := range []string{"$x", "$", "@", "`1`", "'r'", "\"q\"", "name", "1", "-1", "&", "&&", "||", "|", "!", "!=", "==", "<", "<=", ">", ">=", "+", "-", "*", "/", "//", "%", ".", ".*", "[", "[?", "[]", "[*]", "]", "(", ")", "{", "}", ",", ":", "=", "let", "in", "*"} {
		for _, ctx := range []string{"foo %s", "@ %s", "$a %s", "[foo %s]", "abs(foo %s)", "foo[?bar %s]", "let $a = foo %s = bar in $a", "{k: foo %s}", "foo[0] %s", "foo.* %s", "'s' %s", "`1` %s", "(a) %s", "a[1:2] %s", "a || b %s", "!a %s"} {
			quiet(strings.Replace(ctx, "%s", tok, 1), nil, "token-after-operand")
		}
	}
	// long runs of bytes that are not text, and long valid text with the fault at either end: the error a call
	// returns must format whatever the expression was made of
	for _, unit := range []string{"\x80", "\xbf", "\xc0", "\xff", "\xe2\x82", "\xf0\x9f", "\xed\xa0\x80", "é", "€", "😀", "a", "'", "\"", "`", "\\"} {
		for _, n := range []int{1, 2, 31, 32, 33, 63, 64, 65, 66, 127, 128, 129, 200, 1000, 4097} {
			body := strings.Repeat(unit, n)
			quiet(body, nil, "long-runs")
			quiet("a."+body, nil, "long-runs")
			quiet(body+" #", nil, "long-runs")
			quiet("'"+body, nil, "long-runs")
			quiet("abs("+body, nil, "long-runs")
			quiet("a"+strings.Repeat(".a", n)+" "+unit, nil, "long-runs")
			quiet("unknown_"+body+"(a)", nil, "long-runs")
			quiet("$"+body, nil, "long-runs")
			if n > 200 {
				continue
			}
			quiet("abs('"+body+"')", nil, "long-runs")
			quiet("pad_left(@, `-1`)", body, "long-runs")
			quiet("abs(@)", map[string]any{body: body}, "long-runs")
		}
	}
	// deep nesting (bounded here; the crash at ~10^6 is exercised by the thorough tier in a child process)
	for _, depth := range []int{100, 1000, 5000} {
		run(strings.Repeat("(", depth)+"a"+strings.Repeat(")", depth), genDoc(), "deep")
		run(strings.Repeat("!", depth)+"a", genDoc(), "deep")
		run("a"+strings.Repeat("[0]", depth), genDoc(), "deep")
		run(strings.Repeat("[", depth)+"a"+strings.Repeat("]", depth), genDoc(), "deep")
		run("`"+strings.Repeat("[", depth)+strings.Repeat("]", depth)+"`", genDoc(), "deep")
	}
	sh.Flush()
	sum.Cases = id
	sum.Shards = sh.files
	sum.Distinct = len(distinct)
	sum.Rule = "six streams: valid expressions on the full Go value zoo (NaN/Inf floats, json.Number with arbitrary text, decimal NaN/Inf, every int kind, nil slices/maps, foreign values), mutated expressions, token soup, random bytes, boundary integers at every integer-taking position, every built-in on zoo values; plus nesting to depth 5000; a call must return a value or an error whose message formats; the modelled subset is also compared with the model; distinct = (stream, outcome class, categories, result Go type)"
}

func hasEnumText(expr string) string {
	if strings.Contains(expr, "*") || strings.Contains(expr, "keys(") || strings.Contains(expr, "values(") || strings.Contains(expr, "items(") {
		return "true"
	}
	return "false"
}

// ---- C04: Compile accepts exactly the grammar ----
func genC04(tier, out string, sum *Summary) {
	n := 2500
	if tier == "thorough" {
		n = 60000
	}
	sh := &Shards{dir: out, prop: "C04", imports: "Checks.C04", ctype: "c04case", runner: "c04_run", per: 400}
	g := &Gen{Funcs: true, Arith: true, Lets: true, enumFuncs: true, mutFuncs: true, wideNames: true}
	distinct := map[string]bool{}
	id := 0
	emit := func(text string, valid string) {
		id++
		o := compileObs(text)
		sum.count(valid + "/" + o.Kind)
		if valid == "valid" && o.Kind != "val" {
			sum.direct("rejects-valid", text, nil, "a member of the grammar does not compile: "+describe(o))
		}
		if valid == "invalid" && !(o.Kind == "err" && len(o.Cats) == 1 && o.Cats[0] == "CSyntax") {
			sum.direct("accepts-invalid", text, nil, "a string outside the grammar is not rejected as a syntax error: "+describe(o))
		}
		distinct[valid+o.Kind+strings.Join(o.Cats, ",")+strconv.Itoa(len(text)%7)] = true
		if len(text) > 1200 {
			return // long texts are decided by the membership the family states (a Coq string literal nests as deep as it is long)
		}
		sh.Add(fmt.Sprintf("C4 %d %s %s %s", id, hx(text), map[string]string{"valid": "(Some true)", "invalid": "(Some false)", "unknown": "None"}[valid], coqObs(o)))
		sid := strconv.Itoa(id)
		sum.Index[sid] = map[string]any{"expr": text, "doc": "null", "observed": obsJSON(o), "expected": valid}
		if len(sum.Samples) < 8 && id%277 == 0 {
			sum.Samples = append(sum.Samples, sum.Index[sid])
		}
	}
	for i := 0; i < n; i++ {
		e := g.expr(3)
		text := unparse(e)
		switch i % 4 {
		case 0:
			emit(text, "valid")
		case 1: // every legal placement of whitespace between tokens
			emit(respace(text), "valid")
		case 2: // structural breakage that can never be in the grammar
			emit(breakIt(text), "invalid")
		case 3: // arbitrary mutation: the executable grammar (Coq side) decides membership
			emit(mutate(text), "unknown")
		}
	}
	for _, c := range c08Faults() {
		if c.cat == "CSyntax" {
			emit(c.expr, "invalid")
		}
	}
	for _, e := range []string{"$1", "$0abc", "let $1 = a in $1", "a[?$1]", "`[1, 2]]`", "`{\"a\": 1}}`", "`\"abc\"}`", "`1]`", "`1 2`", "`[1],`", "\"\\ud800\"", "a.\"x\\ud83d\"", "\"\\u12\"", "\"\\uZZZZ\"", "\"\\x\"", "let", "in", "let in", "in a", "a in b", "let $a = b", "1", "-1", "a - 1", "a.1", "a.@", "a.$", "a.'b'", "@.@", "[1,2]", "a[1 2]", "a[1,2]", "a[*", "a[ *]", "a[* ]", "a. *", "a.* *", "a..*", "a[]]", "a[[]", "a[?]", "a[? ]", "&a", "a&b", "a & b", "a |& b", "a =! b", "a = b", "a === b", "a <> b", "a >< b", "a !b", "!", "a!", "a ! b", "()", "(,)", "abs(,)", "contains(a,)", "abs(,a)", "{}", "{,}", "{a}", "{a:}", "{a:b,}", "{a b}", "{\"a\" b}", "{a::b}", "'", "''x", "'a''b'", "\"", "\"\"x", "`", "``", "` `"} {
		emit(e, "invalid")
	}
	// every code point class inside every kind of literal and name, and every legal operand of every context
	for _, cp := range []string{"\ufffd", "\u00e9", "\u0080", "\u07ff", "\u0800", "\uffff", "\U00010000", "\U0010ffff", "\u2028", "\u00a0", "\u007f", "\ufeff", "\u0301"} {
		for _, form := range []string{"'%s'", "'a%sb'", "\"%s\"", "a.\"x%s\"", "`\"%s\"`", "`{\"%s\": 1}`", "{\"%s\": a}", "a[?b == '%s']", "a[?b == `\"%s\"`].c", "'\\%s'", "contains(a, '%s')", "let $v = '%s' in $v"} {
			emit(fmt.Sprintf(form, cp), "valid")
		}
	}
	for _, inner := range []string{"a | b", "a || b", "a && b", "!a", "a == b", "a + b", "- a", "let $x = a in $x", "a[?b | c]", "[a, b]", "{k: a}", "abs(a)", "a[*].b", "*", "@", "$", "`1`", "'x'", "a.b[0]", "(a)", "a[0:1]", "[?a]", "[]", "[*]", "a | b | c"} {
		for _, ctx := range []string{"x[?%s]", "[?%s]", "x[*][?%s].y", "(%s)", "[%s]", "[a, %s]", "{k: %s}", "abs(%s)", "sort_by(x, &%s)", "map(&%s, x)", "let $v = %s in $v", "let $v = a in %s", "x | %s", "%s | x", "not_null(a, %s)", "x[?a == %s]", "!(%s)", "x[?(%s)]", "x.[%s]", "x.{k: %s}"} {
			emit(fmt.Sprintf(ctx, inner), "valid")
		}
	}
	// a lexical fault after every prefix of a catalogue of texts that passes through every construct: the lexer is
	// pulled on demand, so each "advance" of the parser has an error return of its own that only such a text reaches
	{
		bad := []string{"#", "'", "\"", "`", "\x80", "$ ", "'\\", "\"\\u12", "`\\", "~", "\x00", "\u00a0"}
		texts := []string{}
		for _, inner := range []string{"a | b", "a || b && c", "!a == b", "a + b * c", "- a // b % c", "let $x = a, $y = b in $x", "a[?b | c]", "[a, b]", "{k: a, \"l\": b}", "a[*].b", "* . c", "a.*", "@", "$", "`1`", "'x'", "a.b[0]", "(a)", "a[0:1:2]", "a[::-1]", "a[:2]", "[?a]", "[]", "[*]", "a[].b", "a.[b, c]", "a.{k: b}", "$v", "a × b ÷ c − d", "a < b", "a <= b", "a >= b", "a > b", "a != b", "a / b", "a - b", "a[1]", "[0]", "[1:]", "a.\"b\"", "a[?b].c", "[].a"} {
			texts = append(texts, inner)
		}
		for _, f := range sigs {
			parts := []string{}
			for j, t := range f.args {
				if t == "&" {
					parts = append(parts, "&x")
				} else {
					parts = append(parts, []string{"x", "y", "z", "w"}[j%4])
				}
			}
			texts = append(texts, f.name+"("+strings.Join(parts, ", ")+")")
		}
		k := 0
		for _, t := range texts {
			for i := 0; i <= len(t); i++ {
				if i < len(t) && t[i]&0xc0 == 0x80 {
					continue
				}
				k++
				b := bad[k%len(bad)]
				emit(t[:i]+b, "unknown")
				if tier == "thorough" || k%3 == 0 {
					emit(t[:i]+b+t[i:], "unknown")
					emit(t[:i]+" "+bad[(k+5)%len(bad)]+" "+t[i:], "unknown")
				}
			}
		}
	}
	// every built-in with every argument count up to its maximum: the call must be closed by ")" and by nothing else
	for _, f := range sigs {
		for k := f.min; k <= len(f.args) && k <= 4; k++ {
			if k == 0 {
				continue
			}
			args := make([]string, k)
			for i := range args {
				args[i] = "a"
				if i < len(f.args) && strings.HasPrefix(f.args[i], "&") {
					args[i] = "&a"
				}
			}
			body := f.name + "(" + strings.Join(args, ", ")
			for _, tail := range []string{"", "]", "}", " in", " 'x'", " b", ";", ")(", "))", " ) )"} {
				emit(body+tail, "invalid")
			}
			for _, wrap := range []string{"[%s]", "{k: %s}", "x[?%s]", "(%s)", "x | %s"} {
				for _, tail := range []string{"", "]", " b"} {
					emit(fmt.Sprintf(wrap, body+tail), "invalid")
				}
			}
		}
	}
	// \u is followed by exactly four hexadecimal digits: no sign, blank, prefix, separator or digit of another script
	for _, h := range []string{"+041", "-041", " 041", "0x41", "_041", "004", "00g1", "0 41", "+1f6", "1_00", "\u0664\u0661\u0660\u0660", "\uff10\uff10\uff14\uff11", "004 ", "0041"[:3] + "\\", "-0041", "+0041"} {
		for _, form := range []string{"\"\\u%s\"", "a.\"\\u%s\"", "{\"\\u%s\": a}", "`\"\\u%s\"`", "\"x\\u%sy\"", "\"\\ud83d\\u%s\"", "`{\"\\u%s\": 1}`", "`[\"\\u%s\"]`"} {
			emit(fmt.Sprintf(form, h), "invalid")
		}
	}
	for _, h := range []string{"+e00", "-e00", "de0", "DE0 ", "de0g", "+de00", "0xde", "d_00"} {
		for _, form := range []string{"\"\\ud83d\\u%s\"", "a.\"\\uD83D\\u%s\"", "`\"\\ud83d\\u%s\"`", "{\"\\ud83d\\u%s\": a}"} {
			emit(fmt.Sprintf(form, h), "invalid")
		}
	}
	// letters outside ASCII never continue an unquoted identifier, whatever their low byte looks like
	for _, ch := range []string{"\u0441", "\u0430", "\u0435", "\u0131", "\u0141", "\uff5a", "\U0001d15f", "\u4e2d", "\u00e9", "\u00df", "\u0100", "\u0161", "\u0479", "\u212a"} {
		for _, form := range []string{"a%s", "%sa", "a%sb", "foo.bar%s", "items[?nam%s == 'x']", "$a%s", "let $v%s = a in $v%s", "abs%s(a)", "{k%s: a}", "a.%s"} {
			emit(strings.ReplaceAll(form, "%s", ch), "invalid")
		}
	}
	// number = ["-"] 1*digit: leading zeros are digits, the value is decimal
	for _, n := range []string{"08", "-09", "010", "-011", "00", "007", "0", "-0", "018", "0x1"[:1] + "9"} {
		for _, form := range []string{"a[%s]", "a[%s:]", "a[:%s]", "a[::%s]"[:0] + "a[1:%s]", "[%s]", "a[*][%s]", "a | [%s]"} {
			emit(strings.ReplaceAll(form, "%s", n), "valid")
		}
	}
	// characters that are white space elsewhere but not in this grammar (only space, tab, LF, CR are), at either
	// end and in the middle of valid expressions
	for _, ws := range []string{"\v", "\f", "\u00a0", "\u0085", "\u2028", "\u2029", "\u3000", "\ufeff", "\u200b", "\u1680", "\x00"} {
		for _, v := range []string{"a", "a.b", "a | b", "[0]", "`1`", "'x'", "abs(a)"} {
			emit(ws+v, "invalid")
			emit(v+ws, "invalid")
			emit(ws+v+ws, "invalid")
		}
		emit("a"+ws+"| b", "invalid")
		emit("a ."+ws+"b", "invalid")
	}
	for _, ws := range []string{" ", "\t", "\n", "\r", " \t\r\n "} {
		for _, v := range []string{"a", "a.b", "a | b", "[0]", "`1`", "'x'", "abs(a)"} {
			emit(ws+v+ws, "valid")
		}
	}
	// text between backticks is a literal exactly when it is JSON: leading zeros, bare exponents, signs and the
	// words other number parsers accept are not
	for _, x := range numberish(tier) {
		if strings.ContainsAny(x, "`\\") {
			continue
		}
		vd := func(t string) string {
			if json.Valid([]byte(t)) {
				return "valid"
			}
			return "invalid"
		}
		emit("`"+x+"`", vd(x))
		if len(x) <= 3 {
			emit("a[?b == `"+x+"`]", vd(x))
			emit("{k: `["+x+"]`}", vd("["+x+"]"))
		}
	}
	// the binding list of a let: one or more "$name = expression" separated by single commas, then "in"
	for _, e := range []string{"let $a = foo, in $a", "let $a = foo, $b = bar, in [$a, $b]", "[let $a = foo, in $a]", "let $a = foo,, $b = bar in $a", "let , $a = foo in $a", "let $a = foo $b = bar in $a", "let $a foo in $a", "let $a = in $a",
		"let $a = foo in", "let = foo in a", "let $a == foo in $a", "let $a = foo, $b in $a", "let $a = foo; in $a", "let $a = foo in in $a", "let let $a = foo in $a", "let $a = foo, b = bar in $a", "let a = foo in a", "let $a = foo | in $a",
		"let $a = foo in $a in $a", "let $a = foo) in $a", "let ($a = foo) in $a", "let $a = foo in $a,", "let $a, $b = foo in $a", "let $a = foo in $a $a", "let $a = foo, in", "let in x", "let , in x", "let $ = foo in $", "let $a = foo : $b = bar in $a", "x[?let $a = @, in $a]", "abs(let $a = x, in $a)"} {
		emit(e, "invalid")
	}
	for _, e := range []string{"let $a = foo in $a", "let $a = foo, $b = bar in [$a, $b]", "let $a = foo ,$b = bar in $a", "let $a=foo,$b=bar in $a", "let $a = let $b = x in $b in $a", "let $a = foo in let $b = $a in $b", "let $let = a in $let", "let $in = a in $in", "let $a = a.b in $a.c", "let $a = a in [$a][0]"} {
		emit(e, "valid")
	}
	for _, e := range []string{"let $a = a in in", "let $a = let in let", "let $a = in in $a", "a.let", "a.in", "{let: a}", "{in: a}", "let.a", "in.a"} {
		emit(e, "unknown")
	}
	for _, tok := range []string{"$x", "$", "@", "`1`", "'r'", "\"q\"", "name", "1", "-1", "&", "!", "(", "{", "*", "let", "in", "=", ":"} {
		for _, ctx := range []string{"foo %s", "@ %s", "$a %s", "[foo %s]", "abs(foo %s)", "foo[?bar %s]", "let $a = foo %s = bar in $a", "{k: foo %s}", "foo[0] %s", "foo.* %s", "'s' %s", "`1` %s", "(a) %s", "a[1:2] %s", "a || b %s", "!a %s"} {
			emit(strings.Replace(ctx, "%s", tok, 1), "unknown")
		}
	}
	// the grammar has no limit on length or nesting: long flat repetitions of every construct and deep nests of
	// every bracketing construct are members (the depth at which the Go stack gives out is C03/C09's business)
	for _, n := range []int{130, 300, 2000} {
		rep := func(unit, sep string) string { return strings.TrimSuffix(strings.Repeat(unit+sep, n), sep) }
		for _, t := range []string{rep("-a", " + "), rep("!a", " && "), rep("+a", " - "), "[" + rep("-a", ", ") + "]", rep("a", " | "), rep("a", " || "), "not_null(" + rep("-a", ", ") + ")", "a" + strings.Repeat(".a", n), "a" + strings.Repeat("[0]", n),
			rep("(a)", " + "), rep("`1`", " * "), rep("'s'", " == "), "{" + rep("k: -a", ", ") + "}", rep("abs(-a)", " + "), rep("[?-a]", " | "), rep("a[-1]", " < "), "[" + rep("[]", ", ") + "]", rep("a[:-1:-1]", " | "), "let " + rep("$v = -a", ", ") + " in $v", rep("&a", " , ")[:0] + "map(&-a, b)" + strings.Repeat(" | map(&-@, @)", n)} {
			emit(t, "valid")
		}
	}
	for _, d := range []int{130, 260, 1000} {
		nest := func(open, close string) string { return strings.Repeat(open, d) + "a" + strings.Repeat(close, d) }
		for _, t := range []string{nest("(", ")"), nest("[", "]"), nest("{k: ", "}"), nest("abs(", ")"), nest("!", ""), nest("- ", ""), nest("a[?", "]"), nest("not_null(b, ", ")"), nest("let $v = b in ", ""), nest("[b, ", "]"), nest("(b || ", ")"), nest("(b - ", ")"),
			strings.Repeat("(", d) + "x" + strings.Repeat(" - y)", d), strings.Repeat("(", d) + "x" + strings.Repeat(" || y)", d), "a[?" + nest("(", ")") + "]", nest("map(&", ", b)")} {
			emit(t, "valid")
		}
	}
	// bounded-exhaustive short strings over the characters that matter to the lexer: the model decides membership
	alpha := []string{"a", "1", "_", "$", "&", "|", "*", ".", "[", "]", "(", ")", "{", "}", ",", ":", "'", "\"", "`", "@", "!", "<", "=", ">", "-", "+", "/", "%", "?", " ", "\\", "é"}
	for _, x := range alpha {
		emit(x, "unknown")
		for _, y := range alpha {
			emit(x+y, "unknown")
			for _, z := range alpha {
				if tier == "thorough" || rng.Intn(12) == 0 {
					emit(x+y+z, "unknown")
				}
			}
		}
	}
	for i := 0; i < n/4; i++ {
		k := 4 + rng.Intn(3)
		t := ""
		for j := 0; j < k; j++ {
			t += pick(alpha)
		}
		emit(t, "unknown")
		emit(escapeFuzz(), "unknown")
	}
	sh.Flush()
	sum.Cases = id
	sum.Shards = sh.files
	sum.Distinct = len(distinct)
	sum.Rule = "valid stream: generated expressions rendered canonically and with white space inserted at every token boundary (must compile); invalid stream: unbalanced or dangling delimiters, doubled infix operators, operators at either end, broken literals, non-identifier hash keys (must be ErrSyntax); mutation stream: membership decided by the model; all compared with the model's outcome class"
}

// white space may appear between any two tokens (but not inside [*], [], [?, .*, &&, ||, ==, ...):
// insert it only next to single-character punctuation that is not part of a compound token
func respace(s string) string {
	var b strings.Builder
	inQuote := byte(0)
	for i := 0; i < len(s); i++ {
		c := s[i]
		if inQuote != 0 {
			b.WriteByte(c)
			if c == '\\' && i+1 < len(s) {
				i++
				b.WriteByte(s[i])
			} else if c == inQuote {
				inQuote = 0
			}
			continue
		}
		if c == '\'' || c == '"' || c == '`' {
			inQuote = c
			b.WriteByte(c)
			continue
		}
		switch c {
		case ',', '(', ')', '{', '}', ':', '@':
			if rng.Intn(2) == 0 {
				b.WriteString(pick([]string{" ", "\t", "\n", "\r\n", "  "}))
			}
			b.WriteByte(c)
			if rng.Intn(2) == 0 {
				b.WriteString(pick([]string{" ", "\t", "\n"}))
			}
		case ' ':
			b.WriteString(pick([]string{" ", "  ", "\n", "\t "}))
		default:
			b.WriteByte(c)
		}
	}
	return pick([]string{"", " ", "\n"}) + b.String() + pick([]string{"", " ", "\t\n"})
}

func breakIt(s string) string {
	switch rng.Intn(8) {
	case 0:
		return s + pick([]string{" ||", " &&", " |", " ==", " .", " [", " {", ",", " !"})
	case 1:
		return pick([]string{"|| ", "&& ", "| ", "== ", ". ", ") ", "] ", "} ", ", ", ": "}) + s
	case 2:
		return "(" + s
	case 3:
		return s + ")"
	case 4:
		return s + " " + pick([]string{"'abc", "`{`", "\"q", "`1 2`", "`[1,]`", "`{\"a\":}`", "`nul`", "`'x'`"})
	case 5:
		return "{" + pick([]string{"1", "`a`", "'a'", "@", "$x", "*"}) + ": " + s + "}"
	case 6:
		return s + " || || " + s
	}
	return "[" + s + ",]"
}

// another value of the same dynamic Go type (for foreign values: a distinct instance)
func sameTypeAs(v any) any {
	switch v.(type) {
	case []string:
		return []string{"x"}
	case map[string]int:
		return map[string]int{"y": 2}
	case []int:
		return []int{3}
	case foreign:
		return foreign{7}
	case *foreign:
		return &foreign{8}
	case struct{}:
		return struct{}{}
	case chan int:
		return make(chan int)
	case func():
		return func() {}
	}
	return v
}

// literals with random escape sequences: complete, truncated, surrogate halves, wrong hex digits
func escapeFuzz() string {
	esc := func() string {
		switch rng.Intn(12) {
		case 0:
			return `\ud800`
		case 1:
			return `\udc00`
		case 2:
			return `\ud83d\ude00`
		case 3:
			return `\ud83d\u0041`
		case 4:
			return `\u00e9`
		case 5:
			return `\u12`
		case 6:
			return `\uZZZZ`
		case 7:
			return `\n`
		case 8:
			return `\x`
		case 9:
			return `\`
		case 10:
			return `\ud83d\`
		}
		return pick([]string{`\"`, `\'`, "\\`", `\/`, `\u0000`, `\uFFFF`, `\u0080`, `\ud83d\ude0`, `\ud83dx`})
	}
	body := ""
	for i := 0; i < 1+rng.Intn(3); i++ {
		body += pick([]string{"", "a", "é", "k"}) + esc()
	}
	body += pick([]string{"", "z", "\\"})
	switch rng.Intn(5) {
	case 0:
		return `"` + body + `"`
	case 1:
		return `a."` + body + `"`
	case 2:
		return "`\"" + body + "\"`"
	case 3:
		return `'` + body + `'`
	}
	return `{"` + body + `": @}`
}

// leaves that take a special path somewhere: every spelling the number parsers accept or nearly
// accept, non-finite floats and decimals, integer limits of every width, invalid UTF-8, foreign values
func specialLeaves() []any {
	l := []any{nil, true, false, "", "a", "1", "\xff\xfe", "a\x00b", "\xe2\x82", "\U0010ffff\ufffd"}
	for _, t := range []string{"1", "-0", "0.0", "-2.5", "1e3", "5.0", "5e0", "50E-1", "", "abc", "NaN", "nan", "-NaN", "Inf", "inf", "-inf", "+Inf", "Infinity", "-Infinity", "infinity", "1e99999", "-1e99999", "1e-99999", "0e99999", "0x10", "1_000", "1__0", "_1", "1_", "+5", ".5", "5.", "1e", "--1", "9223372036854775807", "9223372036854775808", "-9223372036854775808", "-9223372036854775809", "18446744073709551615", "18446744073709551616", "9007199254740993", "3.0", "1e400", "1e6144", "9e6144", "1e-6176", "1e-6177", "9999999999999999999999999999999999", "99999999999999999999999999999999995", "0.1000000000000000000000000000000000000001", "007", "-01", "1.", " 1", "1 "} {
		l = append(l, json.Number(t))
	}
	for _, f := range []float64{0, 1.5, -2, 3, math.NaN(), math.Inf(1), math.Inf(-1), math.Copysign(0, -1), 1e308, -1e308, 5e-324, 9.223372036854775807e18, -9.3e18, 1.8446744073709552e19, 9007199254740992, 0.1} {
		l = append(l, f)
	}
	for _, f := range []float32{0, 2.5, float32(math.NaN()), float32(math.Inf(1)), float32(math.Inf(-1)), 16777216, -1, 3.4e38} {
		l = append(l, f)
	}
	l = append(l, int(0), int(math.MaxInt64), int(math.MinInt64), int8(127), int8(-128), int16(32767), int16(-32768), int32(math.MaxInt32), int32(math.MinInt32), int64(math.MaxInt64), int64(math.MinInt64), int64(1)<<53+1,
		uint(0), uint(math.MaxUint64), uint8(255), uint16(65535), uint32(math.MaxUint32), uint64(math.MaxUint64), uint64(math.MaxInt64)+1, uint64(1)<<53+1)
	l = append(l, decimal128.NaN(), decimal128.Inf(1), decimal128.Inf(-1), decimal128.New(25, -1), decimal128.New(0, 0), decimal128.New(-3, 0), decimal128.New(1, 40), decimal128.New(1, 6144), decimal128.New(1, -6176), decimal128.New(-0, 0))
	var p *int
	l = append(l, foreign{1}, &foreign{2}, []string{"not", "any"}, map[string]int{"x": 1}, []int{1, 2}, struct{}{}, p, []any(nil), map[string]any(nil), func() {}, make(chan int), []any{}, map[string]any{})
	return l
}

// exact sums over addends thousands of decimal orders apart have coefficients of thousands of digits,
// which the model evaluates inside Coq at a minute apiece; those calls are only checked for panics
var hugeExponent = regexp.MustCompile(`[eE][-+]?[0-9]{4,}`)

func heavyForModel(expr string, doc any) bool {
	if !(strings.Contains(expr, "sum(") || strings.Contains(expr, "avg(")) {
		return false
	}
	return hugeExponent.MatchString(fmt.Sprintf("%v %s", doc, expr))
}
