module verifharness

go 1.24.0

require (
	github.com/woodsbury/decimal128 v1.4.0
	github.com/woodsbury/jmespath v0.0.0
)

replace github.com/woodsbury/jmespath => /repo
