(* Reference semantics of the core language, written from the specification
   and its compliance corpus, independently of the implementation's parser and
   of its fused node types.  Built-in functions and arithmetic are delegated
   (they are specified under C02 / C05); everything C01 names is defined here. *)
From Coq Require Import List ZArith Bool.
From JM Require Import Base.Outcome Base.Bytes Base.Utf8 Num.Dec Json.Value Json.JsonText
  Spec.SpecSlice Spec.RefAst
  Model.Ast Model.Parser Model.NumberFns Model.Eval.
Import ListNotations.
Open Scope Z_scope.

(* truthiness: exactly null, false, "", [], {} are false-like *)
Definition spec_truthy (v : value) : bool :=
  match v with
  | VNull => false | VBool b => b | VStr [] => false | VArr [] => false | VObj [] => false
  | VNum (NJson []) => false   (* not a JSON value; kept aligned with the Go value space *)
  | _ => true
  end.

(* deep equality: numbers by value, objects regardless of member order, never across types *)
Fixpoint spec_equal (x y : value) : bool :=
  match x, y with
  | VNull, VNull => true
  | VBool a, VBool b => Bool.eqb a b
  | VStr a, VStr b => beqb a b
  | VNum xn, VNum yn =>
    (* numbers by value; a JSON number that no decimal can hold is still equal to itself *)
    if match xn, yn with
       | NJson s, NJson t => beqb s t && match json_parse s with Some _ => true | None => false end
       | _, _ => false
       end then true else
    match to_decimal x, to_decimal y with Some a, Some b => dec_equal a b | _, _ => false end
  | VArr a, VArr b =>
    (fix go (a b : list value) : bool :=
       match a, b with
       | [], [] => true
       | u :: a', v :: b' => spec_equal u v && go a' b'
       | _, _ => false
       end) a b
  | VObj a, VObj b =>
    (length a =? length b)%nat &&
    (fix go (a : list (bytes * value)) : bool :=
       match a with
       | [] => true
       | (k, u) :: a' => match assoc k b with Some v => spec_equal u v | None => false end && go a'
       end) a
  | _, _ => false
  end.

Definition spec_order (op : cmpop) (x y : value) : value :=
  match to_decimal x, to_decimal y with
  | Some a, Some b =>
    VBool (match op with
           | CLt => dec_less a b | CLe => dec_le a b | CGt => dec_greater a b | CGe => dec_ge a b
           | CEq => dec_equal a b | CNe => negb (dec_equal a b) end)
  | _, _ => VNull
  end.

Definition not_null (v : value) : bool := match v with VNull => false | _ => true end.

(* apply f to each element, keep the non-null results *)
Fixpoint proj_list (f : value -> outcome value) (l : list value) : outcome (list value) :=
  match l with
  | [] => Ok []
  | v :: r => do p <- f v; do ps <- proj_list f r; Ok (if not_null p then p :: ps else ps)
  end.

Definition spec_index (v : value) (i : Z) : value :=
  match v with
  | VArr a =>
    let n := Z.of_nat (length a) in
    let j := if i <? 0 then i + n else i in
    if (0 <=? j) && (j <? n) then nth (Z.to_nat j) a VNull else VNull
  | _ => VNull
  end.

Definition spec_field (name : bytes) (v : value) : value :=
  match v with
  | VObj m => match assoc name m with Some x => x | None => VNull end
  | _ => VNull
  end.

Definition merge_level (a : list value) : list value :=
  flat_map (fun x => match x with VArr va => va | _ => [x] end) a.

Definition arith_eval (op : arop) (x y : value) : outcome value :=
  match op with
  | AAdd => add x y | ASub => subtract x y | AMul => multiply x y
  | ADiv => divide x y | AIDiv => integer_divide x y | AMod => modulo x y
  end.

(* delegation of built-in function calls to their model (specified under C02) *)
Inductive argv := AV (v : value) | AF (f : value -> outcome value).
Definition spec_call (name : bytes) (args : list argv) : outcome value :=
  match assoc name function_table with
  | None => Err (EUnknownFunction name)
  | Some (_, fb) =>
    match fb, args with
    | B1 f, [AV a] => call1 f a
    | B2 f, [AV a; AV b] => call2 f a b
    | BBy f, [AV a; AF e] =>
      match f with
      | FGroupBy => group_by e a | FMaxBy => array_extreme_by e true a
      | FMinBy => array_extreme_by e false a | FSortBy => sort_array_by e a end
    | BMap, [AF e; AV a] => map_array e a
    | B1or2 f _, [AV a] => call1 f a
    | B1or2 _ g, [AV a; AV b] => call2 g a b
    | B2or3 f _, [AV a; AV b] => call2 f a b
    | B2or3 _ g, [AV a; AV b; AV c] => call3 g a b c
    | B2to4 f _ _, [AV a; AV b] => call2 f a b
    | B2to4 _ g _, [AV a; AV b; AV c] => call3 g a b c
    | B2to4 _ _ h, [AV a; AV b; AV c; AV d] => call4 h a b c d
    | B3or4 f _, [AV a; AV b; AV c] => call3 f a b c
    | B3or4 _ g, [AV a; AV b; AV c; AV d] => call4 g a b c d
    | BVar FNotNull, l =>
      (fix go (l : list argv) : outcome value :=
         match l with
         | [] => Ok VNull
         | AV x :: r => if not_null x then Ok x else go r
         | _ => Err EInvalidType
         end) l
    | BVar FMerge, l =>
      (fix go (l : list argv) (acc : list (bytes * value)) : outcome value :=
         match l with
         | [] => Ok (VObj acc)
         | AV (VObj m) :: r => go r (fold_left (fun acc kv => assoc_set (fst kv) (snd kv) acc) m acc)
         | _ => Err EInvalidType
         end) l []
    | BVar FZip, l =>
      do cols <- (fix go (l : list argv) : outcome (list (list value)) :=
                    match l with
                    | [] => Ok []
                    | AV (VArr c) :: r => do cs <- go r; Ok (c :: cs)
                    | _ => Err EInvalidType
                    end) l;
      let count := fold_left (fun m c => Z.min m (Z.of_nat (length c))) cols 9223372036854775807 in
      Ok (VArr (zip_rows (Z.to_nat count) 0 cols))
    | _, _ => Err (EInvalidFunctionCall name)
    end
  end.

Section RefEval.
  Variable root : value.

  Fixpoint ref_eval (e : rexpr) (cur : value) (vars : env) {struct e} : outcome value :=
    match e with
    | RCurrent => Ok cur
    | RRoot => Ok root
    | RField name => Ok (spec_field name cur)
    | RLiteral v => Ok v
    | RRaw s => Ok (VStr s)
    | RVar name => match env_get name vars with Some v => Ok v | None => Err (EUndefinedVariable name) end
    | RSub l r =>
      do v <- ref_eval l cur vars;
      match r with
      | RMultiList _ | RMultiHash _ => if not_null v then ref_eval r v vars else Ok VNull
      | _ => ref_eval r v vars
      end
    | RIndex l i => do v <- ref_eval l cur vars; Ok (spec_index v i)
    | RProj k l r =>
      do v <- ref_eval l cur vars;
      let rhs := fun x => ref_eval r x vars in
      match k with
      | PList => match v with VArr a => do ps <- proj_list rhs a; Ok (VArr ps) | _ => Ok VNull end
      | PSlice start stop step =>
        match step with
        | Some 0 => Err EInvalidSliceStep
        | _ =>
          let st := match step with Some s => s | None => 1 end in
          match v with
          | VArr a => do ps <- proj_list rhs (spec_slice a VNull start stop st); Ok (VArr ps)
          | VStr s => rhs (VStr (List.concat (spec_slice (chunks s) [] start stop st)))
          | _ => Ok VNull
          end
        end
      | PFlatten => match v with VArr a => do ps <- proj_list rhs (merge_level a); Ok (VArr ps) | _ => Ok VNull end
      | PFilter cond =>
        match v with
        | VArr a =>
          do ps <- proj_list (fun x => do c <- ref_eval cond x vars; if spec_truthy c then rhs x else Ok VNull) a;
          Ok (VArr ps)
        | _ => Ok VNull
        end
      | PValues => match v with VObj m => do ps <- proj_list rhs (map snd m); Ok (VArr ps) | _ => Ok VNull end
      end
    | RMultiList es =>
      (* on a null current node the corpus pins the one-element form to [null]; longer forms give null *)
      match cur, es with
      | VNull, _ :: _ :: _ => Ok VNull
      | _, _ =>
        do vs <- (fix go (l : list rexpr) : outcome (list value) :=
                    match l with
                    | [] => Ok []
                    | x :: r => do v <- ref_eval x cur vars; do vs <- go r; Ok (v :: vs)
                    end) es;
        Ok (VArr vs)
      end
    | RMultiHash kes =>
      match cur, kes with
      | VNull, _ :: _ :: _ => Ok VNull
      | _, _ =>
        do kvs <- (fix go (l : list (bytes * rexpr)) : outcome (list (bytes * value)) :=
                     match l with
                     | [] => Ok []
                     | (k, x) :: r => do v <- ref_eval x cur vars; do kvs <- go r; Ok ((k, v) :: kvs)
                     end) kes;
        Ok (VObj kvs)
      end
    | RPipe l r => do v <- ref_eval l cur vars; ref_eval r v vars
    | ROr l r => do v <- ref_eval l cur vars; if spec_truthy v then Ok v else ref_eval r cur vars
    | RAnd l r => do v <- ref_eval l cur vars; if spec_truthy v then ref_eval r cur vars else Ok v
    | RNot x => do v <- ref_eval x cur vars; Ok (VBool (negb (spec_truthy v)))
    | RCmp op l r =>
      do x <- ref_eval l cur vars; do y <- ref_eval r cur vars;
      match op with
      | CEq => Ok (VBool (spec_equal x y))
      | CNe => Ok (VBool (negb (spec_equal x y)))
      | _ => Ok (spec_order op x y)
      end
    | RArith op l r => do x <- ref_eval l cur vars; do y <- ref_eval r cur vars; arith_eval op x y
    | RNeg x => do v <- ref_eval x cur vars; Ok (negate v)
    | RPos x => do v <- ref_eval x cur vars; Ok (if is_number v then v else VNull)
    | RCall f args =>
      (* the variadic built-ins look at each argument as soon as it is evaluated:
         not_null stops at the first non-null one, merge and zip check its type *)
      if beqb f [110;111;116;95;110;117;108;108] then
        (fix go (l : list rarg) : outcome value :=
           match l with
           | [] => Ok VNull
           | AExpr x :: r => do v <- ref_eval x cur vars; if not_null v then Ok v else go r
           | ARef _ :: _ => Err EInvalidType
           end) args
      else if beqb f [109;101;114;103;101] then
        (fix go (l : list rarg) (acc : list (bytes * value)) : outcome value :=
           match l with
           | [] => Ok (VObj acc)
           | AExpr x :: r =>
             do v <- ref_eval x cur vars;
             match v with
             | VObj m => go r (fold_left (fun acc kv => assoc_set (fst kv) (snd kv) acc) m acc)
             | _ => Err EInvalidType
             end
           | ARef _ :: _ => Err EInvalidType
           end) args []
      else if beqb f [122;105;112] then
        do cols <- (fix go (l : list rarg) : outcome (list (list value)) :=
                      match l with
                      | [] => Ok []
                      | AExpr x :: r =>
                        do v <- ref_eval x cur vars;
                        match v with
                        | VArr c => do cs <- go r; Ok (c :: cs)
                        | _ => Err EInvalidType
                        end
                      | ARef _ :: _ => Err EInvalidType
                      end) args;
        let count := fold_left (fun m c => Z.min m (Z.of_nat (length c))) cols 9223372036854775807 in
        Ok (VArr (zip_rows (Z.to_nat count) 0 cols))
      else
      do avs <- (fix go (l : list rarg) : outcome (list argv) :=
                   match l with
                   | [] => Ok []
                   | AExpr x :: r => do v <- ref_eval x cur vars; do vs <- go r; Ok (AV v :: vs)
                   | ARef x :: r => do vs <- go r; Ok (AF (fun y => ref_eval x y vars) :: vs)
                   end) args;
      spec_call f avs
    | RLet bs body =>
      do frame <- (fix go (l : list (bytes * rexpr)) : outcome (list (bytes * value)) :=
                     match l with
                     | [] => Ok []
                     | (name, x) :: r => do v <- ref_eval x cur vars; do fr <- go r;
                       (* a later binding of the same name wins *)
                       Ok (match assoc name fr with Some _ => fr | None => (name, v) :: fr end)
                     end) bs;
      ref_eval body cur (frame :: vars)
    end.
End RefEval.

Definition ref_search (e : rexpr) (doc : value) : outcome value := ref_eval doc e doc [].
