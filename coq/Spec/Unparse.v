(* Canonical concrete syntax of a reference expression: the minimal
   parentheses the grammar allows.  The harness's Go unparser must produce
   byte-identical text (checked per case), and the parse/unparse theorems are
   stated about this function. *)
From Coq Require Import List ZArith Bool.
From JM Require Import Base.Outcome Base.Bytes Base.Utf8 Num.Dec Json.Value Json.JsonPrint Spec.RefAst.
Import ListNotations.
Open Scope Z_scope.

(* binding levels, loosest to tightest *)
Definition L_LET : Z := 0.
Definition L_PIPE : Z := 1.
Definition L_OR : Z := 2.
Definition L_AND : Z := 3.
Definition L_CMP : Z := 5.
Definition L_ADD : Z := 6.
Definition L_MUL : Z := 7.   (* also unary sign: its operand is parsed with the multiplicative power *)
Definition L_PROJ : Z := 8.  (* a projection: a following selector would extend its right-hand side *)
Definition L_POST : Z := 9.  (* primaries and selector chains *)

Definition level (e : rexpr) : Z :=
  match e with
  | RLet _ _ => L_LET
  | RPipe _ _ => L_PIPE | ROr _ _ => L_OR | RAnd _ _ => L_AND
  | RCmp _ _ _ => L_CMP
  | RArith op _ _ => match op with AAdd | ASub => L_ADD | _ => L_MUL end
  | RNeg _ | RPos _ => L_MUL
  | RProj _ _ _ => L_PROJ
  | _ => L_POST
  end.

Definition is_ident_start (b : Z) : bool := ((65 <=? b) && (b <=? 90)) || ((97 <=? b) && (b <=? 122)) || (b =? 95).
Definition is_ident_char (b : Z) : bool := is_ident_start b || ((48 <=? b) && (b <=? 57)).
Definition plain_ident (s : bytes) : bool :=
  match s with
  | b :: r => is_ident_start b && forallb is_ident_char r
              && negb (beqb s [108; 101; 116]) && negb (beqb s [105; 110])
  | [] => false
  end.

(* quoted identifier: JSON string escaping without the HTML escapes *)
Fixpoint qescape (s : bytes) : bytes :=
  match s with
  | [] => []
  | b :: r =>
    (if b =? 34 then [92; 34] else if b =? 92 then [92; 92]
     else if b =? 10 then [92; 110] else if b =? 13 then [92; 114] else if b =? 9 then [92; 116]
     else if b =? 8 then [92; 98] else if b =? 12 then [92; 102]
     else if b <? 32 then u00 b else [b]) ++ qescape r
  end.
Definition show_ident (s : bytes) : bytes := if plain_ident s then s else 34 :: qescape s ++ [34].

(* raw string: backslash and quote escaped *)
Fixpoint rescape (s : bytes) : bytes :=
  match s with
  | [] => []
  | b :: r => (if b =? 39 then [92; 39] else if b =? 92 then [92; 92] else [b]) ++ rescape r
  end.

(* JSON text for literals: no HTML escaping, numbers verbatim, members in list order *)
Fixpoint lit_text (v : value) : bytes :=
  match v with
  | VNull => [110; 117; 108; 108]
  | VBool true => [116; 114; 117; 101]
  | VBool false => [102; 97; 108; 115; 101]
  | VStr s => 34 :: qescape s ++ [34]
  | VNum (NJson t) => t
  | VNum _ => [48]
  | VArr l => 91 :: intercalate [44] (map lit_text l) ++ [93]
  | VObj m => 123 :: intercalate [44] (map (fun kv => (34 :: qescape (fst kv) ++ [34]) ++ 58 :: lit_text (snd kv)) m) ++ [125]
  | VForeign _ => [110; 117; 108; 108]
  end.
Fixpoint btick_escape (s : bytes) : bytes :=
  match s with
  | [] => []
  | 96 :: r => 92 :: 96 :: btick_escape r
  | b :: r => b :: btick_escape r
  end.

Definition cmp_text (op : cmpop) : bytes :=
  match op with
  | CEq => [61; 61] | CNe => [33; 61] | CLt => [60] | CLe => [60; 61] | CGt => [62] | CGe => [62; 61]
  end.
Definition ar_text (op : arop) : bytes :=
  match op with
  | AAdd => [43] | ASub => [45] | AMul => [42] | ADiv => [47] | AIDiv => [47; 47] | AMod => [37]
  end.

Definition opt_int (x : option Z) : bytes := match x with Some z => Z_to_bytes z | None => [] end.
Definition slice_text (start stop step : option Z) : bytes :=
  91 :: opt_int start ++ 58 :: opt_int stop ++
  (match step with Some s => 58 :: Z_to_bytes s | None => [] end) ++ [93].

Definition is_atom (e : rexpr) : bool :=
  match e with
  | RCurrent | RRoot | RField _ | RLiteral _ | RRaw _ | RVar _ | RCall _ _ | RMultiList _ | RMultiHash _ => true
  | _ => false
  end.

Definition paren (b : bytes) : bytes := 40 :: b ++ [41].
Definition sp (b : bytes) : bytes := 32 :: b ++ [32].

Fixpoint show (p : Z) (e : rexpr) {struct e} : bytes :=
  let body :=
    match e with
    | RCurrent => [64]
    | RRoot => [36]
    | RField name => show_ident name
    | RLiteral v => 96 :: btick_escape (lit_text v) ++ [96]
    | RRaw s => 39 :: rescape s ++ [39]
    | RVar name => name
    | RSub l r => show L_POST l ++ 46 :: show L_POST r
    | RIndex l i => show L_POST l ++ 91 :: Z_to_bytes i ++ [93]
    | RProj k l r =>
      let left := match l with RCurrent => [] | _ => show (match k with PFlatten => L_PROJ | _ => L_POST end) l end in
      let tok := match k with
                 | PList => [91; 42; 93]
                 | PSlice a b c => slice_text a b c
                 | PFlatten => [91; 93]
                 | PFilter cond => 91 :: 63 :: show L_PIPE cond ++ [93]
                 | PValues => match l with RCurrent => [42] | _ => [46; 42] end
                 end in
      left ++ tok ++ show_rhs r
    | RMultiList es =>
      let parts := (fix go (l : list rexpr) : list bytes :=
                      match l with [] => [] | x :: r => show L_PIPE x :: go r end) es in
      let inner := intercalate [44; 32] parts in
      91 :: (match inner with 42 :: _ => 32 :: inner | _ => inner end) ++ [93]
    | RMultiHash kes =>
      let parts := (fix go (l : list (bytes * rexpr)) : list bytes :=
                      match l with [] => [] | (k, x) :: r => (show_ident k ++ 58 :: 32 :: show L_PIPE x) :: go r end) kes in
      123 :: intercalate [44; 32] parts ++ [125]
    | RPipe l r => show L_PIPE l ++ sp [124] ++ show L_OR r
    | ROr l r => show L_OR l ++ sp [124; 124] ++ show L_AND r
    | RAnd l r => show L_AND l ++ sp [38; 38] ++ show L_CMP r
    | RNot x => 33 :: (if is_atom x then show L_POST x else paren (show L_LET x))
    | RCmp op l r => show L_CMP l ++ sp (cmp_text op) ++ show L_ADD r
    | RArith op l r =>
      let lv := match op with AAdd | ASub => L_ADD | _ => L_MUL end in
      show lv l ++ sp (ar_text op) ++ show (lv + 1) r
    | RNeg x => 45 :: 32 :: show L_PROJ x
    | RPos x => 43 :: 32 :: show L_PROJ x
    | RCall f args =>
      let parts := (fix go (l : list rarg) : list bytes :=
                      match l with
                      | [] => []
                      | AExpr x :: r => show L_PIPE x :: go r
                      | ARef x :: r => (38 :: show L_PIPE x) :: go r
                      end) args in
      f ++ 40 :: intercalate [44; 32] parts ++ [41]
    | RLet bs body =>
      let parts := (fix go (l : list (bytes * rexpr)) : list bytes :=
                      match l with [] => [] | (n, x) :: r => (n ++ sp [61] ++ show L_PIPE x) :: go r end) bs in
      [108; 101; 116; 32] ++ intercalate [44; 32] parts ++ [32; 105; 110; 32] ++ show L_PIPE body
    end in
  if level e <? p then paren body else body
(* the right-hand side of a projection: a selector chain hanging off the
   current node, written without the leading @ *)
with show_rhs (r : rexpr) {struct r} : bytes :=
  match r with
  | RCurrent => []
  | RSub l x => show_rhs l ++ 46 :: show L_POST x
  | RIndex l i => show_rhs l ++ 91 :: Z_to_bytes i ++ [93]
  | RProj k l x =>
    let tok := match k with
               | PList => [91; 42; 93]
               | PSlice a b c => slice_text a b c
               | PFlatten => [91; 93]
               | PFilter cond => 91 :: 63 :: show L_PIPE cond ++ [93]
               | PValues => [46; 42]
               end in
    show_rhs l ++ tok ++ show_rhs x
  | _ => 46 :: [63]  (* not a chain off the current node: unrenderable, yields a syntax error on purpose *)
  end.

Definition unparse (e : rexpr) : bytes := show L_LET e.
