(* The slice algorithm of the JMESPath specification (the same index walk as
   Python's slicing), written independently of the implementation. *)
From Coq Require Import List ZArith Bool.
Import ListNotations.
Open Scope Z_scope.

(* adjusted start and stop for a sequence of length n; step <> 0 *)
Definition spec_bounds (n : Z) (start stop : option Z) (step : Z) : Z * Z :=
  let lower := if step <? 0 then -1 else 0 in
  let upper := if step <? 0 then n - 1 else n in
  let adj (x : Z) := if x <? 0 then Z.max (x + n) lower else Z.min x upper in
  let s := match start with None => if step <? 0 then upper else lower | Some x => adj x end in
  let e := match stop with None => if step <? 0 then lower else upper | Some x => adj x end in
  (s, e).

(* visit i, i+step, ... while before stop; at most fuel visits *)
Fixpoint walk (fuel : nat) (i stop step : Z) : list Z :=
  match fuel with
  | O => []
  | S f => if (if step >? 0 then i <? stop else i >? stop) then i :: walk f (i + step) stop step else []
  end.

Definition spec_slice_indices (n : Z) (start stop : option Z) (step : Z) : list Z :=
  let '(s, e) := spec_bounds n start stop step in walk (Z.to_nat n) s e step.

Definition spec_slice {A} (l : list A) (d : A) (start stop : option Z) (step : Z) : list A :=
  map (fun i => nth (Z.to_nat i) l d) (spec_slice_indices (Z.of_nat (length l)) start stop step).
