(* The meaning of every implementation node, fused or not, as a reference
   expression.  C01 (evaluator side) and C17 are stated through it. *)
From Coq Require Import List ZArith Bool.
From JM Require Import Base.Outcome Base.Bytes Base.GoInt Json.Value Model.Ast Model.Parser Spec.RefAst.
Import ListNotations.
Open Scope Z_scope.

(* names of the built-ins, as looked up by spec_call *)
Definition fn1_bytes (f : fn1) : bytes :=
  match f with
  | FAbs => [97;98;115] | FAvg => [97;118;103] | FCeil => [99;101;105;108] | FFloor => [102;108;111;111;114]
  | FFromItems => [102;114;111;109;95;105;116;101;109;115] | FItems => [105;116;101;109;115]
  | FKeys => [107;101;121;115] | FLength => [108;101;110;103;116;104] | FLower => [108;111;119;101;114]
  | FMax => [109;97;120] | FMin => [109;105;110] | FReverse => [114;101;118;101;114;115;101]
  | FSort => [115;111;114;116] | FSum => [115;117;109] | FToArray => [116;111;95;97;114;114;97;121]
  | FToNumber => [116;111;95;110;117;109;98;101;114] | FToString => [116;111;95;115;116;114;105;110;103]
  | FTrimSpace => [116;114;105;109] | FTrimSpaceLeft => [116;114;105;109;95;108;101;102;116]
  | FTrimSpaceRight => [116;114;105;109;95;114;105;103;104;116] | FType => [116;121;112;101]
  | FUpper => [117;112;112;101;114] | FValues => [118;97;108;117;101;115]
  end.
Definition fn2_bytes (f : fn2) : bytes :=
  match f with
  | FContains => [99;111;110;116;97;105;110;115] | FEndsWith => [101;110;100;115;95;119;105;116;104]
  | FFindFirst => [102;105;110;100;95;102;105;114;115;116] | FFindLast => [102;105;110;100;95;108;97;115;116]
  | FJoin => [106;111;105;110] | FPadSpaceLeft => [112;97;100;95;108;101;102;116]
  | FPadSpaceRight => [112;97;100;95;114;105;103;104;116] | FSplit => [115;112;108;105;116]
  | FStartsWith => [115;116;97;114;116;115;95;119;105;116;104] | FTrim => [116;114;105;109]
  | FTrimLeft => [116;114;105;109;95;108;101;102;116] | FTrimRight => [116;114;105;109;95;114;105;103;104;116]
  end.
Definition fn3_bytes (f : fn3) : bytes :=
  match f with
  | FFindFirstFrom => [102;105;110;100;95;102;105;114;115;116] | FFindLastFrom => [102;105;110;100;95;108;97;115;116]
  | FPadLeft => [112;97;100;95;108;101;102;116] | FPadRight => [112;97;100;95;114;105;103;104;116]
  | FReplace => [114;101;112;108;97;99;101] | FSplitCount => [115;112;108;105;116]
  end.
Definition fn4_bytes (f : fn4) : bytes :=
  match f with
  | FFindFirstBetween => [102;105;110;100;95;102;105;114;115;116] | FFindLastBetween => [102;105;110;100;95;108;97;115;116]
  | FReplaceCount => [114;101;112;108;97;99;101]
  end.
Definition fnby_bytes (f : fnby) : bytes :=
  match f with
  | FGroupBy => [103;114;111;117;112;95;98;121] | FMaxBy => [109;97;120;95;98;121]
  | FMinBy => [109;105;110;95;98;121] | FSortBy => [115;111;114;116;95;98;121]
  end.
Definition fnvar_bytes (f : fnvar) : bytes :=
  match f with
  | FMerge => [109;101;114;103;101] | FNotNull => [110;111;116;95;110;117;108;108] | FZip => [122;105;112]
  end.

(* a slice bound as the parser stored it; an explicit value equal to a sentinel
   means the same as an absent part, so decoding to "present" loses nothing *)
Definition sl (z : Z) : option Z := Some z.

Fixpoint unfuse (n : node) : rexpr :=
  match n with
  | NCall1 f a => RCall (fn1_bytes f) [AExpr (unfuse a)]
  | NCall2 f a b => RCall (fn2_bytes f) [AExpr (unfuse a); AExpr (unfuse b)]
  | NCall3 f a b c => RCall (fn3_bytes f) [AExpr (unfuse a); AExpr (unfuse b); AExpr (unfuse c)]
  | NCall4 f a b c d => RCall (fn4_bytes f) [AExpr (unfuse a); AExpr (unfuse b); AExpr (unfuse c); AExpr (unfuse d)]
  | NCallBy f a e => RCall (fnby_bytes f) [AExpr (unfuse a); ARef (unfuse e)]
  | NMap e a => RCall [109;97;112] [ARef (unfuse e); AExpr (unfuse a)]
  | NCallVar f args => RCall (fnvar_bytes f) (map (fun x => AExpr (unfuse x)) args)
  | NBin op l r =>
    match op with
    | OAdd => RArith AAdd (unfuse l) (unfuse r) | OSub => RArith ASub (unfuse l) (unfuse r)
    | OMul => RArith AMul (unfuse l) (unfuse r) | ODiv => RArith ADiv (unfuse l) (unfuse r)
    | OIDiv => RArith AIDiv (unfuse l) (unfuse r) | OMod => RArith AMod (unfuse l) (unfuse r)
    | OEq => RCmp CEq (unfuse l) (unfuse r) | ONe => RCmp CNe (unfuse l) (unfuse r)
    | OLt => RCmp CLt (unfuse l) (unfuse r) | OLe => RCmp CLe (unfuse l) (unfuse r)
    | OGt => RCmp CGt (unfuse l) (unfuse r) | OGe => RCmp CGe (unfuse l) (unfuse r)
    end
  | NAnd l r => RAnd (unfuse l) (unfuse r)
  | NOr l r => ROr (unfuse l) (unfuse r)
  | NNot c => RNot (unfuse c)
  | NNegate c => RNeg (unfuse c)
  | NAssertNumber c => RPos (unfuse c)
  | NLitArr l => RLiteral (VArr l)
  | NLitObj m => RLiteral (VObj m)
  | NBool b => RLiteral (VBool b)
  | NNull => RLiteral VNull
  | NNumber t => RLiteral (VNum (NJson t))
  | NString s => RRaw s
  | NCurrent => RCurrent
  | NRoot => RRoot
  | NField name => RField name
  | NVariable name => RVar name
  | NDefine vars child => RLet (map (fun kv => (fst kv, unfuse (snd kv))) vars) (unfuse child)
  | NFilter c f => RProj (PFilter (unfuse f)) (unfuse c) RCurrent
  | NFilterCurrent f => RProj (PFilter (unfuse f)) RCurrent RCurrent
  | NFilterAndProject l f r => RProj (PFilter (unfuse f)) (unfuse l) (unfuse r)
  | NFilterAndProjectCurrent f c => RProj (PFilter (unfuse f)) RCurrent (unfuse c)
  | NFlatten c => RProj PFlatten (unfuse c) RCurrent
  | NFlattenCurrent => RProj PFlatten RCurrent RCurrent
  | NFlattenAndProject l r => RProj PFlatten (unfuse l) (unfuse r)
  | NFlattenAndProjectCurrent c => RProj PFlatten RCurrent (unfuse c)
  | NIndex c i => RIndex (unfuse c) i
  | NIndexCurrent i => RIndex RCurrent i
  | NSmallIndexCurrent i => RIndex RCurrent i
  | NObjectValues c => RProj PValues (unfuse c) RCurrent
  | NObjectValuesCurrent => RProj PValues RCurrent RCurrent
  | NPipe l r => RPipe (unfuse l) (unfuse r)
  | NProjectArray l r =>
    match l with
    | NSlice c a b => RProj (PSlice (sl a) (sl b) None) (unfuse c) (unfuse r)
    | NSliceCurrent a b => RProj (PSlice (sl a) (sl b) None) RCurrent (unfuse r)
    | NSliceStep c a b s => RProj (PSlice (sl a) (sl b) (Some s)) (unfuse c) (unfuse r)
    | NSliceStepCurrent a b s => RProj (PSlice (sl a) (sl b) (Some s)) RCurrent (unfuse r)
    | _ => RProj PList (unfuse l) (unfuse r)
    end
  | NProjectArrayCurrent c => RProj PList RCurrent (unfuse c)
  | NProjectObject l r => RProj PValues (unfuse l) (unfuse r)
  | NProjectObjectCurrent c => RProj PValues RCurrent (unfuse c)
  | NPruneArray c => RProj PList (unfuse c) RCurrent
  | NPruneArrayCurrent => RProj PList RCurrent RCurrent
  | NSelectArray c fields => RSub (unfuse c) (RMultiList (map unfuse fields))
  | NSelectArrayCurrent fields => RMultiList (map unfuse fields)
  | NSelectArraySingle c f => RSub (unfuse c) (RMultiList [unfuse f])
  | NSelectArraySingleCurrent f => RMultiList [unfuse f]
  | NSelectObject c fields => RSub (unfuse c) (RMultiHash (map (fun kv => (fst kv, unfuse (snd kv))) fields))
  | NSelectObjectCurrent fields => RMultiHash (map (fun kv => (fst kv, unfuse (snd kv))) fields)
  | NSelectObjectSingle c k f => RSub (unfuse c) (RMultiHash [(k, unfuse f)])
  | NSelectObjectSingleCurrent k f => RMultiHash [(k, unfuse f)]
  (* a slice node outside a projection does not come out of the parser (wf_node) *)
  | NSlice c a b => RProj (PSlice (sl a) (sl b) None) (unfuse c) RCurrent
  | NSliceCurrent a b => RProj (PSlice (sl a) (sl b) None) RCurrent RCurrent
  | NSliceStep c a b s => RProj (PSlice (sl a) (sl b) (Some s)) (unfuse c) RCurrent
  | NSliceStepCurrent a b s => RProj (PSlice (sl a) (sl b) (Some s)) RCurrent RCurrent
  end.

(* shape invariants of parser output that the meaning above relies on *)
Fixpoint wf_node (n : node) : bool :=
  match n with
  | NCall1 _ a => wf_node a
  | NCall2 _ a b => wf_node a && wf_node b
  | NCall3 _ a b c => wf_node a && wf_node b && wf_node c
  | NCall4 _ a b c d => wf_node a && wf_node b && wf_node c && wf_node d
  | NCallBy _ a e => wf_node a && wf_node e
  | NMap e a => wf_node e && wf_node a
  | NCallVar _ args => forallb wf_node args && negb (match args with [] => true | _ => false end)
  | NBin _ l r | NAnd l r | NOr l r | NPipe l r => wf_node l && wf_node r
  | NNot c | NNegate c | NAssertNumber c => wf_node c
  | NDefine vars child =>
    forallb (fun kv => wf_node (snd kv)) vars && nodup_keys vars && wf_node child
  | NFilter c f => wf_node c && wf_node f
  | NFilterCurrent f => wf_node f
  | NFilterAndProject l f r => wf_node l && wf_node f && wf_node r
  | NFilterAndProjectCurrent f c => wf_node f && wf_node c
  | NFlatten c | NObjectValues c | NPruneArray c | NIndex c _ => wf_node c
  | NFlattenAndProject l r | NProjectObject l r => wf_node l && wf_node r
  | NFlattenAndProjectCurrent c | NProjectArrayCurrent c | NProjectObjectCurrent c => wf_node c
  | NProjectArray l r =>
    match l with
    | NSlice c a b => wf_node c && in_int a && in_int b
    | NSliceStep c a b s => wf_node c && in_int a && in_int b && in_int s && negb (s =? 0)
    | NSliceCurrent a b => in_int a && in_int b
    | NSliceStepCurrent a b s => in_int a && in_int b && in_int s && negb (s =? 0)
    | _ => wf_node l
    end && wf_node r
  | NSelectArray c fields => wf_node c && forallb wf_node fields && (2 <=? Z.of_nat (length fields))
  | NSelectArrayCurrent fields => forallb wf_node fields && (2 <=? Z.of_nat (length fields))
  | NSelectArraySingle c f => wf_node c && wf_node f
  | NSelectArraySingleCurrent f => wf_node f
  | NSelectObject c fields =>
    wf_node c && forallb (fun kv => wf_node (snd kv)) fields && nodup_keys fields && (2 <=? Z.of_nat (length fields))
  | NSelectObjectCurrent fields =>
    forallb (fun kv => wf_node (snd kv)) fields && nodup_keys fields && (2 <=? Z.of_nat (length fields))
  | NSelectObjectSingle c _ f => wf_node c && wf_node f
  | NSelectObjectSingleCurrent _ f => wf_node f
  | NSlice _ _ _ | NSliceCurrent _ _ | NSliceStep _ _ _ _ | NSliceStepCurrent _ _ _ => false
  | _ => true
  end.
