(* Reference abstract syntax: the unfused syntax of the JMESPath specification.
   A projection carries its right-hand side explicitly, so where it starts and
   stops is part of the tree, not of a parser. *)
From Coq Require Import List ZArith Bool.
From JM Require Import Base.Outcome Base.Bytes Json.Value.
Import ListNotations.
Open Scope Z_scope.

Inductive cmpop := CEq | CNe | CLt | CLe | CGt | CGe.
Inductive arop := AAdd | ASub | AMul | ADiv | AIDiv | AMod.

Inductive rexpr :=
| RCurrent | RRoot
| RField (name : bytes)
| RLiteral (v : value)                 (* `json` *)
| RRaw (s : bytes)                     (* 'raw string' *)
| RVar (name : bytes)                  (* $name (the name includes the $) *)
| RSub (l r : rexpr)                   (* l.r   with r an identifier, multi-select or function call *)
| RIndex (l : rexpr) (i : Z)           (* l[i] *)
| RProj (k : projkind) (l r : rexpr)   (* a projection of kind k over l with right-hand side r (RCurrent = none) *)
| RMultiList (es : list rexpr)
| RMultiHash (kes : list (bytes * rexpr))
| RPipe (l r : rexpr) | ROr (l r : rexpr) | RAnd (l r : rexpr) | RNot (e : rexpr)
| RCmp (op : cmpop) (l r : rexpr)
| RArith (op : arop) (l r : rexpr) | RNeg (e : rexpr) | RPos (e : rexpr)
| RCall (f : bytes) (args : list rarg)
| RLet (bs : list (bytes * rexpr)) (body : rexpr)
with rarg := AExpr (e : rexpr) | ARef (e : rexpr)
with projkind :=
| PList                                        (* l[*] *)
| PSlice (start stop step : option Z)          (* l[start:stop:step] *)
| PFlatten                                     (* l[] *)
| PFilter (cond : rexpr)                       (* l[?cond] *)
| PValues.                                     (* l.*  *)
