(* C02: every built-in function meets an independent declarative specification.

   The reference evaluator (Spec/RefEval.v, [spec_call]) delegates built-in
   calls to the model functions of Model/*.v.  This file states, independently
   of those model functions, WHAT each built-in has to do according to the
   JMESPath Community specification -- its signature (argument types, accepted
   arities, expression-reference positions), its error conditions, its result,
   the defaults of its optional arguments -- and proves that [spec_call] does
   exactly that, for all argument values.  Where the model (= the Go code) does
   something else, the precise statement that holds is proved and a
   [..._refuted] Example exhibits concrete arguments.

   PART 0  names, JSON types, argument types, the signature table
   PART 1  (A3) arity / unknown function                      [C02_arity], [C02_unknown]
   PART 2  (A1) invalid-type errors exactly when ill-typed and
           (A2) invalid-value errors exactly when out of range, together:
           the fault category of every call                    [C02_faults], [C02_type_error],
           [C02_value_error], [fault_from_items], [C02_variadic_faults], [C02_expref_faults], [C02_map]
   PART 3  (B)  results
   PART 4  (C)  defaults of optional arguments
   PART 5  summary, Print Assumptions

   Already proved elsewhere and not restated here:
     Proofs/StringCodePoints.v  length_code_points reverse_code_points find_first_code_points
        find_last_code_points find_from_code_points find_between_code_points pad_code_points_gen
        pad_default_code_points split_code_points split_count_code_points split_empty_code_points
        replace_code_points replace_count_code_points join_code_points trim_code_points
        starts_with_code_points ends_with_code_points
     Proofs/SortFns.v           sort_strings sort_numbers sort_decimals max_numbers min_numbers
        max_strings min_strings (and the ..._by versions), sort stability
     Proofs/ExactArithmetic.v   abs_value floor_value ceil_value sum_exact avg_exact
        to_number_string to_number_number
     Proofs/EqualTheory.v       contains_uses_equal, equal is an equivalence
     Proofs/NoPanic.v           np_call1 .. np_call4 *)
From Coq Require Import String Ascii.
From Coq Require Import List ZArith Bool Lia Permutation.
From JM Require Import Base.Outcome Base.Bytes Base.GoInt Base.Utf8 Num.Dec Num.Flt
  Json.Value Json.JsonText Json.JsonPrint
  Model.Ast Model.Parser Model.Compare Model.NumberFns Model.Slice Model.StringFns
  Model.Array Model.Functions Model.Eval Model.Api
  Spec.RefAst Spec.RefEval.
From JM Require Import Proofs.Utf8Theory Proofs.KindIndependence Proofs.OrderIndependence.
From JM Require Proofs.Closure.
Import ListNotations.
Open Scope Z_scope.

(* ================================================================== *)
(* PART 0.  Names, JSON types, argument types, the signature table      *)
(* ================================================================== *)

(* function names are written as text; [bs] turns text into bytes *)
Definition nm (s : string) : bytes := bs s.
Arguments nm s%string.
(* JSON numbers and strings written as text, for the examples *)
Definition jn (s : string) : value := VNum (NJson (bs s)).
Definition js (s : string) : value := VStr (bs s).

(* ---- the six JSON types ---- *)
Inductive jtype := JNumber | JString | JBoolean | JArray | JObject | JNull.

Definition jtype_eqb (a b : jtype) : bool :=
  match a, b with
  | JNumber, JNumber | JString, JString | JBoolean, JBoolean
  | JArray, JArray | JObject, JObject | JNull, JNull => true
  | _, _ => false
  end.

(* the JSON type of a Go value; None for a Go value that is no JSON value *)
Definition jtype_of (v : value) : option jtype :=
  match v with
  | VNull => Some JNull
  | VBool _ => Some JBoolean
  | VStr _ => Some JString
  | VNum _ => Some JNumber
  | VArr _ => Some JArray
  | VObj _ => Some JObject
  | VForeign _ => None
  end.

Lemma json_value_has_type : forall v, json_value v = true -> jtype_of v <> None.
Proof. intros [] H; simpl in *; congruence. Qed.

(* ---- argument types of the specification ---- *)
Inductive keyty := KAny | KString | KNumberOrString.

Inductive argty :=
| TAny                          (* any *)
| TOf (ts : list jtype)         (* a value of one of these types, e.g. string, array|string *)
| TArrOf (ts : list jtype)      (* array[T]: an array whose elements all have one of these types *)
| TArrNumOrStr                  (* array[number] | array[string] *)
| TExpr (k : keyty).            (* expression reference &expr, with the type its results must have *)

Definition tnum := TOf [JNumber].
Definition tstr := TOf [JString].
Definition tarr := TOf [JArray].
Definition tobj := TOf [JObject].

(* a signature: the accepted argument lists (one per arity), or variadic *)
Inductive sigty :=
| SFixed (arities : list (list argty))
| SVariadic (t : argty).          (* one or more arguments, each of type t *)

Definition find_sig : list (list argty) :=
  [ [tstr; tstr]; [tstr; tstr; tnum]; [tstr; tstr; tnum; tnum] ].
Definition pad_sig : list (list argty) := [ [tstr; tnum]; [tstr; tnum; tstr] ].
Definition trim_sig : list (list argty) := [ [tstr]; [tstr; tstr] ].

Definition sig_table : list (bytes * sigty) :=
  [ (nm "abs",         SFixed [[tnum]]);
    (nm "avg",         SFixed [[TArrOf [JNumber]]]);
    (nm "ceil",        SFixed [[tnum]]);
    (nm "contains",    SFixed [[TOf [JArray; JString]; TAny]]);
    (nm "ends_with",   SFixed [[tstr; tstr]]);
    (nm "find_first",  SFixed find_sig);
    (nm "find_last",   SFixed find_sig);
    (nm "floor",       SFixed [[tnum]]);
    (nm "from_items",  SFixed [[TArrOf [JArray]]]);
    (nm "group_by",    SFixed [[tarr; TExpr KString]]);
    (nm "items",       SFixed [[tobj]]);
    (nm "join",        SFixed [[tstr; TArrOf [JString]]]);
    (nm "keys",        SFixed [[tobj]]);
    (nm "length",      SFixed [[TOf [JString; JArray; JObject]]]);
    (nm "lower",       SFixed [[tstr]]);
    (nm "map",         SFixed [[TExpr KAny; tarr]]);
    (nm "max",         SFixed [[TArrNumOrStr]]);
    (nm "max_by",      SFixed [[tarr; TExpr KNumberOrString]]);
    (nm "merge",       SVariadic tobj);
    (nm "min",         SFixed [[TArrNumOrStr]]);
    (nm "min_by",      SFixed [[tarr; TExpr KNumberOrString]]);
    (nm "not_null",    SVariadic TAny);
    (nm "pad_left",    SFixed pad_sig);
    (nm "pad_right",   SFixed pad_sig);
    (nm "replace",     SFixed [[tstr; tstr; tstr]; [tstr; tstr; tstr; tnum]]);
    (nm "reverse",     SFixed [[TOf [JArray; JString]]]);
    (nm "sort",        SFixed [[TArrNumOrStr]]);
    (nm "sort_by",     SFixed [[tarr; TExpr KNumberOrString]]);
    (nm "split",       SFixed [[tstr; tstr]; [tstr; tstr; tnum]]);
    (nm "starts_with", SFixed [[tstr; tstr]]);
    (nm "sum",         SFixed [[TArrOf [JNumber]]]);
    (nm "to_array",    SFixed [[TAny]]);
    (nm "to_number",   SFixed [[TAny]]);
    (nm "to_string",   SFixed [[TAny]]);
    (nm "trim",        SFixed trim_sig);
    (nm "trim_left",   SFixed trim_sig);
    (nm "trim_right",  SFixed trim_sig);
    (nm "type",        SFixed [[TAny]]);
    (nm "upper",       SFixed [[tstr]]);
    (nm "values",      SFixed [[tobj]]);
    (nm "zip",         SVariadic tarr) ].

Definition signature (f : bytes) : option sigty := assoc f sig_table.

Lemma assoc_some_in {A} k (m : list (bytes * A)) v : assoc k m = Some v -> In (k, v) m.
Proof.
  induction m as [|[k' v'] r IH]; [discriminate|]. cbn [assoc In]. destruct (beqb k k') eqn:B.
  - apply beqb_eq in B. intros H; inversion H; subst. left; reflexivity.
  - intros H. right. apply IH. exact H.
Qed.
Lemma assoc_none_keys {A} k (m : list (bytes * A)) : assoc k m = None <-> ~ In k (map fst m).
Proof.
  induction m as [|[k' v'] r IH]; [cbn; tauto|]. cbn [assoc map fst In]. destruct (beqb k k') eqn:B.
  - apply beqb_eq in B. subst. split; [discriminate|intros H; exfalso; apply H; left; reflexivity].
  - rewrite IH. split; [intros H [E|I]; [subst; rewrite beqb_refl in B; discriminate|tauto]|tauto].
Qed.

(* the table names exactly the built-ins of the implementation's function table, in the same order *)
Lemma signature_names : map fst sig_table = map fst function_table.
Proof. reflexivity. Qed.

Lemma signature_defined : forall f,
  signature f = None <-> assoc f function_table = None.
Proof.
  intros f. unfold signature.
  rewrite (assoc_none_keys f sig_table), (assoc_none_keys f function_table), signature_names.
  tauto.
Qed.

(* ================================================================== *)
(* PART 1.  (A3) arity errors and unknown functions                     *)
(* ================================================================== *)

(* ---- 1a. the errors built-ins can raise themselves ---- *)
(* evaluation-time errors of built-in functions: type, value, not-a-number,
   string conversion; never a parse-time error (arity, unknown function, syntax) *)
Definition builtin_err (e : err) : bool :=
  match e with
  | EInvalidType | EIntegerConversion | ENegativeInteger | EPadLength
  | EFromItemsLength | EFromItemsKeyType | EInfinity | ENotANumber | EStringConversion => true
  | _ => false
  end.
Definition be {A} (o : outcome A) : Prop :=
  match o with Err e => builtin_err e = true | _ => True end.

Lemma be_bind {A B} (o : outcome A) (f : A -> outcome B) :
  be o -> (forall a, be (f a)) -> be (bind o f).
Proof. destruct o; cbn; auto. Qed.

Ltac be_step :=
  match goal with
  | |- be (Ok _) => exact I
  | |- be (Err _) => reflexivity
  | |- be Unmodelled => exact I
  | |- be OutOfFuel => exact I
  | |- be (Panic _) => exact I
  | |- be (bind _ _) => apply be_bind; [|intros ?]
  | |- be (match ?x with _ => _ end) => destruct x eqn:?
  | |- be (let '(_, _) := ?x in _) => destruct x eqn:?
  end.
Ltac be_tac := repeat be_step; try exact I; try reflexivity; auto.

Lemma be_decimal_to_int d : be (decimal_to_int d).
Proof. unfold decimal_to_int, dec_int64. be_tac. Qed.
Lemma be_to_int v : be (to_int v).
Proof. unfold to_int. be_tac; apply be_decimal_to_int. Qed.
Lemma be_int_arg v : be (int_arg v).
Proof. unfold int_arg. apply be_bind; [apply be_to_int|]. intros [[i isnum] ok]. be_tac. Qed.
Lemma be_str_arg v : be (str_arg v). Proof. destruct v; exact I || reflexivity. Qed.
Lemma be_trap d : be (trap d). Proof. unfold trap; be_tac. Qed.
Lemma be_num1 fop dop v : be (num1 fop dop v). Proof. unfold num1; be_tac. Qed.
Lemma be_sum_loop l : forall total special finite, be (sum_loop l total special finite).
Proof.
  induction l as [|v l IH]; intros total special finite; cbn [sum_loop]; [exact I|].
  destruct (to_decimal v); [|reflexivity]. cbv zeta. destruct (finite && is_fin d); apply IH.
Qed.
Lemma be_sum v : be (sum v).
Proof.
  unfold sum. destruct v; try reflexivity.
  apply be_bind; [apply be_sum_loop|intros [[total special] finite]; apply be_trap].
Qed.
Lemma be_avg v : be (avg v).
Proof.
  unfold avg. destruct v as [| | | |l| |]; try reflexivity. destruct l; [exact I|].
  apply be_bind; [apply be_sum_loop|intros [[total special] finite]; apply be_trap].
Qed.
Lemma be_sort_array v : be (sort_array v). Proof. unfold sort_array. be_tac. Qed.
Lemma be_extreme_str gt l : forall best, be (extreme_str gt best l).
Proof. induction l as [|v l IH]; intros best; cbn [extreme_str]; [exact I|]. destruct v; try reflexivity. apply IH. Qed.
Lemma be_extreme_dec gt l : forall best, be (extreme_dec gt best l).
Proof. induction l as [|v l IH]; intros best; cbn [extreme_dec]; [exact I|]. destruct (to_decimal v); [apply IH|reflexivity]. Qed.
Lemma be_array_extreme gt v : be (array_extreme gt v).
Proof.
  unfold array_extreme. destruct v as [| | | |l| |]; try reflexivity. destruct l as [|x r]; [exact I|].
  destruct x; try (destruct (to_decimal _); [|reflexivity]);
    (apply be_bind; [first [apply be_extreme_str | apply be_extreme_dec]|intros; exact I]).
Qed.
Lemma be_jnum n : be (jnum n). Proof. unfold jnum; be_tac. Qed.
Lemma be_jprint : forall v, be (jprint v).
Proof.
  fix IH 1. intros v. destruct v as [|b|s|n|l|m|t]; cbn [jprint]; try exact I.
  - destruct b; exact I.
  - apply be_jnum.
  - apply be_bind; [|intros; exact I].
    induction l as [|x r IHr]; [exact I|].
    apply be_bind; [apply IH|intros]. apply be_bind; [apply IHr|intros; exact I].
  - apply be_bind; [|intros; exact I].
    induction m as [|[k x] r IHr]; [exact I|].
    apply be_bind; [apply IH|intros]. apply be_bind; [apply IHr|intros; exact I].
Qed.
Lemma be_to_string v : be (to_string v).
Proof. unfold to_string. destruct v; try exact I; (apply be_bind; [apply be_jprint|intros; exact I]). Qed.
Lemma be_from_items_loop l : forall acc, be (from_items_loop l acc).
Proof.
  induction l as [|v l IH]; intros acc; cbn [from_items_loop]; [exact I|].
  destruct v as [| | | |ia| |]; try reflexivity.
  destruct ia as [|k [|x [|y ia]]]; try reflexivity. destruct k; try reflexivity. apply IH.
Qed.
Lemma be_from_items v : be (from_items v).
Proof.
  unfold from_items. destruct v; try reflexivity. destruct (forallb is_arr l); [|reflexivity].
  apply be_bind; [apply be_from_items_loop|intros; exact I].
Qed.

Lemma be_call1 f a : be (call1 f a).
Proof.
  destruct f; cbn [call1]; try exact I;
    first [ apply be_num1 | apply be_avg | apply be_sum | apply be_from_items | apply be_to_string
          | apply be_sort_array | apply be_array_extreme | idtac ].
  all: try (unfold items, keys, length_, lower, upper, reverse, type_name, values,
            trim_space, trim_space_left, trim_space_right, str_arg; be_tac).
Qed.

Lemma be_bslice s i j : be (bslice s i j). Proof. unfold bslice. be_tac. Qed.
Lemma be_find_from last a b c : be (find_from last a b c).
Proof.
  unfold find_from. apply be_bind; [apply be_str_arg|intros s]. apply be_bind; [apply be_str_arg|intros p].
  apply be_bind; [apply be_int_arg|intros i]. be_tac. apply be_bslice.
Qed.
Lemma be_find_between last a b c d : be (find_between last a b c d).
Proof.
  unfold find_between. apply be_bind; [apply be_str_arg|intros s]. apply be_bind; [apply be_str_arg|intros p].
  apply be_bind; [apply be_to_int|intros [[i isnum] ok]].
  apply be_bind.
  { destruct ok; [exact I|]. destruct (negb isnum); [reflexivity|].
    apply be_bind; [apply be_to_int|intros [[x fnum] y]]. be_tac. }
  intros i'. apply be_bind; [apply be_int_arg|intros j]. be_tac. apply be_bslice.
Qed.
Lemma be_join_loop sep l : be (join_loop sep l).
Proof.
  induction l as [|v l IH]; cbn [join_loop]; [exact I|].
  apply be_bind; [apply be_str_arg|intros]. apply be_bind; [apply IH|intros; exact I].
Qed.
Lemma be_join a b : be (join a b).
Proof.
  unfold join. destruct b; try reflexivity. apply be_bind; [apply be_str_arg|intros s].
  destruct l; [exact I|]. apply be_bind; [apply be_str_arg|intros]. apply be_bind; [apply be_join_loop|intros; exact I].
Qed.
Lemma be_pad left a w p : be (pad left a w p).
Proof.
  unfold pad. apply be_bind; [apply be_str_arg|intros s].
  apply be_bind; [destruct p; [apply be_str_arg|exact I]|intros q].
  apply be_bind; [apply be_int_arg|intros n]. be_tac.
Qed.
Lemma be_call2 f a b : be (call2 f a b).
Proof.
  destruct f; cbn [call2];
    first [ apply be_join | apply be_pad | idtac ].
  all: unfold Compare.contains, ends_with, starts_with, find_first, find_last, split, trim, trim_left, trim_right;
    repeat (apply be_bind; [apply be_str_arg|intros ?]); be_tac.
Qed.
Lemma be_call3 f a b c : be (call3 f a b c).
Proof.
  destruct f; cbn [call3]; first [ apply be_find_from | apply be_pad | idtac ].
  - unfold replace. repeat (apply be_bind; [apply be_str_arg|intros ?]). exact I.
  - unfold split_count. repeat (apply be_bind; [apply be_str_arg|intros ?]).
    apply be_bind; [apply be_int_arg|intros n]. be_tac.
Qed.
Lemma be_call4 f a b c d : be (call4 f a b c d).
Proof.
  destruct f; cbn [call4]; first [ apply be_find_between | idtac ].
  unfold replace_count. repeat (apply be_bind; [apply be_str_arg|intros ?]).
  apply be_bind; [apply be_int_arg|intros n]. be_tac.
Qed.

(* the functions taking an expression reference raise the reference's own
   errors, or invalid-type *)
Section BeBy.
  Variable e : value -> outcome value.
  Hypothesis He : forall x, be (e x).
  Lemma be_mapM l : be (mapM e l).
  Proof.
    induction l as [|v l IH]; cbn [mapM]; [exact I|].
    apply be_bind; [apply He|intros]. apply be_bind; [apply IH|intros; exact I].
  Qed.
  Lemma be_map_array v : be (map_array e v).
  Proof. unfold map_array. destruct v; try reflexivity. apply be_bind; [apply be_mapM|intros; exact I]. Qed.
  Lemma be_str_keys l : be (str_keys e l).
  Proof.
    induction l as [|v l IH]; cbn [str_keys]; [exact I|].
    apply be_bind; [apply He|intros k]. destruct k; try reflexivity.
    apply be_bind; [apply IH|intros; exact I].
  Qed.
  Lemma be_num_keys l : be (num_keys e l).
  Proof.
    induction l as [|v l IH]; cbn [num_keys]; [exact I|].
    apply be_bind; [apply He|intros k]. destruct (to_decimal k); [|reflexivity].
    apply be_bind; [apply IH|intros; exact I].
  Qed.
  Lemma be_keys_for a0 rest : be (keys_for e a0 rest).
  Proof.
    unfold keys_for. apply be_bind; [apply He|intros k].
    destruct k; try (destruct (to_decimal _); [|reflexivity]);
      (apply be_bind; [first [apply be_str_keys|apply be_num_keys]|intros; exact I]).
  Qed.
  Lemma be_sort_array_by v : be (sort_array_by e v).
  Proof.
    unfold sort_array_by. destruct v as [| | | |l| |]; try reflexivity. destruct l; [exact I|].
    apply be_bind; [apply be_keys_for|intros ks]. destruct ks; exact I.
  Qed.
  Lemma be_array_extreme_by gt v : be (array_extreme_by e gt v).
  Proof.
    unfold array_extreme_by. destruct v as [| | | |l| |]; try reflexivity. destruct l; [exact I|].
    apply be_bind; [apply be_keys_for|intros ks]. destruct ks as [[|]|[|]]; exact I.
  Qed.
  Lemma be_group_loop l : forall acc, be (group_loop e l acc).
  Proof.
    induction l as [|v l IH]; intros acc; cbn [group_loop]; [exact I|].
    apply be_bind; [apply He|intros k]. destruct k; try reflexivity. apply IH.
  Qed.
  Lemma be_group_by v : be (group_by e v).
  Proof.
    unfold group_by. destruct v as [| | | |l| |]; try reflexivity. destruct l; [exact I|].
    apply be_bind; [apply be_group_loop|intros; exact I].
  Qed.
End BeBy.

(* ---- 1b. argument shapes: where values and where expression references stand ---- *)
Definition is_expr_ty (t : argty) : bool := match t with TExpr _ => true | _ => false end.
Definition is_expr_arg (a : argv) : bool := match a with AF _ => true | AV _ => false end.
Definition arg_shape (args : list argv) : list bool := map is_expr_arg args.

Fixpoint shape_eqb (a b : list bool) : bool :=
  match a, b with
  | [], [] => true
  | x :: a', y :: b' => Bool.eqb x y && shape_eqb a' b'
  | _, _ => false
  end.
Lemma shape_eqb_eq a b : shape_eqb a b = true <-> a = b.
Proof.
  revert b; induction a as [|x a IH]; destruct b as [|y b]; simpl; split; try congruence; try discriminate.
  - intros H. apply andb_true_iff in H as [H1 H2]. apply Bool.eqb_prop in H1. apply IH in H2. congruence.
  - intros H. inversion H; subst. rewrite Bool.eqb_reflx. simpl. apply IH. reflexivity.
Qed.

(* the shapes a signature accepts; None = variadic *)
Definition sig_shapes (sg : sigty) : option (list (list bool)) :=
  match sg with
  | SFixed ars => Some (map (map is_expr_ty) ars)
  | SVariadic _ => None
  end.

(* WHAT THE PROPERTY DEMANDS: the argument count is one of the signature's
   arities and expression references stand exactly where the signature has
   them; a variadic function takes at least one argument *)
Definition arity_ok_spec (sg : sigty) (args : list argv) : bool :=
  match sig_shapes sg with
  | Some shs => existsb (shape_eqb (arg_shape args)) shs
  | None => match args with [] => false | _ => true end
  end.
(* WHAT [spec_call] CHECKS: the same, except that it lets a variadic function
   through with no argument at all (the implementation rejects that case in
   the parser, see [parser_rejects_empty_call] below) *)
Definition arity_ok (sg : sigty) (args : list argv) : bool :=
  match sig_shapes sg with
  | Some shs => existsb (shape_eqb (arg_shape args)) shs
  | None => true
  end.

Lemma arity_ok_spec_iff sg args :
  arity_ok_spec sg args = arity_ok sg args && (match sg, args with SVariadic _, [] => false | _, _ => true end).
Proof. unfold arity_ok_spec, arity_ok. destruct sg; simpl; [rewrite andb_true_r; reflexivity|destruct args; reflexivity]. Qed.

(* the shapes the implementation's node builders accept *)
Definition fb_shapes (fb : fbuild) : option (list (list bool)) :=
  match fb with
  | B1 _ => Some [[false]]
  | B2 _ => Some [[false; false]]
  | BBy _ => Some [[false; true]]
  | BMap => Some [[true; false]]
  | BVar _ => None
  | B1or2 _ _ => Some [[false]; [false; false]]
  | B2or3 _ _ => Some [[false; false]; [false; false; false]]
  | B2to4 _ _ _ => Some [[false; false]; [false; false; false]; [false; false; false; false]]
  | B3or4 _ _ => Some [[false; false; false]; [false; false; false; false]]
  end.

(* two association lists with the same keys, related entry by entry *)
Lemma assoc_related {A B} (R : A -> B -> Prop) :
  forall (l1 : list (bytes * A)) (l2 : list (bytes * B)),
  Forall2 (fun x y => fst x = fst y /\ R (snd x) (snd y)) l1 l2 ->
  forall k a, assoc k l1 = Some a -> exists b, assoc k l2 = Some b /\ R a b.
Proof.
  induction 1 as [|[k1 a1] [k2 b2] l1 l2 [E H1] H2 IH]; intros k a Ha; simpl in *; [discriminate|].
  subst k2. destruct (beqb k k1).
  - inversion Ha; subst. eauto.
  - apply IH. exact Ha.
Qed.

Lemma table_shapes : forall f sg, signature f = Some sg ->
  exists ap fb, assoc f function_table = Some (ap, fb) /\ sig_shapes sg = fb_shapes fb.
Proof.
  intros f sg H.
  destruct (assoc_related (fun sg (x : argparser * fbuild) => sig_shapes sg = fb_shapes (snd x))
              sig_table function_table) with (k := f) (a := sg) as [[ap fb] [E S]].
  - unfold sig_table, function_table. repeat (constructor; [split; reflexivity|]). constructor.
  - exact H.
  - exists ap, fb. split; assumption.
Qed.

(* ---- 1c. how [spec_call] dispatches ---- *)
Definition exprs_ok (args : list argv) : Prop :=
  forall e, In (AF e) args -> forall x, be (e x).

Lemma be_fix_not_null l :
  be ((fix go (l : list argv) : outcome value :=
         match l with
         | [] => Ok VNull
         | AV x :: r => if not_null x then Ok x else go r
         | _ => Err EInvalidType
         end) l).
Proof. induction l as [|[x|e] r IH]; [exact I| |reflexivity]. destruct (not_null x); [exact I|exact IH]. Qed.
Lemma be_fix_merge l : forall acc,
  be ((fix go (l : list argv) (acc : list (bytes * value)) : outcome value :=
         match l with
         | [] => Ok (VObj acc)
         | AV (VObj m) :: r => go r (fold_left (fun acc kv => assoc_set (fst kv) (snd kv) acc) m acc)
         | _ => Err EInvalidType
         end) l acc).
Proof. induction l as [|[x|e] r IH]; intros acc; [exact I| |reflexivity]. destruct x; try reflexivity. apply IH. Qed.
Lemma be_fix_zip l :
  be ((fix go (l : list argv) : outcome (list (list value)) :=
         match l with
         | [] => Ok []
         | AV (VArr c) :: r => do cs <- go r; Ok (c :: cs)
         | _ => Err EInvalidType
         end) l).
Proof.
  induction l as [|[x|e] r IH]; [exact I| |reflexivity]. destruct x; try reflexivity.
  apply be_bind; [exact IH|intros; exact I].
Qed.

(* a call whose shape the builder accepts raises only evaluation errors;
   every other call is an arity error *)
Lemma spec_call_dispatch : forall name ap fb args,
  assoc name function_table = Some (ap, fb) -> exprs_ok args ->
  match fb_shapes fb with
  | Some shs =>
    if existsb (shape_eqb (arg_shape args)) shs then be (spec_call name args)
    else spec_call name args = Err (EInvalidFunctionCall name)
  | None => be (spec_call name args)
  end.
Proof.
  intros name ap fb args H Hex. unfold spec_call. rewrite H.
  destruct fb; cbn [fb_shapes].
  all: try (lazymatch goal with |- (if _ then _ else _) => idtac end;
            destruct args as [|[a|e1] [|[b|e2] [|[c|e3] [|[d|e4] [|x r]]]]];
            cbn [arg_shape map is_expr_arg existsb shape_eqb Bool.eqb andb orb];
            try reflexivity;
            first [ apply be_call1 | apply be_call2 | apply be_call3 | apply be_call4 | idtac ]).
  - (* by *) assert (He : forall x, be (e2 x)) by (apply Hex; simpl; auto).
    destruct f; [apply be_group_by|apply be_array_extreme_by|apply be_array_extreme_by|apply be_sort_array_by]; exact He.
  - (* map *) apply be_map_array. apply Hex. simpl; auto.
  - (* variadic *)
    destruct f.
    + apply be_fix_merge.
    + apply be_fix_not_null.
    + apply be_bind; [apply be_fix_zip|intros; exact I].
Qed.

(* ---- 1d. the theorems ---- *)
Lemma be_not_arity {A} (o : outcome A) f : be o -> o <> Err (EInvalidFunctionCall f).
Proof. intros H E. rewrite E in H. discriminate. Qed.
Lemma be_not_unknown {A} (o : outcome A) f : be o -> o <> Err (EUnknownFunction f).
Proof. intros H E. rewrite E in H. discriminate. Qed.

Theorem C02_arity : forall f args, exprs_ok args ->
  (spec_call f args = Err (EInvalidFunctionCall f) <->
   exists sg, signature f = Some sg /\ arity_ok sg args = false).
Proof.
  intros f args Hex. destruct (signature f) as [sg|] eqn:S.
  - destruct (table_shapes f sg S) as (ap & fb & E & Sh).
    pose proof (spec_call_dispatch f ap fb args E Hex) as D.
    assert (A : arity_ok sg args = match fb_shapes fb with
                                   | Some shs => existsb (shape_eqb (arg_shape args)) shs | None => true end).
    { unfold arity_ok. rewrite Sh. reflexivity. }
    split.
    + intros C. exists sg. split; [reflexivity|]. rewrite A.
      destruct (fb_shapes fb) as [shs|]; [|exfalso; revert C; apply be_not_arity; exact D].
      destruct (existsb (shape_eqb (arg_shape args)) shs); [|reflexivity].
      exfalso; revert C; apply be_not_arity; exact D.
    + intros (sg' & E' & C). inversion E'; subst sg'. rewrite A in C.
      destruct (fb_shapes fb) as [shs|]; [|discriminate]. rewrite C in D. exact D.
  - split; [|intros (sg' & C & _); discriminate].
    apply signature_defined in S. unfold spec_call. rewrite S. discriminate.
Qed.

Theorem C02_unknown : forall f args, exprs_ok args ->
  (spec_call f args = Err (EUnknownFunction f) <-> signature f = None).
Proof.
  intros f args Hex. destruct (signature f) as [sg|] eqn:S.
  - split; [|discriminate]. intros C. exfalso.
    destruct (table_shapes f sg S) as (ap & fb & E & Sh).
    pose proof (spec_call_dispatch f ap fb args E Hex) as D.
    destruct (fb_shapes fb) as [shs|].
    + destruct (existsb (shape_eqb (arg_shape args)) shs).
      * revert C. apply be_not_unknown. exact D.
      * rewrite D in C. discriminate.
    + revert C. apply be_not_unknown. exact D.
  - split; [reflexivity|intros _]. apply signature_defined in S. unfold spec_call. rewrite S. reflexivity.
Qed.

(* the two categories never mix, and a call in the signature raises neither *)
Corollary C02_arity_ok_no_parse_error : forall f sg args, exprs_ok args ->
  signature f = Some sg -> arity_ok sg args = true -> be (spec_call f args).
Proof.
  intros f sg args Hex S A. destruct (table_shapes f sg S) as (ap & fb & E & Sh).
  pose proof (spec_call_dispatch f ap fb args E Hex) as D.
  unfold arity_ok in A. rewrite Sh in A. destruct (fb_shapes fb) as [shs|]; [rewrite A in D|]; exact D.
Qed.

(* with at least one argument -- every call the parser builds has one -- the
   check is exactly the one the property demands *)
Corollary C02_arity_spec : forall f args, exprs_ok args -> args <> [] ->
  (spec_call f args = Err (EInvalidFunctionCall f) <->
   exists sg, signature f = Some sg /\ arity_ok_spec sg args = false).
Proof.
  intros f args Hex NE. rewrite (C02_arity f args Hex).
  split; intros (sg & S & A); exists sg; (split; [exact S|]); rewrite arity_ok_spec_iff in *.
  - rewrite A. reflexivity.
  - destruct sg, args; try contradiction; rewrite andb_true_r in A; exact A.
Qed.

(* FINDING (model of the reference evaluator only): [spec_call] accepts a
   variadic built-in with no arguments, where the property demands an arity
   error ... *)
Example arity_variadic_empty_refuted :
  arity_ok_spec (SVariadic TAny) [] = false /\
  spec_call (nm "not_null") [] = Ok VNull /\
  spec_call (nm "merge") [] = Ok (VObj []) /\
  exists v, spec_call (nm "zip") [] = Ok v.
Proof. repeat split; try reflexivity. eexists; reflexivity. Qed.

(* ... but the implementation never builds such a call: its parser raises the
   arity error for every built-in called with an empty argument list *)
Lemma parser_rejects_empty_call : forall self fuel' ap name st,
  is (ct st) Token.TCloseParen = true ->
  parse_args self fuel' ap name st = Err (EInvalidFunctionCall name).
Proof. intros. unfold parse_args, check_not_close. rewrite H. reflexivity. Qed.

Example arity_examples :
  spec_call (nm "abs") [] = Err (EInvalidFunctionCall (nm "abs")) /\
  spec_call (nm "abs") [AV VNull; AV VNull] = Err (EInvalidFunctionCall (nm "abs")) /\
  spec_call (nm "find_first") [AV (VStr []); AV (VStr []); AV VNull; AV VNull; AV VNull]
    = Err (EInvalidFunctionCall (nm "find_first")) /\
  spec_call (nm "sort_by") [AV (VArr []); AV VNull] = Err (EInvalidFunctionCall (nm "sort_by")) /\
  spec_call (nm "abs") [AF (fun x => Ok x)] = Err (EInvalidFunctionCall (nm "abs")) /\
  spec_call (nm "map") [AV (VArr []); AF (fun x => Ok x)] = Err (EInvalidFunctionCall (nm "map")) /\
  spec_call (nm "nope") [AV VNull] = Err (EUnknownFunction (nm "nope")) /\
  search (bs "not_null()") VNull = RError CInvalidArity /\
  search (bs "zip()") VNull = RError CInvalidArity /\
  search (bs "pad_left('a')") VNull = RError CInvalidArity /\
  search (bs "nope(@)") VNull = RError CUnknownFunction.
Proof. vm_compute. repeat split. Qed.

(* ================================================================== *)
(* PART 2.  (A1) invalid-type errors, (A2) invalid-value errors         *)
(* ================================================================== *)

(* ---- 2a. when a value has an argument type ---- *)
Definition has_jtype (ts : list jtype) (v : value) : bool :=
  match jtype_of v with Some t => existsb (jtype_eqb t) ts | None => false end.

(* THE SPECIFICATION'S typing of a value argument *)
Definition has_ty (t : argty) (v : value) : bool :=
  match t with
  | TAny => true
  | TOf ts => has_jtype ts v
  | TArrOf ts => match v with VArr l => forallb (has_jtype ts) l | _ => false end
  | TArrNumOrStr =>
    match v with
    | VArr l => forallb (has_jtype [JNumber]) l || forallb (has_jtype [JString]) l
    | _ => false
    end
  | TExpr _ => false
  end.

(* THE IMPLEMENTATION'S extra condition: it treats a number that decimal128
   cannot hold (e.g. 1e7000) as "not a number".  A number is [representable]
   when [to_decimal] succeeds on it; every other value is. *)
Definition representable (v : value) : bool :=
  match v with
  | VNum _ => match to_decimal v with Some _ => true | None => false end
  | _ => true
  end.
Definition in_range (t : argty) (v : value) : bool :=
  match t with
  | TOf _ => representable v
  | TArrOf _ | TArrNumOrStr => match v with VArr l => forallb representable l | _ => true end
  | _ => true
  end.
(* well typed for the implementation = well typed for the specification, and
   every number at a number-typed position is representable *)
Definition ty_ok (t : argty) (v : value) : bool := has_ty t v && in_range t v.

Fixpoint args_have_ty (tys : list argty) (vs : list value) : bool :=
  match tys, vs with
  | [], [] => true
  | t :: tys', v :: vs' => has_ty t v && args_have_ty tys' vs'
  | _, _ => false
  end.
Fixpoint args_in_range (tys : list argty) (vs : list value) : bool :=
  match tys, vs with
  | t :: tys', v :: vs' => in_range t v && args_in_range tys' vs'
  | _, _ => true
  end.
Fixpoint args_ty_ok (tys : list argty) (vs : list value) : bool :=
  match tys, vs with
  | [], [] => true
  | t :: tys', v :: vs' => ty_ok t v && args_ty_ok tys' vs'
  | _, _ => false
  end.
Lemma args_ty_ok_split : forall tys vs,
  args_ty_ok tys vs = args_have_ty tys vs && args_in_range tys vs.
Proof.
  induction tys as [|t tys IH]; destruct vs as [|v vs]; try reflexivity.
  cbn [args_ty_ok args_have_ty args_in_range]. rewrite IH. unfold ty_ok.
  destruct (has_ty t v), (in_range t v), (args_have_ty tys vs), (args_in_range tys vs); reflexivity.
Qed.

(* on documents whose numbers all fit decimal128 the two notions coincide *)
Fixpoint all_representable (v : value) : bool :=
  match v with
  | VNum _ => representable v
  | VArr l => forallb all_representable l
  | VObj m => forallb (fun kv => all_representable (snd kv)) m
  | _ => true
  end.
Lemma all_representable_top v : all_representable v = true -> representable v = true.
Proof. destruct v; simpl; auto. Qed.
Lemma in_range_all_representable t v : all_representable v = true -> in_range t v = true.
Proof.
  intros H. destruct t; simpl; try reflexivity; try (apply all_representable_top; exact H).
  all: destruct v; try reflexivity; simpl in H; rewrite forallb_forall in *; intros x Hx;
    apply all_representable_top; apply H; exact Hx.
Qed.
Lemma ty_ok_all_representable t v : all_representable v = true -> ty_ok t v = has_ty t v.
Proof. intros H. unfold ty_ok. rewrite in_range_all_representable by exact H. apply andb_true_r. Qed.

(* ---- 2b. integer arguments ---- *)
(* the integer a finite decimal denotes, if it denotes one *)
Definition dec_integer (d : dec) : option Z :=
  match d with
  | DFin n c e =>
    if 0 <=? e then Some (sgn n (c * 10 ^ e))
    else if c mod 10 ^ (- e) =? 0 then Some (sgn n (c / 10 ^ (- e))) else None
  | _ => None
  end.
(* [int_of v = Some z]: v is a number whose value is the integer z, and z fits an int64 *)
Definition int_of (v : value) : option Z :=
  match to_decimal v with
  | Some d => match dec_integer d with
              | Some z => if in_int z then Some z else None
              | None => None
              end
  | None => None
  end.

(* Go values without the float kinds (their integer conversion is not fully
   modelled), with decimals and sized integers inside their Go ranges *)
Definition plain (v : value) : Prop :=
  match v with
  | VNum n => nonfloat n /\ num_wf n
  | VForeign _ => False
  | _ => True
  end.
Lemma json_value_plain v : json_value v = true -> plain v.
Proof. destruct v as [| | |[]| | |]; simpl; intros; try exact I; try discriminate. split; exact I. Qed.

Theorem to_int_spec : forall v, plain v ->
  to_int v = match to_decimal v with
             | None => Ok (0, false, false)
             | Some _ => match int_of v with Some z => Ok (z, true, true) | None => Ok (0, true, false) end
             end.
Proof.
  intros v P. destruct v as [| | |n| | |]; try reflexivity; try contradiction.
  destruct P as [F W]. destruct (to_decimal (VNum n)) as [d|] eqn:D.
  - pose proof (num_dwf_decimal n d (num_wf_dwf n W) D) as Wd.
    rewrite (to_int_decimal n d F W D). unfold int_of. rewrite D.
    destruct d as [s c e|s|].
    + rewrite decimal_to_int_spec by exact Wd. change (dec_integer (DFin s c e)) with (ival s c e).
      unfold int_res. destruct (ival s c e) as [z|]; [destruct (in_int z)|]; reflexivity.
    + destruct s; reflexivity.
    + reflexivity.
  - destruct n as [t|d|s f|k z]; simpl in D; try discriminate.
    cbn [to_int]. destruct (parse_int64 t) as [i|] eqn:PI.
    + destruct (parse_int64_dec t i PI) as (n & v & P' & _). congruence.
    + rewrite D. reflexivity.
Qed.

Theorem int_arg_spec : forall v, plain v ->
  int_arg v = match to_decimal v with
              | None => Err EInvalidType
              | Some _ => match int_of v with Some z => Ok z | None => Err EIntegerConversion end
              end.
Proof.
  intros v P. unfold int_arg. rewrite (to_int_spec v P).
  destruct (to_decimal v) eqn:D; [destruct (int_of v)|]; cbn [bind negb]; rewrite ?D; reflexivity.
Qed.

(* ---- 2c. faults ---- *)
Inductive fault := FType | FValue.
(* the public error category of an outcome, reduced to the two C02 speaks about *)
Definition fault_of {A} (o : outcome A) : option fault :=
  match o with
  | Err e => match eval_category e with
             | CInvalidType => Some FType
             | CInvalidValue => Some FValue
             | _ => None
             end
  | _ => None
  end.

Lemma fault_type_iff {A} (o : outcome A) : fault_of o = Some FType <-> o = Err EInvalidType.
Proof. destruct o as [a|e|p| |]; simpl; split; try discriminate; try (destruct e; simpl; congruence). Qed.
Lemma fault_value_iff {A} (o : outcome A) :
  fault_of o = Some FValue <-> exists e, o = Err e /\ eval_category e = CInvalidValue.
Proof.
  destruct o as [a|e|p| |]; simpl; split; try discriminate; try (intros (e' & C & _); discriminate).
  - intros H. exists e. split; [reflexivity|]. destruct (eval_category e); try discriminate; reflexivity.
  - intros (e' & C & H). inversion C; subst. rewrite H. reflexivity.
Qed.

Definition nf {A} (o : outcome A) : Prop := fault_of o = None.
Lemma nf_bind {A B} (o : outcome A) (k : A -> outcome B) : nf o -> (forall a, nf (k a)) -> nf (bind o k).
Proof. destruct o; cbn; auto. Qed.
Ltac nf_step :=
  match goal with
  | |- nf (Ok _) => reflexivity
  | |- nf (Err _) => reflexivity
  | |- nf Unmodelled => reflexivity
  | |- nf OutOfFuel => reflexivity
  | |- nf (Panic _) => reflexivity
  | |- nf (bind _ _) => apply nf_bind; [|intros ?]
  | |- nf (match ?x with _ => _ end) => destruct x eqn:?
  | |- nf (let '(_, _) := ?x in _) => destruct x eqn:?
  end.
Ltac nf_tac := repeat nf_step; try reflexivity; auto.

Lemma nf_bslice s i j : nf (bslice s i j). Proof. unfold bslice. nf_tac. Qed.
Lemma nf_trap d : nf (trap d). Proof. unfold trap. nf_tac. Qed.
Lemma nf_jnum n : nf (jnum n). Proof. unfold jnum; nf_tac. Qed.
Lemma nf_jprint : forall v, nf (jprint v).
Proof.
  fix IH 1. intros v. destruct v as [|b|s|n|l|m|t]; cbn [jprint]; try reflexivity.
  - destruct b; reflexivity.
  - apply nf_jnum.
  - apply nf_bind; [|intros; reflexivity].
    induction l as [|x r IHr]; [reflexivity|].
    apply nf_bind; [apply IH|intros]. apply nf_bind; [apply IHr|intros; reflexivity].
  - apply nf_bind; [|intros; reflexivity].
    induction m as [|[k x] r IHr]; [reflexivity|].
    apply nf_bind; [apply IH|intros]. apply nf_bind; [apply IHr|intros; reflexivity].
Qed.

Definition str_of (v : value) : bytes := match v with VStr s => s | _ => [] end.

(* a string argument: type fault exactly when it is not a string *)
Lemma fault_bind_str (a : value) (k : bytes -> outcome value) :
  fault_of (bind (str_arg a) k) = if ty_ok tstr a then fault_of (k (str_of a)) else Some FType.
Proof. destruct a; reflexivity. Qed.

Lemma ty_ok_tnum v : ty_ok tnum v = match to_decimal v with Some _ => true | None => false end.
Proof. destruct v; reflexivity. Qed.

(* an integer argument: type fault exactly when it is no (representable)
   number, value fault exactly when that number is not an int64 integer *)
Lemma fault_bind_int (c : value) (k : Z -> outcome value) : plain c ->
  fault_of (bind (int_arg c) k) =
  if ty_ok tnum c then match int_of c with Some z => fault_of (k z) | None => Some FValue end
  else Some FType.
Proof.
  intros P. rewrite (int_arg_spec c P), ty_ok_tnum.
  destruct (to_decimal c); [|reflexivity]. destruct (int_of c); reflexivity.
Qed.

(* ---- 2d. element types of arrays ---- *)
Definition numrep (v : value) : bool := match to_decimal v with Some _ => true | None => false end.
Definition isstr (v : value) : bool := match v with VStr _ => true | _ => false end.

Lemma forallb_andb {A} (f g : A -> bool) l :
  forallb f l && forallb g l = forallb (fun x => f x && g x) l.
Proof.
  induction l as [|x l IH]; [reflexivity|]. cbn [forallb]. rewrite <- IH.
  destruct (f x), (g x), (forallb f l), (forallb g l); reflexivity.
Qed.
Lemma forallb_ext' {A} (f g : A -> bool) l : (forall x, f x = g x) -> forallb f l = forallb g l.
Proof. intros H. induction l as [|x l IH]; [reflexivity|]. cbn [forallb]. rewrite H, IH. reflexivity. Qed.

Lemma numrep_split v : has_jtype [JNumber] v && representable v = numrep v.
Proof. destruct v; reflexivity. Qed.
Lemma isstr_split v : has_jtype [JString] v && representable v = isstr v.
Proof. destruct v; reflexivity. Qed.
Lemma ty_ok_tstr v : ty_ok tstr v = isstr v.
Proof. destruct v; reflexivity. Qed.

Lemma ty_ok_arrnum l : ty_ok (TArrOf [JNumber]) (VArr l) = forallb numrep l.
Proof. unfold ty_ok. cbn [has_ty in_range]. rewrite forallb_andb. apply forallb_ext'. apply numrep_split. Qed.
Lemma ty_ok_arrstr l : ty_ok (TArrOf [JString]) (VArr l) = forallb isstr l.
Proof. unfold ty_ok. cbn [has_ty in_range]. rewrite forallb_andb. apply forallb_ext'. apply isstr_split. Qed.
Lemma ty_ok_numorstr l : ty_ok TArrNumOrStr (VArr l) = forallb numrep l || forallb isstr l.
Proof.
  unfold ty_ok. cbn [has_ty in_range]. rewrite andb_orb_distrib_l.
  rewrite !forallb_andb.
  rewrite (forallb_ext' _ numrep l numrep_split), (forallb_ext' _ isstr l isstr_split). reflexivity.
Qed.

(* ---- 2e. the faults of each model function ---- *)
(* numbers *)
Lemma fault_num1 fop dop v :
  fault_of (num1 fop dop v) = if ty_ok tnum v then None else Some FType.
Proof.
  rewrite ty_ok_tnum. unfold num1. destruct (to_float v) eqn:F.
  - destruct v as [| | |[]| | |]; try discriminate. reflexivity.
  - destruct (to_decimal v); reflexivity.
Qed.

Lemma sum_loop_cases : forall l t s f,
  (forallb numrep l = true /\ exists r, sum_loop l t s f = Ok r) \/
  (forallb numrep l = false /\ sum_loop l t s f = Err EInvalidType).
Proof.
  induction l as [|v l IH]; intros t s f; cbn [sum_loop forallb]; [left; eauto|].
  unfold numrep at 1 3. destruct (to_decimal v) as [d|]; [|right; split; reflexivity].
  cbv zeta. cbn [andb]. destruct (f && is_fin d); apply IH.
Qed.
Lemma fault_sum v : fault_of (sum v) = if ty_ok (TArrOf [JNumber]) v then None else Some FType.
Proof.
  destruct v; try reflexivity. rewrite ty_ok_arrnum. unfold sum.
  destruct (sum_loop_cases l dec_zero dec_zero true) as [[H [[[t s] f] E]]|[H E]]; rewrite H, E; [|reflexivity].
  cbn [bind]. apply nf_trap.
Qed.
Lemma fault_avg v : fault_of (avg v) = if ty_ok (TArrOf [JNumber]) v then None else Some FType.
Proof.
  destruct v; try reflexivity. rewrite ty_ok_arrnum. destruct l as [|x l]; [reflexivity|]. unfold avg.
  destruct (sum_loop_cases (x :: l) dec_zero dec_zero true) as [[H [[[t s] f] E]]|[H E]]; rewrite H, E; [|reflexivity].
  cbn [bind]. apply nf_trap.
Qed.

(* max, min, sort *)
Lemma extreme_str_cases gt : forall l best,
  (forallb isstr l = true /\ exists r, extreme_str gt best l = Ok r) \/
  (forallb isstr l = false /\ extreme_str gt best l = Err EInvalidType).
Proof.
  induction l as [|v l IH]; intros best; cbn [extreme_str forallb]; [left; eauto|].
  destruct v; try (right; split; reflexivity). cbn [isstr andb]. apply IH.
Qed.
Lemma extreme_dec_cases gt : forall l best,
  (forallb numrep l = true /\ exists r, extreme_dec gt best l = Ok r) \/
  (forallb numrep l = false /\ extreme_dec gt best l = Err EInvalidType).
Proof.
  induction l as [|v l IH]; intros best; cbn [extreme_dec forallb]; [left; eauto|].
  unfold numrep at 1 3. destruct (to_decimal v) as [d|]; [|right; split; reflexivity]. cbn [andb]. apply IH.
Qed.
Lemma fault_array_extreme gt v :
  fault_of (array_extreme gt v) = if ty_ok TArrNumOrStr v then None else Some FType.
Proof.
  destruct v; try reflexivity. rewrite ty_ok_numorstr. destruct l as [|x r]; [reflexivity|].
  cbn [forallb]. destruct x; try reflexivity.
  - (* string first *)
    cbn [array_extreme numrep to_decimal isstr andb orb].
    destruct (extreme_str_cases gt r s) as [[H [m E]]|[H E]]; rewrite H, E; reflexivity.
  - (* number first *)
    cbn [array_extreme isstr andb]. rewrite orb_false_r. unfold numrep at 1.
    destruct (to_decimal (VNum n)) as [d|]; [|reflexivity]. cbn [andb].
    destruct (extreme_dec_cases gt r d) as [[H [m E]]|[H E]]; rewrite H, E; reflexivity.
Qed.

Lemma all_strings_isstr : forall l,
  match all_strings l with Some _ => forallb isstr l = true | None => forallb isstr l = false end.
Proof.
  induction l as [|v l IH]; [reflexivity|]. cbn [all_strings forallb]. destruct v; try reflexivity.
  cbn [isstr andb]. destruct (all_strings l); exact IH.
Qed.
Lemma all_decimals_numrep : forall l,
  match all_decimals l with Some _ => forallb numrep l = true | None => forallb numrep l = false end.
Proof.
  induction l as [|v l IH]; [reflexivity|]. cbn [all_decimals forallb]. unfold numrep at 1 3.
  destruct (to_decimal v); [|reflexivity]. cbn [andb]. destruct (all_decimals l); exact IH.
Qed.
Lemma fault_sort_array v :
  fault_of (sort_array v) = if ty_ok TArrNumOrStr v then None else Some FType.
Proof.
  destruct v; try reflexivity. rewrite ty_ok_numorstr. destruct l as [|x r]; [reflexivity|].
  destruct x; try reflexivity.
  - change (sort_array (VArr (VStr s :: r))) with
      (match all_strings (VStr s :: r) with
       | Some ss => Ok (VArr (map VStr (stable_sort str_leb ss))) | None => Err EInvalidType end).
    pose proof (all_strings_isstr (VStr s :: r)) as H.
    change (forallb numrep (VStr s :: r)) with false.
    destruct (all_strings (VStr s :: r)); rewrite H; reflexivity.
  - change (sort_array (VArr (VNum n :: r))) with
      (match all_decimals (VNum n :: r) with
       | Some ds => Ok (VArr (map fst (stable_sort (fun x y => dec_leb (snd x) (snd y)) (combine (VNum n :: r) ds))))
       | None => Err EInvalidType end).
    pose proof (all_decimals_numrep (VNum n :: r)) as H.
    change (forallb isstr (VNum n :: r)) with false. rewrite orb_false_r.
    destruct (all_decimals (VNum n :: r)); rewrite H; reflexivity.
Qed.

(* objects, length, reverse, case, conversions *)
Lemma fault_items v : fault_of (items v) = if ty_ok tobj v then None else Some FType.
Proof. destruct v; reflexivity. Qed.
Lemma fault_keys v : fault_of (keys v) = if ty_ok tobj v then None else Some FType.
Proof. destruct v; reflexivity. Qed.
Lemma fault_values v : fault_of (values v) = if ty_ok tobj v then None else Some FType.
Proof. destruct v; reflexivity. Qed.
Lemma fault_length v :
  fault_of (length_ v) = if ty_ok (TOf [JString; JArray; JObject]) v then None else Some FType.
Proof. destruct v; reflexivity. Qed.
Lemma fault_reverse v :
  fault_of (reverse v) = if ty_ok (TOf [JArray; JString]) v then None else Some FType.
Proof. destruct v; reflexivity. Qed.
Lemma fault_lower v : fault_of (lower v) = if ty_ok tstr v then None else Some FType.
Proof. destruct v; try reflexivity. simpl. destruct (all_ascii s); reflexivity. Qed.
Lemma fault_upper v : fault_of (upper v) = if ty_ok tstr v then None else Some FType.
Proof. destruct v; try reflexivity. simpl. destruct (all_ascii s); reflexivity. Qed.
Lemma fault_to_string v : fault_of (to_string v) = None.
Proof. unfold to_string. destruct v; try reflexivity; (apply nf_bind; [apply nf_jprint|intros; reflexivity]). Qed.
Lemma fault_type_name v : plain v -> fault_of (type_name v) = None.
Proof. destruct v; try reflexivity. contradiction. Qed.
Lemma fault_trim_space v : fault_of (trim_space v) = if ty_ok tstr v then None else Some FType.
Proof. destruct v; reflexivity. Qed.
Lemma fault_trim_space_left v : fault_of (trim_space_left v) = if ty_ok tstr v then None else Some FType.
Proof. destruct v; reflexivity. Qed.
Lemma fault_trim_space_right v : fault_of (trim_space_right v) = if ty_ok tstr v then None else Some FType.
Proof. destruct v; reflexivity. Qed.

(* two strings *)
Lemma fault_str2 (k : bytes -> bytes -> outcome value) a b :
  (forall s p, nf (k s p)) ->
  fault_of (do s <- str_arg a; do p <- str_arg b; k s p) =
  if ty_ok tstr a && ty_ok tstr b then None else Some FType.
Proof.
  intros H. rewrite fault_bind_str. destruct (ty_ok tstr a); [|reflexivity].
  rewrite fault_bind_str. destruct (ty_ok tstr b); [apply H|reflexivity].
Qed.
Lemma fault_call2_str2 f a b :
  match f with
  | FEndsWith | FStartsWith | FFindFirst | FFindLast | FSplit | FTrim | FTrimLeft | FTrimRight => True
  | _ => False
  end ->
  fault_of (call2 f a b) = if ty_ok tstr a && ty_ok tstr b then None else Some FType.
Proof.
  destruct f; try contradiction; intros _; cbn [call2];
    unfold ends_with, starts_with, find_first, find_last, split, trim, trim_left, trim_right;
    apply fault_str2; intros; nf_tac.
Qed.

Lemma fault_contains a b :
  fault_of (Compare.contains a b) =
  if ty_ok (TOf [JArray; JString]) a && ty_ok TAny b then None else Some FType.
Proof. destruct a; try reflexivity; destruct b; reflexivity. Qed.

Lemma join_loop_cases sep : forall l,
  (forallb isstr l = true /\ exists r, join_loop sep l = Ok r) \/
  (forallb isstr l = false /\ join_loop sep l = Err EInvalidType).
Proof.
  induction l as [|v l IH]; cbn [join_loop forallb]; [left; eauto|].
  destruct v; try (right; split; reflexivity). cbn [isstr andb str_arg bind].
  destruct IH as [[H [r E]]|[H E]]; rewrite E; cbn [bind]; [left|right]; split; eauto.
Qed.
Lemma fault_join a b :
  fault_of (join a b) = if ty_ok tstr a && ty_ok (TArrOf [JString]) b then None else Some FType.
Proof.
  destruct b; try (destruct (ty_ok tstr a); reflexivity).
  rewrite ty_ok_arrstr. unfold join. rewrite fault_bind_str. destruct (ty_ok tstr a); [|reflexivity].
  cbn [andb]. destruct l as [|v l']; [reflexivity|]. rewrite fault_bind_str, ty_ok_tstr. cbn [forallb].
  destruct (isstr v); [|reflexivity]. cbn [andb].
  destruct (join_loop_cases (str_of a) l') as [[H [r E]]|[H E]]; rewrite H, E; reflexivity.
Qed.

(* strings with counts, widths, offsets *)
Definition bad_int (v : value) : bool := match int_of v with Some _ => false | None => true end.
Definition bad_count (v : value) : bool := match int_of v with Some z => z <? 0 | None => true end.
Definition not_one_char (v : value) : bool := negb (rune_count (str_of v) =? 1).

Lemma fault_pad3 left a w p : plain w ->
  fault_of (pad left a w (Some p)) =
  if ty_ok tstr a && (ty_ok tnum w && ty_ok tstr p)
  then (if bad_count w || not_one_char p then Some FValue else None)
  else Some FType.
Proof.
  intros P. unfold pad. rewrite fault_bind_str. cbv beta iota. rewrite fault_bind_str. cbv beta.
  rewrite (fault_bind_int w _ P). unfold bad_count, not_one_char.
  destruct (ty_ok tstr a), (ty_ok tstr p), (ty_ok tnum w); try reflexivity. cbn [andb].
  destruct (int_of w) as [z|]; [|reflexivity]. destruct (z <? 0); [reflexivity|]. cbn [orb].
  destruct (negb (rune_count (str_of p) =? 1)); [reflexivity|]. cbv zeta.
  destruct (z - rune_count (str_of a) <=? 0); reflexivity.
Qed.
Lemma fault_pad2 left a w : plain w ->
  fault_of (pad left a w None) =
  if ty_ok tstr a && ty_ok tnum w
  then (if bad_count w then Some FValue else None)
  else Some FType.
Proof.
  intros P. unfold pad. rewrite fault_bind_str. cbv beta iota. cbn [bind].
  rewrite (fault_bind_int w _ P). unfold bad_count.
  destruct (ty_ok tstr a), (ty_ok tnum w); try reflexivity. cbn [andb].
  destruct (int_of w) as [z|]; [|reflexivity]. destruct (z <? 0); [reflexivity|].
  change (negb (rune_count [32] =? 1)) with false. cbv iota zeta.
  destruct (z - rune_count (str_of a) <=? 0); reflexivity.
Qed.

Lemma fault_find_from last a b c : plain c ->
  fault_of (find_from last a b c) =
  if ty_ok tstr a && (ty_ok tstr b && ty_ok tnum c)
  then (if bad_int c then Some FValue else None)
  else Some FType.
Proof.
  intros P. unfold find_from. rewrite fault_bind_str. cbv beta. rewrite fault_bind_str. cbv beta.
  rewrite (fault_bind_int c _ P). unfold bad_int.
  destruct (ty_ok tstr a), (ty_ok tstr b), (ty_ok tnum c); try reflexivity. cbn [andb].
  destruct (int_of c) as [z|]; [|reflexivity].
  change (fault_of ?o = None) with (nf o). nf_tac. apply nf_bslice.
Qed.

Lemma fault_split_count a b c : plain c ->
  fault_of (split_count a b c) =
  if ty_ok tstr a && (ty_ok tstr b && ty_ok tnum c)
  then (if bad_count c then Some FValue else None)
  else Some FType.
Proof.
  intros P. unfold split_count. rewrite fault_bind_str. cbv beta. rewrite fault_bind_str. cbv beta.
  rewrite (fault_bind_int c _ P). unfold bad_count.
  destruct (ty_ok tstr a), (ty_ok tstr b), (ty_ok tnum c); try reflexivity. cbn [andb].
  destruct (int_of c) as [z|]; [|reflexivity]. destruct (z <? 0); [reflexivity|].
  change (fault_of ?o = None) with (nf o). nf_tac.
Qed.

Lemma fault_replace a b c :
  fault_of (replace a b c) =
  if ty_ok tstr a && (ty_ok tstr b && ty_ok tstr c) then None else Some FType.
Proof.
  unfold replace. rewrite fault_bind_str. cbv beta. rewrite fault_bind_str. cbv beta. rewrite fault_bind_str.
  destruct (ty_ok tstr a), (ty_ok tstr b), (ty_ok tstr c); reflexivity.
Qed.
Lemma fault_replace_count a b c d : plain d ->
  fault_of (replace_count a b c d) =
  if ty_ok tstr a && (ty_ok tstr b && (ty_ok tstr c && ty_ok tnum d))
  then (if bad_count d then Some FValue else None)
  else Some FType.
Proof.
  intros P. unfold replace_count. rewrite fault_bind_str. cbv beta. rewrite fault_bind_str. cbv beta.
  rewrite fault_bind_str. cbv beta. rewrite (fault_bind_int d _ P). unfold bad_count.
  destruct (ty_ok tstr a), (ty_ok tstr b), (ty_ok tstr c), (ty_ok tnum d); try reflexivity. cbn [andb].
  destruct (int_of d) as [z|]; [|reflexivity]. destruct (z <? 0); reflexivity.
Qed.

Lemma fault_find_between last a b c d : plain c -> plain d ->
  fault_of (find_between last a b c d) =
  if ty_ok tstr a && (ty_ok tstr b && (ty_ok tnum c && ty_ok tnum d))
  then (if bad_int c || bad_int d then Some FValue else None)
  else Some FType.
Proof.
  intros Pc Pd. unfold find_between. rewrite fault_bind_str. cbv beta. rewrite fault_bind_str. cbv beta.
  rewrite (int_arg_spec d Pd), (to_int_spec c Pc), (to_int_spec d Pd), !ty_ok_tnum. unfold bad_int.
  destruct (ty_ok tstr a), (ty_ok tstr b); try reflexivity. cbn [andb].
  destruct (to_decimal c) as [dc|], (to_decimal d) as [dd|];
    destruct (int_of c) as [zc|], (int_of d) as [zd|]; cbn [bind negb andb orb]; try reflexivity.
  change (fault_of ?o = None) with (nf o). nf_tac. apply nf_bslice.
Qed.

(* from_items: every element must be an array -- checked for the whole
   argument first (invalid-type) -- and then be a [string, any] pair
   (invalid-value otherwise) *)
Definition good_pair (v : value) : bool := match v with VArr [VStr _; _] => true | _ => false end.

Lemma fault_from_items_loop : forall l acc, forallb is_arr l = true ->
  fault_of (from_items_loop l acc) =
  if existsb (fun x => negb (good_pair x)) l then Some FValue else None.
Proof.
  induction l as [|v l IH]; intros acc T; [reflexivity|]. cbn [forallb] in T.
  apply andb_true_iff in T as [T1 T2]. cbn [from_items_loop existsb].
  destruct v as [| | | |ia| |]; try discriminate T1.
  destruct ia as [|k [|x [|y ia]]]; try reflexivity; try (destruct k; reflexivity).
  destruct k; try reflexivity. cbn [good_pair negb orb]. apply IH. exact T2.
Qed.

Lemma ty_ok_arrarr l : ty_ok (TArrOf [JArray]) (VArr l) = forallb is_arr l.
Proof.
  unfold ty_ok. cbn [has_ty in_range]. rewrite forallb_andb. apply forallb_ext'. intros []; reflexivity.
Qed.

(* (A1) and (A2) for from_items: type faults first, like everywhere else *)
Theorem fault_from_items : forall v,
  fault_of (from_items v) =
  if ty_ok (TArrOf [JArray]) v
  then (if match v with VArr l => existsb (fun x => negb (good_pair x)) l | _ => false end
        then Some FValue else None)
  else Some FType.
Proof.
  destruct v; try reflexivity. rewrite ty_ok_arrarr. unfold from_items.
  destruct (forallb is_arr l) eqn:T; [|reflexivity].
  rewrite <- (fault_from_items_loop l [] T). destruct (from_items_loop l []); reflexivity.
Qed.

(* (A2): for a well-typed argument (an array of arrays), an invalid-value
   error exactly when some element is not a [string, any] pair *)
Theorem from_items_well_typed : forall l, ty_ok (TArrOf [JArray]) (VArr l) = true ->
  fault_of (from_items (VArr l)) = if existsb (fun x => negb (good_pair x)) l then Some FValue else None.
Proof. intros l T. rewrite fault_from_items, T. reflexivity. Qed.
(* (A1): a type error exactly for an ill-typed argument *)
Theorem from_items_type_error : forall v,
  from_items v = Err EInvalidType <-> ty_ok (TArrOf [JArray]) v = false.
Proof.
  intros v. rewrite <- fault_type_iff, fault_from_items.
  destruct (ty_ok (TArrOf [JArray]) v); [|tauto].
  destruct (match v with VArr l => existsb (fun x => negb (good_pair x)) l | _ => false end); split; discriminate.
Qed.
Theorem from_items_type_error_sound : forall v,
  from_items v = Err EInvalidType -> ty_ok (TArrOf [JArray]) v = false.
Proof. intros v. apply from_items_type_error. Qed.
(* formerly a finding (the malformed first pair of from_items(`[["a"], 1]`) was
   reported before the non-array second element); repaired: the type fault comes first *)
Example from_items_type_before_value :
  let arg := VArr [VArr [VStr (bs "a")]; VNum (NJson (bs "1"))] in
  json_value arg = true /\
  has_ty (TArrOf [JArray]) arg = false /\
  spec_call (nm "from_items") [AV arg] = Err EInvalidType /\
  search (bs "from_items(`[[""a""], 1]`)") VNull = RError CInvalidType /\
  search (bs "from_items(`[[""a""], [""b"", 1]]`)") VNull = RError CInvalidValue /\
  search (bs "from_items(`[[1, 1]]`)") VNull = RError CInvalidValue.
Proof. vm_compute. repeat split. Qed.

(* ---- 2f. the variadic functions ---- *)
Fixpoint merge_go (l : list argv) (acc : list (bytes * value)) : outcome value :=
  match l with
  | [] => Ok (VObj acc)
  | AV (VObj m) :: r => merge_go r (fold_left (fun acc kv => assoc_set (fst kv) (snd kv) acc) m acc)
  | _ => Err EInvalidType
  end.
Fixpoint not_null_go (l : list argv) : outcome value :=
  match l with
  | [] => Ok VNull
  | AV x :: r => if not_null x then Ok x else not_null_go r
  | _ => Err EInvalidType
  end.
Fixpoint zip_go (l : list argv) : outcome (list (list value)) :=
  match l with
  | [] => Ok []
  | AV (VArr c) :: r => do cs <- zip_go r; Ok (c :: cs)
  | _ => Err EInvalidType
  end.
Lemma spec_call_merge args : spec_call (nm "merge") args = merge_go args [].
Proof. reflexivity. Qed.
Lemma spec_call_not_null args : spec_call (nm "not_null") args = not_null_go args.
Proof. reflexivity. Qed.
Lemma spec_call_zip args :
  spec_call (nm "zip") args =
  do cols <- zip_go args;
  Ok (VArr (zip_rows (Z.to_nat (fold_left (fun m c => Z.min m (Z.of_nat (length c))) cols MaxInt)) 0 cols)).
Proof. reflexivity. Qed.

Definition arg_ty_ok (t : argty) (a : argv) : bool :=
  match a with AV v => ty_ok t v | AF _ => false end.

Lemma fault_merge_go : forall args acc,
  fault_of (merge_go args acc) = if forallb (arg_ty_ok tobj) args then None else Some FType.
Proof.
  induction args as [|[v|e] r IH]; intros acc; try reflexivity.
  destruct v; try reflexivity. cbn [merge_go forallb]. apply IH.
Qed.
Lemma fault_zip_go : forall args,
  fault_of (zip_go args) = if forallb (arg_ty_ok tarr) args then None else Some FType.
Proof.
  induction args as [|[v|e] r IH]; try reflexivity.
  destruct v; try reflexivity. cbn [zip_go forallb]. change (arg_ty_ok tarr (AV (VArr l))) with true. cbn [andb].
  rewrite <- IH. destruct (zip_go r); reflexivity.
Qed.
Lemma fault_not_null_go : forall vs, fault_of (not_null_go (map AV vs)) = None.
Proof.
  induction vs as [|v r IH]; [reflexivity|]. cbn [map not_null_go]. destruct (not_null v); [reflexivity|exact IH].
Qed.

(* merge and zip: an invalid-type error exactly when some argument is not an
   object / not an array (an expression reference is neither); not_null never
   faults on values *)
Theorem C02_variadic_faults :
  (forall args, fault_of (spec_call (nm "merge") args) = if forallb (arg_ty_ok tobj) args then None else Some FType) /\
  (forall args, fault_of (spec_call (nm "zip") args) = if forallb (arg_ty_ok tarr) args then None else Some FType) /\
  (forall vs, fault_of (spec_call (nm "not_null") (map AV vs)) = if forallb (arg_ty_ok TAny) (map AV vs) then None else Some FType).
Proof.
  split; [|split].
  - intros. rewrite spec_call_merge. apply fault_merge_go.
  - intros. rewrite spec_call_zip. rewrite <- fault_zip_go. destruct (zip_go args); reflexivity.
  - intros. rewrite spec_call_not_null, fault_not_null_go.
    replace (forallb (arg_ty_ok TAny) (map AV vs)) with true; [reflexivity|].
    induction vs; [reflexivity|]. cbn [map forallb]. rewrite <- IHvs. reflexivity.
Qed.
(* remark: an expression reference after the first non-null argument of
   not_null is never looked at (the implementation's parser does not accept an
   expression reference there at all) *)
Example not_null_expref_ignored :
  spec_call (nm "not_null") [AV (VBool true); AF (fun x => Ok x)] = Ok (VBool true) /\
  spec_call (nm "not_null") [AV VNull; AF (fun x => Ok x)] = Err EInvalidType.
Proof. split; reflexivity. Qed.

Example variadic_fault_examples :
  spec_call (nm "merge") [AV (VObj []); AV VNull] = Err EInvalidType /\
  spec_call (nm "zip") [AV (VArr []); AV (VStr [])] = Err EInvalidType /\
  spec_call (nm "zip") [AV (VArr [VNull]); AV (VArr [VBool true; VBool false])] = Ok (VArr [VArr [VNull; VBool true]]).
Proof. vm_compute. repeat split. Qed.

(* ---- 2g. value faults by function name, and the summary ---- *)
(* out-of-range conditions on WELL-TYPED arguments: what the property demands
   and what the implementation checks coincide *)
Definition value_fault (f : bytes) (vs : list value) : bool :=
  if beqb f (nm "pad_left") || beqb f (nm "pad_right") then
    match vs with
    | [_; w] => bad_count w                          (* negative or non-integral width *)
    | [_; w; p] => bad_count w || not_one_char p     (* ... or a pad string that is not one character *)
    | _ => false
    end
  else if beqb f (nm "split") then
    match vs with [_; _; n] => bad_count n | _ => false end           (* negative or non-integral count *)
  else if beqb f (nm "replace") then
    match vs with [_; _; _; n] => bad_count n | _ => false end
  else if beqb f (nm "find_first") || beqb f (nm "find_last") then
    match vs with
    | [_; _; i] => bad_int i                         (* offsets may be negative, not fractional *)
    | [_; _; i; j] => bad_int i || bad_int j
    | _ => false
    end
  else if beqb f (nm "from_items") then
    match vs with [VArr l] => existsb (fun x => negb (good_pair x)) l | _ => false end   (* malformed pair *)
  else false.

(* type faults take precedence over value faults *)
Definition expected_fault (tys : list argty) (f : bytes) (vs : list value) : option fault :=
  if negb (args_ty_ok tys vs) then Some FType
  else if value_fault f vs then Some FValue
  else None.

Ltac getplain :=
  repeat match goal with
         | H : Forall plain (_ :: _) |- _ =>
           let h := fresh "Pl" in pose proof (Forall_inv H) as h; apply Forall_inv_tail in H
         end.
Ltac fin :=
  unfold expected_fault; cbn [args_ty_ok]; rewrite ?andb_true_r;
  repeat match goal with |- context [ty_ok TAny ?v] => change (ty_ok TAny v) with true end;
  repeat match goal with |- context [ty_ok ?t ?v] => destruct (ty_ok t v) end;
  reflexivity.

Lemma faults_abs_1 a : Forall plain [a] ->
  fault_of (spec_call (nm "abs") [AV a]) = expected_fault [tnum] (nm "abs") [a].
Proof.
  intros P. getplain. change (spec_call (nm "abs") [AV a]) with (num1 fabs dec_abs a).
  rewrite fault_num1. fin.
Qed.
Lemma faults_avg_1 a : Forall plain [a] ->
  fault_of (spec_call (nm "avg") [AV a]) = expected_fault [TArrOf [JNumber]] (nm "avg") [a].
Proof.
  intros P. getplain. change (spec_call (nm "avg") [AV a]) with (avg a).
  rewrite fault_avg. fin.
Qed.
Lemma faults_ceil_1 a : Forall plain [a] ->
  fault_of (spec_call (nm "ceil") [AV a]) = expected_fault [tnum] (nm "ceil") [a].
Proof.
  intros P. getplain. change (spec_call (nm "ceil") [AV a]) with (num1 fceil dec_ceil a).
  rewrite fault_num1. fin.
Qed.
Lemma faults_contains_2 a b : Forall plain [a; b] ->
  fault_of (spec_call (nm "contains") [AV a; AV b]) = expected_fault [TOf [JArray; JString]; TAny] (nm "contains") [a; b].
Proof.
  intros P. getplain. change (spec_call (nm "contains") [AV a; AV b]) with (Compare.contains a b).
  rewrite fault_contains. fin.
Qed.
Lemma faults_ends_with_2 a b : Forall plain [a; b] ->
  fault_of (spec_call (nm "ends_with") [AV a; AV b]) = expected_fault [tstr; tstr] (nm "ends_with") [a; b].
Proof.
  intros P. getplain. change (spec_call (nm "ends_with") [AV a; AV b]) with (call2 FEndsWith a b).
  rewrite fault_call2_str2 by exact I. fin.
Qed.
Lemma faults_find_first_2 a b : Forall plain [a; b] ->
  fault_of (spec_call (nm "find_first") [AV a; AV b]) = expected_fault [tstr; tstr] (nm "find_first") [a; b].
Proof.
  intros P. getplain. change (spec_call (nm "find_first") [AV a; AV b]) with (call2 FFindFirst a b).
  rewrite fault_call2_str2 by exact I. fin.
Qed.
Lemma faults_find_first_3 a b c : Forall plain [a; b; c] ->
  fault_of (spec_call (nm "find_first") [AV a; AV b; AV c]) = expected_fault [tstr; tstr; tnum] (nm "find_first") [a; b; c].
Proof.
  intros P. getplain. change (spec_call (nm "find_first") [AV a; AV b; AV c]) with (find_from false a b c).
  rewrite fault_find_from by assumption. fin.
Qed.
Lemma faults_find_first_4 a b c d : Forall plain [a; b; c; d] ->
  fault_of (spec_call (nm "find_first") [AV a; AV b; AV c; AV d]) = expected_fault [tstr; tstr; tnum; tnum] (nm "find_first") [a; b; c; d].
Proof.
  intros P. getplain. change (spec_call (nm "find_first") [AV a; AV b; AV c; AV d]) with (find_between false a b c d).
  rewrite fault_find_between by assumption. fin.
Qed.
Lemma faults_find_last_2 a b : Forall plain [a; b] ->
  fault_of (spec_call (nm "find_last") [AV a; AV b]) = expected_fault [tstr; tstr] (nm "find_last") [a; b].
Proof.
  intros P. getplain. change (spec_call (nm "find_last") [AV a; AV b]) with (call2 FFindLast a b).
  rewrite fault_call2_str2 by exact I. fin.
Qed.
Lemma faults_find_last_3 a b c : Forall plain [a; b; c] ->
  fault_of (spec_call (nm "find_last") [AV a; AV b; AV c]) = expected_fault [tstr; tstr; tnum] (nm "find_last") [a; b; c].
Proof.
  intros P. getplain. change (spec_call (nm "find_last") [AV a; AV b; AV c]) with (find_from true a b c).
  rewrite fault_find_from by assumption. fin.
Qed.
Lemma faults_find_last_4 a b c d : Forall plain [a; b; c; d] ->
  fault_of (spec_call (nm "find_last") [AV a; AV b; AV c; AV d]) = expected_fault [tstr; tstr; tnum; tnum] (nm "find_last") [a; b; c; d].
Proof.
  intros P. getplain. change (spec_call (nm "find_last") [AV a; AV b; AV c; AV d]) with (find_between true a b c d).
  rewrite fault_find_between by assumption. fin.
Qed.
Lemma faults_floor_1 a : Forall plain [a] ->
  fault_of (spec_call (nm "floor") [AV a]) = expected_fault [tnum] (nm "floor") [a].
Proof.
  intros P. getplain. change (spec_call (nm "floor") [AV a]) with (num1 ffloor dec_floor a).
  rewrite fault_num1. fin.
Qed.
Lemma faults_from_items_1 a : Forall plain [a] ->
  fault_of (spec_call (nm "from_items") [AV a]) = expected_fault [TArrOf [JArray]] (nm "from_items") [a].
Proof.
  intros P. getplain. change (spec_call (nm "from_items") [AV a]) with (from_items a).
  rewrite fault_from_items. fin.
Qed.
Lemma faults_items_1 a : Forall plain [a] ->
  fault_of (spec_call (nm "items") [AV a]) = expected_fault [tobj] (nm "items") [a].
Proof.
  intros P. getplain. change (spec_call (nm "items") [AV a]) with (items a).
  rewrite fault_items. fin.
Qed.
Lemma faults_join_2 a b : Forall plain [a; b] ->
  fault_of (spec_call (nm "join") [AV a; AV b]) = expected_fault [tstr; TArrOf [JString]] (nm "join") [a; b].
Proof.
  intros P. getplain. change (spec_call (nm "join") [AV a; AV b]) with (join a b).
  rewrite fault_join. fin.
Qed.
Lemma faults_keys_1 a : Forall plain [a] ->
  fault_of (spec_call (nm "keys") [AV a]) = expected_fault [tobj] (nm "keys") [a].
Proof.
  intros P. getplain. change (spec_call (nm "keys") [AV a]) with (keys a).
  rewrite fault_keys. fin.
Qed.
Lemma faults_length_1 a : Forall plain [a] ->
  fault_of (spec_call (nm "length") [AV a]) = expected_fault [TOf [JString; JArray; JObject]] (nm "length") [a].
Proof.
  intros P. getplain. change (spec_call (nm "length") [AV a]) with (length_ a).
  rewrite fault_length. fin.
Qed.
Lemma faults_lower_1 a : Forall plain [a] ->
  fault_of (spec_call (nm "lower") [AV a]) = expected_fault [tstr] (nm "lower") [a].
Proof.
  intros P. getplain. change (spec_call (nm "lower") [AV a]) with (lower a).
  rewrite fault_lower. fin.
Qed.
Lemma faults_max_1 a : Forall plain [a] ->
  fault_of (spec_call (nm "max") [AV a]) = expected_fault [TArrNumOrStr] (nm "max") [a].
Proof.
  intros P. getplain. change (spec_call (nm "max") [AV a]) with (array_extreme true a).
  rewrite fault_array_extreme. fin.
Qed.
Lemma faults_min_1 a : Forall plain [a] ->
  fault_of (spec_call (nm "min") [AV a]) = expected_fault [TArrNumOrStr] (nm "min") [a].
Proof.
  intros P. getplain. change (spec_call (nm "min") [AV a]) with (array_extreme false a).
  rewrite fault_array_extreme. fin.
Qed.
Lemma faults_pad_left_2 a b : Forall plain [a; b] ->
  fault_of (spec_call (nm "pad_left") [AV a; AV b]) = expected_fault [tstr; tnum] (nm "pad_left") [a; b].
Proof.
  intros P. getplain. change (spec_call (nm "pad_left") [AV a; AV b]) with (pad true a b None).
  rewrite fault_pad2 by assumption. fin.
Qed.
Lemma faults_pad_left_3 a b c : Forall plain [a; b; c] ->
  fault_of (spec_call (nm "pad_left") [AV a; AV b; AV c]) = expected_fault [tstr; tnum; tstr] (nm "pad_left") [a; b; c].
Proof.
  intros P. getplain. change (spec_call (nm "pad_left") [AV a; AV b; AV c]) with (pad true a b (Some c)).
  rewrite fault_pad3 by assumption. fin.
Qed.
Lemma faults_pad_right_2 a b : Forall plain [a; b] ->
  fault_of (spec_call (nm "pad_right") [AV a; AV b]) = expected_fault [tstr; tnum] (nm "pad_right") [a; b].
Proof.
  intros P. getplain. change (spec_call (nm "pad_right") [AV a; AV b]) with (pad false a b None).
  rewrite fault_pad2 by assumption. fin.
Qed.
Lemma faults_pad_right_3 a b c : Forall plain [a; b; c] ->
  fault_of (spec_call (nm "pad_right") [AV a; AV b; AV c]) = expected_fault [tstr; tnum; tstr] (nm "pad_right") [a; b; c].
Proof.
  intros P. getplain. change (spec_call (nm "pad_right") [AV a; AV b; AV c]) with (pad false a b (Some c)).
  rewrite fault_pad3 by assumption. fin.
Qed.
Lemma faults_replace_3 a b c : Forall plain [a; b; c] ->
  fault_of (spec_call (nm "replace") [AV a; AV b; AV c]) = expected_fault [tstr; tstr; tstr] (nm "replace") [a; b; c].
Proof.
  intros P. getplain. change (spec_call (nm "replace") [AV a; AV b; AV c]) with (replace a b c).
  rewrite fault_replace. fin.
Qed.
Lemma faults_replace_4 a b c d : Forall plain [a; b; c; d] ->
  fault_of (spec_call (nm "replace") [AV a; AV b; AV c; AV d]) = expected_fault [tstr; tstr; tstr; tnum] (nm "replace") [a; b; c; d].
Proof.
  intros P. getplain. change (spec_call (nm "replace") [AV a; AV b; AV c; AV d]) with (replace_count a b c d).
  rewrite fault_replace_count by assumption. fin.
Qed.
Lemma faults_reverse_1 a : Forall plain [a] ->
  fault_of (spec_call (nm "reverse") [AV a]) = expected_fault [TOf [JArray; JString]] (nm "reverse") [a].
Proof.
  intros P. getplain. change (spec_call (nm "reverse") [AV a]) with (reverse a).
  rewrite fault_reverse. fin.
Qed.
Lemma faults_sort_1 a : Forall plain [a] ->
  fault_of (spec_call (nm "sort") [AV a]) = expected_fault [TArrNumOrStr] (nm "sort") [a].
Proof.
  intros P. getplain. change (spec_call (nm "sort") [AV a]) with (sort_array a).
  rewrite fault_sort_array. fin.
Qed.
Lemma faults_split_2 a b : Forall plain [a; b] ->
  fault_of (spec_call (nm "split") [AV a; AV b]) = expected_fault [tstr; tstr] (nm "split") [a; b].
Proof.
  intros P. getplain. change (spec_call (nm "split") [AV a; AV b]) with (call2 FSplit a b).
  rewrite fault_call2_str2 by exact I. fin.
Qed.
Lemma faults_split_3 a b c : Forall plain [a; b; c] ->
  fault_of (spec_call (nm "split") [AV a; AV b; AV c]) = expected_fault [tstr; tstr; tnum] (nm "split") [a; b; c].
Proof.
  intros P. getplain. change (spec_call (nm "split") [AV a; AV b; AV c]) with (split_count a b c).
  rewrite fault_split_count by assumption. fin.
Qed.
Lemma faults_starts_with_2 a b : Forall plain [a; b] ->
  fault_of (spec_call (nm "starts_with") [AV a; AV b]) = expected_fault [tstr; tstr] (nm "starts_with") [a; b].
Proof.
  intros P. getplain. change (spec_call (nm "starts_with") [AV a; AV b]) with (call2 FStartsWith a b).
  rewrite fault_call2_str2 by exact I. fin.
Qed.
Lemma faults_sum_1 a : Forall plain [a] ->
  fault_of (spec_call (nm "sum") [AV a]) = expected_fault [TArrOf [JNumber]] (nm "sum") [a].
Proof.
  intros P. getplain. change (spec_call (nm "sum") [AV a]) with (sum a).
  rewrite fault_sum. fin.
Qed.
Lemma faults_to_array_1 a : Forall plain [a] ->
  fault_of (spec_call (nm "to_array") [AV a]) = expected_fault [TAny] (nm "to_array") [a].
Proof.
  intros P. getplain. change (spec_call (nm "to_array") [AV a]) with (@Ok value (to_array a)).
  idtac. fin.
Qed.
Lemma faults_to_number_1 a : Forall plain [a] ->
  fault_of (spec_call (nm "to_number") [AV a]) = expected_fault [TAny] (nm "to_number") [a].
Proof.
  intros P. getplain. change (spec_call (nm "to_number") [AV a]) with (@Ok value (to_number a)).
  idtac. fin.
Qed.
Lemma faults_to_string_1 a : Forall plain [a] ->
  fault_of (spec_call (nm "to_string") [AV a]) = expected_fault [TAny] (nm "to_string") [a].
Proof.
  intros P. getplain. change (spec_call (nm "to_string") [AV a]) with (to_string a).
  rewrite fault_to_string. fin.
Qed.
Lemma faults_trim_1 a : Forall plain [a] ->
  fault_of (spec_call (nm "trim") [AV a]) = expected_fault [tstr] (nm "trim") [a].
Proof.
  intros P. getplain. change (spec_call (nm "trim") [AV a]) with (trim_space a).
  rewrite fault_trim_space. fin.
Qed.
Lemma faults_trim_2 a b : Forall plain [a; b] ->
  fault_of (spec_call (nm "trim") [AV a; AV b]) = expected_fault [tstr; tstr] (nm "trim") [a; b].
Proof.
  intros P. getplain. change (spec_call (nm "trim") [AV a; AV b]) with (call2 FTrim a b).
  rewrite fault_call2_str2 by exact I. fin.
Qed.
Lemma faults_trim_left_1 a : Forall plain [a] ->
  fault_of (spec_call (nm "trim_left") [AV a]) = expected_fault [tstr] (nm "trim_left") [a].
Proof.
  intros P. getplain. change (spec_call (nm "trim_left") [AV a]) with (trim_space_left a).
  rewrite fault_trim_space_left. fin.
Qed.
Lemma faults_trim_left_2 a b : Forall plain [a; b] ->
  fault_of (spec_call (nm "trim_left") [AV a; AV b]) = expected_fault [tstr; tstr] (nm "trim_left") [a; b].
Proof.
  intros P. getplain. change (spec_call (nm "trim_left") [AV a; AV b]) with (call2 FTrimLeft a b).
  rewrite fault_call2_str2 by exact I. fin.
Qed.
Lemma faults_trim_right_1 a : Forall plain [a] ->
  fault_of (spec_call (nm "trim_right") [AV a]) = expected_fault [tstr] (nm "trim_right") [a].
Proof.
  intros P. getplain. change (spec_call (nm "trim_right") [AV a]) with (trim_space_right a).
  rewrite fault_trim_space_right. fin.
Qed.
Lemma faults_trim_right_2 a b : Forall plain [a; b] ->
  fault_of (spec_call (nm "trim_right") [AV a; AV b]) = expected_fault [tstr; tstr] (nm "trim_right") [a; b].
Proof.
  intros P. getplain. change (spec_call (nm "trim_right") [AV a; AV b]) with (call2 FTrimRight a b).
  rewrite fault_call2_str2 by exact I. fin.
Qed.
Lemma faults_type_1 a : Forall plain [a] ->
  fault_of (spec_call (nm "type") [AV a]) = expected_fault [TAny] (nm "type") [a].
Proof.
  intros P. getplain. change (spec_call (nm "type") [AV a]) with (type_name a).
  rewrite fault_type_name by assumption. fin.
Qed.
Lemma faults_upper_1 a : Forall plain [a] ->
  fault_of (spec_call (nm "upper") [AV a]) = expected_fault [tstr] (nm "upper") [a].
Proof.
  intros P. getplain. change (spec_call (nm "upper") [AV a]) with (upper a).
  rewrite fault_upper. fin.
Qed.
Lemma faults_values_1 a : Forall plain [a] ->
  fault_of (spec_call (nm "values") [AV a]) = expected_fault [tobj] (nm "values") [a].
Proof.
  intros P. getplain. change (spec_call (nm "values") [AV a]) with (values a).
  rewrite fault_values. fin.
Qed.

Ltac fix_arity :=
  match goal with
  | I : In _ _ |- _ => simpl in I; repeat (destruct I as [<-|I]); try contradiction
  end;
  match goal with
  | L : length ?vs = _ |- _ =>
    destruct vs as [|?a [|?b [|?c [|?d [|?x ?r]]]]]; try discriminate L
  end; cbn [map].

(* THE SUMMARY for the built-ins taking a fixed number of value arguments
   (all but the five expression-reference functions and the three variadic
   ones, which have their own theorems): the fault category of a call
   is determined by the signature and the range conditions, type faults first. *)
Theorem C02_faults : forall f ars tys vs,
  signature f = Some (SFixed ars) -> In tys ars -> existsb is_expr_ty tys = false ->
  length vs = length tys -> Forall plain vs ->
  fault_of (spec_call f (map AV vs)) = expected_fault tys f vs.
Proof.
  intros f ars tys vs S I NE L P.
  apply assoc_some_in in S. unfold sig_table in S. cbn [In] in S.
  destruct S as [S|S]; [injection S as <- <-; fix_arity; [ apply faults_abs_1; exact P ]|]. (* abs *)
  destruct S as [S|S]; [injection S as <- <-; fix_arity; [ apply faults_avg_1; exact P ]|]. (* avg *)
  destruct S as [S|S]; [injection S as <- <-; fix_arity; [ apply faults_ceil_1; exact P ]|]. (* ceil *)
  destruct S as [S|S]; [injection S as <- <-; fix_arity; [ apply faults_contains_2; exact P ]|]. (* contains *)
  destruct S as [S|S]; [injection S as <- <-; fix_arity; [ apply faults_ends_with_2; exact P ]|]. (* ends_with *)
  destruct S as [S|S]; [injection S as <- <-; fix_arity; [ apply faults_find_first_2; exact P | apply faults_find_first_3; exact P | apply faults_find_first_4; exact P ]|]. (* find_first *)
  destruct S as [S|S]; [injection S as <- <-; fix_arity; [ apply faults_find_last_2; exact P | apply faults_find_last_3; exact P | apply faults_find_last_4; exact P ]|]. (* find_last *)
  destruct S as [S|S]; [injection S as <- <-; fix_arity; [ apply faults_floor_1; exact P ]|]. (* floor *)
  destruct S as [S|S]; [injection S as <- <-; fix_arity; [ apply faults_from_items_1; exact P ]|]. (* from_items *)
  destruct S as [S|S]; [injection S as <- <-; fix_arity; discriminate NE|]. (* group_by *)
  destruct S as [S|S]; [injection S as <- <-; fix_arity; [ apply faults_items_1; exact P ]|]. (* items *)
  destruct S as [S|S]; [injection S as <- <-; fix_arity; [ apply faults_join_2; exact P ]|]. (* join *)
  destruct S as [S|S]; [injection S as <- <-; fix_arity; [ apply faults_keys_1; exact P ]|]. (* keys *)
  destruct S as [S|S]; [injection S as <- <-; fix_arity; [ apply faults_length_1; exact P ]|]. (* length *)
  destruct S as [S|S]; [injection S as <- <-; fix_arity; [ apply faults_lower_1; exact P ]|]. (* lower *)
  destruct S as [S|S]; [injection S as <- <-; fix_arity; discriminate NE|]. (* map *)
  destruct S as [S|S]; [injection S as <- <-; fix_arity; [ apply faults_max_1; exact P ]|]. (* max *)
  destruct S as [S|S]; [injection S as <- <-; fix_arity; discriminate NE|]. (* max_by *)
  destruct S as [S|S]; [discriminate S|]. (* merge *)
  destruct S as [S|S]; [injection S as <- <-; fix_arity; [ apply faults_min_1; exact P ]|]. (* min *)
  destruct S as [S|S]; [injection S as <- <-; fix_arity; discriminate NE|]. (* min_by *)
  destruct S as [S|S]; [discriminate S|]. (* not_null *)
  destruct S as [S|S]; [injection S as <- <-; fix_arity; [ apply faults_pad_left_2; exact P | apply faults_pad_left_3; exact P ]|]. (* pad_left *)
  destruct S as [S|S]; [injection S as <- <-; fix_arity; [ apply faults_pad_right_2; exact P | apply faults_pad_right_3; exact P ]|]. (* pad_right *)
  destruct S as [S|S]; [injection S as <- <-; fix_arity; [ apply faults_replace_3; exact P | apply faults_replace_4; exact P ]|]. (* replace *)
  destruct S as [S|S]; [injection S as <- <-; fix_arity; [ apply faults_reverse_1; exact P ]|]. (* reverse *)
  destruct S as [S|S]; [injection S as <- <-; fix_arity; [ apply faults_sort_1; exact P ]|]. (* sort *)
  destruct S as [S|S]; [injection S as <- <-; fix_arity; discriminate NE|]. (* sort_by *)
  destruct S as [S|S]; [injection S as <- <-; fix_arity; [ apply faults_split_2; exact P | apply faults_split_3; exact P ]|]. (* split *)
  destruct S as [S|S]; [injection S as <- <-; fix_arity; [ apply faults_starts_with_2; exact P ]|]. (* starts_with *)
  destruct S as [S|S]; [injection S as <- <-; fix_arity; [ apply faults_sum_1; exact P ]|]. (* sum *)
  destruct S as [S|S]; [injection S as <- <-; fix_arity; [ apply faults_to_array_1; exact P ]|]. (* to_array *)
  destruct S as [S|S]; [injection S as <- <-; fix_arity; [ apply faults_to_number_1; exact P ]|]. (* to_number *)
  destruct S as [S|S]; [injection S as <- <-; fix_arity; [ apply faults_to_string_1; exact P ]|]. (* to_string *)
  destruct S as [S|S]; [injection S as <- <-; fix_arity; [ apply faults_trim_1; exact P | apply faults_trim_2; exact P ]|]. (* trim *)
  destruct S as [S|S]; [injection S as <- <-; fix_arity; [ apply faults_trim_left_1; exact P | apply faults_trim_left_2; exact P ]|]. (* trim_left *)
  destruct S as [S|S]; [injection S as <- <-; fix_arity; [ apply faults_trim_right_1; exact P | apply faults_trim_right_2; exact P ]|]. (* trim_right *)
  destruct S as [S|S]; [injection S as <- <-; fix_arity; [ apply faults_type_1; exact P ]|]. (* type *)
  destruct S as [S|S]; [injection S as <- <-; fix_arity; [ apply faults_upper_1; exact P ]|]. (* upper *)
  destruct S as [S|S]; [injection S as <- <-; fix_arity; [ apply faults_values_1; exact P ]|]. (* values *)
  destruct S as [S|S]; [discriminate S|]. (* zip *)
  contradiction.
Qed.

(* ---- 2h. (A1) and (A2) as equivalences ---- *)
Section Corollaries.
  Variables (f : bytes) (ars : list (list argty)) (tys : list argty) (vs : list value).
  Hypothesis S : signature f = Some (SFixed ars).
  Hypothesis I : In tys ars.
  Hypothesis NE : existsb is_expr_ty tys = false.
  Hypothesis L : length vs = length tys.
  Hypothesis P : Forall plain vs.

  (* (A1) precise: invalid-type exactly when some argument is ill-typed FOR THE
     IMPLEMENTATION: outside the signature, or a number decimal128 cannot hold *)
  Theorem C02_type_error :
    spec_call f (map AV vs) = Err EInvalidType <-> args_ty_ok tys vs = false.
  Proof.
    rewrite <- fault_type_iff, (C02_faults f ars tys vs S I NE L P). unfold expected_fault.
    destruct (args_ty_ok tys vs); cbn [negb]; [|tauto].
    destruct (value_fault f vs); split; discriminate.
  Qed.
  Corollary C02_type_error_split :
    spec_call f (map AV vs) = Err EInvalidType <->
    args_have_ty tys vs = false \/ args_in_range tys vs = false.
  Proof.
    rewrite C02_type_error, args_ty_ok_split.
    destruct (args_have_ty tys vs), (args_in_range tys vs); cbn; intuition discriminate.
  Qed.
  (* (A1) as the property states it, for documents whose numbers fit decimal128 *)
  Corollary C02_type_error_representable : Forall (fun v => all_representable v = true) vs ->
    (spec_call f (map AV vs) = Err EInvalidType <-> args_have_ty tys vs = false).
  Proof.
    intros R. rewrite C02_type_error_split.
    assert (A : args_in_range tys vs = true).
    { clear -R. revert tys. induction R as [|v vs' Hv _ IH]; intros [|t tys']; try reflexivity.
      cbn [args_in_range]. rewrite in_range_all_representable by exact Hv. apply IH. }
    rewrite A. intuition discriminate.
  Qed.

  (* (A2) precise: invalid-value exactly when all arguments are well typed and
     a count, width, offset or pad string is out of range *)
  Theorem C02_value_error :
    (exists e, spec_call f (map AV vs) = Err e /\ eval_category e = CInvalidValue) <->
    args_ty_ok tys vs = true /\ value_fault f vs = true.
  Proof.
    rewrite <- fault_value_iff, (C02_faults f ars tys vs S I NE L P). unfold expected_fault.
    destruct (args_ty_ok tys vs); cbn [negb]; [|intuition discriminate].
    destruct (value_fault f vs); intuition discriminate.
  Qed.
  (* no fault at all exactly when well typed and in range *)
  Corollary C02_no_fault :
    fault_of (spec_call f (map AV vs)) = None <->
    args_ty_ok tys vs = true /\ value_fault f vs = false.
  Proof.
    rewrite (C02_faults f ars tys vs S I NE L P). unfold expected_fault.
    destruct (args_ty_ok tys vs); cbn [negb]; [|intuition discriminate].
    destruct (value_fault f vs); intuition discriminate.
  Qed.
End Corollaries.

(* the same for JSON documents (encoding/json with UseNumber); [plain] is
   weaker: it only excludes float32/float64 numbers (whose conversion to int is
   not fully modelled), out-of-range sized integers and non-JSON Go values at
   the top level of an argument.  The per-function lemmas [fault_num1],
   [fault_sum], [fault_array_extreme], [fault_sort_array], [fault_join],
   [fault_contains], ... need no such hypothesis at all: they hold for every Go value. *)
Lemma json_values_plain vs : Forall (fun v => json_value v = true) vs -> Forall plain vs.
Proof. induction 1; constructor; [apply json_value_plain; assumption|assumption]. Qed.
Corollary C02_faults_json : forall f ars tys vs,
  signature f = Some (SFixed ars) -> In tys ars -> existsb is_expr_ty tys = false ->
  length vs = length tys -> Forall (fun v => json_value v = true) vs ->
  fault_of (spec_call f (map AV vs)) = expected_fault tys f vs.
Proof. intros. apply (C02_faults f ars); auto using json_values_plain. Qed.

(* from_items, stated on [spec_call] (an instance of [C02_faults], without [plain]) *)
Corollary C02_from_items : forall v,
  fault_of (spec_call (nm "from_items") [AV v]) = expected_fault [TArrOf [JArray]] (nm "from_items") [v].
Proof.
  intros v. change (spec_call (nm "from_items") [AV v]) with (from_items v). rewrite fault_from_items.
  unfold expected_fault. cbn [args_ty_ok]. rewrite andb_true_r.
  destruct (ty_ok (TArrOf [JArray]) v); reflexivity.
Qed.

(* "integer" and "one character" in standard terms *)
Lemma int_of_vint : forall z, in_int z = true -> int_of (vint z) = Some z.
Proof.
  intros z H. unfold int_of, vint. cbn [to_decimal].
  assert (B : Z.abs z < P34).
  { unfold in_int, MinInt, MaxInt in H. apply andb_true_iff in H as [H1 H2]. apply Z.leb_le in H1, H2.
    unfold P34. assert (9223372036854775808 < 10 ^ 34) by reflexivity. lia. }
  rewrite (dec_of_Z_exact z B). cbn [dec_integer Z.leb Z.compare]. change (10 ^ 0) with 1. rewrite Z.mul_1_r.
  replace (sgn (z <? 0) (Z.abs z)) with z by (unfold sgn; destruct (Z.ltb_spec z 0); lia).
  rewrite H. reflexivity.
Qed.
Lemma not_one_char_code_points : forall cs, scalars cs ->
  not_one_char (VStr (encode_all cs)) = negb (Nat.eqb (length cs) 1).
Proof.
  intros cs H. unfold not_one_char. cbn [str_of]. rewrite (rune_count_encode_all cs H).
  destruct cs as [|c [|d r]]; try reflexivity. cbn [length].
  destruct (Z.eqb_spec (Z.of_nat (S (S (length r)))) 1); [lia|reflexivity].
Qed.

(* FINDING 1 (A1): a JSON number outside the decimal128 range is rejected as
   "not a number" by every built-in that takes numbers: abs(`1e7000`),
   sum([`1e7000`]), max, sort, pad_left('a', `1e7000`), ... raise invalid-type
   although the argument IS a number. *)
Example type_error_unrepresentable_refuted :
  let big := VNum (NJson (bs "1e7000")) in
  json_value big = true /\ has_ty tnum big = true /\ representable big = false /\
  spec_call (nm "abs") [AV big] = Err EInvalidType /\
  spec_call (nm "sum") [AV (VArr [big])] = Err EInvalidType /\
  spec_call (nm "max") [AV (VArr [big])] = Err EInvalidType /\
  spec_call (nm "sort") [AV (VArr [big])] = Err EInvalidType /\
  spec_call (nm "pad_left") [AV (VStr (bs "a")); AV big] = Err EInvalidType /\
  search (bs "abs(`1e7000`)") VNull = RError CInvalidType /\
  search (bs "sum([`1e7000`])") VNull = RError CInvalidType /\
  search (bs "type(`1e7000`)") VNull = RValue (VStr (bs "number")).
Proof. vm_compute. repeat split. Qed.

(* formerly a finding (replace accepted a negative count); repaired: a negative
   count is an invalid-value error, as for split *)
Example replace_negative_count :
  let args := [VStr (bs "aa"); VStr (bs "a"); VStr (bs "b"); VNum (NJson (bs "-1"))] in
  value_fault (nm "replace") args = true /\
  spec_call (nm "replace") (map AV args) = Err ENegativeInteger /\
  search (bs "replace('aa', 'a', 'b', `-1`)") VNull = RError CInvalidValue /\
  search (bs "replace('aa', 'a', 'b', `0`)") VNull = RValue (VStr (bs "aa")) /\
  search (bs "split('aa', 'a', `-1`)") VNull = RError CInvalidValue.
Proof. vm_compute. repeat split. Qed.

(* the order of faults asked about in the task: type before value everywhere *)
Example fault_order_examples :
  search (bs "pad_left('a', `-1`, `5`)") VNull = RError CInvalidType /\
  search (bs "pad_left(`1`, `-1`)") VNull = RError CInvalidType /\
  search (bs "pad_left('a', `-1`, 'xy')") VNull = RError CInvalidValue /\
  search (bs "pad_left('a', `1.5`)") VNull = RError CInvalidValue /\
  search (bs "pad_left('a', `3`, '')") VNull = RError CInvalidValue /\
  search (bs "split('a', `1`, `-1`)") VNull = RError CInvalidType /\
  search (bs "find_first('a', 'a', `1.5`, 'x')") VNull = RError CInvalidType /\
  search (bs "find_first('a', 'a', `1.5`, `2`)") VNull = RError CInvalidValue /\
  search (bs "find_first('a', 'a', `-3`)") VNull = RValue (VNum (NInt I64 0)) /\
  search (bs "replace('a', 'a', `1`, `0.5`)") VNull = RError CInvalidType /\
  search (bs "pad_left('a', `3.0`)") VNull = RValue (VStr (bs "  a")) /\
  search (bs "pad_left('a', `1e400`)") VNull = RError CInvalidValue.
Proof. vm_compute. repeat split. Qed.

(* ---- 2i. the built-ins taking an expression reference ---- *)
(* the keys are the results of applying the reference to EVERY element, the
   element being the current node: [mapM e a = Ok ks].  They must all be
   strings (group_by), all numbers or all strings (sort_by, max_by, min_by),
   anything (map). *)
Definition keys_ok (k : keyty) (ks : list value) : bool :=
  match k with
  | KAny => true
  | KString => forallb isstr ks
  | KNumberOrString => forallb numrep ks || forallb isstr ks
  end.

Lemma mapM_cons_inv {A B} (e : A -> outcome B) x l ks :
  mapM e (x :: l) = Ok ks -> exists k ks', e x = Ok k /\ mapM e l = Ok ks' /\ ks = k :: ks'.
Proof.
  cbn [mapM]. destruct (e x) as [k| | | |]; try discriminate. cbn [bind].
  destruct (mapM e l) as [ks'| | | |]; try discriminate. cbn [bind]. intros H; inversion H. eauto.
Qed.
Lemma mapM_Forall2 {A B} (e : A -> outcome B) : forall l ks,
  mapM e l = Ok ks <-> Forall2 (fun x y => e x = Ok y) l ks.
Proof.
  induction l as [|x l IH]; intros ks.
  - cbn. split; [intros H; inversion H; constructor|intros H; inversion H; reflexivity].
  - split.
    + intros H. apply mapM_cons_inv in H as (k & ks' & E & M & ->). constructor; [exact E|apply IH; exact M].
    + intros H. inversion H as [|? y ? ks' E F]; subst. cbn [mapM]. rewrite E. cbn [bind].
      apply IH in F. rewrite F. reflexivity.
Qed.

Section ByFaults.
  Variable e : value -> outcome value.

  Lemma str_keys_cases : forall l ks, mapM e l = Ok ks ->
    (forallb isstr ks = true /\ exists ss, str_keys e l = Ok ss) \/
    (forallb isstr ks = false /\ str_keys e l = Err EInvalidType).
  Proof.
    induction l as [|x l IH]; intros ks H.
    - inversion H. left. split; [reflexivity|eexists; reflexivity].
    - apply mapM_cons_inv in H as (k & ks' & E & M & ->). cbn [str_keys]. rewrite E. cbn [bind forallb].
      destruct k; try (right; split; reflexivity). cbn [isstr andb].
      destruct (IH ks' M) as [[A [ss B]]|[A B]]; rewrite B; cbn [bind]; [left|right]; split; eauto.
  Qed.
  Lemma num_keys_cases : forall l ks, mapM e l = Ok ks ->
    (forallb numrep ks = true /\ exists ds, num_keys e l = Ok ds) \/
    (forallb numrep ks = false /\ num_keys e l = Err EInvalidType).
  Proof.
    induction l as [|x l IH]; intros ks H.
    - inversion H. left. split; [reflexivity|eexists; reflexivity].
    - apply mapM_cons_inv in H as (k & ks' & E & M & ->). cbn [num_keys]. rewrite E. cbn [bind forallb].
      unfold numrep at 1 3. destruct (to_decimal k); [|right; split; reflexivity]. cbn [andb].
      destruct (IH ks' M) as [[A [ds B]]|[A B]]; rewrite B; cbn [bind]; [left|right]; split; eauto.
  Qed.
  Lemma keys_for_cases : forall a0 rest ks, mapM e (a0 :: rest) = Ok ks ->
    (keys_ok KNumberOrString ks = true /\
     ((exists s ss, keys_for e a0 rest = Ok (KStr (s :: ss))) \/
      (exists d ds, keys_for e a0 rest = Ok (KNum (d :: ds))))) \/
    (keys_ok KNumberOrString ks = false /\ keys_for e a0 rest = Err EInvalidType).
  Proof.
    intros a0 rest ks H. apply mapM_cons_inv in H as (k & ks' & E & M & ->).
    unfold keys_for. rewrite E. cbn [bind keys_ok forallb].
    destruct k; try (right; split; reflexivity).
    - (* string first *)
      cbn [isstr andb]. change (numrep (VStr s)) with false. cbn [andb orb].
      destruct (str_keys_cases rest ks' M) as [[A [ss B]]|[A B]]; rewrite A, B; cbn [bind]; [left|right]; split; eauto.
    - (* number first *)
      cbn [isstr andb]. rewrite !orb_false_r. unfold numrep at 1 3.
      destruct (to_decimal (VNum n)) as [d|]; [|right; split; reflexivity]. cbn [andb].
      destruct (num_keys_cases rest ks' M) as [[A [ds B]]|[A B]]; rewrite A, B; cbn [bind]; [left|right]; split; eauto.
  Qed.

  Lemma fault_sort_array_by : forall a ks, mapM e a = Ok ks ->
    fault_of (sort_array_by e (VArr a)) = if keys_ok KNumberOrString ks then None else Some FType.
  Proof.
    intros [|a0 rest] ks H; [inversion H; reflexivity|]. cbn [sort_array_by].
    destruct (keys_for_cases a0 rest ks H) as [[A [(s & ss & B)|(d & ds & B)]]|[A B]]; rewrite A, B; reflexivity.
  Qed.
  Lemma fault_array_extreme_by : forall gt a ks, mapM e a = Ok ks ->
    fault_of (array_extreme_by e gt (VArr a)) = if keys_ok KNumberOrString ks then None else Some FType.
  Proof.
    intros gt [|a0 rest] ks H; [inversion H; reflexivity|]. cbn [array_extreme_by].
    destruct (keys_for_cases a0 rest ks H) as [[A [(s & ss & B)|(d & ds & B)]]|[A B]]; rewrite A, B; reflexivity.
  Qed.
  Lemma group_loop_cases : forall l ks acc, mapM e l = Ok ks ->
    (forallb isstr ks = true /\ exists m, group_loop e l acc = Ok m) \/
    (forallb isstr ks = false /\ group_loop e l acc = Err EInvalidType).
  Proof.
    induction l as [|x l IH]; intros ks acc H.
    - inversion H. left. split; [reflexivity|eexists; reflexivity].
    - apply mapM_cons_inv in H as (k & ks' & E & M & ->). cbn [group_loop]. rewrite E. cbn [bind forallb].
      destruct k; try (right; split; reflexivity). cbn [isstr andb]. apply IH. exact M.
  Qed.
  Lemma fault_group_by : forall a ks, mapM e a = Ok ks ->
    fault_of (group_by e (VArr a)) = if keys_ok KString ks then None else Some FType.
  Proof.
    intros [|a0 rest] ks H; [inversion H; reflexivity|]. cbn [group_by keys_ok].
    destruct (group_loop_cases (a0 :: rest) ks [] H) as [[A [m B]]|[A B]]; rewrite A, B; reflexivity.
  Qed.
  Lemma fault_map_array : forall a ks, mapM e a = Ok ks ->
    map_array e (VArr a) = Ok (VArr ks).
  Proof. intros a ks H. cbn [map_array]. rewrite H. reflexivity. Qed.
End ByFaults.

(* THE SUMMARY for group_by, max_by, min_by, sort_by: invalid-type exactly
   when the first argument is no array or the keys do not have the type the
   signature gives the expression reference *)
Theorem C02_expref_faults : forall f k e v,
  signature f = Some (SFixed [[tarr; TExpr k]]) ->
  (ty_ok tarr v = false -> spec_call f [AV v; AF e] = Err EInvalidType) /\
  (forall a ks, v = VArr a -> mapM e a = Ok ks ->
     fault_of (spec_call f [AV v; AF e]) = if keys_ok k ks then None else Some FType).
Proof.
  intros f k e v S. apply assoc_some_in in S. unfold sig_table in S. cbn [In] in S.
  repeat (match type of S with _ \/ _ => idtac end;
          destruct S as [S|S]; [first [discriminate S | injection S as <- <-] | ]); try contradiction.
  - (* group_by *) split.
    + intros T. destruct v; try reflexivity. discriminate T.
    + intros a ks -> M. change (spec_call (nm "group_by") [AV (VArr a); AF e]) with (group_by e (VArr a)).
      apply fault_group_by. exact M.
  - (* max_by *) split.
    + intros T. destruct v; try reflexivity. discriminate T.
    + intros a ks -> M. change (spec_call (nm "max_by") [AV (VArr a); AF e]) with (array_extreme_by e true (VArr a)).
      apply fault_array_extreme_by. exact M.
  - (* min_by *) split.
    + intros T. destruct v; try reflexivity. discriminate T.
    + intros a ks -> M. change (spec_call (nm "min_by") [AV (VArr a); AF e]) with (array_extreme_by e false (VArr a)).
      apply fault_array_extreme_by. exact M.
  - (* sort_by *) split.
    + intros T. destruct v; try reflexivity. discriminate T.
    + intros a ks -> M. change (spec_call (nm "sort_by") [AV (VArr a); AF e]) with (sort_array_by e (VArr a)).
      apply fault_sort_array_by. exact M.
Qed.

(* map: the reference is applied to every element, in order, with the element
   as current node; the results are kept as they are (nulls included) *)
Theorem C02_map : forall e v,
  (ty_ok tarr v = false -> spec_call (nm "map") [AF e; AV v] = Err EInvalidType) /\
  (forall a r, v = VArr a ->
     (spec_call (nm "map") [AF e; AV v] = Ok (VArr r) <-> Forall2 (fun x y => e x = Ok y) a r)).
Proof.
  intros e v. split.
  - intros T. destruct v; try reflexivity. discriminate T.
  - intros a r ->. change (spec_call (nm "map") [AF e; AV (VArr a)]) with (map_array e (VArr a)).
    rewrite <- mapM_Forall2. cbn [map_array]. destruct (mapM e a); cbn [bind]; split; intros H; inversion H; reflexivity.
Qed.
Lemma Forall2_len {A B} (R : A -> B -> Prop) l l' : Forall2 R l l' -> length l = length l'.
Proof. induction 1; simpl; congruence. Qed.
Corollary map_keeps_length : forall e a r,
  spec_call (nm "map") [AF e; AV (VArr a)] = Ok (VArr r) -> length r = length a.
Proof.
  intros e a r H. apply (proj2 (C02_map e (VArr a)) a r eq_refl) in H.
  symmetry. eapply Forall2_len. exact H.
Qed.

(* an error of the expression reference is the error of the call, provided the
   keys of the elements before it were well typed (the elements are visited in order) *)
Section ByErrors.
  Variable e : value -> outcome value.
  Variables (x : value) (post : list value) (err : Outcome.err).
  Hypothesis Ex : e x = Err err.

  Lemma mapM_err : forall pre ks, mapM e pre = Ok ks -> mapM e (pre ++ x :: post) = Err err.
  Proof.
    induction pre as [|p pre IH]; intros ks M; cbn [app mapM]; [rewrite Ex; reflexivity|].
    apply mapM_cons_inv in M as (k & ks' & E & M & ->). rewrite E. cbn [bind]. rewrite (IH ks' M). reflexivity.
  Qed.
  Lemma str_keys_err : forall pre ks, mapM e pre = Ok ks -> forallb isstr ks = true ->
    str_keys e (pre ++ x :: post) = Err err.
  Proof.
    induction pre as [|p pre IH]; intros ks M S; cbn [app str_keys]; [rewrite Ex; reflexivity|].
    apply mapM_cons_inv in M as (k & ks' & E & M & ->). rewrite E. cbn [bind forallb] in *.
    apply andb_true_iff in S as [S1 S2]. destruct k; try discriminate S1. rewrite (IH ks' M S2). reflexivity.
  Qed.
  Lemma num_keys_err : forall pre ks, mapM e pre = Ok ks -> forallb numrep ks = true ->
    num_keys e (pre ++ x :: post) = Err err.
  Proof.
    induction pre as [|p pre IH]; intros ks M S; cbn [app num_keys]; [rewrite Ex; reflexivity|].
    apply mapM_cons_inv in M as (k & ks' & E & M & ->). rewrite E. cbn [bind forallb] in *.
    apply andb_true_iff in S as [S1 S2]. unfold numrep in S1. destruct (to_decimal k); [|discriminate S1].
    rewrite (IH ks' M S2). reflexivity.
  Qed.
  Lemma group_loop_err : forall pre ks acc, mapM e pre = Ok ks -> forallb isstr ks = true ->
    group_loop e (pre ++ x :: post) acc = Err err.
  Proof.
    induction pre as [|p pre IH]; intros ks acc M S; cbn [app group_loop]; [rewrite Ex; reflexivity|].
    apply mapM_cons_inv in M as (k & ks' & E & M & ->). rewrite E. cbn [bind forallb] in *.
    apply andb_true_iff in S as [S1 S2]. destruct k; try discriminate S1. apply (IH ks' _ M S2).
  Qed.
  Lemma keys_for_err : forall pre ks a0 rest, mapM e pre = Ok ks -> keys_ok KNumberOrString ks = true ->
    a0 :: rest = pre ++ x :: post -> keys_for e a0 rest = Err err.
  Proof.
    intros [|p pre] ks a0 rest M K A; cbn [app] in A; inversion A; subst; unfold keys_for.
    - rewrite Ex. reflexivity.
    - apply mapM_cons_inv in M as (k & ks' & E & M & ->). rewrite E. cbn [bind keys_ok forallb] in *.
      destruct k; try discriminate K.
      + change (numrep (VStr s)) with false in K. cbn [andb orb isstr] in K.
        rewrite (str_keys_err pre ks' M K). reflexivity.
      + cbn [isstr andb] in K. rewrite orb_false_r in K. apply andb_true_iff in K as [K1 K2].
        unfold numrep in K1. destruct (to_decimal (VNum n)); [|discriminate K1].
        rewrite (num_keys_err pre ks' M K2). reflexivity.
  Qed.

  Theorem expref_error_propagates : forall pre ks, mapM e pre = Ok ks ->
    (keys_ok KNumberOrString ks = true ->
       spec_call (nm "sort_by") [AV (VArr (pre ++ x :: post)); AF e] = Err err /\
       spec_call (nm "max_by") [AV (VArr (pre ++ x :: post)); AF e] = Err err /\
       spec_call (nm "min_by") [AV (VArr (pre ++ x :: post)); AF e] = Err err) /\
    (keys_ok KString ks = true ->
       spec_call (nm "group_by") [AV (VArr (pre ++ x :: post)); AF e] = Err err) /\
    spec_call (nm "map") [AF e; AV (VArr (pre ++ x :: post))] = Err err.
  Proof.
    intros pre ks M. split; [|split].
    - intros K.
      change (spec_call (nm "sort_by") [AV (VArr (pre ++ x :: post)); AF e]) with (sort_array_by e (VArr (pre ++ x :: post))).
      change (spec_call (nm "max_by") [AV (VArr (pre ++ x :: post)); AF e]) with (array_extreme_by e true (VArr (pre ++ x :: post))).
      change (spec_call (nm "min_by") [AV (VArr (pre ++ x :: post)); AF e]) with (array_extreme_by e false (VArr (pre ++ x :: post))).
      destruct (pre ++ x :: post) as [|a0 rest] eqn:A; [destruct pre; discriminate A|].
      cbn [sort_array_by array_extreme_by]. rewrite (keys_for_err pre ks a0 rest M K (eq_sym A)). repeat split; reflexivity.
    - intros K.
      change (spec_call (nm "group_by") [AV (VArr (pre ++ x :: post)); AF e]) with (group_by e (VArr (pre ++ x :: post))).
      pose proof (group_loop_err pre ks [] M K) as G.
      destruct (pre ++ x :: post) as [|a0 rest] eqn:A; [destruct pre; discriminate A|].
      cbn [group_by]. rewrite G. reflexivity.
    - change (spec_call (nm "map") [AF e; AV (VArr (pre ++ x :: post))]) with (map_array e (VArr (pre ++ x :: post))).
      cbn [map_array]. rewrite (mapM_err pre ks M). reflexivity.
  Qed.
End ByErrors.

(* in the reference evaluator the reference of every such call is evaluated
   with the ELEMENT as current node (and the caller's variables) *)
Lemma ref_eval_expref_current_node : forall root x y cur vars,
  ref_eval root (RCall (nm "map") [ARef x; AExpr y]) cur vars =
    (do v <- ref_eval root y cur vars; spec_call (nm "map") [AF (fun el => ref_eval root x el vars); AV v]) /\
  ref_eval root (RCall (nm "sort_by") [AExpr y; ARef x]) cur vars =
    (do v <- ref_eval root y cur vars; spec_call (nm "sort_by") [AV v; AF (fun el => ref_eval root x el vars)]) /\
  ref_eval root (RCall (nm "group_by") [AExpr y; ARef x]) cur vars =
    (do v <- ref_eval root y cur vars; spec_call (nm "group_by") [AV v; AF (fun el => ref_eval root x el vars)]).
Proof.
  intros. repeat split; cbn [ref_eval]; cbv beta iota delta [beqb nm bs]; cbn;
    destruct (ref_eval root y cur vars); reflexivity.
Qed.

Example expref_examples :
  let fld := fun name v => Ok (field name v) in
  let o1 := VObj [(bs "a", VStr (bs "x")); (bs "n", VNum (NJson (bs "2")))] in
  let o2 := VObj [(bs "a", VStr (bs "y")); (bs "n", VNum (NJson (bs "1")))] in
  let o3 := VObj [(bs "n", VNum (NJson (bs "3")))] in
  spec_call (nm "sort_by") [AV (VArr [o1; o2]); AF (fld (nm "n"))] = Ok (VArr [o2; o1]) /\
  spec_call (nm "sort_by") [AV (VArr [o1; o3]); AF (fld (nm "a"))] = Err EInvalidType /\
  spec_call (nm "max_by") [AV (VArr [o1; o2; o3]); AF (fld (nm "n"))] = Ok o3 /\
  spec_call (nm "map") [AF (fld (nm "a")); AV (VArr [o1; o3; o2])] = Ok (VArr [VStr (bs "x"); VNull; VStr (bs "y")]) /\
  spec_call (nm "map") [AF (fld (nm "a")); AV o1] = Err EInvalidType /\
  spec_call (nm "group_by") [AV (VStr []); AF (fld (nm "a"))] = Err EInvalidType.
Proof. vm_compute. repeat split. Qed.

(* ---- 2j. ONE summary of (A1) over [spec_call] ---- *)
(* the elements of the array arguments: what an expression reference is applied to *)
Definition elems (args : list argv) : list value :=
  flat_map (fun a => match a with AV (VArr l) => l | _ => [] end) args.

(* an argument is well typed: a value has the type the signature gives its
   position; an expression reference stands at an expression position and its
   results on the elements have the key type of the signature *)
Definition arg_typed (args : list argv) (t : argty) (a : argv) : Prop :=
  match a with
  | AV v => match t with TExpr _ => False | _ => ty_ok t v = true end
  | AF e => match t with
            | TExpr k => exists ks, mapM e (elems args) = Ok ks /\ keys_ok k ks = true
            | _ => False
            end
  end.
Definition call_typed (sg : sigty) (args : list argv) : Prop :=
  match sg with
  | SFixed ars => exists tys, In tys ars /\ Forall2 (arg_typed args) tys args
  | SVariadic t => Forall (arg_typed args t) args
  end.

Definition plain_arg (a : argv) : Prop := match a with AV v => plain v | AF _ => True end.
(* the expression references evaluate without error on every element *)
Definition exprs_total (args : list argv) : Prop :=
  forall e, In (AF e) args -> exists ks, mapM e (elems args) = Ok ks.

Lemma arity_tys : forall ars args, arity_ok (SFixed ars) args = true ->
  exists tys, In tys ars /\ arg_shape args = map is_expr_ty tys.
Proof.
  intros ars args H. unfold arity_ok in H. cbn [sig_shapes] in H.
  apply existsb_exists in H as (sh & I & E). apply in_map_iff in I as (tys & <- & I).
  apply shape_eqb_eq in E. eauto.
Qed.
Lemma shape_values : forall tys args, arg_shape args = map is_expr_ty tys ->
  existsb is_expr_ty tys = false -> exists vs, args = map AV vs /\ length vs = length tys.
Proof.
  induction tys as [|t tys IH]; intros [|a args] H NE; try discriminate.
  - exists []. split; reflexivity.
  - cbn [arg_shape map existsb] in *. apply orb_false_iff in NE as [N1 N2].
    inversion H as [[H1 H2]]. destruct (IH args H2 N2) as (vs & -> & L).
    destruct a as [v|e]; [|cbn in H1; congruence]. exists (v :: vs). split; [reflexivity|cbn; congruence].
Qed.
Lemma typed_values : forall ctx tys vs, existsb is_expr_ty tys = false ->
  (Forall2 (arg_typed ctx) tys (map AV vs) <-> args_ty_ok tys vs = true).
Proof.
  induction tys as [|t tys IH]; intros [|v vs] NE; cbn [map args_ty_ok].
  - split; [reflexivity|constructor].
  - split; [intros H; inversion H|discriminate].
  - split; [intros H; inversion H|discriminate].
  - cbn [existsb] in NE. apply orb_false_iff in NE as [N1 N2]. rewrite andb_true_iff, <- (IH vs N2). split.
    + intros H. inversion H as [|? ? ? ? A B]; subst. split; [|exact B]. destruct t; try exact A. discriminate N1.
    + intros [A B]. constructor; [|exact B]. destruct t; try exact A. discriminate N1.
Qed.

(* the arities of one signature have different lengths *)
Fixpoint distinct_lengths (ars : list (list argty)) : bool :=
  match ars with
  | [] => true
  | x :: r => forallb (fun y => negb (Nat.eqb (length x) (length y))) r && distinct_lengths r
  end.
Lemma distinct_unique : forall ars t1 t2, distinct_lengths ars = true ->
  In t1 ars -> In t2 ars -> length t1 = length t2 -> t1 = t2.
Proof.
  induction ars as [|x r IH]; intros t1 t2 D I1 I2 L; [contradiction|].
  cbn [distinct_lengths] in D. apply andb_true_iff in D as [D1 D2]. rewrite forallb_forall in D1.
  destruct I1 as [<-|I1], I2 as [<-|I2]; [reflexivity| | |apply (IH t1 t2 D2 I1 I2 L)]; exfalso.
  - specialize (D1 t2 I2). rewrite L, Nat.eqb_refl in D1. discriminate.
  - specialize (D1 t1 I1). rewrite L, Nat.eqb_refl in D1. discriminate.
Qed.
Lemma table_distinct_lengths : forall f ars, signature f = Some (SFixed ars) -> distinct_lengths ars = true.
Proof.
  intros f ars S. apply assoc_some_in in S.
  assert (T : forallb (fun e => match snd e with SFixed a => distinct_lengths a | _ => true end) sig_table = true)
    by reflexivity.
  rewrite forallb_forall in T. exact (T _ S).
Qed.

(* which signatures have an expression reference, and which are variadic *)
Lemma expr_sigs : forall f ars tys, signature f = Some (SFixed ars) -> In tys ars ->
  existsb is_expr_ty tys = true ->
  (exists k, k <> KAny /\ ars = [[tarr; TExpr k]] /\ tys = [tarr; TExpr k]) \/
  (f = nm "map" /\ ars = [[TExpr KAny; tarr]] /\ tys = [TExpr KAny; tarr]).
Proof.
  intros f ars tys S I NE. apply assoc_some_in in S. unfold sig_table in S. cbn [In] in S.
  repeat (match type of S with _ \/ _ => idtac end; destruct S as [S|S];
    [first [discriminate S
           | injection S as <- <-; cbn [In] in I; repeat (destruct I as [<-|I]); try contradiction;
             try discriminate NE;
             first [left; eexists; split; [|split; reflexivity]; discriminate
                   | right; repeat split; reflexivity]] |]).
  contradiction.
Qed.
Lemma variadic_sigs : forall f t, signature f = Some (SVariadic t) ->
  (f = nm "merge" /\ t = tobj) \/ (f = nm "zip" /\ t = tarr) \/ (f = nm "not_null" /\ t = TAny).
Proof.
  intros f t S. apply assoc_some_in in S. unfold sig_table in S. cbn [In] in S.
  repeat (match type of S with _ \/ _ => idtac end; destruct S as [S|S];
    [first [discriminate S | injection S as <- <-; auto] |]).
  contradiction.
Qed.

Lemma ty_ok_tarr v : ty_ok tarr v = true -> exists a, v = VArr a.
Proof. destruct v; try discriminate. eauto. Qed.
Lemma typed_variadic : forall ctx t args, is_expr_ty t = false ->
  (Forall (arg_typed ctx t) args <-> forallb (arg_ty_ok t) args = true).
Proof.
  intros ctx t args NE. induction args as [|a r IH]; cbn [forallb]; [split; [reflexivity|constructor]|].
  rewrite andb_true_iff, <- IH. split.
  - intros H. inversion H as [|? ? A B]; subst. split; [|exact B].
    destruct a; [destruct t; try exact A; discriminate NE|destruct t; cbn in A; first [contradiction|discriminate NE]].
  - intros [A B]. constructor; [|exact B]. destruct a; [destruct t; try exact A; discriminate NE|discriminate A].
Qed.

(* (A1), all built-ins: a call with an accepted argument count
   raises invalid-type EXACTLY WHEN some argument is not well typed *)
Theorem C02_type_error_summary : forall f sg args,
  signature f = Some sg -> arity_ok sg args = true ->
  Forall plain_arg args -> exprs_total args ->
  (f = nm "not_null" -> existsb is_expr_arg args = false) ->
  (spec_call f args = Err EInvalidType <-> ~ call_typed sg args).
Proof.
  intros f sg args S A P T NN. destruct sg as [ars|t].
  - (* fixed arities *)
    destruct (arity_tys ars args A) as (tys & I & Sh).
    pose proof (table_distinct_lengths f ars S) as D.
    destruct (existsb is_expr_ty tys) eqn:NE.
    + (* an expression reference *)
      destruct (expr_sigs f ars tys S I NE) as [(k & Kn & -> & ->)|(-> & -> & ->)].
      * destruct args as [|[v|e1] [|[v2|e] [|x r]]]; try discriminate Sh.
        destruct (C02_expref_faults f k e v S) as [F1 F2].
        assert (El : elems [AV v; AF e] = match v with VArr l => l | _ => [] end)
          by (unfold elems; cbn [flat_map]; rewrite app_nil_r; reflexivity).
        destruct (ty_ok tarr v) eqn:Tv.
        -- destruct (ty_ok_tarr v Tv) as [a ->].
           destruct (T e (or_intror (or_introl eq_refl))) as [ks M]. rewrite El in M.
           rewrite <- fault_type_iff, (F2 a ks eq_refl M). split.
           ++ intros H (tys' & [<-|[]] & F). inversion F as [|? ? ? ? _ F']; subst.
              inversion F' as [|? ? ? ? Q _]; subst. cbn [arg_typed] in Q. destruct Q as (ks' & M' & K). rewrite El in M'.
              rewrite M in M'. inversion M'; subst. rewrite K in H. discriminate.
           ++ intros H. destruct (keys_ok k ks) eqn:K; [|reflexivity]. exfalso. apply H.
              exists [tarr; TExpr k]. split; [left; reflexivity|].
              constructor; [exact Tv|]. constructor; [|constructor]. exists ks. rewrite El. auto.
        -- split; [|intros _; apply F1; reflexivity].
           intros _ (tys' & [<-|[]] & F). inversion F as [|? ? ? ? Q _]; subst. cbn in Q. congruence.
      * destruct args as [|[v1|e] [|[v|e2] [|x r]]]; try discriminate Sh.
        destruct (C02_map e v) as [F1 F2].
        assert (El : elems [AF e; AV v] = match v with VArr l => l | _ => [] end)
          by (unfold elems; cbn [flat_map]; rewrite app_nil_r; reflexivity).
        destruct (ty_ok tarr v) eqn:Tv.
        -- destruct (ty_ok_tarr v Tv) as [a ->].
           destruct (T e (or_introl eq_refl)) as [ks M]. rewrite El in M.
           change (spec_call (nm "map") [AF e; AV (VArr a)]) with (map_array e (VArr a)).
           rewrite (fault_map_array e a ks M). split; [discriminate|]. intros H. exfalso. apply H.
           exists [TExpr KAny; tarr]. split; [left; reflexivity|].
           constructor; [|constructor; [exact Tv|constructor]]. exists ks. rewrite El. auto.
        -- split; [|intros _; apply F1; reflexivity].
           intros _ (tys' & [<-|[]] & F). inversion F as [|? ? ? ? _ F']; subst.
           inversion F' as [|? ? ? ? Q _]; subst. cbn in Q. congruence.
    + (* values only *)
      destruct (shape_values tys args Sh NE) as (vs & -> & L).
      assert (Pv : Forall plain vs).
      { clear -P. induction vs as [|v vs IH]; [constructor|]. inversion P; subst. constructor; [assumption|auto]. }
      rewrite (C02_type_error f ars tys vs S I NE L Pv). cbn [call_typed]. split.
      * intros H (tys' & I' & F).
        assert (tys' = tys).
        { apply (distinct_unique ars tys' tys D I' I). apply Forall2_len in F. rewrite F, map_length. exact L. }
        subst tys'. apply (typed_values _ tys vs NE) in F. congruence.
      * intros H. destruct (args_ty_ok tys vs) eqn:E; [|reflexivity]. exfalso. apply H.
        exists tys. split; [exact I|]. apply typed_values; assumption.
  - (* variadic *)
    destruct C02_variadic_faults as (Fm & Fz & Fn). cbn [call_typed].
    destruct (variadic_sigs f t S) as [[-> ->]|[[-> ->]|[-> ->]]].
    + rewrite <- fault_type_iff, Fm, (typed_variadic args tobj args eq_refl).
      destruct (forallb (arg_ty_ok tobj) args); split; congruence.
    + rewrite <- fault_type_iff, Fz, (typed_variadic args tarr args eq_refl).
      destruct (forallb (arg_ty_ok tarr) args); split; congruence.
    + specialize (NN eq_refl).
      assert (exists vs, args = map AV vs) as [vs ->].
      { clear -NN. induction args as [|a r IH]; [exists []; reflexivity|]. cbn [existsb] in NN.
        apply orb_false_iff in NN as [N1 N2]. destruct (IH N2) as [vs ->].
        destruct a; [|discriminate N1]. exists (v :: vs). reflexivity. }
      rewrite <- fault_type_iff, Fn, (typed_variadic (map AV vs) TAny (map AV vs) eq_refl).
      destruct (forallb (arg_ty_ok TAny) (map AV vs)); split; congruence.
Qed.

(* ---- 2k. ONE summary of (A2) over [spec_call] ---- *)
Definition vals (args : list argv) : list value :=
  flat_map (fun a => match a with AV v => [v] | AF _ => [] end) args.
Lemma vals_map_AV vs : vals (map AV vs) = vs.
Proof. unfold vals. induction vs as [|v vs IH]; [reflexivity|]. cbn [map flat_map app]. rewrite IH. reflexivity. Qed.

Lemma call_typed_values : forall ars tys vs, distinct_lengths ars = true -> In tys ars ->
  existsb is_expr_ty tys = false -> length vs = length tys ->
  (call_typed (SFixed ars) (map AV vs) <-> args_ty_ok tys vs = true).
Proof.
  intros ars tys vs D I NE L. cbn [call_typed]. split.
  - intros (tys' & I' & F).
    assert (tys' = tys).
    { apply (distinct_unique ars tys' tys D I' I). apply Forall2_len in F. rewrite F, map_length. exact L. }
    subst tys'. apply (typed_values (map AV vs) tys vs NE). exact F.
  - intros H. exists tys. split; [exact I|]. apply typed_values; assumption.
Qed.

(* only the built-ins with counts, widths, offsets, pad strings (and from_items) have value faults *)
Lemma expr_sigs_no_value_fault : forall f ars tys, signature f = Some (SFixed ars) -> In tys ars ->
  existsb is_expr_ty tys = true -> forall vs, value_fault f vs = false.
Proof.
  intros f ars tys S I NE. apply assoc_some_in in S. unfold sig_table in S. cbn [In] in S.
  repeat (match type of S with _ \/ _ => idtac end; destruct S as [S|S];
    [first [discriminate S
           | injection S as <- <-; cbn [In] in I; repeat (destruct I as [<-|I]); try contradiction;
             try discriminate NE; intros; reflexivity] |]).
  contradiction.
Qed.

(* (A2), all built-ins: invalid-value EXACTLY WHEN every
   argument is well typed and a count / width / offset / pad string is out of range *)
Theorem C02_value_error_summary : forall f sg args,
  signature f = Some sg -> arity_ok sg args = true ->
  Forall plain_arg args -> exprs_total args ->
  (f = nm "not_null" -> existsb is_expr_arg args = false) ->
  (fault_of (spec_call f args) = Some FValue <->
   call_typed sg args /\ value_fault f (vals args) = true).
Proof.
  intros f sg args S A P T NN. destruct sg as [ars|t].
  - destruct (arity_tys ars args A) as (tys & I & Sh).
    pose proof (table_distinct_lengths f ars S) as D.
    destruct (existsb is_expr_ty tys) eqn:NE.
    + rewrite (expr_sigs_no_value_fault f ars tys S I NE).
      split; [|intros [_ C]; discriminate C]. intros H. exfalso.
      destruct (expr_sigs f ars tys S I NE) as [(k & Kn & -> & ->)|(-> & -> & ->)].
      * destruct args as [|[v|e1] [|[v2|e] [|x r]]]; try discriminate Sh.
        destruct (C02_expref_faults f k e v S) as [F1 F2].
        assert (El : elems [AV v; AF e] = match v with VArr l => l | _ => [] end)
          by (unfold elems; cbn [flat_map]; rewrite app_nil_r; reflexivity).
        destruct (ty_ok tarr v) eqn:Tv.
        -- destruct (ty_ok_tarr v Tv) as [a ->].
           destruct (T e (or_intror (or_introl eq_refl))) as [ks M]. rewrite El in M.
           rewrite (F2 a ks eq_refl M) in H. destruct (keys_ok k ks); discriminate H.
        -- rewrite (F1 eq_refl) in H. discriminate H.
      * destruct args as [|[v1|e] [|[v|e2] [|x r]]]; try discriminate Sh.
        destruct (C02_map e v) as [F1 F2].
        assert (El : elems [AF e; AV v] = match v with VArr l => l | _ => [] end)
          by (unfold elems; cbn [flat_map]; rewrite app_nil_r; reflexivity).
        destruct (ty_ok tarr v) eqn:Tv.
        -- destruct (ty_ok_tarr v Tv) as [a ->].
           destruct (T e (or_introl eq_refl)) as [ks M]. rewrite El in M.
           change (spec_call (nm "map") [AF e; AV (VArr a)]) with (map_array e (VArr a)) in H.
           rewrite (fault_map_array e a ks M) in H. discriminate H.
        -- rewrite (F1 eq_refl) in H. discriminate H.
    + destruct (shape_values tys args Sh NE) as (vs & -> & L).
      assert (Pv : Forall plain vs).
      { clear -P. induction vs as [|v vs IH]; [constructor|]. inversion P; subst. constructor; [assumption|auto]. }
      rewrite vals_map_AV, (call_typed_values ars tys vs D I NE L).
      rewrite fault_value_iff. apply (C02_value_error f ars tys vs S I NE L Pv).
  - destruct C02_variadic_faults as (Fm & Fz & Fn).
    destruct (variadic_sigs f t S) as [[-> ->]|[[-> ->]|[-> ->]]].
    + rewrite Fm. change (value_fault (nm "merge") (vals args)) with false.
      destruct (forallb (arg_ty_ok tobj) args); split; try discriminate; intros [_ C]; discriminate C.
    + rewrite Fz. change (value_fault (nm "zip") (vals args)) with false.
      destruct (forallb (arg_ty_ok tarr) args); split; try discriminate; intros [_ C]; discriminate C.
    + specialize (NN eq_refl).
      assert (exists vs, args = map AV vs) as [vs ->].
      { clear -NN. induction args as [|a r IH]; [exists []; reflexivity|]. cbn [existsb] in NN.
        apply orb_false_iff in NN as [N1 N2]. destruct (IH N2) as [vs ->].
        destruct a; [|discriminate N1]. exists (v :: vs). reflexivity. }
      rewrite Fn. change (value_fault (nm "not_null") (vals (map AV vs))) with false.
      destruct (forallb (arg_ty_ok TAny) (map AV vs)); split; try discriminate; intros [_ C]; discriminate C.
Qed.

(* the reference model counts a value where "&expr" is required (and the
   reverse) as an arity error; the corpus asks for invalid-type
   (group_by(items, spec.nodeName)), which is what the implementation's parser
   reports for a missing "&".  An unexpected "&" is a syntax error there. *)
Example expref_kind_mismatch :
  spec_call (nm "sort_by") [AV (VArr []); AV VNull] = Err (EInvalidFunctionCall (nm "sort_by")) /\
  search (bs "sort_by(@, a)") (VArr []) = RError CInvalidType /\
  search (bs "group_by(@, a)") (VArr []) = RError CInvalidType /\
  search (bs "map(a, @)") (VArr []) = RError CInvalidType /\
  search (bs "abs(&a)") VNull = RError CSyntax.
Proof. vm_compute. repeat split. Qed.

(* ================================================================== *)
(* PART 3.  (B) results                                                 *)
(* ================================================================== *)

(* ---- 3a. length, reverse, keys, values, items ---- *)
Theorem length_array : forall a, spec_call (nm "length") [AV (VArr a)] = Ok (vint (Z.of_nat (length a))).
Proof. reflexivity. Qed.
Theorem length_object : forall m, spec_call (nm "length") [AV (VObj m)] = Ok (vint (Z.of_nat (length m))).
Proof. reflexivity. Qed.
Theorem reverse_array : forall a, spec_call (nm "reverse") [AV (VArr a)] = Ok (VArr (rev a)).
Proof. reflexivity. Qed.
Theorem keys_object : forall m, spec_call (nm "keys") [AV (VObj m)] = Ok (VArr (map (fun kv => VStr (fst kv)) m)).
Proof. reflexivity. Qed.
Theorem values_object : forall m, spec_call (nm "values") [AV (VObj m)] = Ok (VArr (map snd m)).
Proof. reflexivity. Qed.
(* the pair array of a member list *)
Definition pairs (kvs : list (bytes * value)) : list value :=
  map (fun kv => VArr [VStr (fst kv); snd kv]) kvs.
Theorem items_object : forall m, spec_call (nm "items") [AV (VObj m)] = Ok (VArr (pairs m)).
Proof. reflexivity. Qed.
(* keys, values and items list the members in the same order *)
Corollary items_keys_values : forall m ks vs,
  spec_call (nm "keys") [AV (VObj m)] = Ok (VArr ks) ->
  spec_call (nm "values") [AV (VObj m)] = Ok (VArr vs) ->
  spec_call (nm "items") [AV (VObj m)] = Ok (VArr (map (fun kv => VArr [fst kv; snd kv]) (combine ks vs))).
Proof.
  intros m ks vs K V. rewrite keys_object in K. rewrite values_object in V. inversion K; inversion V; subst.
  rewrite items_object. f_equal. f_equal. unfold pairs. clear. induction m as [|[k v] m IH]; [reflexivity|].
  cbn [map combine fst snd]. rewrite IH. reflexivity.
Qed.

(* ---- 3b. from_items and merge: later bindings override earlier ones ---- *)
Definition set_all (kvs acc : list (bytes * value)) : list (bytes * value) :=
  fold_left (fun acc kv => assoc_set (fst kv) (snd kv) acc) kvs acc.

Lemma assoc_set_lookup {A} k k' (v : A) m :
  assoc k (assoc_set k' v m) = if beqb k k' then Some v else assoc k m.
Proof.
  induction m as [|[k0 v0] r IH]; cbn [assoc_set assoc]; [reflexivity|].
  destruct (beqb k' k0) eqn:B.
  - apply beqb_eq in B; subst k0. cbn [assoc]. destruct (beqb k k'); reflexivity.
  - cbn [assoc]. rewrite IH. destruct (beqb k k0) eqn:C; [|reflexivity].
    destruct (beqb k k') eqn:D; [|reflexivity].
    apply beqb_eq in C; apply beqb_eq in D; subst. rewrite beqb_refl in B. discriminate.
Qed.
Lemma assoc_app {A} k (a b : list (bytes * A)) :
  assoc k (a ++ b) = match assoc k a with Some v => Some v | None => assoc k b end.
Proof. induction a as [|[k0 v0] a IH]; [reflexivity|]. cbn [app assoc]. destruct (beqb k k0); [reflexivity|exact IH]. Qed.

(* LOOKUP: the value of a key is the one of its LAST binding; keys that are
   not bound keep what the accumulator had *)
Lemma set_all_lookup : forall kvs acc k,
  assoc k (set_all kvs acc) = match assoc k (rev kvs) with Some v => Some v | None => assoc k acc end.
Proof.
  induction kvs as [|[k' v'] r IH]; intros acc k; [reflexivity|].
  unfold set_all in *. cbn [fold_left rev fst snd]. rewrite IH, assoc_app, assoc_set_lookup.
  destruct (assoc k (rev r)); [reflexivity|]. cbn [assoc]. destruct (beqb k k'); reflexivity.
Qed.

(* ORDER: a key stays where it first appeared *)
Definition add_key (k : bytes) (ks : list bytes) : list bytes :=
  if existsb (beqb k) ks then ks else ks ++ [k].
Lemma assoc_set_keys {A} k (v : A) m : map fst (assoc_set k v m) = add_key k (map fst m).
Proof.
  unfold add_key. induction m as [|[k0 v0] r IH]; [reflexivity|]. cbn [assoc_set map fst existsb].
  destruct (beqb k k0) eqn:B.
  - apply beqb_eq in B; subst. reflexivity.
  - cbn [orb map fst]. rewrite IH. destruct (existsb (beqb k) (map fst r)); reflexivity.
Qed.
Lemma set_all_keys : forall kvs acc,
  map fst (set_all kvs acc) = fold_left (fun ks kv => add_key (fst kv) ks) kvs (map fst acc).
Proof.
  induction kvs as [|[k v] r IH]; intros acc; [reflexivity|].
  unfold set_all in *. cbn [fold_left fst snd]. rewrite IH, assoc_set_keys. reflexivity.
Qed.
Lemma set_all_nodup : forall kvs acc, nodup_keys acc = true -> nodup_keys (set_all kvs acc) = true.
Proof.
  induction kvs as [|[k v] r IH]; intros acc N; [exact N|].
  unfold set_all in *. cbn [fold_left]. apply IH. apply assoc_set_nodup. exact N.
Qed.

Lemma from_items_loop_pairs : forall kvs acc, from_items_loop (pairs kvs) acc = Ok (set_all kvs acc).
Proof. induction kvs as [|[k v] r IH]; intros acc; [reflexivity|]. cbn [pairs map from_items_loop fst snd]. apply IH. Qed.

Lemma pairs_all_arr : forall kvs, forallb is_arr (pairs kvs) = true.
Proof. induction kvs as [|[k v] r IH]; [reflexivity|exact IH]. Qed.
Lemma from_items_pairs_eq : forall kvs, from_items (VArr (pairs kvs)) = Ok (VObj (set_all kvs [])).
Proof. intros kvs. unfold from_items. rewrite pairs_all_arr, from_items_loop_pairs. reflexivity. Qed.

(* from_items on an array of [string, any] pairs: the object in which every
   key has the value of its last pair, keys in order of first appearance, no
   key twice *)
Theorem from_items_pairs : forall kvs,
  exists m, spec_call (nm "from_items") [AV (VArr (pairs kvs))] = Ok (VObj m) /\
    (forall k, assoc k m = assoc k (rev kvs)) /\
    map fst m = fold_left (fun ks kv => add_key (fst kv) ks) kvs [] /\
    nodup_keys m = true.
Proof.
  intros kvs. exists (set_all kvs []). split; [|split; [|split]].
  - change (spec_call (nm "from_items") [AV (VArr (pairs kvs))]) with (from_items (VArr (pairs kvs))).
    apply from_items_pairs_eq.
  - intros k. rewrite set_all_lookup. destruct (assoc k (rev kvs)); reflexivity.
  - apply set_all_keys.
  - apply set_all_nodup. reflexivity.
Qed.

(* from_items is the inverse of items on objects (whose keys are distinct) *)
Lemma assoc_set_new' {A} k (v : A) acc : assoc k acc = None -> assoc_set k v acc = acc ++ [(k, v)].
Proof.
  induction acc as [|[k0 v0] r IH]; [reflexivity|]. cbn [assoc assoc_set app].
  destruct (beqb k k0); [discriminate|]. intros H. rewrite IH by exact H. reflexivity.
Qed.
Lemma nodup_app_head {A} k (v : A) acc r : nodup_keys (acc ++ (k, v) :: r) = true -> assoc k acc = None.
Proof.
  induction acc as [|[k0 v0] acc IH]; [reflexivity|]. cbn [app nodup_keys assoc].
  destruct (assoc k0 (acc ++ (k, v) :: r)) eqn:E; [discriminate|]. intros N.
  destruct (beqb k k0) eqn:B; [|apply IH; exact N].
  apply beqb_eq in B; subst. rewrite assoc_app in E. cbn [assoc] in E. rewrite beqb_refl in E.
  destruct (assoc k0 acc); discriminate.
Qed.
Lemma set_all_fresh : forall m acc, nodup_keys (acc ++ m) = true -> set_all m acc = acc ++ m.
Proof.
  induction m as [|[k v] r IH]; intros acc N; [rewrite app_nil_r; reflexivity|].
  unfold set_all in *. cbn [fold_left fst snd]. rewrite (assoc_set_new' k v acc (nodup_app_head k v acc r N)).
  rewrite IH; rewrite <- app_assoc; [reflexivity|exact N].
Qed.
Theorem from_items_items : forall m, nodup_keys m = true ->
  (do i <- spec_call (nm "items") [AV (VObj m)]; spec_call (nm "from_items") [AV i]) = Ok (VObj m).
Proof.
  intros m N. rewrite items_object. cbn [bind].
  change (spec_call (nm "from_items") [AV (VArr (pairs m))]) with (from_items (VArr (pairs m))).
  rewrite from_items_pairs_eq, set_all_fresh by exact N. reflexivity.
Qed.

(* merge(o1, ..., on) = from_items of the concatenated member lists: the
   right-most object that has a key wins, keys stay in order of first appearance *)
Lemma merge_go_objects : forall ms acc,
  merge_go (map (fun m => AV (VObj m)) ms) acc = Ok (VObj (set_all (concat ms) acc)).
Proof.
  induction ms as [|m ms IH]; intros acc; [reflexivity|]. cbn [map merge_go concat].
  rewrite IH. unfold set_all. rewrite fold_left_app. reflexivity.
Qed.
Theorem merge_objects : forall ms,
  exists m, spec_call (nm "merge") (map (fun m => AV (VObj m)) ms) = Ok (VObj m) /\
    (forall k, assoc k m = assoc k (rev (concat ms))) /\
    map fst m = fold_left (fun ks kv => add_key (fst kv) ks) (concat ms) [] /\
    nodup_keys m = true.
Proof.
  intros ms. exists (set_all (concat ms) []). split; [|split; [|split]].
  - rewrite spec_call_merge. apply merge_go_objects.
  - intros k. rewrite set_all_lookup. destruct (assoc k (rev (concat ms))); reflexivity.
  - apply set_all_keys.
  - apply set_all_nodup. reflexivity.
Qed.
Corollary merge_is_from_items : forall ms,
  spec_call (nm "merge") (map (fun m => AV (VObj m)) ms) =
  spec_call (nm "from_items") [AV (VArr (pairs (concat ms)))].
Proof.
  intros ms. rewrite spec_call_merge, merge_go_objects.
  change (spec_call (nm "from_items") [AV (VArr (pairs (concat ms)))]) with (from_items (VArr (pairs (concat ms)))).
  rewrite from_items_pairs_eq. reflexivity.
Qed.

Example from_items_merge_examples :
  let n1 := VNum (NJson (bs "1")) in let n2 := VNum (NJson (bs "2")) in let n3 := VNum (NJson (bs "3")) in
  spec_call (nm "from_items") [AV (VArr (pairs [(bs "a", n1); (bs "b", n2); (bs "a", n3)]))]
    = Ok (VObj [(bs "a", n3); (bs "b", n2)]) /\
  spec_call (nm "merge") [AV (VObj [(bs "a", n1); (bs "b", n2)]); AV (VObj [(bs "c", n3); (bs "a", n3)])]
    = Ok (VObj [(bs "a", n3); (bs "b", n2); (bs "c", n3)]) /\
  spec_call (nm "items") [AV (VObj [(bs "a", n1); (bs "b", n2)])]
    = Ok (VArr [VArr [VStr (bs "a"); n1]; VArr [VStr (bs "b"); n2]]) /\
  spec_call (nm "from_items") [AV (VArr [VArr [VNull; n1]])] = Err EFromItemsKeyType /\
  spec_call (nm "from_items") [AV (VArr [VArr [VStr (bs "a"); n1; n2]])] = Err EFromItemsLength.
Proof. vm_compute. repeat split. Qed.

(* ---- 3c. not_null, to_array, to_string, to_number, type ---- *)
(* not_null: the first argument that is not null, null if there is none *)
Theorem not_null_first : forall vs,
  spec_call (nm "not_null") (map AV vs) = Ok (hd VNull (List.filter not_null vs)).
Proof.
  intros vs. rewrite spec_call_not_null. induction vs as [|v r IH]; [reflexivity|].
  cbn [map not_null_go List.filter]. destruct (not_null v); [reflexivity|exact IH].
Qed.

Theorem to_array_spec : forall v,
  spec_call (nm "to_array") [AV v] = Ok (if is_arr v then v else VArr [v]).
Proof. destruct v; reflexivity. Qed.

(* to_string: a string is returned unchanged; any other value is printed as JSON text *)
Theorem to_string_spec : forall v,
  spec_call (nm "to_string") [AV v] =
  match v with VStr _ => Ok v | _ => do s <- jprint v; Ok (VStr s) end.
Proof. destruct v; reflexivity. Qed.
Corollary to_string_json : forall v, json_value v = true ->
  exists s, spec_call (nm "to_string") [AV v] = Ok (VStr s).
Proof.
  intros v J. rewrite to_string_spec. destruct v; try (eexists; reflexivity);
    destruct (Closure.jprint_json_value _ J) as [s E]; rewrite E; eexists; reflexivity.
Qed.

(* to_number: numbers unchanged; a string that is a JSON number -> that number
   (see ExactArithmetic.to_number_string); everything else null *)
Theorem to_number_spec : forall v,
  spec_call (nm "to_number") [AV v] =
  Ok (match v with
      | VNum _ => v
      | VStr s => if json_number_ok s
                  then match to_decimal (VNum (NJson s)) with Some d => vdec d | None => VNull end
                  else VNull
      | _ => VNull
      end).
Proof. destruct v; reflexivity. Qed.
(* FINDING: a string holding a JSON number outside the decimal128 range converts to null *)
Example to_number_unrepresentable_refuted :
  json_number_ok (bs "1e7000") = true /\
  spec_call (nm "to_number") [AV (VStr (bs "1e7000"))] = Ok VNull /\
  spec_call (nm "to_number") [AV (VStr (bs "1e3"))] = Ok (vdec (DFin false 1 3)) /\
  spec_call (nm "to_number") [AV (VStr (bs "+1"))] = Ok VNull /\
  spec_call (nm "to_number") [AV (VStr (bs "null"))] = Ok VNull /\
  spec_call (nm "to_number") [AV (VBool true)] = Ok VNull.
Proof. vm_compute. repeat split. Qed.

Theorem type_spec : forall v,
  spec_call (nm "type") [AV v] =
  match jtype_of v with
  | Some JNumber => Ok (VStr (bs "number")) | Some JString => Ok (VStr (bs "string"))
  | Some JBoolean => Ok (VStr (bs "boolean")) | Some JArray => Ok (VStr (bs "array"))
  | Some JObject => Ok (VStr (bs "object")) | Some JNull => Ok (VStr (bs "null"))
  | None => Err EInvalidType
  end.
Proof. destruct v; reflexivity. Qed.

Example conversions_examples :
  spec_call (nm "not_null") [AV VNull; AV VNull; AV (VBool false); AV (VStr [])] = Ok (VBool false) /\
  spec_call (nm "not_null") [AV VNull] = Ok VNull /\
  spec_call (nm "to_array") [AV (VStr (bs "a"))] = Ok (VArr [VStr (bs "a")]) /\
  spec_call (nm "to_array") [AV (VArr [VNull])] = Ok (VArr [VNull]) /\
  spec_call (nm "to_string") [AV (VStr (bs "a"))] = Ok (VStr (bs "a")) /\
  spec_call (nm "to_string") [AV (VArr [VNull; VBool true; VStr (bs "x"); VNum (NJson (bs "1.50"))])]
    = Ok (VStr (bs "[null,true,""x"",1.50]")) /\
  spec_call (nm "to_string") [AV (VObj [(bs "b", VNull); (bs "a", VObj [])])] = Ok (VStr (bs "{""a"":{},""b"":null}")) /\
  spec_call (nm "type") [AV (VObj [])] = Ok (VStr (bs "object")).
Proof. vm_compute. repeat split. Qed.

(* ---- 3d. zip ---- *)
Lemma zip_go_arrays : forall cols, zip_go (map (fun c => AV (VArr c)) cols) = Ok cols.
Proof. induction cols as [|c cs IH]; [reflexivity|]. cbn [map zip_go]. rewrite IH. reflexivity. Qed.
Lemma zip_rows_seq : forall k i cols,
  zip_rows k i cols = map (fun j => VArr (map (fun c => nth j c VNull) cols)) (seq i k).
Proof. induction k as [|k IH]; intros i cols; [reflexivity|]. cbn [zip_rows seq map]. rewrite IH. reflexivity. Qed.
Lemma zip_count_nat : forall (cols : list (list value)) z, 0 <= z ->
  Z.to_nat (fold_left (fun m c => Z.min m (Z.of_nat (length c))) cols z) =
  fold_left (fun m c => Nat.min m (length c)) cols (Z.to_nat z).
Proof.
  induction cols as [|c cs IH]; intros z Hz; [reflexivity|]. cbn [fold_left].
  rewrite IH by lia. rewrite Z2Nat.inj_min, Nat2Z.id. reflexivity.
Qed.
(* the number of rows: the length of the shortest array (the cap is Go's MaxInt, never reached) *)
Definition shortest (cols : list (list value)) : nat :=
  fold_left (fun m c => Nat.min m (length c)) cols (Z.to_nat MaxInt).
Lemma fold_min_le : forall (cols : list (list value)) n0,
  (fold_left (fun m c => Nat.min m (length c)) cols n0 <= n0)%nat /\
  Forall (fun c => (fold_left (fun m c => Nat.min m (length c)) cols n0 <= length c)%nat) cols.
Proof.
  induction cols as [|c cs IH]; intros n0; [split; [reflexivity|constructor]|]. cbn [fold_left].
  destruct (IH (Nat.min n0 (length c))) as [A B]. split; [lia|]. constructor; [lia|exact B].
Qed.
Lemma fold_min_attained : forall (cols : list (list value)) n0,
  fold_left (fun m c => Nat.min m (length c)) cols n0 = n0 \/
  exists c, In c cols /\ fold_left (fun m c => Nat.min m (length c)) cols n0 = length c.
Proof.
  induction cols as [|c cs IH]; intros n0; [left; reflexivity|]. cbn [fold_left].
  destruct (IH (Nat.min n0 (length c))) as [A|(c' & I & A)].
  - rewrite A. destruct (Nat.min_spec n0 (length c)) as [[_ E]|[_ E]]; rewrite E; [left; reflexivity|].
    right. exists c. split; [left; reflexivity|reflexivity].
  - right. exists c'. split; [right; exact I|exact A].
Qed.
Theorem shortest_spec : forall cols,
  Forall (fun c => (shortest cols <= length c)%nat) cols /\
  (shortest cols = Z.to_nat MaxInt \/ exists c, In c cols /\ shortest cols = length c).
Proof. intros cols. split; [apply fold_min_le|apply fold_min_attained]. Qed.

(* zip: row i holds the i-th elements of all arrays; as many rows as the shortest array has elements *)
Theorem zip_arrays : forall cols,
  spec_call (nm "zip") (map (fun c => AV (VArr c)) cols) =
  Ok (VArr (map (fun i => VArr (map (fun c => nth i c VNull) cols)) (seq 0 (shortest cols)))).
Proof.
  intros cols. rewrite spec_call_zip, zip_go_arrays. cbn [bind].
  rewrite zip_count_nat by (unfold MaxInt; lia). rewrite zip_rows_seq. reflexivity.
Qed.
Corollary zip_length : forall cols rows,
  spec_call (nm "zip") (map (fun c => AV (VArr c)) cols) = Ok (VArr rows) -> length rows = shortest cols.
Proof. intros cols rows H. rewrite zip_arrays in H. inversion H. rewrite map_length, seq_length. reflexivity. Qed.

Example zip_examples :
  spec_call (nm "zip") [AV (VArr [jn "1"; jn "2"; jn "3"]); AV (VArr [js "a"; js "b"])]
    = Ok (VArr [VArr [jn "1"; js "a"]; VArr [jn "2"; js "b"]]) /\
  spec_call (nm "zip") [AV (VArr [jn "1"]); AV (VArr [])] = Ok (VArr []).
Proof. vm_compute. repeat split. Qed.

(* ---- 3e. group_by ---- *)
(* the elements with key k, in their original order (None if there are none) *)
Definition group_of (k : bytes) (l : list (value * bytes)) : option value :=
  match List.filter (fun p => beqb k (snd p)) l with
  | [] => None
  | g => Some (VArr (map fst g))
  end.

Lemma group_of_snoc k l x s :
  group_of k (l ++ [(x, s)]) =
  if beqb k s
  then Some (VArr (match group_of k l with Some (VArr g) => g | _ => [] end ++ [x]))
  else group_of k l.
Proof.
  unfold group_of. rewrite filter_app. cbn [List.filter snd].
  destruct (beqb k s).
  - destruct (List.filter (fun p => beqb k (snd p)) l) as [|p g]; [reflexivity|].
    cbn [app map fst]. rewrite map_app. reflexivity.
  - rewrite app_nil_r. reflexivity.
Qed.

Section GroupBy.
  Variable e : value -> outcome value.

  Lemma group_loop_spec : forall l ss acc pre,
    Forall2 (fun x s => e x = Ok (VStr s)) l ss ->
    (forall k, assoc k acc = group_of k pre) ->
    exists m, group_loop e l acc = Ok m /\
      (forall k, assoc k m = group_of k (pre ++ combine l ss)) /\
      map fst m = fold_left (fun ks s => add_key s ks) ss (map fst acc).
  Proof.
    induction l as [|x l IH]; intros ss acc pre F Inv.
    - inversion F; subst. exists acc. cbn [group_loop combine fold_left]. rewrite app_nil_r. auto.
    - inversion F as [|? s ? ss' E F']; subst. cbn [group_loop]. rewrite E. cbn [bind].
      set (acc' := assoc_set s (VArr (match assoc s acc with Some (VArr g) => g | _ => [] end ++ [x])) acc).
      destruct (IH ss' acc' (pre ++ [(x, s)]) F') as (m & G & Lk & Ks).
      + intros k. unfold acc'. rewrite assoc_set_lookup, group_of_snoc.
        destruct (beqb k s) eqn:B; [|apply Inv].
        apply beqb_eq in B; subst k. rewrite Inv. reflexivity.
      + exists m. split; [exact G|]. split.
        * intros k. rewrite Lk. cbn [combine]. rewrite <- app_assoc. reflexivity.
        * rewrite Ks. unfold acc'. rewrite assoc_set_keys. reflexivity.
  Qed.

  (* group_by on a non-empty array whose keys are all strings: member k holds,
     in original order, exactly the elements whose key is k; the members are
     in order of first appearance of their key *)
  Theorem group_by_spec : forall a ss, a <> [] ->
    Forall2 (fun x s => e x = Ok (VStr s)) a ss ->
    exists m, spec_call (nm "group_by") [AV (VArr a); AF e] = Ok (VObj m) /\
      (forall k, assoc k m = group_of k (combine a ss)) /\
      map fst m = fold_left (fun ks s => add_key s ks) ss [].
  Proof.
    intros a ss NE F.
    change (spec_call (nm "group_by") [AV (VArr a); AF e]) with (group_by e (VArr a)).
    destruct a as [|a0 rest]; [contradiction|]. cbn [group_by].
    destruct (group_loop_spec (a0 :: rest) ss [] [] F (fun k => eq_refl)) as (m & G & Lk & Ks).
    exists m. rewrite G. cbn [bind]. split; [reflexivity|]. split; [exact Lk|exact Ks].
  Qed.
End GroupBy.

(* FINDINGS about group_by.  The return type is "object", and (JMESPath
   Community specification) elements whose key is null are left out; the
   implementation returns null for an empty array and raises invalid-type for
   a null key. *)
Example group_by_empty_refuted :
  spec_call (nm "group_by") [AV (VArr []); AF (fun x => Ok (field (nm "a") x))] = Ok VNull /\
  search (bs "group_by(@, &a)") (VArr []) = RValue VNull.
Proof. vm_compute. repeat split. Qed.
Example group_by_null_key_refuted :
  let doc := VArr [VObj [(bs "a", js "x")]; VObj [(bs "b", js "y")]] in
  spec_call (nm "group_by") [AV doc; AF (fun x => Ok (field (nm "a") x))] = Err EInvalidType /\
  search (bs "group_by(@, &a)") doc = RError CInvalidType.
Proof. vm_compute. repeat split. Qed.
Example group_by_example :
  let o := fun k v => VObj [(bs "k", k); (bs "v", v)] in
  spec_call (nm "group_by") [AV (VArr [o (js "x") (jn "1"); o (js "y") (jn "2"); o (js "x") (jn "3")]);
                             AF (fun x => Ok (field (nm "k") x))]
  = Ok (VObj [(bs "x", VArr [o (js "x") (jn "1"); o (js "x") (jn "3")]); (bs "y", VArr [o (js "y") (jn "2")])]).
Proof. vm_compute. reflexivity. Qed.

(* ---- 3f. contains ---- *)
Lemma is_prefix_spec : forall p s, is_prefix p s = true <-> exists suf, s = p ++ suf.
Proof.
  induction p as [|x p IH]; intros s.
  - split; [intros _; exists s; reflexivity|reflexivity].
  - destruct s as [|y s]; cbn [is_prefix].
    + split; [discriminate|intros [suf H]; discriminate].
    + rewrite andb_true_iff, Z.eqb_eq, IH. split.
      * intros [-> [suf ->]]. exists suf. reflexivity.
      * intros [suf H]. inversion H; subst. split; [reflexivity|exists suf; reflexivity].
Qed.
Lemma index_from_range p : forall s off, 0 <= off -> index_from s p off = -1 \/ off <= index_from s p off.
Proof.
  induction s as [|x s IH]; intros off H; cbn [index_from]; destruct (is_prefix p _); try (right; lia); [left; reflexivity|].
  destruct (IH (off + 1)) as [A|A]; [lia|left; exact A|right; lia].
Qed.
Lemma index_from_found p : forall s off, 0 <= off ->
  (index_from s p off <> -1 <-> exists pre suf, s = pre ++ p ++ suf).
Proof.
  induction s as [|x s IH]; intros off H; cbn [index_from].
  - destruct (is_prefix p []) eqn:E.
    + split; [|lia]. intros _. apply is_prefix_spec in E as [suf E]. exists [], suf. exact E.
    + split; [congruence|]. intros (pre & suf & E'). exfalso.
      destruct pre; [|discriminate]. destruct p; [discriminate E|discriminate E'].
  - destruct (is_prefix p (x :: s)) eqn:E.
    + split; [|lia]. intros _. apply is_prefix_spec in E as [suf E]. exists [], suf. exact E.
    + rewrite (IH (off + 1)) by lia. split.
      * intros (pre & suf & ->). exists (x :: pre), suf. reflexivity.
      * intros (pre & suf & E'). destruct pre as [|y pre].
        -- exfalso. assert (is_prefix p (x :: s) = true) by (apply is_prefix_spec; exists suf; exact E'). congruence.
        -- inversion E'; subst. exists pre, suf. reflexivity.
Qed.
Theorem bcontains_substring : forall s p, bcontains s p = true <-> exists pre suf, s = pre ++ p ++ suf.
Proof.
  intros s p. unfold bcontains, bindex. rewrite <- (index_from_found p s 0) by lia.
  destruct (index_from_range p s 0 ltac:(lia)) as [A|A].
  - rewrite A. split; [discriminate|congruence].
  - split; [lia|intros _; apply Z.leb_le; exact A].
Qed.

(* contains: on an array, some element is [equal] to the search value (the
   language's own ==); on a string, the search string is a substring; a search
   value that is not a string is never contained in a string (no error) *)
Theorem contains_spec : forall subject search,
  spec_call (nm "contains") [AV subject; AV search] =
  match subject with
  | VArr l => Ok (VBool (existsb (fun x => equal x search) l))
  | VStr s => match search with VStr p => Ok (VBool (bcontains s p)) | _ => Ok (VBool false) end
  | _ => Err EInvalidType
  end.
Proof. destruct subject; reflexivity. Qed.

Example contains_examples :
  spec_call (nm "contains") [AV (js "foobar"); AV (js "oba")] = Ok (VBool true) /\
  spec_call (nm "contains") [AV (js "foobar"); AV (js "abo")] = Ok (VBool false) /\
  spec_call (nm "contains") [AV (js "foobar"); AV (js "")] = Ok (VBool true) /\
  spec_call (nm "contains") [AV (js "a1"); AV (jn "1")] = Ok (VBool false) /\
  spec_call (nm "contains") [AV (VArr [jn "1.0"; js "a"]); AV (jn "1")] = Ok (VBool true) /\
  spec_call (nm "contains") [AV (VArr [VArr [jn "1"]]); AV (jn "1")] = Ok (VBool false) /\
  spec_call (nm "contains") [AV (VObj []); AV (jn "1")] = Err EInvalidType.
Proof. vm_compute. repeat split. Qed.

(* ---- 3g. join (bytes; the code point version is StringCodePoints.join_code_points) ---- *)
Lemma join_loop_strings sep : forall ls,
  join_loop sep (map VStr ls) = Ok (flat_map (fun x => sep ++ x) ls).
Proof. induction ls as [|x r IH]; [reflexivity|]. cbn [map join_loop str_arg bind flat_map]. rewrite IH. cbn [bind]. rewrite <- app_assoc. reflexivity. Qed.
Theorem join_strings : forall sep ls,
  spec_call (nm "join") [AV (VStr sep); AV (VArr (map VStr ls))] =
  Ok (VStr (match ls with [] => [] | x :: r => x ++ flat_map (fun y => sep ++ y) r end)).
Proof.
  intros sep ls. change (spec_call (nm "join") [AV (VStr sep); AV (VArr (map VStr ls))]) with (join (VStr sep) (VArr (map VStr ls))).
  destruct ls as [|x r]; [reflexivity|]. cbn [join map str_arg bind]. rewrite join_loop_strings. reflexivity.
Qed.

(* ---- 3h. lower, upper (ASCII; the model does not determine the result for other strings) ---- *)
Definition ascii_lower (b : Z) : Z := if (65 <=? b) && (b <=? 90) then b + 32 else b.
Definition ascii_upper (b : Z) : Z := if (97 <=? b) && (b <=? 122) then b - 32 else b.
Theorem lower_ascii : forall s, forallb (fun b => b <? 128) s = true ->
  spec_call (nm "lower") [AV (VStr s)] = Ok (VStr (map ascii_lower s)).
Proof. intros s H. change (spec_call (nm "lower") [AV (VStr s)]) with (lower (VStr s)). unfold lower, all_ascii. rewrite H. reflexivity. Qed.
Theorem upper_ascii : forall s, forallb (fun b => b <? 128) s = true ->
  spec_call (nm "upper") [AV (VStr s)] = Ok (VStr (map ascii_upper s)).
Proof. intros s H. change (spec_call (nm "upper") [AV (VStr s)]) with (upper (VStr s)). unfold upper, all_ascii. rewrite H. reflexivity. Qed.
Example case_examples :
  spec_call (nm "lower") [AV (js "STRING-1z")] = Ok (js "string-1z") /\
  spec_call (nm "upper") [AV (js "string-1Z")] = Ok (js "STRING-1Z") /\
  spec_call (nm "join") [AV (js ", "); AV (VArr [js "a"; js "b"; js "c"])] = Ok (js "a, b, c") /\
  spec_call (nm "join") [AV (js ", "); AV (VArr [])] = Ok (js "").
Proof. vm_compute. repeat split. Qed.

(* ================================================================== *)
(* PART 4.  (C) defaults of optional arguments                          *)
(* ================================================================== *)
(* every statement is an equation between the short and the long call that
   holds for ALL arguments, error cases included *)

Lemma int_arg_of : forall c n, plain c -> int_of c = Some n -> int_arg c = Ok n.
Proof.
  intros c n P H. rewrite (int_arg_spec c P). unfold int_of in H.
  destruct (to_decimal c) as [d|] eqn:D; [|discriminate]. unfold int_of. rewrite D. 
  destruct (dec_integer d) as [z|]; [|discriminate]. destruct (in_int z); [|discriminate].
  inversion H. reflexivity.
Qed.
Lemma to_int_of : forall c n, plain c -> int_of c = Some n -> to_int c = Ok (n, true, true).
Proof.
  intros c n P H. rewrite (to_int_spec c P). rewrite H.
  unfold int_of in H. destruct (to_decimal c); [reflexivity|discriminate].
Qed.

(* ---- 4a. pad_left / pad_right: the pad string defaults to one space ---- *)
Theorem pad_default : forall a w,
  spec_call (nm "pad_left") [AV a; AV w] = spec_call (nm "pad_left") [AV a; AV w; AV (js " ")] /\
  spec_call (nm "pad_right") [AV a; AV w] = spec_call (nm "pad_right") [AV a; AV w; AV (js " ")].
Proof. intros a w. split; reflexivity. Qed.

(* ---- 4b. trim, trim_left, trim_right: the characters default to whitespace ---- *)
(* the whitespace of the specification: the 25 code points its compliance
   corpus trims (Unicode White_Space) *)
Definition spec_whitespace : list Z :=
  [9; 10; 11; 12; 13; 32; 133; 160; 5760;
   8192; 8193; 8194; 8195; 8196; 8197; 8198; 8199; 8200; 8201; 8202;
   8232; 8233; 8239; 8287; 12288].
(* ... is exactly what the implementation trims *)
Theorem is_space_spec : forall r, is_space r = true <-> In r spec_whitespace.
Proof.
  intros r. split.
  - unfold is_space. rewrite !orb_true_iff, !andb_true_iff, !Z.leb_le, !Z.eqb_eq. unfold spec_whitespace. cbn [In].
    intros H.
    assert (C : (9 <= r <= 13) \/ r = 32 \/ r = 133 \/ r = 160 \/ r = 5760 \/ (8192 <= r <= 8202) \/
                r = 8232 \/ r = 8233 \/ r = 8239 \/ r = 8287 \/ r = 12288) by tauto.
    clear H. lia.
  - unfold spec_whitespace. cbn [In]. intros H.
    repeat (destruct H as [<-|H]; [reflexivity|]). contradiction.
Qed.

(* an omitted and an empty character set mean the same: whitespace *)
Theorem trim_default_empty : forall a,
  spec_call (nm "trim") [AV a] = spec_call (nm "trim") [AV a; AV (js "")] /\
  spec_call (nm "trim_left") [AV a] = spec_call (nm "trim_left") [AV a; AV (js "")] /\
  spec_call (nm "trim_right") [AV a] = spec_call (nm "trim_right") [AV a; AV (js "")].
Proof. intros a. repeat split; destruct a; reflexivity. Qed.

(* ... and the same as passing the 25 whitespace characters explicitly *)
Definition whitespace_string : bytes := encode_all spec_whitespace.
Lemma whitespace_scalars : scalars spec_whitespace.
Proof. unfold spec_whitespace. repeat (constructor; [reflexivity|]). constructor. Qed.
Lemma in_cutset_whitespace : forall r, in_cutset whitespace_string r = is_space r.
Proof.
  intros r. unfold in_cutset, whitespace_string. rewrite runes_encode_all by exact whitespace_scalars.
  destruct (is_space r) eqn:E.
  - apply is_space_spec in E. apply existsb_exists. exists r. split; [exact E|apply Z.eqb_refl].
  - destruct (existsb (Z.eqb r) spec_whitespace) eqn:X; [|reflexivity].
    apply existsb_exists in X as (x & I & Q). apply Z.eqb_eq in Q; subst x.
    apply is_space_spec in I. congruence.
Qed.
Lemma trim_left_f_ext (p q : Z -> bool) : (forall r, p r = q r) ->
  forall fuel s, trim_left_f fuel p s = trim_left_f fuel q s.
Proof.
  intros H. induction fuel as [|f IH]; intros s; [reflexivity|]. cbn [trim_left_f].
  destruct s; [reflexivity|]. destruct (decode_rune (z :: s)) as [r sz]. rewrite H, IH. reflexivity.
Qed.
Lemma trim_right_f_ext (p q : Z -> bool) : (forall r, p r = q r) ->
  forall fuel s, trim_right_f fuel p s = trim_right_f fuel q s.
Proof.
  intros H. induction fuel as [|f IH]; intros s; [reflexivity|]. cbn [trim_right_f].
  destruct s; [reflexivity|]. destruct (decode_last_rune (z :: s)) as [r sz]. rewrite H, IH. reflexivity.
Qed.
Lemma whitespace_string_cons : exists b r, whitespace_string = b :: r.
Proof. eexists; eexists. vm_compute. reflexivity. Qed.
Lemma whitespace_match {A} (x y : A) : match whitespace_string with [] => x | _ :: _ => y end = y.
Proof. destruct whitespace_string_cons as (b0 & r0 & W). rewrite W. reflexivity. Qed.
Theorem trim_default_whitespace : forall a,
  spec_call (nm "trim") [AV a] = spec_call (nm "trim") [AV a; AV (VStr whitespace_string)] /\
  spec_call (nm "trim_left") [AV a] = spec_call (nm "trim_left") [AV a; AV (VStr whitespace_string)] /\
  spec_call (nm "trim_right") [AV a] = spec_call (nm "trim_right") [AV a; AV (VStr whitespace_string)].
Proof.
  intros a.
  change (spec_call (nm "trim") [AV a]) with (trim_space a).
  change (spec_call (nm "trim_left") [AV a]) with (trim_space_left a).
  change (spec_call (nm "trim_right") [AV a]) with (trim_space_right a).
  change (spec_call (nm "trim") [AV a; AV (VStr whitespace_string)]) with (trim a (VStr whitespace_string)).
  change (spec_call (nm "trim_left") [AV a; AV (VStr whitespace_string)]) with (trim_left a (VStr whitespace_string)).
  change (spec_call (nm "trim_right") [AV a; AV (VStr whitespace_string)]) with (trim_right a (VStr whitespace_string)).
  unfold trim, trim_left, trim_right, trim_space, trim_space_left, trim_space_right.
  destruct a; try (repeat split; reflexivity). cbn [str_arg bind].
  pose proof (trim_left_f_ext _ _ in_cutset_whitespace) as L.
  pose proof (trim_right_f_ext _ _ in_cutset_whitespace) as R.
  unfold trim_left_fn, trim_right_fn. rewrite !whitespace_match.
  repeat split; rewrite ?L, ?R; reflexivity.
Qed.

Example trim_examples :
  spec_call (nm "trim") [AV (js "  a b  ")] = Ok (js "a b") /\
  spec_call (nm "trim") [AV (js "  a b  "); AV (js "")] = Ok (js "a b") /\
  spec_call (nm "trim_left") [AV (js "  a b  ")] = Ok (js "a b  ") /\
  spec_call (nm "trim_right") [AV (js "xxaxx"); AV (js "x")] = Ok (js "xxa") /\
  spec_call (nm "trim") [AV (VStr (encode_all [8232; 97; 12288; 133]))] = Ok (js "a") /\
  spec_call (nm "trim") [AV (VStr (encode_all [8203; 97]))] = Ok (VStr (encode_all [8203; 97])) /\
  spec_call (nm "pad_left") [AV (js "a"); AV (jn "3")] = Ok (js "  a").
Proof. vm_compute. repeat split. Qed.

(* ---- 4c. split, replace: no count = no limit ---- *)
Lemma runes_f_length : forall fuel s, (length (runes_f fuel s) <= fuel)%nat.
Proof.
  induction fuel as [|f IH]; intros s; [reflexivity|]. cbn [runes_f].
  destruct s; [cbn; lia|]. destruct (decode_rune (z :: s)) as [r sz]. cbn [length]. specialize (IH (skipn (Z.to_nat sz) (z :: s))). lia.
Qed.
Lemma rune_count_le_blen s : 0 <= rune_count s <= blen s.
Proof. unfold rune_count, blen, runes. pose proof (runes_f_length (length s) s). lia. Qed.
Lemma count_f_range : forall fuel s p, 0 <= count_f fuel s p <= Z.of_nat fuel.
Proof.
  induction fuel as [|f IH]; intros s p; cbn [count_f]; [lia|].
  destruct (bindex s p =? -1); [lia|]. specialize (IH (skipn (Z.to_nat (bindex s p + blen p)) s) p). lia.
Qed.
Lemma bcount_range s p : 0 <= bcount s p <= blen s + 1.
Proof.
  unfold bcount. destruct p.
  - pose proof (rune_count_le_blen s). lia.
  - pose proof (count_f_range (S (length s)) s (z :: p)). unfold blen. lia.
Qed.

(* a count at least as large as the subject's length is the same as no count *)
Theorem split_default : forall a b c n, plain c -> int_of c = Some n ->
  (forall s, a = VStr s -> blen s < n) ->
  spec_call (nm "split") [AV a; AV b; AV c] = spec_call (nm "split") [AV a; AV b].
Proof.
  intros a b c n P H B.
  change (spec_call (nm "split") [AV a; AV b; AV c]) with (split_count a b c).
  change (spec_call (nm "split") [AV a; AV b]) with (split a b).
  unfold split_count, split. destruct a; try reflexivity. destruct b; try reflexivity.
  cbn [str_arg bind]. rewrite (int_arg_of c n P H). cbn [bind].
  specialize (B s eq_refl). pose proof (rune_count_le_blen s) as R. pose proof (bcount_range s s0) as C.
  assert (0 <= blen s) by (unfold blen; lia).
  destruct (Z.ltb_spec n 0); [lia|]. destruct (Z.eqb_spec n 0); [lia|].
  destruct s as [|x s]; [reflexivity|]. destruct s0 as [|y s0]; cbv zeta.
  - destruct (Z.gtb_spec n (rune_count (x :: s) - 1)); [reflexivity|lia].
  - destruct (Z.gtb_spec n (bcount (x :: s) (y :: s0))); [reflexivity|].
    replace n with (bcount (x :: s) (y :: s0)) by lia. reflexivity.
Qed.

Lemma breplace_all s o nw n : bcount s o <= n -> breplace s o nw n = breplace s o nw (-1).
Proof.
  intros H. unfold breplace. pose proof (bcount_range s o) as C.
  destruct (beqb o nw); [reflexivity|]. cbn [orb].
  destruct (Z.eqb_spec n 0) as [->|N0].
  - change (-1 =? 0) with false. cbv zeta. destruct (Z.eqb_spec (bcount s o) 0); [reflexivity|lia].
  - change (-1 =? 0) with false. cbv zeta. destruct (bcount s o =? 0); [reflexivity|].
    change (-1 <? 0) with true. cbn [orb].
    destruct (Z.ltb_spec n 0); cbn [orb]; [reflexivity|].
    destruct (Z.ltb_spec (bcount s o) n); [reflexivity|]. replace n with (bcount s o) by lia. reflexivity.
Qed.
Theorem replace_default : forall a b c d n, plain d -> int_of d = Some n ->
  (forall s, a = VStr s -> blen s < n) ->
  spec_call (nm "replace") [AV a; AV b; AV c; AV d] = spec_call (nm "replace") [AV a; AV b; AV c].
Proof.
  intros a b c d n P H B.
  change (spec_call (nm "replace") [AV a; AV b; AV c; AV d]) with (replace_count a b c d).
  change (spec_call (nm "replace") [AV a; AV b; AV c]) with (replace a b c).
  unfold replace_count, replace. destruct a; try reflexivity. destruct b; try reflexivity. destruct c; try reflexivity.
  cbn [str_arg bind]. rewrite (int_arg_of d n P H). cbn [bind].
  specialize (B s eq_refl). assert (0 <= blen s) by (unfold blen; lia).
  destruct (Z.ltb_spec n 0); [lia|]. do 2 f_equal.
  apply breplace_all. pose proof (bcount_range s s0). lia.
Qed.

(* ---- 4d. find_first / find_last: the offsets default to 0 and the end of the subject ---- *)
Lemma bslice_whole s : bslice s 0 (blen s) = Ok s.
Proof.
  unfold bslice. assert (0 <= blen s) by (unfold blen; lia).
  replace ((0 <=? 0) && (0 <=? blen s) && (blen s <=? blen s)) with true.
  2:{ symmetry. rewrite !andb_true_iff, !Z.leb_le. lia. }
  rewrite Z.sub_0_r. unfold blen. rewrite Nat2Z.id. cbn [Z.to_nat skipn]. rewrite firstn_all. reflexivity.
Qed.
Lemma start_offset_0 s : start_offset s 0 = Some 0.
Proof.
  unfold start_offset. assert (0 <= blen s) by (unfold blen; lia).
  cbn [Z.ltb Z.compare]. destruct (Z.gtb_spec 0 (blen s)); [lia|]. reflexivity.
Qed.
Theorem find_default_start : forall last a b c, int_arg c = Ok 0 ->
  find_from last a b c = if last then find_last a b else find_first a b.
Proof.
  intros last a b c H. unfold find_from, find_last, find_first.
  destruct a; try (destruct last; reflexivity). destruct b; try (destruct last; reflexivity).
  cbn [str_arg bind]. rewrite H. cbn [bind].
  destruct s as [|x s]; [destruct last; reflexivity|]. destruct s0 as [|y s0]; [destruct last; reflexivity|].
  cbn [is_nil orb]. rewrite start_offset_0, bslice_whole. cbn [bind]. rewrite Z.add_0_r.
  destruct last; reflexivity.
Qed.
Theorem find_default_end : forall last a b c d n, to_int c = Ok (0, true, true) -> int_arg d = Ok n ->
  (forall s, a = VStr s -> blen s < n) ->
  find_between last a b c d = if last then find_last a b else find_first a b.
Proof.
  intros last a b c d n Hc Hd B. unfold find_between, find_last, find_first.
  destruct a; try (destruct last; reflexivity). destruct b; try (destruct last; reflexivity).
  cbn [str_arg bind]. rewrite Hc. cbn [bind]. rewrite Hd. cbn [bind].
  destruct s as [|x s]; [destruct last; reflexivity|]. destruct s0 as [|y s0]; [destruct last; reflexivity|].
  cbn [is_nil orb]. rewrite start_offset_0. specialize (B (x :: s) eq_refl).
  assert (0 <= blen (x :: s)) by (unfold blen; lia).
  destruct (Z.ltb_spec n 0); [lia|]. destruct (Z.gtb_spec n (blen (x :: s))); [|lia].
  destruct (Z.gtb_spec 0 (blen (x :: s))); [lia|]. rewrite bslice_whole. cbn [bind]. rewrite Z.add_0_r.
  destruct last; reflexivity.
Qed.
Theorem find_defaults : forall a b d n, plain d -> int_of d = Some n ->
  (forall s, a = VStr s -> blen s < n) ->
  spec_call (nm "find_first") [AV a; AV b; AV (jn "0")] = spec_call (nm "find_first") [AV a; AV b] /\
  spec_call (nm "find_first") [AV a; AV b; AV (jn "0"); AV d] = spec_call (nm "find_first") [AV a; AV b] /\
  spec_call (nm "find_last") [AV a; AV b; AV (jn "0")] = spec_call (nm "find_last") [AV a; AV b] /\
  spec_call (nm "find_last") [AV a; AV b; AV (jn "0"); AV d] = spec_call (nm "find_last") [AV a; AV b].
Proof.
  intros a b d n P H B.
  assert (I0 : int_arg (jn "0") = Ok 0) by reflexivity.
  assert (T0 : to_int (jn "0") = Ok (0, true, true)) by reflexivity.
  pose proof (int_arg_of d n P H) as Id.
  repeat split.
  - exact (find_default_start false a b _ I0).
  - exact (find_default_end false a b _ d n T0 Id B).
  - exact (find_default_start true a b _ I0).
  - exact (find_default_end true a b _ d n T0 Id B).
Qed.

Example defaults_examples :
  int_of (jn "100") = Some 100 /\ int_of (jn "1e2") = Some 100 /\ int_of (jn "2.50e1") = Some 25 /\
  int_of (jn "2.5") = None /\ int_of (jn "-3") = Some (-3) /\ int_of (jn "9223372036854775808") = None /\
  spec_call (nm "split") [AV (js "a,b,c"); AV (js ",")] = Ok (VArr [js "a"; js "b"; js "c"]) /\
  spec_call (nm "split") [AV (js "a,b,c"); AV (js ","); AV (jn "100")] = Ok (VArr [js "a"; js "b"; js "c"]) /\
  spec_call (nm "split") [AV (js "a,b,c"); AV (js ","); AV (jn "1")] = Ok (VArr [js "a"; js "b,c"]) /\
  spec_call (nm "replace") [AV (js "aaa"); AV (js "a"); AV (js "b")] = Ok (js "bbb") /\
  spec_call (nm "replace") [AV (js "aaa"); AV (js "a"); AV (js "b"); AV (jn "2")] = Ok (js "bba") /\
  spec_call (nm "replace") [AV (js "aaa"); AV (js "a"); AV (js "b"); AV (jn "100")] = Ok (js "bbb") /\
  spec_call (nm "find_first") [AV (js "abcabc"); AV (js "c")] = Ok (vint 2) /\
  spec_call (nm "find_first") [AV (js "abcabc"); AV (js "c"); AV (jn "0"); AV (jn "100")] = Ok (vint 2) /\
  spec_call (nm "find_first") [AV (js "abcabc"); AV (js "c"); AV (jn "3")] = Ok (vint 5) /\
  spec_call (nm "find_last") [AV (js "abcabc"); AV (js "c"); AV (jn "0"); AV (jn "4")] = Ok (vint 2).
Proof. vm_compute. repeat split. Qed.

(* ================================================================== *)
(* PART 5.  Summary and assumptions                                     *)
(* ================================================================== *)
(* (A3) arity / unknown function ........ C02_arity, C02_unknown, C02_arity_ok_no_parse_error
   (A1)+(A2) fixed-arity value built-ins  C02_faults  (=> C02_type_error, C02_type_error_split,
                                          C02_type_error_representable, C02_value_error, C02_no_fault)
        from_items (an instance) ........ fault_from_items, C02_from_items, from_items_well_typed, from_items_type_error
        merge, zip, not_null ............ C02_variadic_faults
        group_by, max_by, min_by, sort_by C02_expref_faults
        map ............................. C02_map
   (B)  results ......................... length_array .. upper_ascii (PART 3)
   (C)  defaults ........................ pad_default, trim_default_empty, trim_default_whitespace,
                                          is_space_spec, split_default, replace_default, find_defaults
   REFUTED (each with concrete arguments): arity_variadic_empty_refuted, type_error_unrepresentable_refuted,
        to_number_unrepresentable_refuted,
        group_by_empty_refuted, group_by_null_key_refuted; remarks expref_kind_mismatch, not_null_expref_ignored *)
Print Assumptions C02_arity.
Print Assumptions C02_arity_spec.
Print Assumptions C02_unknown.
Print Assumptions C02_faults.
Print Assumptions C02_type_error.
Print Assumptions C02_type_error_summary.
Print Assumptions C02_type_error_representable.
Print Assumptions C02_value_error.
Print Assumptions C02_value_error_summary.
Print Assumptions fault_from_items.
Print Assumptions C02_variadic_faults.
Print Assumptions C02_expref_faults.
Print Assumptions C02_map.
Print Assumptions expref_error_propagates.
Print Assumptions from_items_pairs.
Print Assumptions from_items_items.
Print Assumptions merge_objects.
Print Assumptions zip_arrays.
Print Assumptions group_by_spec.
Print Assumptions bcontains_substring.
Print Assumptions trim_default_whitespace.
Print Assumptions split_default.
Print Assumptions replace_default.
Print Assumptions find_defaults.
