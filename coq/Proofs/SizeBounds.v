(* C09 (size part): the size of what a call builds never depends on the MAGNITUDE of a
   numeric argument -- slice bounds and steps, search offsets, replace and split
   counts, index literals -- except where that magnitude is the size of the result
   itself (pad widths).

   The model is extensional, so running time is outside it.  What is proved here,
   for ALL integer values of the numeric arguments (not only 64-bit ones):
     1. slices of arrays and strings are never larger than the subject;
     2. find_first / find_last return null or a position inside the subject;
     3. split / replace with a count are bounded by the subject (and by the count);
     4. pad builds exactly max(width, length) code points;
     5. an index expression returns an element or null;
     6. every fuel / iteration count the model uses is computed from the subject,
        and anything beyond the subject-sized bound changes nothing.            *)
From Coq Require Import List ZArith Bool Lia.
From JM Require Import Base.Outcome Base.Bytes Base.GoInt Base.Utf8 Num.Dec Num.Flt Json.Value
  Model.NumberFns Model.Slice Model.StringFns Model.Array Spec.SpecSlice
  Proofs.SliceProofs Proofs.Utf8Theory Proofs.StringCodePoints Proofs.NoPanic.
Import ListNotations. Open Scope Z_scope.

Local Notation E := encode_all.

(* ------------------------------------------------------------------ *)
(* generic list facts                                                  *)
(* ------------------------------------------------------------------ *)

Lemma incl_firstn {A} n (l : list A) : incl (firstn n l) l.
Proof. intros x H. rewrite <- (firstn_skipn n l). apply in_or_app. now left. Qed.

Lemma incl_skipn {A} n (l : list A) : incl (skipn n l) l.
Proof. intros x H. rewrite <- (firstn_skipn n l). apply in_or_app. now right. Qed.

Lemma concat_firstn_skipn {A} n (l : list (list A)) :
  concat l = concat (firstn n l) ++ concat (skipn n l).
Proof. now rewrite <- concat_app, firstn_skipn. Qed.

Lemma length_concat_firstn {A} n (l : list (list A)) :
  (length (concat (firstn n l)) <= length (concat l))%nat.
Proof. rewrite (concat_firstn_skipn n l), app_length. lia. Qed.

Lemma length_concat_skipn {A} n (l : list (list A)) :
  (length (concat (skipn n l)) <= length (concat l))%nat.
Proof. rewrite (concat_firstn_skipn n l), app_length. lia. Qed.

(* ================================================================== *)
(* M1a. the element count of a stepped slice                           *)
(* ================================================================== *)

(* truncated division rounded up never exceeds the dividend, WHATEVER the divisor:
   positive, zero (the Go code would divide by zero; the model returns quotient 0,
   remainder c) or negative (a step whose negation wrapped around) *)
Lemma ceilq_neg_le1 c s : 0 < c -> s < 0 -> ceilq c s <= 1.
Proof.
  intros Hc Hs. unfold ceilq.
  assert (Z.quot c s <= 0).
  { replace s with (- (- s)) by lia. rewrite Z.quot_opp_r by lia.
    pose proof (Z.quot_pos c (- s) ltac:(lia) ltac:(lia)). lia. }
  destruct (Z.rem c s >? 0); lia.
Qed.

Lemma ceilq_le c s : 0 < c -> ceilq c s <= c.
Proof.
  intros Hc. destruct (Z.lt_trichotomy s 0) as [Hs|[->|Hs]].
  - pose proof (ceilq_neg_le1 c s Hc Hs). lia.
  - rewrite ceilq_zero by lia. lia.
  - pose proof (ceilq_spec c s Hc Hs). lia.
Qed.

(* the clamping of sliceStep(): the first index is inside the subject and the element
   count is at most its length -- for every start, stop and step in Z *)
Lemma norm_step_count_le L start stop step i n : 0 <= L ->
  norm_step L start stop step = Some (i, n) -> 0 <= i < L /\ n <= L.
Proof.
  intros HL H. destruct (Z_lt_le_dec 0 step) as [Hp|Hn].
  - apply norm_step_pos_range in H; [|lia|lia]. destruct H as [Hi [c [Hc [Hic ->]]]].
    pose proof (ceilq_le c step Hc). lia.
  - apply norm_step_nonpos_range in H; [|lia|lia]. destruct H as [Hi [c [Hc ->]]].
    pose proof (ceilq_le c (wrap64 (step * -1)) ltac:(lia)). lia.
Qed.

Lemma at_In {A} (l : list A) j x : at_ l j = Ok x -> In x l.
Proof.
  unfold at_. destruct (_ && _); [|discriminate].
  destruct (nth_error l (Z.to_nat j)) eqn:En; [|discriminate].
  intros H; inversion H; subst. eapply nth_error_In; eauto.
Qed.

(* the copying loop of sliceStep(): exactly k elements, each read from the subject *)
Lemma pick_bound {A} (a : list A) : forall k j step r, pick a k j step = Ok r ->
  length r = k /\ incl r a.
Proof.
  induction k as [|k IH]; intros j step r H; cbn [pick] in H.
  - inversion H; subst. split; [reflexivity|]. intros x [].
  - destruct (at_ a j) as [x| | | |] eqn:Ex; cbn [bind] in H; try discriminate.
    destruct (pick a k (wrap64 (j + step)) step) as [r'| | | |] eqn:Er; cbn [bind] in H; try discriminate.
    inversion H; subst. apply IH in Er as [El Hin]. split; [cbn [length]; lia|].
    intros y [<-|Hy]; [eapply at_In; eauto | auto].
Qed.

Lemma pick_default_length rs : forall k j step, length (pick_default rs k j step) = k.
Proof. induction k as [|k IH]; intros j step; cbn [pick_default length]; [reflexivity | now rewrite IH]. Qed.

(* ================================================================== *)
(* M1b. slices of arrays                                               *)
(* ================================================================== *)

(* a[start:stop] -- every start and stop in Z *)
Theorem slice_array_size : forall (a : list value) (start stop : Z),
  exists l, slice (VArr a) start stop = Ok (VArr l) /\
            (length l <= length a)%nat /\ incl l a.
Proof.
  intros a start stop. unfold slice.
  destruct (norm1 (zlen a) start stop false) as [|i j] eqn:En.
  - exists []. split; [reflexivity|]. split; [cbn [length]; lia | intros x []].
  - apply norm1_range in En; [|apply zlen_nonneg]. unfold sub.
    rewrite (leb_true 0 i), (leb_true i j), (leb_true j (zlen a)) by lia. cbn [andb bind].
    eexists; split; [reflexivity|]. split.
    + rewrite firstn_length, skipn_length. lia.
    + intros x Hx. apply incl_firstn, incl_skipn in Hx. exact Hx.
Qed.

(* a[start:stop:step] -- every start, stop and step in Z; the call may fail (zero step,
   an array that is not a Go slice) but can never build more than it was given *)
Theorem slice_step_array_size : forall (a : list value) (start stop step : Z) (r : value),
  slice_step (VArr a) start stop step = Ok r ->
  exists l, r = VArr l /\ (length l <= length a)%nat /\ incl l a.
Proof.
  intros a start stop step r H. unfold slice_step in H.
  destruct (norm_step (zlen a) start stop step) as [[i n]|] eqn:En.
  - apply norm_step_count_le in En; [|apply zlen_nonneg]. destruct En as [Hi Hn].
    destruct (step =? 0); [discriminate|].
    destruct ((n <? 0) || (n >? MaxInt)); [discriminate|].
    destruct (pick a (Z.to_nat n) i step) as [l| | | |] eqn:Ep; cbn [bind] in H; try discriminate.
    inversion H; subst. apply pick_bound in Ep as [El Hin].
    exists l. split; [reflexivity|]. split; [|assumption]. unfold zlen in Hn. lia.
  - inversion H; subst. exists []. split; [reflexivity|]. split; [cbn [length]; lia | intros x []].
Qed.

(* ================================================================== *)
(* M1c. index expressions                                              *)
(* ================================================================== *)

(* x[i] -- for every i in Z the result is an element of x or null: nothing is built.
   (Eval: NIndex c i evaluates to Ok (index x i).) *)
Theorem index_size : forall (x : value) (i : Z),
  Array.index x i = VNull \/ exists a, x = VArr a /\ In (Array.index x i) a.
Proof.
  intros x i. destruct x as [| |s| |a| |]; try (left; reflexivity).
  unfold Array.index. cbv zeta.
  destruct (i <? 0).
  - destruct (i + zlen a <? 0); [left; reflexivity|].
    destruct (nth_in_or_default (Z.to_nat (i + zlen a)) a VNull) as [Hin|Hd]; [right|left; exact Hd].
    exists a. split; [reflexivity | exact Hin].
  - destruct (i >=? zlen a); [left; reflexivity|].
    destruct (nth_in_or_default (Z.to_nat i) a VNull) as [Hin|Hd]; [right|left; exact Hd].
    exists a. split; [reflexivity | exact Hin].
Qed.

(* ================================================================== *)
(* M1d. slices of strings                                              *)
(* ================================================================== *)

(* decode_rune reads only the bytes it consumes: cutting the string anywhere at or
   after the end of the first code point does not change it *)
Lemma decode_rune_prefix a b r sz :
  decode_rune (a ++ b) = (r, sz) -> 1 <= sz <= blen a -> decode_rune a = (r, sz).
Proof.
  intros H Hs. unfold blen in Hs.
  destruct a as [|b0 [|b1 [|b2 [|b3 a']]]]; cbn [app length] in H, Hs; [lia| | | |];
  unfold decode_rune in *; cbv zeta in *;
  repeat match goal with
  | H : context [if ?c then _ else _] |- _ => destruct c eqn:?
  | H : context [match ?l with [] => _ | _ :: _ => _ end] |- _ => destruct l
  end; try exact H; try congruence; inversion H; subst; lia.
Qed.

(* dropping whole code points from the front is again a segmentation *)
Lemma skipn_chunks_runes : forall i s,
  chunks (concat (skipn i (chunks s))) = skipn i (chunks s) /\
  runes (concat (skipn i (chunks s))) = skipn i (runes s).
Proof.
  induction i as [|i IH]; intros s.
  - cbn [skipn]. now rewrite concat_chunks.
  - destruct s as [|b0 s']; [split; reflexivity|].
    rewrite (chunks_step (b0 :: s')), (runes_step (b0 :: s')) by discriminate. cbn [skipn]. apply IH.
Qed.

(* keeping whole code points at the front: the code points of the cut string are the
   first k code points of the string (true for arbitrary bytes, valid UTF-8 or not) *)
Lemma runes_concat_firstn_chunks : forall k s,
  runes (concat (firstn k (chunks s))) = firstn k (runes s).
Proof.
  induction k as [|k IH]; intros s; [reflexivity|].
  destruct s as [|b0 s0]; [reflexivity|]. set (s := b0 :: s0).
  assert (Hne : s <> []) by discriminate.
  rewrite (chunks_step s Hne), (runes_step s Hne). cbn [firstn concat].
  destruct (decode_rune s) as [r sz] eqn:D. cbn [fst snd].
  pose proof (decode_rune_size s Hne) as Hsz. rewrite D in Hsz. cbn [snd] in Hsz.
  set (c1 := firstn (Z.to_nat sz) s). set (s' := skipn (Z.to_nat sz) s).
  set (t' := concat (firstn k (chunks s'))).
  assert (Hc1 : length c1 = Z.to_nat sz) by (unfold c1; rewrite firstn_length; lia).
  assert (Es : s = (c1 ++ t') ++ concat (skipn k (chunks s'))).
  { rewrite <- app_assoc. unfold t'. unfold bytes. rewrite <- concat_firstn_skipn, concat_chunks.
    unfold c1, s'. now rewrite firstn_skipn. }
  assert (D' : decode_rune (c1 ++ t') = (r, sz)).
  { apply (decode_rune_prefix _ (concat (skipn k (chunks s')))); [rewrite <- Es; exact D|].
    unfold blen. rewrite app_length. lia. }
  assert (Hne' : c1 ++ t' <> []).
  { destruct c1; [cbn [length] in Hc1; lia | discriminate]. }
  rewrite (runes_step _ Hne'), D'. cbn [fst snd]. f_equal.
  rewrite <- Hc1, skipn_len_app. unfold t'. apply IH.
Qed.

Lemma rune_count_le_length s : rune_count s <= blen s.
Proof.
  unfold rune_count, blen, runes. generalize (length s) at 1. intros fuel. revert s.
  induction fuel as [|f IH]; intros s; [cbn [runes_f length]; lia|].
  destruct s as [|b0 s0]; [cbn [runes_f length]; lia|].
  assert (Hne : b0 :: s0 <> []) by discriminate.
  rewrite runes_f_S by assumption. cbn [length].
  pose proof (decode_rune_size _ Hne) as Hsz.
  specialize (IH (skipn (Z.to_nat (snd (decode_rune (b0 :: s0)))) (b0 :: s0))).
  rewrite skipn_length in IH. cbn [length] in *. lia.
Qed.

(* s[start:stop] on a string -- every start and stop in Z, every byte string:
   never more bytes, never more code points *)
Theorem slice_string_size : forall (s : bytes) (start stop : Z),
  exists t, slice (VStr s) start stop = Ok (VStr t) /\
            (length t <= length s)%nat /\ rune_count t <= rune_count s.
Proof.
  intros s start stop. unfold slice. cbv zeta.
  destruct (norm1 (zlen (chunks s)) start stop true) as [|i j].
  - exists []. split; [reflexivity|]. split; [cbn [length]; lia|].
    unfold rune_count. cbn [runes runes_f length]. lia.
  - eexists; split; [reflexivity|]. split.
    + rewrite <- (concat_chunks s) at 2.
      etransitivity; [apply length_concat_firstn | apply length_concat_skipn].
    + destruct (skipn_chunks_runes (Z.to_nat i) s) as [Hc Hr].
      rewrite <- Hc. unfold rune_count. rewrite runes_concat_firstn_chunks, Hr.
      rewrite firstn_length, skipn_length. lia.
Qed.

(* re-encoding: one code point in, one code point out, at most four bytes -- for every
   integer, scalar value or not (a non-scalar is written as U+FFFD) *)
Lemma encode_rune_length_any r : (1 <= length (encode_rune r) <= 4)%nat.
Proof.
  unfold encode_rune.
  repeat match goal with |- context [if ?c then _ else _] => destruct c end; cbn [length]; lia.
Qed.

Lemma length_encode_all_any l : (length l <= length (E l) <= 4 * length l)%nat.
Proof.
  induction l as [|c l IH]; [cbn; lia|].
  rewrite encode_all_cons, app_length. pose proof (encode_rune_length_any c). cbn [length]. lia.
Qed.

Definition fix_rune (r : Z) : Z := if scalar_ok r then r else RuneError.

Lemma encode_rune_fix r : encode_rune (fix_rune r) = encode_rune r.
Proof.
  unfold fix_rune. destruct (scalar_ok r) eqn:Hs; [reflexivity|].
  unfold encode_rune at 2. rewrite Hs. reflexivity.
Qed.

Lemma encode_all_fix l : E (map fix_rune l) = E l.
Proof.
  induction l as [|c l IH]; [reflexivity|].
  cbn [map]. now rewrite !encode_all_cons, IH, encode_rune_fix.
Qed.

Lemma scalars_fix l : scalars (map fix_rune l).
Proof.
  induction l as [|c l IH]; [constructor|]. cbn [map]. constructor; [|exact IH].
  unfold fix_rune. destruct (scalar_ok c) eqn:Hs; [exact Hs | reflexivity].
Qed.

Lemma rune_count_encode_all_any l : rune_count (E l) = Z.of_nat (length l).
Proof. rewrite <- encode_all_fix, rune_count_encode_all by apply scalars_fix. now rewrite map_length. Qed.

(* s[start:stop:step] on a string -- every start, stop and step in Z, every byte string:
   never more code points than the subject; each is written with at most four bytes *)
Theorem slice_step_string_size : forall (s : bytes) (start stop step : Z) (r : value),
  slice_step (VStr s) start stop step = Ok r ->
  exists t, r = VStr t /\ rune_count t <= rune_count s /\
            Z.of_nat (length t) <= 4 * rune_count s.
Proof.
  intros s start stop step r H. unfold slice_step in H. cbv zeta in H.
  destruct (norm_step (zlen (runes s)) start stop step) as [[i n]|] eqn:En.
  - apply norm_step_count_le in En; [|apply zlen_nonneg]. destruct En as [Hi Hn].
    destruct (step =? 0); [discriminate|].
    assert (G : forall l, length l = Z.to_nat n ->
                rune_count (E l) <= rune_count s /\ Z.of_nat (length (E l)) <= 4 * rune_count s).
    { intros l Hl. rewrite rune_count_encode_all_any. pose proof (length_encode_all_any l).
      unfold rune_count. unfold zlen in Hn. lia. }
    destruct (step >? 0); inversion H; subst; eexists; (split; [reflexivity|]);
      apply G, pick_default_length.
  - inversion H; subst. exists []. split; [reflexivity|].
    unfold rune_count at 1. cbn [runes runes_f length].
    pose proof (Zle_0_nat (length (runes s))). unfold rune_count. lia.
Qed.

(* On valid UTF-8 the stepped slice never has more BYTES either: the code points it
   copies sit at pairwise distinct positions of the subject.  (On invalid UTF-8 every
   broken byte is copied as the three bytes of U+FFFD: see slice_step_invalid_grows.) *)
Lemma length_encode_all_skipn m l : (length (E (skipn m l)) <= length (E l))%nat.
Proof. rewrite (encode_all_split m l), app_length. lia. Qed.

Lemma length_encode_all_rev l : length (E (rev l)) = length (E l).
Proof.
  induction l as [|c l IH]; [reflexivity|].
  cbn [rev]. rewrite encode_all_app, encode_all_single, encode_all_cons, !app_length, IH. lia.
Qed.

Lemma skipn_add {A} a : forall b (l : list A), skipn (a + b) l = skipn a (skipn b l).
Proof.
  induction b as [|b IH]; intros l; [now rewrite Nat.add_0_r|].
  rewrite Nat.add_succ_r. destruct l as [|x l]; cbn [skipn]; [now destruct a | apply IH].
Qed.

Lemma pick_default_weight rs step : 1 <= step -> forall k j, 0 <= j ->
  (k = 0%nat \/ j + (Z.of_nat k - 1) * step < zlen rs) ->
  (length (E (pick_default rs k j step)) <= length (E (skipn (Z.to_nat j) rs)))%nat.
Proof.
  intros Hstep. induction k as [|k IH]; intros j Hj Hr; [cbn; lia|].
  destruct Hr as [Hr|Hr]; [discriminate|].
  assert (Hjl : (Z.to_nat j < length rs)%nat) by (unfold zlen in Hr; nia).
  cbn [pick_default]. rewrite (skipn_nth RuneError rs (Z.to_nat j) Hjl).
  rewrite !encode_all_cons, !app_length.
  assert (Hk : (length (E (pick_default rs k (j + step) step))
                <= length (E (skipn (Z.to_nat (j + step)) rs)))%nat).
  { apply IH; [lia|]. destruct k as [|k']; [now left | right]. nia. }
  assert (Hs : (length (E (skipn (Z.to_nat (j + step)) rs))
                <= length (E (skipn (S (Z.to_nat j)) rs)))%nat).
  { replace (Z.to_nat (j + step)) with (Z.to_nat (step - 1) + S (Z.to_nat j))%nat by lia.
    rewrite skipn_add. apply length_encode_all_skipn. }
  lia.
Qed.

Theorem slice_step_valid_size : forall (cs : list Z) (start stop step : Z),
  scalars cs -> step <> 0 -> MinInt <= step ->
  exists t, slice_step (VStr (E cs)) start stop step = Ok (VStr t) /\
            (length t <= length (E cs))%nat /\ rune_count t <= Z.of_nat (length cs).
Proof.
  intros cs start stop step Hcs Hnz Hmin.
  rewrite slice_step_code_points by assumption. eexists; split; [reflexivity|].
  pose proof (cp_slice_step_scalars cs start stop step Hcs) as Hsc.
  rewrite rune_count_encode_all by assumption.
  unfold cp_slice_step in *. cbv zeta in *.
  destruct (norm_step (zlen cs) start stop step) as [[i n]|] eqn:En;
    [|split; [cbn [encode_all flat_map length]; lia | cbn [length]; lia]].
  pose proof (norm_step_count_le _ _ _ _ _ _ (zlen_nonneg cs) En) as [Hi Hn].
  split; [|destruct (step >? 0); rewrite pick_default_length; unfold zlen in Hn; lia].
  destruct (Z.gtb_spec step 0) as [Hp|Hp].
  - apply norm_step_pos_range in En; [|apply zlen_nonneg|lia].
    destruct En as [_ [c [Hc [Hic ->]]]].
    pose proof (ceilq_spec c step Hc Hp) as [[Q1 Q2] Q3].
    etransitivity; [apply pick_default_weight; [lia|lia|]|apply length_encode_all_skipn].
    right. rewrite Z2Nat.id by lia. lia.
  - apply norm_step_nonpos_range in En; [|apply zlen_nonneg|lia].
    destruct En as [_ [c [Hc ->]]].
    set (back := skipn (Z.to_nat (zlen cs - 1 - i)) (rev cs)).
    assert (Hb : zlen back = i + 1).
    { unfold back, zlen. rewrite skipn_length, rev_length. unfold zlen in Hi. lia. }
    assert (Hle : (length (E back) <= length (E cs))%nat).
    { unfold back. rewrite <- (length_encode_all_rev cs). apply length_encode_all_skipn. }
    etransitivity; [apply pick_default_weight; [lia|lia|]|cbn [Z.to_nat skipn]; exact Hle].
    destruct (Z.eq_dec step MinInt) as [->|Hne].
    + rewrite wrap64_neg_MinInt.
      pose proof (ceilq_neg_le1 c MinInt ltac:(lia) ltac:(unfold MinInt; lia)).
      destruct (Z.to_nat (ceilq c MinInt)) as [|k] eqn:Ek; [now left | right].
      replace k with 0%nat by lia. cbn. lia.
    + rewrite wrap64_id by (unfold MinInt, MaxInt in *; lia).
      pose proof (ceilq_spec c (step * -1) ltac:(lia) ltac:(lia)) as [[Q1 Q2] Q3].
      right. rewrite Z2Nat.id by lia. rewrite Hb. nia.
Qed.

(* ================================================================== *)
(* M2. find_first / find_last: null or a position inside the subject   *)
(* ================================================================== *)

Ltac bind_ok H x Ex :=
  match type of H with
  | bind ?o _ = Ok _ => destruct o as [x| | | |] eqn:Ex; cbn [bind] in H; try discriminate
  end.

Lemma is_prefix_blen p s : is_prefix p s = true -> blen p <= blen s.
Proof.
  intros H. apply is_prefix_spec in H as [r ->]. rewrite blen_app.
  pose proof (StringCodePoints.blen_nonneg r). lia.
Qed.

(* strings.Index: -1 or the offset of an occurrence that lies inside the string *)
Lemma index_from_range : forall s p off,
  index_from s p off = -1 \/
  (off <= index_from s p off /\ index_from s p off - off + blen p <= blen s).
Proof.
  induction s as [|x s IH]; intros p off; cbn [index_from].
  - destruct (is_prefix p []) eqn:Ep; [right|left; reflexivity]. apply is_prefix_blen in Ep. lia.
  - destruct (is_prefix p (x :: s)) eqn:Ep.
    + right. apply is_prefix_blen in Ep. lia.
    + destruct (IH p (off + 1)) as [H|H]; [left; exact H|right]. rewrite blen_cons. lia.
Qed.

(* strings.LastIndex likewise *)
Lemma last_index_from_range : forall s p off best,
  last_index_from s p off best = best \/
  (off <= last_index_from s p off best /\ last_index_from s p off best - off + blen p <= blen s).
Proof.
  induction s as [|x s IH]; intros p off best; cbn [last_index_from]; cbv zeta.
  - destruct (is_prefix p []) eqn:Ep; [right|left; reflexivity]. apply is_prefix_blen in Ep. lia.
  - destruct (is_prefix p (x :: s)) eqn:Ep.
    + apply is_prefix_blen in Ep. right. rewrite blen_cons in *.
      destruct (IH p (off + 1) off) as [H|H]; [rewrite H|]; lia.
    + destruct (IH p (off + 1) best) as [H|H]; [left; exact H | right]. rewrite blen_cons; lia.
Qed.

Lemma search_range (last : bool) t p :
  let r := if last then blast_index t p else bindex t p in
  r = -1 \/ (0 <= r /\ r + blen p <= blen t).
Proof.
  cbv zeta. destruct last; unfold blast_index, bindex.
  - destruct (last_index_from_range t p 0 (-1)) as [H|H]; [left; exact H | right; lia].
  - destruct (index_from_range t p 0) as [H|H]; [left; exact H | right; lia].
Qed.

Lemma blen_cons_pos x (p : bytes) : 1 <= blen (x :: p).
Proof. rewrite blen_cons. pose proof (StringCodePoints.blen_nonneg p). lia. Qed.

Lemma rune_count_prefix_range s n : 0 <= n -> 0 <= rune_count_prefix s n <= n.
Proof.
  intros Hn. unfold rune_count_prefix.
  pose proof (rune_count_le_length (firstn (Z.to_nat n) s)) as H.
  unfold blen in H. rewrite firstn_length in H. unfold rune_count in *. lia.
Qed.

(* the common tail of the three- and four-argument forms: search s[i:j], report the
   number of code points before the match *)
Lemma find_tail_size (last : bool) s p i j t :
  is_nil p = false -> j <= blen s -> bslice s i j = Ok t ->
  let r := if last then blast_index t p else bindex t p in
  r = -1 \/ 0 <= rune_count_prefix s (r + i) < blen s.
Proof.
  intros Hp Hj Hb. cbv zeta. unfold bslice in Hb.
  destruct ((0 <=? i) && (i <=? j) && (j <=? blen s)) eqn:Hc; [|discriminate].
  apply andb_true_iff in Hc as [Hc _]. apply andb_true_iff in Hc as [H0 Hij].
  apply Z.leb_le in H0. apply Z.leb_le in Hij. injection Hb as Ht.
  assert (Hlt : blen t <= j - i).
  { rewrite <- Ht. unfold blen. rewrite firstn_length. lia. }
  destruct p as [|x p]; [discriminate|]. pose proof (blen_cons_pos x p) as Hx.
  destruct (search_range last t (x :: p)) as [H|[H1 H2]]; [left; exact H | right].
  assert (Hri : 0 <= (if last then blast_index t (x :: p) else bindex t (x :: p)) + i) by lia.
  pose proof (rune_count_prefix_range s _ Hri). lia.
Qed.

(* find_first(s, p) and find_last(s, p) *)
Theorem find_first_size : forall (v pv r : value), find_first v pv = Ok r ->
  r = VNull \/ exists s k, v = VStr s /\ r = vint k /\ 0 <= k < blen s.
Proof.
  intros v pv r H. unfold find_first in H.
  destruct v as [| |s| | | |]; cbn [str_arg bind] in H; try discriminate.
  destruct pv as [| |p| | | |]; cbn [str_arg bind] in H; try discriminate.
  destruct s as [|c s]; [inversion H; now left|].
  destruct p as [|x p]; [inversion H; now left|]. cbv zeta in H.
  pose proof (blen_cons_pos x p) as Hx.
  destruct (search_range false (c :: s) (x :: p)) as [Hs|[H1 H2]]; cbv zeta in *.
  - rewrite Hs in H. inversion H. now left.
  - destruct (_ =? -1); inversion H; [now left | right]. exists (c :: s). eexists. split; [reflexivity|].
    split; [reflexivity|]. pose proof (rune_count_prefix_range (c :: s) _ H1). lia.
Qed.

Theorem find_last_size : forall (v pv r : value), find_last v pv = Ok r ->
  r = VNull \/ exists s k, v = VStr s /\ r = vint k /\ 0 <= k < blen s.
Proof.
  intros v pv r H. unfold find_last in H.
  destruct v as [| |s| | | |]; cbn [str_arg bind] in H; try discriminate.
  destruct pv as [| |p| | | |]; cbn [str_arg bind] in H; try discriminate.
  destruct s as [|c s]; [inversion H; now left|].
  destruct p as [|x p]; [inversion H; now left|]. cbv zeta in H.
  pose proof (blen_cons_pos x p) as Hx.
  destruct (search_range true (c :: s) (x :: p)) as [Hs|[H1 H2]]; cbv zeta in *.
  - rewrite Hs in H. inversion H. now left.
  - destruct (_ =? -1); inversion H; [now left | right]. exists (c :: s). eexists. split; [reflexivity|].
    split; [reflexivity|]. pose proof (rune_count_prefix_range (c :: s) _ H1). lia.
Qed.

(* find_first(s, p, start) / find_last(s, p, start): [st] is ANY value -- whatever
   integer it converts to, the answer is null or a position inside s *)
Theorem find_from_size : forall (last : bool) (v pv st r : value),
  find_from last v pv st = Ok r ->
  r = VNull \/ exists s k, v = VStr s /\ r = vint k /\ 0 <= k < blen s.
Proof.
  intros last v pv st r H. unfold find_from in H.
  destruct v as [| |s| | | |]; cbn [str_arg bind] in H; try discriminate.
  destruct pv as [| |p| | | |]; cbn [str_arg bind] in H; try discriminate.
  bind_ok H i Ei.
  destruct (is_nil s || is_nil p) eqn:Hn; [inversion H; now left|].
  apply orb_false_iff in Hn as [_ Hp].
  destruct (start_offset s i) as [m|] eqn:Em; [|inversion H; now left].
  apply start_offset_range in Em.
  bind_ok H t Et. cbv zeta in H.
  destruct (find_tail_size last s p m (blen s) t Hp ltac:(lia) Et) as [Hr|Hr]; cbv zeta in Hr.
  - rewrite Hr in H. inversion H. now left.
  - destruct (_ =? -1); inversion H; [now left | right].
    exists s. eexists. split; [reflexivity|]. split; [reflexivity | exact Hr].
Qed.

(* ... and with an end offset *)
Theorem find_between_size : forall (last : bool) (v pv st fin r : value),
  find_between last v pv st fin = Ok r ->
  r = VNull \/ exists s k, v = VStr s /\ r = vint k /\ 0 <= k < blen s.
Proof.
  intros last v pv st fin r H. unfold find_between in H.
  destruct v as [| |s| | | |]; cbn [str_arg bind] in H; try discriminate.
  destruct pv as [| |p| | | |]; cbn [str_arg bind] in H; try discriminate.
  bind_ok H ri Eri. destruct ri as [[i0 isnum] ok].
  bind_ok H i Ei. bind_ok H j Ej.
  destruct (is_nil s || is_nil p) eqn:Hn; [inversion H; now left|].
  apply orb_false_iff in Hn as [_ Hp].
  destruct (start_offset s i) as [m|] eqn:Em; [|inversion H; now left].
  apply start_offset_range in Em.
  destruct (j <? 0); [inversion H; now left|].
  set (j' := if j >? blen s then blen s else rune_offset_clamp (Z.to_nat j) s 0) in H.
  assert (Hj : j' <= blen s).
  { subst j'. destruct (j >? blen s); [lia|]. pose proof (rune_offset_clamp_range (Z.to_nat j) s 0). lia. }
  destruct (m >? j'); [inversion H; now left|].
  bind_ok H t Et. cbv zeta in H.
  destruct (find_tail_size last s p m j' t Hp Hj Et) as [Hr|Hr]; cbv zeta in Hr.
  - rewrite Hr in H. inversion H. now left.
  - destruct (_ =? -1); inversion H; [now left | right].
    exists s. eexists. split; [reflexivity|]. split; [reflexivity | exact Hr].
Qed.

(* On valid UTF-8 the position is a CODE POINT position inside the subject.  (On
   arbitrary bytes only the byte bound above holds: see find_first_invalid_utf8.) *)
Lemma cp_window_find_lt last cs ps lo hi m : ps <> [] -> (lo <= hi <= length cs)%nat ->
  cp_window_find last cs ps lo hi = Some m -> (lo <= m < hi)%nat.
Proof.
  intros Hps Hb. unfold cp_window_find.
  set (w := firstn (hi - lo) (skipn lo cs)).
  assert (Hw : length w = (hi - lo)%nat) by (unfold w; rewrite firstn_length, skipn_length; lia).
  assert (G : forall k, (k <= length w)%nat -> cp_prefix ps (skipn k w) = true -> (k < length w)%nat).
  { intros k Hk Hp. apply cp_prefix_spec in Hp as [r Hr].
    assert (Hl : length (skipn k w) = (length ps + length r)%nat) by (rewrite Hr; apply app_length).
    rewrite skipn_length in Hl. destruct ps; [congruence|]. cbn [length] in Hl. lia. }
  destruct last.
  - destruct (cp_find_last w ps) as [k|] eqn:Ek; cbn [option_map]; [|discriminate].
    intros Hm; inversion Hm; subst. apply cp_find_last_Some in Ek as (H1 & H2 & _).
    specialize (G k H1 H2). lia.
  - destruct (cp_find_first w ps) as [k|] eqn:Ek; cbn [option_map]; [|discriminate].
    intros Hm; inversion Hm; subst. apply cp_find_first_Some in Ek as (H1 & H2 & _).
    specialize (G k H1 H2). lia.
Qed.

Lemma nonnil_of_match {A} (l : list A) : (match l with [] => true | _ => false end) = false -> l <> [].
Proof. destruct l; [discriminate | discriminate]. Qed.

Theorem find_first_valid_size : forall (cs ps : list Z) (r : value), scalars cs -> scalars ps ->
  find_first (VStr (E cs)) (VStr (E ps)) = Ok r ->
  r = VNull \/ exists k, r = vint k /\ 0 <= k < Z.of_nat (length cs).
Proof.
  intros cs ps r Hcs Hps H. rewrite find_first_code_points in H by assumption.
  destruct cs as [|c cs]; [inversion H; now left|].
  destruct ps as [|p ps]; [inversion H; now left|].
  destruct (cp_find_first (c :: cs) (p :: ps)) as [m|] eqn:Em; inversion H; [right | now left].
  pose proof (cp_window_find_lt false (c :: cs) (p :: ps) 0 (length (c :: cs)) m ltac:(discriminate) ltac:(lia)) as G.
  unfold cp_window_find in G. rewrite Nat.sub_0_r, firstn_all in G. cbn [skipn] in G. rewrite Em in G.
  specialize (G eq_refl). eexists; split; [reflexivity | lia].
Qed.

Theorem find_last_valid_size : forall (cs ps : list Z) (r : value), scalars cs -> scalars ps ->
  find_last (VStr (E cs)) (VStr (E ps)) = Ok r ->
  r = VNull \/ exists k, r = vint k /\ 0 <= k < Z.of_nat (length cs).
Proof.
  intros cs ps r Hcs Hps H. rewrite find_last_code_points in H by assumption.
  destruct cs as [|c cs]; [inversion H; now left|].
  destruct ps as [|p ps]; [inversion H; now left|].
  destruct (cp_find_last (c :: cs) (p :: ps)) as [m|] eqn:Em; inversion H; [right | now left].
  pose proof (cp_window_find_lt true (c :: cs) (p :: ps) 0 (length (c :: cs)) m ltac:(discriminate) ltac:(lia)) as G.
  unfold cp_window_find in G. rewrite Nat.sub_0_r, firstn_all in G. cbn [skipn] in G. rewrite Em in G.
  specialize (G eq_refl). eexists; split; [reflexivity | lia].
Qed.

(* the characterisation of StringCodePoints.find_from_code_points, with the start
   offset given as ANY value that converts to the integer i (no bound on i) *)
Lemma find_from_code_points_any : forall last cs ps st i, scalars cs -> scalars ps ->
  int_arg st = Ok i ->
  find_from last (VStr (E cs)) (VStr (E ps)) st =
  Ok (if (match cs with [] => true | _ => false end) || (match ps with [] => true | _ => false end)
      then VNull else
      if i >? Z.of_nat (length cs) then VNull else
      match cp_window_find last cs ps (Z.to_nat (Z.max 0 i)) (length cs) with
      | Some m => vint (Z.of_nat m)
      | None => VNull
      end).
Proof.
  intros last cs ps st i Hcs Hps Hi. unfold find_from. cbn [str_arg bind].
  rewrite Hi. cbn [bind].
  rewrite !is_nil_encode_all by assumption.
  destruct (_ || _); [reflexivity|].
  rewrite start_offset_encode_all by assumption.
  destruct (Z.gtb_spec i (Z.of_nat (length cs))); [reflexivity|].
  rewrite <- boff_all. apply find_window; auto. lia.
Qed.

Lemma find_between_code_points_any : forall last cs ps st fin i j, scalars cs -> scalars ps ->
  to_int st = Ok (i, true, true) -> int_arg fin = Ok j ->
  find_between last (VStr (E cs)) (VStr (E ps)) st fin =
  Ok (if (match cs with [] => true | _ => false end) || (match ps with [] => true | _ => false end)
      then VNull else
      if (i >? Z.of_nat (length cs)) || (j <? 0) then VNull else
      let lo := Z.to_nat (Z.max 0 i) in
      let hi := Nat.min (Z.to_nat j) (length cs) in
      if (hi <? lo)%nat then VNull else
      match cp_window_find last cs ps lo hi with
      | Some m => vint (Z.of_nat m)
      | None => VNull
      end).
Proof.
  intros last cs ps st fin i j Hcs Hps Hi Hj. unfold find_between. cbn [str_arg bind].
  rewrite Hi. cbn [bind]. rewrite Hj. cbn [bind].
  rewrite !is_nil_encode_all by assumption.
  destruct (_ || _); [reflexivity|].
  rewrite start_offset_encode_all by assumption.
  destruct (Z.gtb_spec i (Z.of_nat (length cs))); [reflexivity|]. cbn [orb].
  destruct (Z.ltb_spec j 0); [reflexivity|]. cbv zeta.
  set (lo := Z.to_nat (Z.max 0 i)). set (hi := Nat.min (Z.to_nat j) (length cs)).
  assert (Hj' : (if j >? blen (E cs) then blen (E cs) else rune_offset_clamp (Z.to_nat j) (E cs) 0)
                = boff cs hi).
  { pose proof (blen_encode_all_ge cs Hcs).
    destruct (Z.gtb_spec j (blen (E cs))).
    - unfold hi. rewrite Nat.min_r by lia. now rewrite boff_all.
    - rewrite rune_offset_clamp_encode_all by assumption. cbn [Z.add]. unfold hi.
      destruct (Nat.le_gt_cases (Z.to_nat j) (length cs)).
      + now rewrite Nat.min_l.
      + rewrite Nat.min_r by lia. rewrite boff_clamp by lia. now rewrite boff_all. }
  rewrite Hj'.
  assert (Hlo : (lo <= length cs)%nat) by (unfold lo; lia).
  assert (Hhi : (hi <= length cs)%nat) by (unfold hi; lia).
  destruct (Nat.ltb_spec hi lo).
  - pose proof (boff_lt cs hi lo Hcs ltac:(lia)).
    destruct (Z.gtb_spec (boff cs lo) (boff cs hi)); [reflexivity | lia].
  - pose proof (boff_mono cs lo hi ltac:(lia)).
    destruct (Z.gtb_spec (boff cs lo) (boff cs hi)); [lia|].
    apply find_window; auto.
Qed.

Lemma decimal_to_int_isnum d i b ok : decimal_to_int d = Ok (i, b, ok) -> b = true.
Proof.
  unfold decimal_to_int. destruct (_ || _); [intros H; inversion H; reflexivity|].
  destruct (dec_int64 d) as [[i' ok']| | | |]; cbn [bind]; try discriminate.
  destruct ok'; intros H; inversion H; reflexivity.
Qed.

(* toInt: a successful conversion is always of a number *)
Lemma to_int_ok_isnum v i b : to_int v = Ok (i, b, true) -> b = true.
Proof.
  destruct v as [| | |n| | |]; cbn [to_int]; try discriminate.
  destruct n as [t|d|sg f|k z].
  - destruct (parse_int64 t); [intros H; inversion H; reflexivity|].
    destruct (parse_dec t); [apply decimal_to_int_isnum | discriminate].
  - apply decimal_to_int_isnum.
  - destruct f; try discriminate;
    (destruct (flt_int _); [|discriminate];
     repeat match goal with |- context [if ?c then _ else _] => destruct c end;
       try discriminate; intros H; inversion H; reflexivity).
  - destruct (z >? MaxInt); intros H; inversion H; reflexivity.
Qed.

Theorem find_from_valid_size : forall (last : bool) (cs ps : list Z) (st r : value),
  scalars cs -> scalars ps ->
  find_from last (VStr (E cs)) (VStr (E ps)) st = Ok r ->
  r = VNull \/ exists k, r = vint k /\ 0 <= k < Z.of_nat (length cs).
Proof.
  intros last cs ps st r Hcs Hps H.
  destruct (int_arg st) as [i| | | |] eqn:Ei;
    try (unfold find_from in H; cbn [str_arg bind] in H; rewrite Ei in H; discriminate).
  rewrite (find_from_code_points_any last cs ps st i Hcs Hps Ei) in H.
  destruct (_ || _) eqn:Hn; [inversion H; now left|].
  apply orb_false_iff in Hn as [_ Hp]. apply nonnil_of_match in Hp.
  destruct (Z.gtb_spec i (Z.of_nat (length cs))); [inversion H; now left|].
  destruct (cp_window_find _ _ _ _ _) as [m|] eqn:Em; inversion H; [right | now left].
  apply cp_window_find_lt in Em; [|assumption|lia].
  eexists; split; [reflexivity | lia].
Qed.

Theorem find_between_valid_size : forall (last : bool) (cs ps : list Z) (st fin r : value),
  scalars cs -> scalars ps ->
  find_between last (VStr (E cs)) (VStr (E ps)) st fin = Ok r ->
  r = VNull \/ exists k, r = vint k /\ 0 <= k < Z.of_nat (length cs).
Proof.
  intros last cs ps st fin r Hcs Hps H.
  assert (G : exists i j, to_int st = Ok (i, true, true) /\ int_arg fin = Ok j).
  { unfold find_between in H. cbn [str_arg bind] in H.
    bind_ok H ri Eri. destruct ri as [[i0 isnum] ok].
    destruct ok.
    - cbn [bind] in H. bind_ok H j Ej. destruct isnum.
      + exists i0, j. now split.
      + (* ok = true always comes with isnum = true *)
        apply to_int_ok_isnum in Eri. discriminate.
    - destruct (negb isnum); cbn [bind] in H; [discriminate|].
      destruct (to_int fin) as [[[f0 fnum] fok]| | | |]; cbn [bind] in H; try discriminate.
      destruct (negb fnum); cbn [bind] in H; [discriminate|].
      destruct (to_decimal st); cbn [bind] in H; discriminate. }
  destruct G as (i & j & Ei & Ej).
  rewrite (find_between_code_points_any last cs ps st fin i j Hcs Hps Ei Ej) in H.
  destruct (_ || _) eqn:Hn; [inversion H; now left|].
  apply orb_false_iff in Hn as [_ Hp]. apply nonnil_of_match in Hp.
  destruct (_ || _) eqn:Hc; [inversion H; now left|]. cbv zeta in H.
  destruct (Nat.ltb_spec (Nat.min (Z.to_nat j) (length cs)) (Z.to_nat (Z.max 0 i))); [inversion H; now left|].
  destruct (cp_window_find _ _ _ _ _) as [m|] eqn:Em; inversion H; [right | now left].
  apply cp_window_find_lt in Em; [|assumption|lia].
  eexists; split; [reflexivity | lia].
Qed.

(* ================================================================== *)
(* M3a. split with a count                                             *)
(* ================================================================== *)

Lemma bindex_range s p : bindex s p = -1 \/ (0 <= bindex s p /\ bindex s p + blen p <= blen s).
Proof. exact (search_range false s p). Qed.

(* the splitting loop with a non-empty separator: at most k cuts, at most one cut per
   byte of the subject, and the pieces together are never longer than the subject *)
Lemma split_sep_size : forall k s x p,
  (length (split_sep k s (x :: p)) <= S k)%nat /\
  (length (split_sep k s (x :: p)) <= S (length s))%nat /\
  (length (concat (split_sep k s (x :: p))) <= length s)%nat.
Proof.
  induction k as [|k IH]; intros s x p; cbn [split_sep]; cbv zeta.
  - cbn [length concat]. rewrite app_nil_r. lia.
  - pose proof (blen_cons_pos x p) as Hx.
    destruct (Z.ltb_spec (bindex s (x :: p)) 0) as [Hj|Hj].
    + cbn [length concat]. rewrite app_nil_r. lia.
    + destruct (bindex_range s (x :: p)) as [Hr|[_ Hr]]; [lia|].
      set (j := bindex s (x :: p)) in *.
      specialize (IH (skipn (Z.to_nat (j + blen (x :: p))) s) x p). destruct IH as (I1 & I2 & I3).
      rewrite skipn_length in I2, I3. unfold blen in *.
      cbn [length concat]. rewrite app_length, firstn_length.
      cbn [length] in *. lia.
Qed.

(* the splitting loop with an empty separator: exactly k cuts, and the pieces are the
   subject cut up *)
Lemma split_runes_size : forall k s,
  length (split_runes k s) = S k /\ concat (split_runes k s) = s.
Proof.
  induction k as [|k IH]; intros s; cbn [split_runes].
  - cbn [length concat]. now rewrite app_nil_r.
  - destruct (decode_rune s) as [r l]. cbn [length concat].
    destruct (IH (skipn (Z.to_nat l) s)) as [I1 I2]. rewrite I1, I2. now rewrite firstn_skipn.
Qed.

Lemma count_f_le : forall fuel s p, 0 <= count_f fuel s p <= Z.of_nat fuel.
Proof.
  induction fuel as [|f IH]; intros s p; cbn [count_f]; cbv zeta; [lia|].
  destruct (_ =? -1); [lia|].
  specialize (IH (skipn (Z.to_nat (bindex s p + blen p)) s) p). lia.
Qed.

(* strings.Count is bounded by the subject *)
Lemma bcount_le s p : 0 <= bcount s p <= blen s + 1.
Proof.
  unfold bcount. destruct p as [|x p].
  - pose proof (rune_count_le_length s). unfold rune_count in *. lia.
  - pose proof (count_f_le (S (length s)) s (x :: p)). unfold blen. lia.
Qed.

(* split(s, p, count): [c] is ANY value.  Whatever integer n it converts to, there are
   at most n + 1 pieces, at most (bytes of s) + 1 pieces, and the pieces together are
   never longer than s. *)
Theorem split_count_size : forall (v pv c r : value), split_count v pv c = Ok r ->
  exists s n pieces, v = VStr s /\ int_arg c = Ok n /\ 0 <= n /\ r = VArr (map VStr pieces) /\
    Z.of_nat (length pieces) <= n + 1 /\
    Z.of_nat (length pieces) <= blen s + 1 /\
    (length (concat pieces) <= length s)%nat.
Proof.
  intros v pv c r H. unfold split_count in H.
  destruct v as [| |s| | | |]; cbn [str_arg bind] in H; try discriminate.
  destruct pv as [| |p| | | |]; cbn [str_arg bind] in H; try discriminate.
  bind_ok H n En.
  destruct (Z.ltb_spec n 0) as [Hn|Hn]; [discriminate|].
  exists s, n. pose proof (StringCodePoints.blen_nonneg s) as Hs.
  destruct (Z.eqb_spec n 0) as [->|Hnz].
  { inversion H. exists [s]. cbn [map length concat]. rewrite app_nil_r. repeat split; lia. }
  destruct s as [|b0 s0] eqn:Es.
  { inversion H. exists []. cbn [map length concat]. repeat split; lia. }
  rewrite <- Es in *. destruct p as [|x p]; cbv zeta in H; inversion H.
  - set (k := Z.to_nat (if n >? rune_count s - 1 then rune_count s - 1 else n)).
    destruct (split_runes_size k s) as [L1 L2]. exists (split_runes k s).
    pose proof (rune_count_le_length s).
    assert (0 <= rune_count s) by (unfold rune_count; lia).
    assert (Z.of_nat k <= n /\ Z.of_nat k <= rune_count s) by
      (unfold k; destruct (Z.gtb_spec n (rune_count s - 1)); lia).
    rewrite L1, L2. repeat split; try reflexivity; lia.
  - set (k := Z.to_nat (if n >? bcount s (x :: p) then bcount s (x :: p) else n)).
    destruct (split_sep_size k s x p) as (L1 & L2 & L3). exists (split_sep k s (x :: p)).
    assert (Z.of_nat k <= n) by
      (unfold k; pose proof (bcount_le s (x :: p)); destruct (Z.gtb_spec n (bcount s (x :: p))); lia).
    unfold blen. repeat split; try reflexivity; lia.
Qed.

(* on valid UTF-8 the number of pieces is at most (code points of s) + 1 *)
Lemma cp_split_length ps : ps <> [] -> forall k cs, (length (cp_split k cs ps) <= S (length cs))%nat.
Proof.
  intros Hps. induction k as [|k IH]; intros cs; cbn [cp_split]; [cbn [length]; lia|].
  destruct (cp_find_first cs ps) as [i|] eqn:Ef; [|cbn [length]; lia].
  apply cp_find_first_Some in Ef as (Hi & Hp & _). apply cp_prefix_spec in Hp as [r Hr].
  assert (Hl : length (skipn i cs) = (length ps + length r)%nat) by (rewrite Hr; apply app_length).
  rewrite skipn_length in Hl.
  specialize (IH (skipn (i + length ps) cs)). rewrite skipn_length in IH.
  destruct ps; [congruence|]. cbn [length] in *. lia.
Qed.

Theorem split_count_valid_size : forall (cs ps : list Z) (c r : value), scalars cs -> scalars ps ->
  split_count (VStr (E cs)) (VStr (E ps)) c = Ok r ->
  exists pieces, r = VArr (map VStr pieces) /\
    Z.of_nat (length pieces) <= Z.of_nat (length cs) + 1.
Proof.
  intros cs ps c r Hcs Hps H. unfold split_count in H. cbn [str_arg bind] in H.
  bind_ok H n En.
  destruct (n <? 0); [discriminate|].
  destruct (n =? 0).
  { inversion H. exists [E cs]. cbn [map length]. split; [reflexivity | lia]. }
  destruct (E cs) as [|b0 s0] eqn:Es.
  { inversion H. exists []. cbn [map length]. split; [reflexivity | lia]. }
  rewrite <- Es in *. destruct (E ps) as [|x p] eqn:Ep; cbv zeta in H; injection H as <-.
  - eexists; split; [reflexivity|]. rewrite (proj1 (split_runes_size _ _)).
    rewrite rune_count_encode_all by assumption.
    destruct (Z.gtb_spec n (Z.of_nat (length cs) - 1)); lia.
  - rewrite <- Ep. rewrite split_sep_encode_all by assumption.
    eexists; split; [reflexivity|]. rewrite map_length.
    assert (Hne : ps <> []) by (intros ->; discriminate).
    match goal with |- context [cp_split ?k cs ps] => pose proof (cp_split_length ps Hne k cs) end.
    lia.
Qed.

(* ================================================================== *)
(* M3b. replace with a count                                           *)
(* ================================================================== *)

(* the replacing loop: k rounds add at most k copies of [new] to the subject *)
Lemma replace_loop_length : forall k first s old new,
  (length (replace_loop k first s old new) <= length s + k * length new)%nat.
Proof.
  induction k as [|k IH]; intros first s old new; [cbn [replace_loop]; lia|].
  destruct old as [|x o]; cbn [replace_loop]; cbv zeta.
  - set (j := Z.to_nat (if first then 0 else snd (decode_rune s))).
    specialize (IH false (skipn j s) [] new).
    rewrite !app_length, firstn_length. rewrite skipn_length in IH. lia.
  - set (j := bindex s (x :: o)).
    specialize (IH false (skipn (Z.to_nat (j + blen (x :: o))) s) (x :: o) new).
    pose proof (StringCodePoints.blen_nonneg (x :: o)).
    rewrite !app_length, firstn_length. rewrite skipn_length in IH. lia.
Qed.

(* strings.Replace(s, old, new, n): for EVERY n in Z (negative means "all") the result
   is at most  |s| + (|s| + 1) * |new|  bytes -- the count never appears in the bound --
   and for n >= 0 also at most  |s| + n * |new| *)
Theorem breplace_size : forall (s old new : bytes) (n : Z),
  Z.of_nat (length (breplace s old new n)) <= blen s + (blen s + 1) * blen new /\
  (0 <= n -> Z.of_nat (length (breplace s old new n)) <= blen s + n * blen new).
Proof.
  intros s old new n. unfold breplace.
  pose proof (StringCodePoints.blen_nonneg s) as Hs. pose proof (StringCodePoints.blen_nonneg new) as Hn.
  assert (T : Z.of_nat (length s) <= blen s + (blen s + 1) * blen new /\
              (0 <= n -> Z.of_nat (length s) <= blen s + n * blen new)) by (unfold blen in *; split; nia).
  destruct (beqb old new || (n =? 0)); [exact T|]. cbv zeta.
  pose proof (bcount_le s old) as Hm.
  destruct (bcount s old =? 0); [exact T|].
  set (n' := if (n <? 0) || (bcount s old <? n) then bcount s old else n).
  pose proof (replace_loop_length (Z.to_nat n') true s old new) as HL.
  assert (Hn1 : n' <= blen s + 1).
  { unfold n'. destruct (Z.ltb_spec n 0); cbn [orb]; [lia|]. destruct (Z.ltb_spec (bcount s old) n); lia. }
  assert (Hn2 : 0 <= n -> n' <= n).
  { intros H0. unfold n'. destruct (Z.ltb_spec n 0); cbn [orb]; [lia|]. destruct (Z.ltb_spec (bcount s old) n); lia. }
  unfold blen in *. split; [|intros H0; specialize (Hn2 H0)]; nia.
Qed.

(* replace(s, old, new) and replace(s, old, new, count): [c] is ANY value *)
Theorem replace_size : forall (v o nw r : value), replace v o nw = Ok r ->
  exists s nb t, v = VStr s /\ nw = VStr nb /\ r = VStr t /\
    Z.of_nat (length t) <= blen s + (blen s + 1) * blen nb.
Proof.
  intros v o nw r H. unfold replace in H.
  destruct v as [| |s| | | |]; cbn [str_arg bind] in H; try discriminate.
  destruct o as [| |po| | | |]; cbn [str_arg bind] in H; try discriminate.
  destruct nw as [| |pn| | | |]; cbn [str_arg bind] in H; try discriminate.
  injection H as <-. exists s, pn. eexists. repeat split. apply breplace_size.
Qed.

Theorem replace_count_size : forall (v o nw c r : value), replace_count v o nw c = Ok r ->
  exists s nb n t, v = VStr s /\ nw = VStr nb /\ int_arg c = Ok n /\ 0 <= n /\ r = VStr t /\
    Z.of_nat (length t) <= blen s + (blen s + 1) * blen nb /\
    Z.of_nat (length t) <= blen s + n * blen nb.
Proof.
  intros v o nw c r H. unfold replace_count in H.
  destruct v as [| |s| | | |]; cbn [str_arg bind] in H; try discriminate.
  destruct o as [| |po| | | |]; cbn [str_arg bind] in H; try discriminate.
  destruct nw as [| |pn| | | |]; cbn [str_arg bind] in H; try discriminate.
  bind_ok H n En. destruct (Z.ltb_spec n 0) as [Hn|Hn]; [discriminate|].
  injection H as <-. exists s, pn, n. eexists.
  destruct (breplace_size s po pn n) as [B1 B2]. specialize (B2 Hn).
  repeat split; assumption.
Qed.

(* ================================================================== *)
(* M4a. pad_left / pad_right: the width IS the size of the result      *)
(* ================================================================== *)

Lemma repeat_bytes_length k p : length (repeat_bytes k p) = (k * length p)%nat.
Proof. induction k as [|k IH]; cbn [repeat_bytes]; [reflexivity|]. rewrite app_length, IH. lia. Qed.

Lemma decode_rune_size_le4 s : snd (decode_rune s) <= 4.
Proof.
  destruct s as [|b0 r]; [cbn; lia|]. unfold decode_rune. cbv zeta.
  repeat match goal with
  | |- context[if ?c then _ else _] => destruct c
  | |- context[match ?l with [] => _ | _ :: _ => _ end] => destruct l
  end; cbn [snd]; lia.
Qed.

(* a string of exactly one code point has at most four bytes (valid UTF-8 or not) *)
Lemma one_rune_le4 p : rune_count p = 1 -> 1 <= blen p <= 4.
Proof.
  intros H. destruct p as [|b0 p0]; [discriminate|]. set (p := b0 :: p0) in *.
  assert (Hne : p <> []) by discriminate.
  unfold rune_count in H. rewrite (runes_step p Hne) in H. cbn [length] in H.
  pose proof (decode_rune_size p Hne) as H1. pose proof (decode_rune_size_le4 p) as H4.
  destruct (skipn (Z.to_nat (snd (decode_rune p))) p) as [|y t] eqn:Es.
  - apply (f_equal (@length Z)) in Es. rewrite skipn_length in Es. cbn [length] in Es.
    unfold blen. lia.
  - rewrite (runes_step (y :: t)) in H by discriminate. cbn [length] in H. lia.
Qed.

(* pad_left(s, width[, p]) / pad_right(s, width[, p]) on ANY byte strings; [wv] is ANY
   value.  Whatever integer w it converts to, the result has exactly
       |s| + max(0, w - codepoints(s)) * |p|      bytes,  |p| <= 4,
   and it is s itself whenever w <= codepoints(s).  The only thing the width can make
   large is the result. *)
Theorem pad_size : forall (left : bool) (v wv : value) (pv : option value) (r : value),
  pad left v wv pv = Ok r ->
  exists s p w t, v = VStr s /\ int_arg wv = Ok w /\ 0 <= w /\
    (pv = None /\ p = [32] \/ pv = Some (VStr p)) /\ rune_count p = 1 /\ 1 <= blen p <= 4 /\
    r = VStr t /\
    blen t = blen s + Z.max 0 (w - rune_count s) * blen p /\
    (w <= rune_count s -> t = s).
Proof.
  intros left v wv pv r H. unfold pad in H.
  destruct v as [| |s| | | |]; cbn [str_arg bind] in H; try discriminate.
  bind_ok H p Ep. bind_ok H w Ew.
  destruct (Z.ltb_spec w 0) as [Hw|Hw]; [discriminate|].
  destruct (Z.eqb_spec (rune_count p) 1) as [Hp|Hp]; cbn [negb] in H; [|discriminate].
  cbv zeta in H. exists s, p, w.
  assert (Hpv : pv = None /\ p = [32] \/ pv = Some (VStr p)).
  { destruct pv as [pv'|]; [right | left; split; [reflexivity | now inversion Ep]].
    destruct pv'; cbn [str_arg] in Ep; try discriminate. now inversion Ep. }
  pose proof (one_rune_le4 p Hp) as Hp4.
  destruct (Z.leb_spec (w - rune_count s) 0) as [Hn|Hn].
  - injection H as <-.
    refine (ex_intro _ s (conj eq_refl (conj eq_refl (conj Hw (conj Hpv (conj Hp (conj Hp4
             (conj eq_refl (conj _ (fun _ => eq_refl)))))))))).
    rewrite Z.max_l by lia. lia.
  - injection H as <-.
    refine (ex_intro _ _ (conj eq_refl (conj eq_refl (conj Hw (conj Hpv (conj Hp (conj Hp4
             (conj eq_refl (conj _ _))))))))); [|lia].
    rewrite Z.max_r by lia. unfold blen.
    destruct left; rewrite app_length, repeat_bytes_length; nia.
Qed.

(* On valid UTF-8: the result has exactly max(width, code points of s) code points *)
Theorem pad_valid_size : forall (left : bool) (cs : list Z) (wv : value) (pv : option value) (r : value),
  scalars cs ->
  match pv with None => True | Some x => exists qs, scalars qs /\ x = VStr (E qs) end ->
  pad left (VStr (E cs)) wv pv = Ok r ->
  exists w t, int_arg wv = Ok w /\ 0 <= w /\ r = VStr t /\
    rune_count t = Z.max w (Z.of_nat (length cs)) /\
    (w <= Z.of_nat (length cs) -> t = E cs).
Proof.
  intros left cs wv pv r Hcs Hpv H. unfold pad in H. cbn [str_arg bind] in H.
  bind_ok H p Ep. bind_ok H w Ew.
  destruct (Z.ltb_spec w 0) as [Hw|Hw]; [discriminate|].
  destruct (Z.eqb_spec (rune_count p) 1) as [Hp|Hp]; cbn [negb] in H; [|discriminate].
  cbv zeta in H. rewrite rune_count_encode_all in H by assumption.
  assert (Hq : exists q, scalar_ok q = true /\ p = encode_rune q).
  { assert (Hqs : exists qs, scalars qs /\ p = E qs).
    { destruct pv as [x|].
      - destruct Hpv as (qs & Hqs & ->). cbn [str_arg] in Ep. inversion Ep. now exists qs.
      - inversion Ep. exists [32]. split; [repeat constructor | reflexivity]. }
    destruct Hqs as (qs & Hqs & ->). rewrite rune_count_encode_all in Hp by assumption.
    destruct qs as [|q [|q' qs]]; cbn [length] in Hp; try lia.
    exists q. apply scalars_cons in Hqs as [Hq _]. split; [exact Hq | apply encode_all_single]. }
  destruct Hq as (q & Hq & ->).
  exists w. destruct (Z.leb_spec (w - Z.of_nat (length cs)) 0) as [Hn|Hn].
  - injection H as <-.
    refine (ex_intro _ (E cs) (conj eq_refl (conj Hw (conj eq_refl (conj _ (fun _ => eq_refl)))))).
    rewrite rune_count_encode_all by assumption. lia.
  - injection H as <-. rewrite repeat_bytes_encode.
    assert (Hr : scalars (repeat q (Z.to_nat (w - Z.of_nat (length cs))))) by now apply scalars_repeat.
    refine (ex_intro _ _ (conj eq_refl (conj Hw (conj eq_refl (conj _ _))))); [|lia].
    destruct left; rewrite <- encode_all_app, rune_count_encode_all
      by (apply scalars_app; split; assumption);
      rewrite app_length, repeat_length; lia.
Qed.

(* ================================================================== *)
(* M4b. fuel: every recursion of the model is measured by the SUBJECT  *)
(* ================================================================== *)
(* The model's loops are Fixpoints on a nat.  That nat is either
     - a fuel computed from the length of the subject string:
         runes / chunks / runes_rev      fuel = length s          (Base/Utf8.v)
         trim_left_fn / trim_right_fn    fuel = length s          (Model/StringFns.v)
         bcount                          fuel = S (length s)      (Model/StringFns.v)
     - or an iteration count clamped by the subject before the loop starts:
         pick / pick_default             k = element count <= length  (norm_step_count_le)
         split_sep / split_runes         k = min(count, bcount s p) resp. min(count, runes - 1)
         replace_loop                    k = min(count, bcount s old)
         rune_offset                     only entered when offset <= blen s
         rune_offset_clamp               only entered when offset <= blen s
         repeat_bytes                    k = width - code points (the size of the result)
   For each fuel the lemmas below show that ANY larger value gives the same result, so
   the subject-sized one is enough; for each count, the saturation theorems of M4c show
   that any argument beyond the subject-sized bound behaves like the bound. *)

Theorem runes_fuel_indep : forall fuel s, (length s <= fuel)%nat -> runes_f fuel s = runes_f (length s) s.
Proof. intros. apply runes_f_fuel; lia. Qed.

Theorem chunks_fuel_indep : forall fuel s, (length s <= fuel)%nat -> chunks_f fuel s = chunks_f (length s) s.
Proof. intros. apply chunks_f_fuel; lia. Qed.

Lemma count_f_fuel x p : forall f1 f2 s, (length s < f1)%nat -> (length s < f2)%nat ->
  count_f f1 s (x :: p) = count_f f2 s (x :: p).
Proof.
  induction f1 as [|f1 IH]; intros f2 s H1 H2; [lia|].
  destruct f2 as [|f2]; [lia|]. cbn [count_f]. cbv zeta.
  destruct (Z.eqb_spec (bindex s (x :: p)) (-1)) as [|Hne]; [reflexivity|]. f_equal.
  destruct (bindex_range s (x :: p)) as [|[R1 R2]]; [contradiction|].
  pose proof (blen_cons_pos x p). unfold blen in *.
  apply IH; rewrite skipn_length; lia.
Qed.

Theorem count_fuel_indep : forall fuel s x p, (S (length s) <= fuel)%nat ->
  count_f fuel s (x :: p) = count_f (S (length s)) s (x :: p).
Proof. intros. apply count_f_fuel; lia. Qed.

Lemma trim_left_f_fuel p : forall f1 f2 s, (length s <= f1)%nat -> (length s <= f2)%nat ->
  trim_left_f f1 p s = trim_left_f f2 p s.
Proof.
  induction f1 as [|f1 IH]; intros f2 s H1 H2.
  - destruct s; [|cbn [length] in H1; lia]. destruct f2; reflexivity.
  - destruct s as [|b0 s0]; [destruct f2; reflexivity|].
    destruct f2 as [|f2]; [cbn [length] in H2; lia|].
    assert (Hne : b0 :: s0 <> []) by discriminate.
    rewrite !trim_left_f_S by assumption. destruct (p _); [|reflexivity].
    pose proof (skipn_decode_length (b0 :: s0) _ _ Hne (surjective_pairing _)).
    apply IH; lia.
Qed.

Theorem trim_left_fuel_indep : forall fuel p s, (length s <= fuel)%nat ->
  trim_left_f fuel p s = trim_left_fn p s.
Proof. intros. unfold trim_left_fn. apply trim_left_f_fuel; lia. Qed.

(* the backward decoder consumes at least one byte of a non-empty string *)
Lemma scan_m_le s lim : forall k start, scan_m s lim k start <= start.
Proof.
  induction k as [|k IH]; intros start; [cbn; lia|]. rewrite scan_m_S.
  destruct (start <? lim); [lia|]. destruct (rune_start _); [lia|]. specialize (IH (start - 1)). lia.
Qed.

Lemma decode_last_rune_size s : s <> [] -> 1 <= snd (decode_last_rune s) <= blen s.
Proof.
  intros Hne. rewrite decode_last_rune_eq. cbv zeta.
  assert (Hn : 1 <= blen s) by (destruct s; [congruence | apply blen_cons_pos]).
  destruct (Z.eqb_spec (blen s) 0); [lia|].
  destruct (_ <? 128); [cbn [snd]; lia|].
  set (start0 := scan_m s (Z.max 0 (blen s - 4)) 4 (blen s - 2)).
  pose proof (scan_m_le s (Z.max 0 (blen s - 4)) 4 (blen s - 2)) as Hs. fold start0 in Hs.
  set (start := if start0 <? 0 then 0 else start0).
  assert (Hst : 0 <= start <= blen s - 1) by (unfold start; destruct (Z.ltb_spec start0 0); lia).
  destruct (decode_rune (skipn (Z.to_nat start) s)) as [r sz].
  destruct (Z.eqb_spec (start + sz) (blen s)); cbn [snd]; lia.
Qed.

Lemma firstn_last_length s : s <> [] ->
  (length (firstn (length s - Z.to_nat (snd (decode_last_rune s))) s) < length s)%nat.
Proof.
  intros Hne. pose proof (decode_last_rune_size s Hne) as H. unfold blen in H.
  rewrite firstn_length. lia.
Qed.

Lemma trim_right_f_fuel p : forall f1 f2 s, (length s <= f1)%nat -> (length s <= f2)%nat ->
  trim_right_f f1 p s = trim_right_f f2 p s.
Proof.
  induction f1 as [|f1 IH]; intros f2 s H1 H2.
  - destruct s; [|cbn [length] in H1; lia]. destruct f2; reflexivity.
  - destruct s as [|b0 s0]; [destruct f2; reflexivity|].
    destruct f2 as [|f2]; [cbn [length] in H2; lia|].
    assert (Hne : b0 :: s0 <> []) by discriminate.
    rewrite !trim_right_f_S by assumption. destruct (p _); [|reflexivity].
    pose proof (firstn_last_length (b0 :: s0) Hne).
    apply IH; lia.
Qed.

Theorem trim_right_fuel_indep : forall fuel p s, (length s <= fuel)%nat ->
  trim_right_f fuel p s = trim_right_fn p s.
Proof. intros. unfold trim_right_fn. apply trim_right_f_fuel; lia. Qed.

Lemma runes_rev_f_fuel : forall f1 f2 s, (length s <= f1)%nat -> (length s <= f2)%nat ->
  runes_rev_f f1 s = runes_rev_f f2 s.
Proof.
  induction f1 as [|f1 IH]; intros f2 s H1 H2.
  - destruct s; [|cbn [length] in H1; lia]. destruct f2; reflexivity.
  - destruct s as [|b0 s0]; [destruct f2; reflexivity|].
    destruct f2 as [|f2]; [cbn [length] in H2; lia|].
    assert (Hne : b0 :: s0 <> []) by discriminate.
    rewrite !runes_rev_f_S by assumption. f_equal.
    pose proof (firstn_last_length (b0 :: s0) Hne).
    apply IH; lia.
Qed.

Theorem runes_rev_fuel_indep : forall fuel s, (length s <= fuel)%nat -> runes_rev_f fuel s = runes_rev s.
Proof. intros. unfold runes_rev. apply runes_rev_f_fuel; lia. Qed.

(* the offset loops stop when the string does, whatever the requested offset *)
Lemma rune_offset_beyond : forall k s n, (length s < k)%nat -> rune_offset k s n = None.
Proof.
  induction k as [|k IH]; intros s n H; [lia|]. cbn [rune_offset].
  destruct s as [|b0 s0]; [reflexivity|].
  assert (Hne : b0 :: s0 <> []) by discriminate.
  pose proof (decode_rune_size _ Hne) as Hs.
  pose proof (skipn_decode_length (b0 :: s0) _ _ Hne (surjective_pairing _)) as Hl.
  destruct (decode_rune (b0 :: s0)) as [r sz]. cbn [fst snd] in *.
  destruct (Z.eqb_spec sz 0); [lia|]. apply IH. cbn [length] in *. lia.
Qed.

Lemma rune_offset_clamp_fuel : forall k1 k2 s n, (length s <= k1)%nat -> (length s <= k2)%nat ->
  rune_offset_clamp k1 s n = rune_offset_clamp k2 s n.
Proof.
  induction k1 as [|k1 IH]; intros k2 s n H1 H2.
  - destruct s; [|cbn [length] in H1; lia]. destruct k2; reflexivity.
  - destruct s as [|b0 s0]; [destruct k2; reflexivity|].
    destruct k2 as [|k2]; [cbn [length] in H2; lia|]. cbn [rune_offset_clamp].
    assert (Hne : b0 :: s0 <> []) by discriminate.
    pose proof (skipn_decode_length (b0 :: s0) _ _ Hne (surjective_pairing _)) as Hl.
    destruct (decode_rune (b0 :: s0)) as [r sz]. cbn [fst snd] in *.
    destruct (sz =? 0); [reflexivity|]. apply IH; cbn [length] in *; lia.
Qed.

Theorem rune_offset_clamp_indep : forall k s n, (length s <= k)%nat ->
  rune_offset_clamp k s n = rune_offset_clamp (length s) s n.
Proof. intros. apply rune_offset_clamp_fuel; lia. Qed.

(* the splitting loop: one more round than the subject has bytes changes nothing *)
Lemma split_sep_fuel x p : forall k1 k2 s, (length s < k1)%nat -> (length s < k2)%nat ->
  split_sep k1 s (x :: p) = split_sep k2 s (x :: p).
Proof.
  induction k1 as [|k1 IH]; intros k2 s H1 H2; [lia|].
  destruct k2 as [|k2]; [lia|]. cbn [split_sep]. cbv zeta.
  destruct (Z.ltb_spec (bindex s (x :: p)) 0) as [|Hj]; [reflexivity|]. f_equal.
  destruct (bindex_range s (x :: p)) as [|[R1 R2]]; [lia|].
  pose proof (blen_cons_pos x p). unfold blen in *.
  apply IH; rewrite skipn_length; lia.
Qed.

Theorem split_sep_indep : forall k s x p, (S (length s) <= k)%nat ->
  split_sep k s (x :: p) = split_sep (S (length s)) s (x :: p).
Proof. intros. apply split_sep_fuel; lia. Qed.

(* ================================================================== *)
(* M4c. saturation: beyond the size of the subject the magnitude of a  *)
(* numeric argument is irrelevant                                      *)
(* ================================================================== *)

Definition clamp (lo hi x : Z) : Z := Z.max lo (Z.min x hi).

(* search offsets: everything below 0 behaves like -1, everything above the byte length
   like (byte length + 1) *)
Theorem start_offset_clamp : forall s i, start_offset s i = start_offset s (clamp (-1) (blen s + 1) i).
Proof.
  intros s i. unfold start_offset, clamp. pose proof (StringCodePoints.blen_nonneg s).
  destruct (Z.ltb_spec i 0).
  { rewrite Z.min_l, Z.max_l by lia. reflexivity. }
  destruct (Z.gtb_spec i (blen s)).
  { rewrite Z.min_r, Z.max_r by lia. destruct (Z.ltb_spec (blen s + 1) 0); [lia|].
    destruct (Z.gtb_spec (blen s + 1) (blen s)); [reflexivity | lia]. }
  rewrite Z.min_l, Z.max_r by lia.
  destruct (Z.ltb_spec i 0); [lia|]. destruct (Z.gtb_spec i (blen s)); [lia | reflexivity].
Qed.

Lemma int_arg_ok_to_int v i : int_arg v = Ok i -> to_int v = Ok (i, true, true).
Proof.
  unfold int_arg. destruct (to_int v) as [[[i0 isnum] ok]| | | |] eqn:Et; cbn [bind]; try discriminate.
  destruct ok.
  - intros H; inversion H; subst. now rewrite (to_int_ok_isnum v i isnum Et).
  - destruct (negb isnum); [discriminate|]. destruct (to_decimal v); discriminate.
Qed.

Theorem find_from_saturates : forall (last : bool) (s : bytes) (pv st1 st2 : value) (i1 i2 : Z),
  int_arg st1 = Ok i1 -> int_arg st2 = Ok i2 ->
  clamp (-1) (blen s + 1) i1 = clamp (-1) (blen s + 1) i2 ->
  find_from last (VStr s) pv st1 = find_from last (VStr s) pv st2.
Proof.
  intros last s pv st1 st2 i1 i2 H1 H2 Hc. unfold find_from. cbn [str_arg bind].
  destruct (str_arg pv) as [p| | | |]; cbn [bind]; try reflexivity.
  rewrite H1, H2. cbn [bind].
  now rewrite (start_offset_clamp s i1), (start_offset_clamp s i2), Hc.
Qed.

Theorem find_between_saturates : forall (last : bool) (s : bytes) (pv st fin1 fin2 : value) (j1 j2 : Z),
  int_arg fin1 = Ok j1 -> int_arg fin2 = Ok j2 ->
  clamp (-1) (blen s + 1) j1 = clamp (-1) (blen s + 1) j2 ->
  find_between last (VStr s) pv st fin1 = find_between last (VStr s) pv st fin2.
Proof.
  intros last s pv st fin1 fin2 j1 j2 H1 H2 Hc. unfold find_between. cbn [str_arg bind].
  destruct (str_arg pv) as [p| | | |]; cbn [bind]; try reflexivity.
  destruct (to_int st) as [[[i isnum] ok]| | | |]; cbn [bind]; try reflexivity.
  rewrite (int_arg_ok_to_int _ _ H1), (int_arg_ok_to_int _ _ H2), H1, H2. cbn [bind].
  match goal with |- bind ?o _ = bind ?o _ => destruct o as [i'| | | |]; cbn [bind]; try reflexivity end.
  destruct (is_nil s || is_nil p); [reflexivity|].
  destruct (start_offset s i') as [m|]; [|reflexivity].
  pose proof (StringCodePoints.blen_nonneg s). unfold clamp in Hc.
  destruct (Z.ltb_spec j1 0), (Z.ltb_spec j2 0); try reflexivity; try (exfalso; lia).
  destruct (Z.gtb_spec j1 (blen s)), (Z.gtb_spec j2 (blen s)); try reflexivity; try (exfalso; lia).
  assert (j1 = j2) by lia. subst. reflexivity.
Qed.

(* split / replace counts: everything from (byte length + 1) upwards behaves alike *)
Theorem split_count_saturates : forall (s : bytes) (pv c1 c2 : value) (n1 n2 : Z),
  int_arg c1 = Ok n1 -> int_arg c2 = Ok n2 -> blen s + 1 <= n1 -> blen s + 1 <= n2 ->
  split_count (VStr s) pv c1 = split_count (VStr s) pv c2.
Proof.
  intros s pv c1 c2 n1 n2 H1 H2 B1 B2. unfold split_count. cbn [str_arg bind].
  destruct (str_arg pv) as [p| | | |]; cbn [bind]; try reflexivity.
  rewrite H1, H2. cbn [bind]. pose proof (StringCodePoints.blen_nonneg s).
  destruct (Z.ltb_spec n1 0), (Z.ltb_spec n2 0); try lia.
  destruct (Z.eqb_spec n1 0), (Z.eqb_spec n2 0); try lia.
  destruct s as [|b0 s0] eqn:Es; [reflexivity|]. rewrite <- Es in *.
  destruct p as [|x p]; cbv zeta.
  - pose proof (rune_count_le_length s).
    destruct (Z.gtb_spec n1 (rune_count s - 1)), (Z.gtb_spec n2 (rune_count s - 1)); try lia. reflexivity.
  - pose proof (bcount_le s (x :: p)).
    destruct (Z.gtb_spec n1 (bcount s (x :: p))), (Z.gtb_spec n2 (bcount s (x :: p)));
      try reflexivity; repeat f_equal; lia.
Qed.

Theorem breplace_saturates : forall (s old new : bytes) (n1 n2 : Z),
  blen s + 1 <= n1 -> blen s + 1 <= n2 -> breplace s old new n1 = breplace s old new n2.
Proof.
  intros s old new n1 n2 B1 B2. unfold breplace. pose proof (StringCodePoints.blen_nonneg s).
  destruct (Z.eqb_spec n1 0), (Z.eqb_spec n2 0); try lia.
  destruct (beqb old new); cbn [orb]; [reflexivity|]. cbv zeta.
  pose proof (bcount_le s old).
  destruct (bcount s old =? 0); [reflexivity|].
  destruct (Z.ltb_spec n1 0), (Z.ltb_spec n2 0); try lia. cbn [orb].
  destruct (Z.ltb_spec (bcount s old) n1), (Z.ltb_spec (bcount s old) n2);
    try reflexivity; f_equal; lia.
Qed.

(* ... and a negative count (the three-argument form passes -1) is the same as any
   count beyond the subject *)
Theorem breplace_all : forall (s old new : bytes) (n : Z),
  blen s + 1 <= n -> breplace s old new n = breplace s old new (-1).
Proof.
  intros s old new n B. unfold breplace. pose proof (StringCodePoints.blen_nonneg s).
  destruct (Z.eqb_spec n 0); try lia. cbn [Z.eqb].
  destruct (beqb old new); cbn [orb]; [reflexivity|]. cbv zeta.
  pose proof (bcount_le s old).
  destruct (bcount s old =? 0); [reflexivity|].
  destruct (Z.ltb_spec n 0); try lia. cbn [orb Z.ltb Z.compare].
  destruct (Z.ltb_spec (bcount s old) n); try reflexivity; f_equal; lia.
Qed.

(* slice bounds: everything below -(length+1) or above length behaves like that value *)
Ltac zsplit :=
  repeat match goal with
  | |- context [?a <? ?b] => destruct (Z.ltb_spec a b)
  | |- context [?a >=? ?b] => rewrite (Z.geb_leb a b)
  | |- context [?a >? ?b] => rewrite (Z.gtb_ltb a b)
  | |- context [?a <=? ?b] => destruct (Z.leb_spec a b)
  end.

Ltac clamp_cases x L :=
  unfold clamp;
  destruct (Z.lt_trichotomy x (- L - 1)) as [?|[?|?]];
  [rewrite (Z.max_l _ (Z.min x L)) by lia
  |rewrite (Z.max_r _ (Z.min x L)), (Z.min_l x L) by lia
  |destruct (Z.le_gt_cases x L);
   [rewrite (Z.max_r _ (Z.min x L)), (Z.min_l x L) by lia
   |rewrite (Z.max_r _ (Z.min x L)), (Z.min_r x L) by lia]];
  try reflexivity; zsplit; try reflexivity; try lia.

Lemma norm_step_clamp L start stop step : 0 <= L ->
  norm_step L start stop step =
  norm_step L (clamp (- L - 1) L start) (clamp (- L - 1) L stop) step.
Proof.
  intros HL. unfold norm_step. cbv zeta.
  assert (A1 : forall x, (if x <? 0 then if x <? - L then Some 0 else Some (x + L)
                          else if x >=? L then None else Some x) =
                         (let y := clamp (- L - 1) L x in
                          if y <? 0 then if y <? - L then Some 0 else Some (y + L)
                          else if y >=? L then None else Some y)).
  { intros x. cbv zeta. clamp_cases x L. }
  assert (A2 : forall x, (if x <? 0 then if x <? - L then None else Some (x + L)
                          else if x >? L then Some L else Some x) =
                         (let y := clamp (- L - 1) L x in
                          if y <? 0 then if y <? - L then None else Some (y + L)
                          else if y >? L then Some L else Some y)).
  { intros x. cbv zeta. clamp_cases x L. }
  assert (A3 : forall x, (if x <? 0 then if x <? - L then None else Some (x + L)
                          else if x >=? L then Some (L - 1) else Some x) =
                         (let y := clamp (- L - 1) L x in
                          if y <? 0 then if y <? - L then None else Some (y + L)
                          else if y >=? L then Some (L - 1) else Some y)).
  { intros x. cbv zeta. clamp_cases x L. }
  assert (A4 : forall x, (if x <? 0 then if x <? - L then Some (-1) else Some (x + L)
                          else if x >=? L then None else Some x) =
                         (let y := clamp (- L - 1) L x in
                          if y <? 0 then if y <? - L then Some (-1) else Some (y + L)
                          else if y >=? L then None else Some y)).
  { intros x. cbv zeta. clamp_cases x L. }
  cbv zeta in A1, A2, A3, A4.
  rewrite (A1 start), (A2 stop), (A3 start), (A4 stop). reflexivity.
Qed.

Lemma norm1_clamp L start stop b : 0 <= L ->
  norm1 L start stop b = norm1 L (clamp (- L - 1) L start) (clamp (- L - 1) L stop) b.
Proof.
  intros HL. unfold norm1. cbv zeta.
  assert (A1 : forall x, (if x <? 0 then if x <? - L then Some 0 else Some (x + L)
                          else if x >=? L then None else Some x) =
                         (let y := clamp (- L - 1) L x in
                          if y <? 0 then if y <? - L then Some 0 else Some (y + L)
                          else if y >=? L then None else Some y)).
  { intros x. cbv zeta. clamp_cases x L. }
  assert (A5 : forall x, (if x <? 0 then if x <? - L then None else Some (x + L)
                          else if x >=? L then Some L else Some x) =
                         (let y := clamp (- L - 1) L x in
                          if y <? 0 then if y <? - L then None else Some (y + L)
                          else if y >=? L then Some L else Some y)).
  { intros x. cbv zeta. clamp_cases x L. }
  cbv zeta in A1, A5. rewrite (A1 start), (A5 stop). reflexivity.
Qed.

(* the size the slice functions measure their subject by *)
Definition subject_len (v : value) : Z :=
  match v with VArr a => zlen a | VStr s => rune_count s | _ => 0 end.

Lemma subject_len_nonneg v : 0 <= subject_len v.
Proof. destruct v; cbn [subject_len]; unfold zlen, rune_count; lia. Qed.

Theorem slice_saturates : forall (v : value) (start stop : Z),
  let L := subject_len v in
  slice v start stop = slice v (clamp (- L - 1) L start) (clamp (- L - 1) L stop).
Proof.
  intros v start stop. cbv zeta. pose proof (subject_len_nonneg v) as HL.
  destruct v as [| |s| |a| |]; try reflexivity; cbn [subject_len] in *; unfold slice; cbv zeta.
  - unfold zlen. rewrite length_chunks. now rewrite <- (norm1_clamp (rune_count s) start stop true HL).
  - now rewrite <- (norm1_clamp (zlen a) start stop false HL).
Qed.

Theorem slice_step_saturates : forall (v : value) (start stop step : Z),
  let L := subject_len v in
  slice_step v start stop step =
  slice_step v (clamp (- L - 1) L start) (clamp (- L - 1) L stop) step.
Proof.
  intros v start stop step. cbv zeta. pose proof (subject_len_nonneg v) as HL.
  destruct v as [| |s| |a| |]; try reflexivity; cbn [subject_len] in *; unfold slice_step; cbv zeta.
  - change (zlen (runes s)) with (rune_count s).
    now rewrite <- (norm_step_clamp (rune_count s) start stop step HL).
  - now rewrite <- (norm_step_clamp (zlen a) start stop step HL).
Qed.

(* slice steps: every step at least as large as the subject selects exactly one element,
   so all such steps behave alike *)
Lemma ceilq_big c s : 0 < c <= s -> ceilq c s = 1.
Proof.
  intros H. unfold ceilq. destruct (Z.eq_dec c s) as [->|Hne].
  - rewrite Z.rem_same, Z.quot_same by lia. reflexivity.
  - rewrite Z.rem_small, Z.quot_small by lia. rewrite (gtb_true c 0) by lia. reflexivity.
Qed.

Lemma norm_step_big_pos L start stop step : 0 <= L -> 0 < step -> L <= step ->
  norm_step L start stop step =
  let '(s, e) := spec_bounds L (Some start) (Some stop) 1 in
  if e <=? s then None else Some (s, 1).
Proof.
  intros HL Hs Hb.
  assert (Hsb : spec_bounds L (Some start) (Some stop) step = spec_bounds L (Some start) (Some stop) 1).
  { unfold spec_bounds. rewrite (ltb_false step 0) by lia. reflexivity. }
  destruct (spec_bounds L (Some start) (Some stop) 1) as [s e] eqn:Eb.
  pose proof (norm_step_pos_spec L start stop step s e HL Hs Hsb) as G.
  destruct (norm_step L start stop step) as [[i n]|]; destruct (Z.leb_spec e s); try reflexivity; try lia.
  destruct G as (-> & G1 & G2 & G3 & c & -> & ->). now rewrite ceilq_big by lia.
Qed.

Lemma norm_step_big_neg L start stop step : 0 <= L <= MaxInt -> MinInt <= step < 0 -> L <= - step ->
  norm_step L start stop step =
  let '(s, e) := spec_bounds L (Some start) (Some stop) (-1) in
  if s <=? e then None else Some (s, 1).
Proof.
  intros HL Hs Hb.
  assert (Hsb : spec_bounds L (Some start) (Some stop) step = spec_bounds L (Some start) (Some stop) (-1)).
  { unfold spec_bounds. rewrite (ltb_true step 0) by lia. reflexivity. }
  destruct (spec_bounds L (Some start) (Some stop) (-1)) as [s e] eqn:Eb.
  pose proof (norm_step_neg_spec L start stop step s e ltac:(lia) ltac:(lia) Hsb) as G.
  destruct (norm_step L start stop step) as [[i n]|]; destruct (Z.leb_spec s e); try reflexivity; try lia.
  destruct G as (-> & G1 & G2 & G3 & c & -> & ->).
  destruct (Z.eq_dec step MinInt) as [->|Hne].
  - now rewrite wrap64_neg_MinInt, ceilq_MinInt by lia.
  - rewrite wrap64_id by (unfold MinInt, MaxInt in *; lia). now rewrite ceilq_big by lia.
Qed.

Theorem slice_step_big_step_pos : forall (v : value) (start stop step1 step2 : Z),
  0 < step1 -> subject_len v <= step1 -> 0 < step2 -> subject_len v <= step2 ->
  slice_step v start stop step1 = slice_step v start stop step2.
Proof.
  intros v start stop step1 step2 P1 B1 P2 B2. pose proof (subject_len_nonneg v) as HL.
  destruct v as [| |s| |a| |]; try reflexivity; cbn [subject_len] in *; unfold slice_step; cbv zeta.
  - change (zlen (runes s)) with (rune_count s).
    rewrite !norm_step_big_pos by lia.
    destruct (spec_bounds _ _ _ _) as [s0 e]. destruct (e <=? s0); [reflexivity|].
    rewrite (proj2 (Z.eqb_neq step1 0)), (proj2 (Z.eqb_neq step2 0)) by lia.
    rewrite (gtb_true step1 0), (gtb_true step2 0) by lia.
    change (Z.to_nat 1) with 1%nat. reflexivity.
  - rewrite !norm_step_big_pos by lia.
    destruct (spec_bounds _ _ _ _) as [s0 e]. destruct (e <=? s0); [reflexivity|].
    rewrite (proj2 (Z.eqb_neq step1 0)), (proj2 (Z.eqb_neq step2 0)) by lia.
    change ((1 <? 0) || (1 >? MaxInt)) with false. cbv iota.
    change (Z.to_nat 1) with 1%nat. cbn [pick]. destruct (at_ a s0); reflexivity.
Qed.

Theorem slice_step_big_step_neg : forall (v : value) (start stop step1 step2 : Z),
  subject_len v <= MaxInt ->
  MinInt <= step1 < 0 -> subject_len v <= - step1 ->
  MinInt <= step2 < 0 -> subject_len v <= - step2 ->
  slice_step v start stop step1 = slice_step v start stop step2.
Proof.
  intros v start stop step1 step2 HM P1 B1 P2 B2. pose proof (subject_len_nonneg v) as HL.
  destruct v as [| |s| |a| |]; try reflexivity; cbn [subject_len] in *; unfold slice_step; cbv zeta.
  - change (zlen (runes s)) with (rune_count s).
    rewrite !norm_step_big_neg by lia.
    destruct (spec_bounds _ _ _ _) as [s0 e]. destruct (s0 <=? e); [reflexivity|].
    rewrite (proj2 (Z.eqb_neq step1 0)), (proj2 (Z.eqb_neq step2 0)) by lia.
    rewrite (gtb_false step1 0), (gtb_false step2 0) by lia.
    change (Z.to_nat 1) with 1%nat. reflexivity.
  - rewrite !norm_step_big_neg by lia.
    destruct (spec_bounds _ _ _ _) as [s0 e]. destruct (s0 <=? e); [reflexivity|].
    rewrite (proj2 (Z.eqb_neq step1 0)), (proj2 (Z.eqb_neq step2 0)) by lia.
    change ((1 <? 0) || (1 >? MaxInt)) with false. cbv iota.
    change (Z.to_nat 1) with 1%nat. cbn [pick]. destruct (at_ a s0); reflexivity.
Qed.

(* ================================================================== *)
(* Non-vacuity: the calls at the 64-bit limits, on small subjects      *)
(* ================================================================== *)

Definition imax : Z := 9223372036854775807.
Definition imin : Z := -9223372036854775808.
Definition abc : bytes := [97; 98; 99].
Definition arr123 : list value := [vint 1; vint 2; vint 3].

Example ex_slice_array_limits :
  slice (VArr arr123) imin imax = Ok (VArr arr123) /\
  slice (VArr arr123) imax imin = Ok (VArr []).
Proof. split; vm_compute; reflexivity. Qed.

Example ex_slice_step_array_limits :
  slice_step (VArr arr123) imin imax imax = Ok (VArr [vint 1]) /\
  slice_step (VArr arr123) imax imin imin = Ok (VArr [vint 3]) /\
  slice_step (VArr arr123) imax imin (-1) = Ok (VArr [vint 3; vint 2; vint 1]).
Proof. repeat split; vm_compute; reflexivity. Qed.

Example ex_slice_string_limits :
  slice (VStr abc) imin imax = Ok (VStr abc) /\
  slice_step (VStr abc) imin imax imax = Ok (VStr [97]) /\
  slice_step (VStr abc) imax imin imin = Ok (VStr [99]) /\
  slice_step (VStr abc) imax imin (-2) = Ok (VStr [99; 97]).
Proof. repeat split; vm_compute; reflexivity. Qed.

Example ex_index_limits :
  Array.index (VArr arr123) imax = VNull /\ Array.index (VArr arr123) imin = VNull /\
  Array.index (VArr arr123) (-1) = vint 3.
Proof. repeat split; vm_compute; reflexivity. Qed.

Example ex_find_limits :
  find_from false (VStr (abc ++ abc)) (VStr [98]) (vint imin) = Ok (vint 1) /\
  find_from true (VStr (abc ++ abc)) (VStr [98]) (vint imin) = Ok (vint 4) /\
  find_from false (VStr (abc ++ abc)) (VStr [98]) (vint imax) = Ok VNull /\
  find_between false (VStr (abc ++ abc)) (VStr [98]) (vint imin) (vint imax) = Ok (vint 1) /\
  find_between true (VStr (abc ++ abc)) (VStr [98]) (vint 2) (vint imax) = Ok (vint 4) /\
  find_between true (VStr (abc ++ abc)) (VStr [98]) (vint imax) (vint imax) = Ok VNull.
Proof. repeat split; vm_compute; reflexivity. Qed.

Example ex_split_replace_limits :
  split_count (VStr [97; 44; 98; 44; 99]) (VStr [44]) (vint imax)
    = Ok (VArr [VStr [97]; VStr [98]; VStr [99]]) /\
  split_count (VStr abc) (VStr []) (vint imax) = Ok (VArr [VStr [97]; VStr [98]; VStr [99]]) /\
  split_count (VStr abc) (VStr [44]) (vint imin) = Err ENegativeInteger /\
  replace_count (VStr [97; 44; 98; 44; 99]) (VStr [44]) (VStr [45; 45]) (vint imax)
    = Ok (VStr [97; 45; 45; 98; 45; 45; 99]) /\
  replace_count (VStr abc) (VStr []) (VStr [45]) (vint imax)
    = Ok (VStr [45; 97; 45; 98; 45; 99; 45]) /\
  replace_count (VStr abc) (VStr [98]) (VStr [45]) (vint imin) = Err ENegativeInteger.
Proof. repeat split; vm_compute; reflexivity. Qed.

(* pad: a width up to the length returns the subject; only a width beyond it builds anything
   (a width of 2^63-1 is a request for a 2^63-1 code point result, see pad_size) *)
Example ex_pad :
  pad true (VStr abc) (vint 3) None = Ok (VStr abc) /\
  pad true (VStr abc) (vint 5) None = Ok (VStr [32; 32; 97; 98; 99]) /\
  pad false (VStr abc) (vint 5) (Some (VStr [226; 130; 172])) = Ok (VStr [97; 98; 99; 226; 130; 172; 226; 130; 172]) /\
  pad true (VStr abc) (vint imin) None = Err ENegativeInteger.
Proof. repeat split; vm_compute; reflexivity. Qed.

(* the two places where the byte string must be valid UTF-8 for the sharper bound *)
Example slice_step_invalid_grows :
  slice_step (VStr [255]) 0 1 2 = Ok (VStr [239; 191; 189]).
Proof. vm_compute. reflexivity. Qed.

Example find_first_invalid_utf8 :
  find_first (VStr [226; 130; 172]) (VStr [172]) = Ok (vint 2) /\ rune_count [226; 130; 172] = 1.
Proof. split; vm_compute; reflexivity. Qed.

(* the saturation theorems at work *)
Example ex_saturation :
  slice_step (VArr arr123) 0 3 3 = slice_step (VArr arr123) 0 3 imax /\
  slice_step (VStr abc) 2 imin (-3) = slice_step (VStr abc) 2 imin imin /\
  breplace abc [98] [45] 4 = breplace abc [98] [45] imax.
Proof.
  split; [|split].
  - apply slice_step_big_step_pos; vm_compute; congruence.
  - apply slice_step_big_step_neg; vm_compute; intuition congruence.
  - apply breplace_saturates; vm_compute; congruence.
Qed.

(* ================================================================== *)
(* every theorem is closed under the global context                   *)
(* ================================================================== *)
Print Assumptions slice_array_size.
Print Assumptions slice_step_array_size.
Print Assumptions index_size.
Print Assumptions slice_string_size.
Print Assumptions slice_step_string_size.
Print Assumptions slice_step_valid_size.
Print Assumptions find_first_size.
Print Assumptions find_last_size.
Print Assumptions find_from_size.
Print Assumptions find_between_size.
Print Assumptions find_first_valid_size.
Print Assumptions find_last_valid_size.
Print Assumptions find_from_valid_size.
Print Assumptions find_between_valid_size.
Print Assumptions split_count_size.
Print Assumptions split_count_valid_size.
Print Assumptions breplace_size.
Print Assumptions replace_size.
Print Assumptions replace_count_size.
Print Assumptions pad_size.
Print Assumptions pad_valid_size.
Print Assumptions runes_fuel_indep.
Print Assumptions chunks_fuel_indep.
Print Assumptions count_fuel_indep.
Print Assumptions trim_left_fuel_indep.
Print Assumptions trim_right_fuel_indep.
Print Assumptions runes_rev_fuel_indep.
Print Assumptions rune_offset_clamp_indep.
Print Assumptions split_sep_indep.
Print Assumptions start_offset_clamp.
Print Assumptions find_from_saturates.
Print Assumptions find_between_saturates.
Print Assumptions split_count_saturates.
Print Assumptions breplace_saturates.
Print Assumptions breplace_all.
Print Assumptions slice_saturates.
Print Assumptions slice_step_saturates.
Print Assumptions slice_step_big_step_pos.
Print Assumptions slice_step_big_step_neg.
Print Assumptions ex_slice_array_limits.
Print Assumptions ex_slice_step_array_limits.
Print Assumptions ex_slice_string_limits.
Print Assumptions ex_index_limits.
Print Assumptions ex_find_limits.
Print Assumptions ex_split_replace_limits.
Print Assumptions ex_pad.
Print Assumptions slice_step_invalid_grows.
Print Assumptions find_first_invalid_utf8.
Print Assumptions ex_saturation.
