(* C12, "the same elements Python's slicing selects".

   Python's slicing is formalised here independently of the specification's walk
   (Spec/SpecSlice.v) and of the implementation model (Model/Slice.v), from
   CPython's Objects/sliceobject.c, and proved to select the same elements.

   Two formulations of CPython's index computation are given:

   py_indices    None is modelled directly (as slice.indices() does, _PySlice_GetLongIndices):
                 an absent start is (step<0 ? n-1 : 0), an absent stop is (step<0 ? -1 : n),
                 a present one is adjusted as in PySlice_AdjustIndices; all integers unbounded.
   py_indices_c  the C path used by list/str/tuple subscripting: PySlice_Unpack (every
                 Python integer is first clamped to Py_ssize_t by _PyEval_SliceIndex, an
                 absent start/stop becomes PY_SSIZE_T_MAX / PY_SSIZE_T_MIN / 0, a step below
                 -PY_SSIZE_T_MAX becomes -PY_SSIZE_T_MAX) followed by PySlice_AdjustIndices.

   py_indices_c_agrees: both give the same (start, stop, slicelength) and select the same
   elements whenever the length fits Py_ssize_t (64-bit).

   python_same_elements : spec_slice l d start stop step = py_slice l d start stop step
   for lists of any length and UNBOUNDED integers start, stop, step <> 0 (spec_slice carries
   no 64-bit assumption); the 64-bit limits are instances.

   The C division is truncated division, Z.quot; it is only applied to a non-negative
   numerator and a positive divisor. *)
From Coq Require Import List ZArith Bool Lia.
From JM Require Import Base.Outcome Base.Bytes Base.GoInt Base.Utf8 Json.Value Model.Slice Spec.SpecSlice
  Proofs.SliceSpec Proofs.SliceProofs Proofs.Utf8Theory Proofs.EvalRefines.
Import ListNotations. Open Scope Z_scope.

(* ------------------------------------------------------------------ *)
(* CPython                                                             *)
(* ------------------------------------------------------------------ *)

Definition PY_SSIZE_T_MAX : Z := MaxInt.
Definition PY_SSIZE_T_MIN : Z := MinInt.   (* -PY_SSIZE_T_MAX - 1 *)

(* PySlice_AdjustIndices, the treatment of one of start/stop:
     if (x < 0) { x += length; if (x < 0) x = (step < 0) ? -1 : 0; }
     else if (x >= length) x = (step < 0) ? length - 1 : length;            *)
Definition py_adjust1 (n x step : Z) : Z :=
  if x <? 0 then
    let x' := x + n in
    if x' <? 0 then (if step <? 0 then -1 else 0) else x'
  else if x >=? n then (if step <? 0 then n - 1 else n)
  else x.

(* PySlice_AdjustIndices, the returned slice length:
     if (step < 0) { if (stop < start) return (start - stop - 1) / (-step) + 1; }
     else          { if (start < stop) return (stop - start - 1) / step + 1; }
     return 0;                                                                *)
Definition py_slicelength (start stop step : Z) : Z :=
  if step <? 0 then
    (if stop <? start then Z.quot (start - stop - 1) (- step) + 1 else 0)
  else
    (if start <? stop then Z.quot (stop - start - 1) step + 1 else 0).

(* (start, stop, slicelength) for a sequence of length n; step <> 0 *)
Definition py_indices (n : Z) (start stop : option Z) (step : Z) : Z * Z * Z :=
  let s := match start with
           | Some x => py_adjust1 n x step
           | None => if step <? 0 then n - 1 else 0
           end in
  let e := match stop with
           | Some x => py_adjust1 n x step
           | None => if step <? 0 then -1 else n
           end in
  (s, e, py_slicelength s e step).

(* list_subscript / unicode_subscript: result[i] = self[start + i*step], i < slicelength *)
Definition py_slice {A} (l : list A) (d : A) (start stop : option Z) (step : Z) : list A :=
  let '(s, _, len) := py_indices (zlen l) start stop step in
  map (fun i => nth (Z.to_nat (s + Z.of_nat i * step)) l d) (seq 0 (Z.to_nat len)).

(* ---- the C path: PySlice_Unpack then PySlice_AdjustIndices ---- *)

(* _PyEval_SliceIndex: a Python integer of any size is clamped to Py_ssize_t *)
Definition py_clamp (x : Z) : Z :=
  if x <? PY_SSIZE_T_MIN then PY_SSIZE_T_MIN else if x >? PY_SSIZE_T_MAX then PY_SSIZE_T_MAX else x.

(* PySlice_Unpack (the step is given: None is 1, 0 raises ValueError before this point) *)
Definition py_unpack (start stop : option Z) (step : Z) : Z * Z * Z :=
  let step := py_clamp step in
  let step := if step <? - PY_SSIZE_T_MAX then - PY_SSIZE_T_MAX else step in
  let start := match start with
               | None => if step <? 0 then PY_SSIZE_T_MAX else 0
               | Some x => py_clamp x
               end in
  let stop := match stop with
              | None => if step <? 0 then PY_SSIZE_T_MIN else PY_SSIZE_T_MAX
              | Some x => py_clamp x
              end in
  (start, stop, step).

(* (start, stop, step, slicelength) *)
Definition py_indices_c (n : Z) (start stop : option Z) (step : Z) : Z * Z * Z * Z :=
  let '(start, stop, step) := py_unpack start stop step in
  let s := py_adjust1 n start step in
  let e := py_adjust1 n stop step in
  (s, e, step, py_slicelength s e step).

Definition py_slice_c {A} (l : list A) (d : A) (start stop : option Z) (step : Z) : list A :=
  let '(s, _, step, len) := py_indices_c (zlen l) start stop step in
  map (fun i => nth (Z.to_nat (s + Z.of_nat i * step)) l d) (seq 0 (Z.to_nat len)).

(* ------------------------------------------------------------------ *)
(* M1: examples (Python doctest cases)                                 *)
(* ------------------------------------------------------------------ *)

Definition ten : list Z := [0; 1; 2; 3; 4; 5; 6; 7; 8; 9].
Definition py (l : list Z) (a b : option Z) (c : Z) : list Z := py_slice l (-1) a b c.
Notation N := (@None Z).
Notation S' := (@Some Z).

(* a[:] a[2:5] a[:3] a[7:] a[-3:] a[:-7] *)
Example ex_all      : py ten N N 1 = ten. Proof. vm_compute. reflexivity. Qed.
Example ex_2_5      : py ten (S' 2) (S' 5) 1 = [2; 3; 4]. Proof. vm_compute. reflexivity. Qed.
Example ex_to3      : py ten N (S' 3) 1 = [0; 1; 2]. Proof. vm_compute. reflexivity. Qed.
Example ex_from7    : py ten (S' 7) N 1 = [7; 8; 9]. Proof. vm_compute. reflexivity. Qed.
Example ex_last3    : py ten (S' (-3)) N 1 = [7; 8; 9]. Proof. vm_compute. reflexivity. Qed.
Example ex_to_m7    : py ten N (S' (-7)) 1 = [0; 1; 2]. Proof. vm_compute. reflexivity. Qed.
(* a[::2] a[1::2] a[::3] a[1:8:3] a[::100] *)
Example ex_even     : py ten N N 2 = [0; 2; 4; 6; 8]. Proof. vm_compute. reflexivity. Qed.
Example ex_odd      : py ten (S' 1) N 2 = [1; 3; 5; 7; 9]. Proof. vm_compute. reflexivity. Qed.
Example ex_third    : py ten N N 3 = [0; 3; 6; 9]. Proof. vm_compute. reflexivity. Qed.
Example ex_1_8_3    : py ten (S' 1) (S' 8) 3 = [1; 4; 7]. Proof. vm_compute. reflexivity. Qed.
Example ex_step100  : py ten N N 100 = [0]. Proof. vm_compute. reflexivity. Qed.
(* a[::-1] a[::-2] a[::-3] a[8:2:-2] a[2:8:-1] a[5::-1] a[:5:-1] *)
Example ex_rev      : py ten N N (-1) = [9; 8; 7; 6; 5; 4; 3; 2; 1; 0]. Proof. vm_compute. reflexivity. Qed.
Example ex_rev2     : py ten N N (-2) = [9; 7; 5; 3; 1]. Proof. vm_compute. reflexivity. Qed.
Example ex_rev3     : py ten N N (-3) = [9; 6; 3; 0]. Proof. vm_compute. reflexivity. Qed.
Example ex_8_2_m2   : py ten (S' 8) (S' 2) (-2) = [8; 6; 4]. Proof. vm_compute. reflexivity. Qed.
Example ex_2_8_m1   : py ten (S' 2) (S' 8) (-1) = []. Proof. vm_compute. reflexivity. Qed.
Example ex_5_rev    : py ten (S' 5) N (-1) = [5; 4; 3; 2; 1; 0]. Proof. vm_compute. reflexivity. Qed.
Example ex_to5_rev  : py ten N (S' 5) (-1) = [9; 8; 7; 6]. Proof. vm_compute. reflexivity. Qed.
(* negative step with an explicit 0: a[0::-1] is the first element only, a[:0:-1] stops before it,
   a[0:0:-1] is empty, a[:-1:-1] is empty (-1 is the last element, not "before the first") *)
Example ex_0_rev    : py ten (S' 0) N (-1) = [0]. Proof. vm_compute. reflexivity. Qed.
Example ex_to0_rev  : py ten N (S' 0) (-1) = [9; 8; 7; 6; 5; 4; 3; 2; 1]. Proof. vm_compute. reflexivity. Qed.
Example ex_0_0_rev  : py ten (S' 0) (S' 0) (-1) = []. Proof. vm_compute. reflexivity. Qed.
Example ex_m1_rev   : py ten N (S' (-1)) (-1) = []. Proof. vm_compute. reflexivity. Qed.
Example ex_m1_m11   : py ten (S' (-1)) (S' (-11)) (-1) = [9; 8; 7; 6; 5; 4; 3; 2; 1; 0]. Proof. vm_compute. reflexivity. Qed.
Example ex_m1_m10   : py ten (S' (-1)) (S' (-10)) (-1) = [9; 8; 7; 6; 5; 4; 3; 2; 1]. Proof. vm_compute. reflexivity. Qed.
(* bounds beyond n *)
Example ex_beyond1  : py ten (S' (-100)) (S' 100) 1 = ten. Proof. vm_compute. reflexivity. Qed.
Example ex_beyond2  : py ten (S' 100) (S' (-100)) (-1) = [9; 8; 7; 6; 5; 4; 3; 2; 1; 0]. Proof. vm_compute. reflexivity. Qed.
Example ex_beyond3  : py ten (S' 100) (S' 200) 1 = []. Proof. vm_compute. reflexivity. Qed.
Example ex_beyond4  : py ten (S' (-200)) (S' (-100)) 1 = []. Proof. vm_compute. reflexivity. Qed.
Example ex_beyond5  : py ten (S' 10) N 1 = []. Proof. vm_compute. reflexivity. Qed.
Example ex_beyond6  : py ten (S' 10) N (-1) = [9; 8; 7; 6; 5; 4; 3; 2; 1; 0]. Proof. vm_compute. reflexivity. Qed.
Example ex_beyond7  : py ten (S' (-11)) N (-1) = []. Proof. vm_compute. reflexivity. Qed.
Example ex_beyond8  : py ten (S' (-10)) N (-1) = [0]. Proof. vm_compute. reflexivity. Qed.
(* the empty sequence *)
Example ex_nil1     : py [] N N 1 = []. Proof. vm_compute. reflexivity. Qed.
Example ex_nil2     : py [] N N (-1) = []. Proof. vm_compute. reflexivity. Qed.
Example ex_nil3     : py [] (S' 0) (S' 0) (-1) = []. Proof. vm_compute. reflexivity. Qed.
(* 64-bit limits *)
Example ex_max_step : py ten N N MaxInt = [0]. Proof. vm_compute. reflexivity. Qed.
Example ex_min_step : py ten N N MinInt = [9]. Proof. vm_compute. reflexivity. Qed.
Example ex_min_max  : py ten (S' MinInt) (S' MaxInt) 1 = ten. Proof. vm_compute. reflexivity. Qed.
Example ex_max_min  : py ten (S' MaxInt) (S' MinInt) (-1) = [9; 8; 7; 6; 5; 4; 3; 2; 1; 0]. Proof. vm_compute. reflexivity. Qed.
Example ex_max_min3 : py ten (S' MaxInt) (S' MinInt) (-3) = [9; 6; 3; 0]. Proof. vm_compute. reflexivity. Qed.
Example ex_min_min  : py ten (S' MinInt) (S' MinInt) MinInt = []. Proof. vm_compute. reflexivity. Qed.
Example ex_max_max  : py ten (S' MaxInt) (S' MaxInt) MaxInt = []. Proof. vm_compute. reflexivity. Qed.
Example ex_3_min    : py ten (S' 3) (S' MinInt) MinInt = [3]. Proof. vm_compute. reflexivity. Qed.
Example ex_min_7    : py ten (S' MinInt) (S' 7) MaxInt = [0]. Proof. vm_compute. reflexivity. Qed.
(* slice.indices(10) *)
Example ex_indices1 : py_indices 10 None None (-1) = (9, -1, 10). Proof. vm_compute. reflexivity. Qed.
Example ex_indices2 : py_indices 10 (Some (-3)) (Some 100) 2 = (7, 10, 2). Proof. vm_compute. reflexivity. Qed.
Example ex_indices3 : py_indices 10 (Some 100) (Some (-100)) (-3) = (9, -1, 4). Proof. vm_compute. reflexivity. Qed.
(* the C path, with the sentinels, beyond the 64-bit range as well *)
Example ex_c1 : py_indices_c 10 None None (-1) = (9, -1, -1, 10). Proof. vm_compute. reflexivity. Qed.
Example ex_c2 : py_indices_c 10 None None MinInt = (9, -1, - MaxInt, 1). Proof. vm_compute. reflexivity. Qed.
Example ex_c3 : py_indices_c 10 (Some (2 ^ 100)) (Some (- 2 ^ 100)) (- 2 ^ 100) = (9, -1, - MaxInt, 1).
Proof. vm_compute. reflexivity. Qed.
Example ex_c4 : py_slice_c ten (-1) (Some (2 ^ 100)) (Some (- 2 ^ 100)) (-4) = [9; 5; 1]. Proof. vm_compute. reflexivity. Qed.
(* the specification's walk on the same inputs *)
Example ex_spec1 : spec_slice ten (-1) (Some 0) None (-1) = [0]. Proof. vm_compute. reflexivity. Qed.
Example ex_spec2 : spec_slice ten (-1) (Some MaxInt) (Some MinInt) (-3) = [9; 6; 3; 0]. Proof. vm_compute. reflexivity. Qed.

(* ------------------------------------------------------------------ *)
(* arithmetic                                                          *)
(* ------------------------------------------------------------------ *)

(* C division of a non-negative numerator by a positive divisor *)
Lemma quot_bounds a b : 0 <= a -> 0 < b ->
  Z.quot a b * b <= a < (Z.quot a b + 1) * b /\ 0 <= Z.quot a b <= a.
Proof.
  intros Ha Hb. rewrite Z.quot_div_nonneg by lia.
  pose proof (Z.div_mod a b ltac:(lia)) as Hd.
  pose proof (Z.mod_pos_bound a b Hb) as Hm.
  assert (0 <= a / b) by (apply Z.div_pos; lia).
  nia.
Qed.

Ltac noif t := lazymatch t with context [if _ then _ else _] => fail | _ => idtac end.
Ltac brk_all :=
  repeat (match goal with
  | |- context [?a <? ?b] => noif a; noif b; destruct (Z.ltb_spec a b)
  | |- context [?a >=? ?b] => noif a; noif b; rewrite (Z.geb_leb a b); destruct (Z.leb_spec b a)
  | |- context [?a >? ?b] => noif a; noif b; rewrite (Z.gtb_ltb a b); destruct (Z.ltb_spec b a)
  end; cbv beta iota).

(* the literal indexing start + i*step runs over the arithmetic progression *)
Lemma seq_prog (s step : Z) : forall k a,
  map (fun i => s + Z.of_nat i * step) (seq a k) = prog k (s + Z.of_nat a * step) step.
Proof.
  induction k as [|k IH]; intros a; [reflexivity|].
  cbn [seq map prog]. f_equal. rewrite IH. f_equal. lia.
Qed.

Lemma map_seq_prog {B} (f : Z -> B) (s step : Z) k :
  map (fun i => f (s + Z.of_nat i * step)) (seq 0 k) = map f (prog k s step).
Proof.
  rewrite <- (map_map (fun i => s + Z.of_nat i * step) f), seq_prog.
  do 2 f_equal. lia.
Qed.

Lemma prog_length : forall k i step, length (prog k i step) = k.
Proof. induction k; intros; cbn [prog length]; auto. Qed.

(* ------------------------------------------------------------------ *)
(* M2 / M3: Python's indices against the specification's bounds and walk *)
(* ------------------------------------------------------------------ *)

(* the adjusted start and stop are the specification's *)
Lemma py_bounds_spec n start stop step : 0 <= n -> step <> 0 ->
  spec_bounds n start stop step = fst (py_indices n start stop step).
Proof.
  intros Hn Hs. unfold spec_bounds, py_indices, py_adjust1. cbv zeta. cbn [fst].
  destruct start as [a|], stop as [b|]; f_equal; brk_all; lia.
Qed.

(* where Python's adjusted start and stop lie *)
Lemma py_bounds_range n start stop step s e len : 0 <= n -> step <> 0 ->
  py_indices n start stop step = (s, e, len) ->
  (0 < step -> 0 <= s <= n /\ 0 <= e <= n) /\
  (step < 0 -> -1 <= s <= n - 1 /\ -1 <= e <= n - 1).
Proof.
  intros Hn Hs H. unfold py_indices, py_adjust1 in H. cbv zeta in H.
  injection H as <- <- _.
  destruct start as [a|], stop as [b|]; brk_all; lia.
Qed.

(* Python's slice length counts the visited indices: the progression of that
   length stays strictly before stop, and its next term does not *)
Lemma py_slicelength_pos s e step : 0 < step ->
  let len := py_slicelength s e step in
  0 <= len /\ (len = 0 <-> e <= s) /\ len <= Z.max 0 (e - s) /\
  e <= s + len * step /\ (0 < len -> s + (len - 1) * step < e).
Proof.
  intros Hs. unfold py_slicelength. rewrite (ltb_false step 0) by lia.
  destruct (Z.ltb_spec s e) as [Hse|Hse]; cbv zeta.
  - pose proof (quot_bounds (e - s - 1) step ltac:(lia) Hs) as [[H1 H2] [H3 H4]].
    set (q := Z.quot (e - s - 1) step) in *. repeat split; try lia; nia.
  - repeat split; lia.
Qed.

Lemma py_slicelength_neg s e step : step < 0 ->
  let len := py_slicelength s e step in
  0 <= len /\ (len = 0 <-> s <= e) /\ len <= Z.max 0 (s - e) /\
  s + len * step <= e /\ (0 < len -> e < s + (len - 1) * step).
Proof.
  intros Hs. unfold py_slicelength. rewrite (ltb_true step 0) by lia.
  destruct (Z.ltb_spec e s) as [Hse|Hse]; cbv zeta.
  - pose proof (quot_bounds (s - e - 1) (- step) ltac:(lia) ltac:(lia)) as [[H1 H2] [H3 H4]].
    set (q := Z.quot (s - e - 1) (- step)) in *. repeat split; try lia; nia.
  - repeat split; lia.
Qed.

(* the whole of Python's computation against the specification's: same bounds,
   the walk is the progression of slicelength terms, all of them valid indices *)
Lemma py_indices_spec n start stop step s e len : 0 <= n -> step <> 0 ->
  py_indices n start stop step = (s, e, len) ->
  spec_bounds n start stop step = (s, e) /\
  walk (Z.to_nat n) s e step = prog (Z.to_nat len) s step /\
  0 <= len <= n /\
  (0 < len -> 0 <= s < n /\ 0 <= s + (len - 1) * step < n).
Proof.
  intros Hn Hs H.
  pose proof (py_bounds_spec n start stop step Hn Hs) as Hb. rewrite H in Hb. cbn [fst] in Hb.
  pose proof (py_bounds_range _ _ _ _ _ _ _ Hn Hs H) as [Rp Rn].
  assert (len = py_slicelength s e step) as Hl.
  { unfold py_indices in H. cbv zeta in H. injection H as <- <- <-. reflexivity. }
  split; [exact Hb|].
  destruct (Z.lt_ge_cases 0 step) as [Hp|Hq].
  - destruct (Rp Hp) as [R1 R2].
    pose proof (py_slicelength_pos s e step Hp) as P. cbv zeta in P. rewrite <- Hl in P.
    destruct P as (P0 & P1 & P2 & P3 & P4).
    assert (0 <= (len - 1) * step \/ len = 0) by nia.
    split; [|split; [lia|intros; split; lia]].
    apply walk_count_pos; try lia; rewrite ?Z2Nat.id by lia; try lia.
  - assert (Hneg : step < 0) by lia. destruct (Rn Hneg) as [R1 R2].
    pose proof (py_slicelength_neg s e step Hneg) as P. cbv zeta in P. rewrite <- Hl in P.
    destruct P as (P0 & P1 & P2 & P3 & P4).
    assert ((len - 1) * step <= 0 \/ len = 0) by nia.
    split; [|split; [lia|intros; split; lia]].
    apply walk_count_neg; try lia; rewrite ?Z2Nat.id by lia; try lia.
Qed.

Lemma py_slice_prog {A} (l : list A) d start stop step :
  py_slice l d start stop step =
  let '(s, _, len) := py_indices (zlen l) start stop step in
  map (fun x => nth (Z.to_nat x) l d) (prog (Z.to_nat len) s step).
Proof.
  unfold py_slice. destruct (py_indices (zlen l) start stop step) as [[s e] len].
  apply (map_seq_prog (fun x => nth (Z.to_nat x) l d)).
Qed.

(* ------------------------------------------------------------------ *)
(* the main theorem: unbounded integers, any length                    *)
(* ------------------------------------------------------------------ *)

Theorem python_same_indices : forall (n : Z) (start stop : option Z) (step : Z),
  0 <= n -> step <> 0 ->
  spec_slice_indices n start stop step =
  let '(s, _, len) := py_indices n start stop step in
  map (fun i => s + Z.of_nat i * step) (seq 0 (Z.to_nat len)).
Proof.
  intros n start stop step Hn Hs. unfold spec_slice_indices.
  destruct (py_indices n start stop step) as [[s e] len] eqn:H.
  destruct (py_indices_spec _ _ _ _ _ _ _ Hn Hs H) as (-> & -> & _).
  rewrite seq_prog. f_equal. lia.
Qed.

Theorem python_same_elements : forall {A} (l : list A) (d : A) (start stop : option Z) (step : Z),
  step <> 0 ->
  spec_slice l d start stop step = py_slice l d start stop step.
Proof.
  intros A l d start stop step Hs.
  rewrite py_slice_prog. unfold spec_slice, spec_slice_indices. fold (zlen l).
  destruct (py_indices (zlen l) start stop step) as [[s e] len] eqn:H.
  destruct (py_indices_spec _ _ _ _ _ _ _ (zlen_nonneg l) Hs H) as (-> & -> & _).
  reflexivity.
Qed.

(* ------------------------------------------------------------------ *)
(* the shape of Python's result                                        *)
(* ------------------------------------------------------------------ *)

Definition py_len (n : Z) (start stop : option Z) (step : Z) : Z := snd (py_indices n start stop step).

(* the length of the result is slicelength, between 0 and n *)
Theorem py_slice_length : forall {A} (l : list A) d start stop step, step <> 0 ->
  zlen (py_slice l d start stop step) = py_len (zlen l) start stop step /\
  0 <= py_len (zlen l) start stop step <= zlen l.
Proof.
  intros A l d start stop step Hs. unfold py_len. rewrite py_slice_prog.
  destruct (py_indices (zlen l) start stop step) as [[s e] len] eqn:H. cbn [snd].
  destruct (py_indices_spec _ _ _ _ _ _ _ (zlen_nonneg l) Hs H) as (_ & _ & Hl & _).
  split; [|exact Hl]. unfold zlen at 1. rewrite map_length, prog_length. lia.
Qed.

(* never more elements than the sequence has *)
Corollary py_slice_length_le : forall {A} (l : list A) d start stop step, step <> 0 ->
  (length (py_slice l d start stop step) <= length l)%nat.
Proof.
  intros A l d start stop step Hs.
  destruct (py_slice_length l d start stop step Hs) as [H1 H2]. unfold zlen in *. lia.
Qed.

(* empty exactly when slicelength is 0 *)
Theorem py_slice_nil_iff : forall {A} (l : list A) d start stop step, step <> 0 ->
  py_slice l d start stop step = [] <-> py_len (zlen l) start stop step = 0.
Proof.
  intros A l d start stop step Hs.
  destruct (py_slice_length l d start stop step Hs) as [H1 H2]. rewrite <- H1.
  unfold zlen. destruct (py_slice l d start stop step); cbn [length]; split; intros; try reflexivity; try discriminate; lia.
Qed.

(* slicelength is 0 exactly when the adjusted start is not before the adjusted stop
   (in the direction of the step): the walk is empty *)
Theorem py_len_zero_iff n start stop step : step <> 0 ->
  let '(s, e, len) := py_indices n start stop step in
  len = 0 <-> (if step <? 0 then s <= e else e <= s).
Proof.
  intros Hs. unfold py_indices. cbv zeta.
  match goal with |- py_slicelength ?s ?e _ = 0 <-> _ => generalize s, e end. intros s e.
  destruct (Z.ltb_spec step 0) as [Hn|Hp].
  - apply (py_slicelength_neg s e step Hn).
  - apply (py_slicelength_pos s e step ltac:(lia)).
Qed.

(* every element of the result is an element of the sequence, at a valid index:
   the default d is never used *)
Theorem py_slice_in_range : forall n start stop step s e len, 0 <= n -> step <> 0 ->
  py_indices n start stop step = (s, e, len) ->
  forall i, 0 <= i < len -> 0 <= s + i * step < n.
Proof.
  intros n start stop step s e len Hn Hs H i Hi.
  destruct (py_indices_spec _ _ _ _ _ _ _ Hn Hs H) as (_ & _ & Hl & Hr).
  destruct (Hr ltac:(lia)) as [R1 R2]. nia.
Qed.

Lemma py_prog_range n start stop step s e len : 0 <= n -> step <> 0 ->
  py_indices n start stop step = (s, e, len) ->
  Forall (fun j => 0 <= j < n) (prog (Z.to_nat len) s step).
Proof.
  intros Hn Hs H.
  destruct (py_indices_spec _ _ _ _ _ _ _ Hn Hs H) as (_ & _ & Hl & Hr).
  apply prog_range. intros Hpos. rewrite Z2Nat.id by lia. apply Hr. lia.
Qed.

Lemma map_nth_in_range {A B} (f : A -> B) (l : list A) d d' (js : list Z) :
  Forall (fun j => 0 <= j < zlen l) js ->
  map (fun x => nth (Z.to_nat x) (map f l) d') js = map f (map (fun x => nth (Z.to_nat x) l d) js).
Proof.
  intros HF. rewrite map_map. apply map_ext_in. intros j Hj.
  rewrite Forall_forall in HF. specialize (HF j Hj). unfold zlen in HF.
  rewrite (nth_indep (map f l) d' (f d)) by (rewrite map_length; lia).
  apply map_nth.
Qed.

(* slicing commutes with mapping, whatever the defaults *)
Theorem py_slice_map : forall {A B} (f : A -> B) (l : list A) d d' start stop step, step <> 0 ->
  py_slice (map f l) d' start stop step = map f (py_slice l d start stop step).
Proof.
  intros A B f l d d' start stop step Hs. rewrite !py_slice_prog.
  assert (zlen (map f l) = zlen l) as -> by (unfold zlen; rewrite map_length; reflexivity).
  destruct (py_indices (zlen l) start stop step) as [[s e] len] eqn:H.
  apply map_nth_in_range. apply (py_prog_range _ _ _ _ _ _ _ (zlen_nonneg l) Hs H).
Qed.

Corollary py_slice_default : forall {A} (l : list A) d d' start stop step, step <> 0 ->
  py_slice l d start stop step = py_slice l d' start stop step.
Proof.
  intros A l d d' start stop step Hs.
  rewrite <- (map_id l) at 1. rewrite (py_slice_map (fun x => x) l d' d) by assumption. apply map_id.
Qed.

(* ------------------------------------------------------------------ *)
(* the C path agrees                                                   *)
(* ------------------------------------------------------------------ *)

(* PySlice_Unpack + PySlice_AdjustIndices on a length that fits Py_ssize_t: the same
   adjusted start, stop and slice length as the direct treatment of None, for Python
   integers of any size; the step may differ (clamped) only when at most one element
   is selected *)
Theorem py_indices_c_agrees : forall n start stop step, 0 <= n <= PY_SSIZE_T_MAX -> step <> 0 ->
  let '(s, e, len) := py_indices n start stop step in
  exists step', py_indices_c n start stop step = (s, e, step', len) /\
                (step' = step \/ len <= 1) /\ PY_SSIZE_T_MIN < step' <= PY_SSIZE_T_MAX.
Proof.
  intros n start stop step Hn Hs.
  unfold py_indices_c, py_unpack, py_indices. cbv zeta.
  set (st1 := py_clamp step).
  set (st := if st1 <? - PY_SSIZE_T_MAX then - PY_SSIZE_T_MAX else st1).
  assert (Hst : (st = step /\ - PY_SSIZE_T_MAX <= step <= PY_SSIZE_T_MAX) \/
                (st = PY_SSIZE_T_MAX /\ PY_SSIZE_T_MAX < step) \/
                (st = - PY_SSIZE_T_MAX /\ step < - PY_SSIZE_T_MAX)).
  { unfold st, st1, py_clamp, PY_SSIZE_T_MAX, PY_SSIZE_T_MIN, MaxInt, MinInt. brk_all; lia. }
  assert (Hsgn : (st <? 0) = (step <? 0)).
  { unfold PY_SSIZE_T_MAX, MaxInt in Hst. destruct (Z.ltb_spec st 0), (Z.ltb_spec step 0); lia. }
  (* the adjusted bounds only depend on the sign of the step, and survive the clamping *)
  assert (Hadj : forall x, py_adjust1 n (py_clamp x) st = py_adjust1 n x step).
  { intros x. unfold py_adjust1. cbv zeta. rewrite Hsgn.
    unfold py_clamp, PY_SSIZE_T_MAX, PY_SSIZE_T_MIN, MaxInt, MinInt in *.
    destruct (Z.ltb_spec step 0); brk_all; lia. }
  assert (HsN : py_adjust1 n (if st <? 0 then PY_SSIZE_T_MAX else 0) st = if step <? 0 then n - 1 else 0).
  { rewrite Hsgn. unfold py_adjust1, PY_SSIZE_T_MAX, MaxInt in *. cbv zeta.
    destruct (Z.ltb_spec step 0); brk_all; lia. }
  assert (HeN : py_adjust1 n (if st <? 0 then PY_SSIZE_T_MIN else PY_SSIZE_T_MAX) st = if step <? 0 then -1 else n).
  { rewrite Hsgn. unfold py_adjust1, PY_SSIZE_T_MAX, PY_SSIZE_T_MIN, MaxInt, MinInt in *. cbv zeta.
    destruct (Z.ltb_spec step 0); brk_all; lia. }
  set (s := match start with Some x => py_adjust1 n x step | None => if step <? 0 then n - 1 else 0 end).
  set (e := match stop with Some x => py_adjust1 n x step | None => if step <? 0 then -1 else n end).
  assert (Es : py_adjust1 n (match start with None => if st <? 0 then PY_SSIZE_T_MAX else 0 | Some x => py_clamp x end) st = s).
  { unfold s. destruct start; [apply Hadj | apply HsN]. }
  assert (Ee : py_adjust1 n (match stop with None => if st <? 0 then PY_SSIZE_T_MIN else PY_SSIZE_T_MAX | Some x => py_clamp x end) st = e).
  { unfold e. destruct stop; [apply Hadj | apply HeN]. }
  rewrite Es, Ee.
  destruct (py_bounds_range n start stop step s e (py_slicelength s e step) ltac:(lia) Hs eq_refl) as [Rp Rn].
  assert (Hlen : py_slicelength s e st = py_slicelength s e step /\ (st = step \/ py_slicelength s e step <= 1)).
  { clearbody st s e. clear st1.
    destruct Hst as [[-> _]|[[-> Hbig]|[-> Hbig]]]; [split; [reflexivity|left; reflexivity]| |].
    - (* step beyond PY_SSIZE_T_MAX: at most one element either way *)
      destruct (Rp ltac:(unfold PY_SSIZE_T_MAX, MaxInt in *; lia)) as [R1 R2].
      unfold py_slicelength.
      rewrite (ltb_false PY_SSIZE_T_MAX 0), (ltb_false step 0) by (unfold PY_SSIZE_T_MAX, MaxInt in *; lia).
      destruct (Z.ltb_spec s e); [|split; [reflexivity|right; lia]].
      rewrite !Z.quot_small by (unfold PY_SSIZE_T_MAX, MaxInt in *; lia). split; [reflexivity|right; lia].
    - destruct (Rn ltac:(unfold PY_SSIZE_T_MAX, MaxInt in *; lia)) as [R1 R2].
      unfold py_slicelength.
      rewrite (ltb_true (- PY_SSIZE_T_MAX) 0), (ltb_true step 0) by (unfold PY_SSIZE_T_MAX, MaxInt in *; lia).
      destruct (Z.ltb_spec e s); [|split; [reflexivity|right; lia]].
      rewrite !Z.quot_small by (unfold PY_SSIZE_T_MAX, MaxInt in *; lia). split; [reflexivity|right; lia]. }
  destruct Hlen as [-> Hor].
  exists st. split; [reflexivity|]. split; [exact Hor|].
  unfold PY_SSIZE_T_MAX, PY_SSIZE_T_MIN, MaxInt, MinInt in *. lia.
Qed.

Theorem py_slice_c_agrees : forall {A} (l : list A) d start stop step,
  zlen l <= PY_SSIZE_T_MAX -> step <> 0 ->
  py_slice_c l d start stop step = py_slice l d start stop step.
Proof.
  intros A l d start stop step HL Hs. unfold py_slice_c, py_slice.
  pose proof (py_indices_c_agrees (zlen l) start stop step ltac:(pose proof (zlen_nonneg l); lia) Hs) as H.
  destruct (py_indices (zlen l) start stop step) as [[s e] len] eqn:Hi.
  destruct H as (st & -> & [->|Hle] & _); [reflexivity|].
  destruct (py_indices_spec _ _ _ _ _ _ _ (zlen_nonneg l) Hs Hi) as (_ & _ & Hl & _).
  assert (len = 0 \/ len = 1) as [->| ->] by lia; [reflexivity|].
  reflexivity.
Qed.

(* ------------------------------------------------------------------ *)
(* classic Python facts                                                *)
(* ------------------------------------------------------------------ *)

Lemma py_slicelength_1 s e : py_slicelength s e 1 = Z.max 0 (e - s).
Proof.
  unfold py_slicelength. change (1 <? 0) with false. cbv iota.
  rewrite Z.quot_1_r. destruct (Z.ltb_spec s e); lia.
Qed.

Lemma py_slicelength_m1 s e : py_slicelength s e (-1) = Z.max 0 (s - e).
Proof.
  unfold py_slicelength. change (-1 <? 0) with true. cbv iota.
  change (- -1) with 1. rewrite Z.quot_1_r. destruct (Z.ltb_spec e s); lia.
Qed.

(* l[a:b] for 0 <= a <= b <= len(l) *)
Theorem py_slice_firstn_skipn : forall {A} (l : list A) d a b, 0 <= a -> a <= b -> b <= zlen l ->
  py_slice l d (Some a) (Some b) 1 = firstn (Z.to_nat (b - a)) (skipn (Z.to_nat a) l).
Proof.
  intros A l d a b Ha Hab Hb. rewrite py_slice_prog. unfold py_indices. cbv zeta.
  assert (py_adjust1 (zlen l) a 1 = a) as -> by (unfold py_adjust1; cbv zeta; brk_all; lia).
  assert (py_adjust1 (zlen l) b 1 = b) as -> by (unfold py_adjust1; cbv zeta; brk_all; lia).
  rewrite py_slicelength_1. replace (Z.max 0 (b - a)) with (b - a) by lia.
  symmetry. apply firstn_skipn_prog; lia.
Qed.

(* the same for any natural numbers a, b: Python clamps where firstn/skipn run out *)
Theorem py_slice_firstn_skipn_nat : forall {A} (l : list A) d (a b : nat),
  py_slice l d (Some (Z.of_nat a)) (Some (Z.of_nat b)) 1 = firstn (b - a) (skipn a l).
Proof.
  intros A l d a b. rewrite py_slice_prog. unfold py_indices. cbv zeta.
  pose proof (zlen_nonneg l) as H0.
  set (n := zlen l) in *.
  assert (py_adjust1 n (Z.of_nat a) 1 = Z.min (Z.of_nat a) n) as -> by (unfold py_adjust1; cbv zeta; brk_all; lia).
  assert (py_adjust1 n (Z.of_nat b) 1 = Z.min (Z.of_nat b) n) as -> by (unfold py_adjust1; cbv zeta; brk_all; lia).
  rewrite py_slicelength_1. unfold n, zlen in *.
  destruct (Nat.le_gt_cases (length l) a) as [Hbig|Hsmall].
  - rewrite (skipn_all2 l) by assumption. rewrite firstn_nil.
    replace (Z.to_nat _) with 0%nat by lia. reflexivity.
  - replace (Z.min (Z.of_nat a) (Z.of_nat (length l))) with (Z.of_nat a) by lia.
    rewrite <- (firstn_skipn_prog l d) by (unfold zlen; lia). rewrite Nat2Z.id.
    destruct (Nat.le_gt_cases b (length l)).
    + f_equal. lia.
    + rewrite !firstn_all2 by (rewrite skipn_length; lia). reflexivity.
Qed.

(* l[:] *)
Theorem py_slice_all : forall {A} (l : list A) d, py_slice l d None None 1 = l.
Proof.
  intros A l d. rewrite py_slice_prog. unfold py_indices. cbv zeta.
  change (1 <? 0) with false. cbv iota. rewrite py_slicelength_1.
  rewrite <- (firstn_skipn_prog l d) by (pose proof (zlen_nonneg l); lia).
  cbn [Z.to_nat skipn]. apply firstn_all2. unfold zlen. lia.
Qed.

(* l[a:] and l[:b] *)
Corollary py_slice_skipn : forall {A} (l : list A) d (a : nat),
  py_slice l d (Some (Z.of_nat a)) None 1 = skipn a l.
Proof.
  intros A l d a.
  assert (py_slice l d (Some (Z.of_nat a)) None 1 = py_slice l d (Some (Z.of_nat a)) (Some (Z.of_nat (a + length l))) 1) as ->.
  { unfold py_slice, py_indices, py_adjust1. cbv zeta. change (1 <? 0) with false. cbv iota.
    rewrite (ltb_false (Z.of_nat (a + length l)) 0) by lia.
    unfold zlen. destruct (Z.geb_spec (Z.of_nat (a + length l)) (Z.of_nat (length l))); [reflexivity|lia]. }
  rewrite py_slice_firstn_skipn_nat. apply firstn_all2. rewrite skipn_length. lia.
Qed.

Corollary py_slice_firstn : forall {A} (l : list A) d (b : nat),
  py_slice l d None (Some (Z.of_nat b)) 1 = firstn b l.
Proof.
  intros A l d b.
  assert (py_slice l d None (Some (Z.of_nat b)) 1 = py_slice l d (Some (Z.of_nat 0)) (Some (Z.of_nat b)) 1) as ->.
  { unfold py_slice, py_indices, py_adjust1. cbv zeta. change (1 <? 0) with false. cbv iota.
    change (Z.of_nat 0 <? 0) with false. cbv iota. pose proof (zlen_nonneg l).
    destruct (Z.geb_spec (Z.of_nat 0) (zlen l)); [|reflexivity].
    replace (zlen l) with 0 by lia. reflexivity. }
  rewrite py_slice_firstn_skipn_nat. cbn [skipn]. f_equal. lia.
Qed.

(* l[::-1] *)
Lemma rev_prog {A} (d : A) : forall l : list A,
  map (fun x => nth (Z.to_nat x) l d) (prog (length l) (zlen l - 1) (-1)) = rev l.
Proof.
  induction l as [|x l IH] using rev_ind; [reflexivity|].
  rewrite rev_unit. unfold zlen. rewrite app_length. cbn [length].
  replace (length l + 1)%nat with (S (length l)) by lia. cbn [prog map]. f_equal.
  - replace (Z.to_nat (Z.of_nat (S (length l)) - 1)) with (length l) by lia. apply nth_middle.
  - rewrite <- IH. unfold zlen.
    replace (Z.of_nat (S (length l)) - 1 + -1) with (Z.of_nat (length l) - 1) by lia.
    apply map_ext_in. intros j Hj.
    assert (HF : Forall (fun j => 0 <= j < Z.of_nat (length l)) (prog (length l) (Z.of_nat (length l) - 1) (-1))).
    { apply prog_range. intros. lia. }
    rewrite Forall_forall in HF. specialize (HF j Hj).
    apply app_nth1. lia.
Qed.

Theorem py_slice_rev : forall {A} (l : list A) d, py_slice l d None None (-1) = rev l.
Proof.
  intros A l d. rewrite py_slice_prog. unfold py_indices. cbv zeta.
  change (-1 <? 0) with true. cbv iota. rewrite py_slicelength_m1.
  replace (Z.to_nat (Z.max 0 (zlen l - 1 - -1))) with (length l) by (unfold zlen; lia).
  apply rev_prog.
Qed.

(* l[0::-1] is the first element only *)
Theorem py_slice_zero_rev : forall {A} (l : list A) d x, py_slice (x :: l) d (Some 0) None (-1) = [x].
Proof.
  intros A l d x. unfold py_slice, py_indices, py_adjust1, zlen. cbv zeta. cbn [length].
  change (0 <? 0) with false. change (-1 <? 0) with true. cbv iota.
  rewrite (Z.geb_leb 0), (leb_false (Z.of_nat (S (length l))) 0) by lia.
  rewrite py_slicelength_m1. reflexivity.
Qed.

(* ------------------------------------------------------------------ *)
(* M4: the implementation model selects what Python selects            *)
(* ------------------------------------------------------------------ *)

(* arrays: any length that fits an int, start/stop absent or any 64-bit integer
   (MinInt and MaxInt included), any non-zero 64-bit step *)
Theorem model_slice_array_python : forall (l : list value) (start stop : option Z) (step : Z),
  zlen l <= MaxInt -> int_opt start -> int_opt stop -> MinInt <= step <= MaxInt -> step <> 0 ->
  model_slice (VArr l) start stop step = Ok (VArr (py_slice l VNull start stop step)).
Proof.
  intros l start stop step HL Ha Hb Hst Hs.
  rewrite <- python_same_elements by assumption. apply slice_array_spec; assumption.
Qed.

(* and what CPython's C path selects *)
Corollary model_slice_array_python_c : forall (l : list value) (start stop : option Z) (step : Z),
  zlen l <= MaxInt -> int_opt start -> int_opt stop -> MinInt <= step <= MaxInt -> step <> 0 ->
  model_slice (VArr l) start stop step = Ok (VArr (py_slice_c l VNull start stop step)).
Proof.
  intros l start stop step HL Ha Hb Hst Hs.
  rewrite py_slice_c_agrees by assumption. apply model_slice_array_python; assumption.
Qed.

(* an error only for step 0: for every other step the result is a value, with
   slicelength elements, never more than the array has, empty iff slicelength is 0 *)
Corollary model_slice_array_shape : forall (l : list value) (start stop : option Z) (step : Z),
  zlen l <= MaxInt -> int_opt start -> int_opt stop -> MinInt <= step <= MaxInt -> step <> 0 ->
  exists r, model_slice (VArr l) start stop step = Ok (VArr r) /\
            zlen r = py_len (zlen l) start stop step /\ zlen r <= zlen l /\
            (r = [] <-> py_len (zlen l) start stop step = 0).
Proof.
  intros l start stop step HL Ha Hb Hst Hs.
  exists (py_slice l VNull start stop step).
  split; [apply model_slice_array_python; assumption|].
  destruct (py_slice_length l VNull start stop step Hs) as [H1 H2].
  split; [exact H1|]. split; [lia|]. apply py_slice_nil_iff; assumption.
Qed.

(* strings, step 1 (the SliceNode path), any byte string and any 64-bit or larger bounds:
   Python's slice of the list of code point chunks *)
Theorem slice_string_python : forall (s : bytes) (start stop : Z),
  slice (VStr s) start stop = Ok (VStr (concat (py_slice (chunks s) [] (Some start) (Some stop) 1))).
Proof.
  intros s start stop. rewrite <- python_same_elements by lia. apply slice1_str.
Qed.

(* strings through the parser's entry point: absent parts, any non-zero 64-bit step;
   valid UTF-8 is needed for the stepped path only *)
Theorem model_slice_string_python : forall (t : bytes) (start stop : option Z) (step : Z),
  bytes_ok t = true -> valid_utf8 t = true -> rune_count t <= MaxInt ->
  MinInt <= step <= MaxInt -> step <> 0 ->
  model_slice (VStr t) start stop step = Ok (VStr (concat (py_slice (chunks t) [] start stop step))).
Proof.
  intros t start stop step Hb Hv HL Hst Hs.
  rewrite <- python_same_elements by assumption.
  assert (HL' : 0 <= zlen (chunks t) <= MaxInt).
  { unfold zlen. rewrite length_chunks. unfold rune_count in *. lia. }
  assert (spec_slice (chunks t) [] start stop step =
          spec_slice (chunks t) [] (Some (enc_start start step)) (Some (enc_stop stop step)) step) as ->.
  { unfold spec_slice, spec_slice_indices. fold (zlen (chunks t)).
    rewrite (spec_bounds_enc (zlen (chunks t)) start stop step) by assumption. reflexivity. }
  unfold model_slice. destruct (Z.eqb_spec step 1) as [->|Hne].
  - apply slice1_str.
  - apply slice_step_str; try assumption.
    unfold in_int. rewrite (leb_true MinInt step), (leb_true step MaxInt) by lia. reflexivity.
Qed.

Lemma scalars_bytes_ok cs : scalars cs -> bytes_ok (encode_all cs) = true.
Proof.
  intros Hcs. unfold bytes_ok. apply forallb_forall. intros x Hx.
  unfold encode_all in Hx. apply in_flat_map in Hx. destruct Hx as (c & Hc & Hx).
  unfold scalars in Hcs. rewrite Forall_forall in Hcs. specialize (Hcs c Hc).
  assert (Hok : bytes_ok (encode_rune c) = true).
  { destruct (encode_rune_shape c Hcs); unfold bytes_ok, byte_ok; cbn [forallb]; ztests; reflexivity. }
  unfold bytes_ok in Hok. rewrite forallb_forall in Hok. apply Hok, Hx.
Qed.

(* the same in terms of code points: the string that encodes the code points cs
   slices to the string that encodes Python's slice of cs *)
Theorem model_slice_code_points_python : forall (cs : list Z) (start stop : option Z) (step : Z),
  scalars cs -> zlen cs <= MaxInt -> MinInt <= step <= MaxInt -> step <> 0 ->
  model_slice (VStr (encode_all cs)) start stop step =
  Ok (VStr (encode_all (py_slice cs RuneError start stop step))).
Proof.
  intros cs start stop step Hcs HL Hst Hs.
  assert (Hb : bytes_ok (encode_all cs) = true /\ valid_utf8 (encode_all cs) = true).
  { split; [apply scalars_bytes_ok | apply valid_utf8_encode_all]; assumption. }
  destruct Hb as [Hb Hv].
  rewrite model_slice_string_python; try assumption.
  2:{ rewrite rune_count_encode_all by assumption. exact HL. }
  rewrite chunks_encode_all by assumption.
  rewrite (py_slice_map encode_rune cs RuneError []) by assumption.
  unfold encode_all. rewrite flat_map_concat_map. reflexivity.
Qed.

Corollary model_slice_string_code_points : forall (t : bytes) (start stop : option Z) (step : Z),
  bytes_ok t = true -> valid_utf8 t = true -> rune_count t <= MaxInt ->
  MinInt <= step <= MaxInt -> step <> 0 ->
  model_slice (VStr t) start stop step =
  Ok (VStr (encode_all (py_slice (runes t) RuneError start stop step))).
Proof.
  intros t start stop step Hb Hv HL Hst Hs.
  pose proof (valid_utf8_scalars t Hb Hv) as Hsc.
  pose proof (valid_utf8_inv t Hv) as Ht.
  rewrite Ht at 1. apply model_slice_code_points_python; assumption.
Qed.

(* step 1 through the parser's entry point, any byte string (valid UTF-8 or not):
   invalid bytes are single chunks, as they are single U+FFFD code points for Go *)
Theorem model_slice_string1_python : forall (s : bytes) (start stop : option Z),
  rune_count s <= MaxInt ->
  model_slice (VStr s) start stop 1 = Ok (VStr (concat (py_slice (chunks s) [] start stop 1))).
Proof.
  intros s start stop HL. rewrite <- python_same_elements by lia.
  assert (HL' : 0 <= zlen (chunks s) <= MaxInt).
  { unfold zlen. rewrite length_chunks. unfold rune_count in *. lia. }
  unfold spec_slice, spec_slice_indices. fold (zlen (chunks s)).
  rewrite (spec_bounds_enc (zlen (chunks s)) start stop 1) by lia.
  unfold model_slice. change (1 =? 1) with true. cbv iota. apply slice1_str.
Qed.

(* the sliced string has slicelength code points, never more than the string has,
   and is empty iff slicelength is 0 *)
Corollary model_slice_code_points_shape : forall (cs : list Z) (start stop : option Z) (step : Z),
  scalars cs -> zlen cs <= MaxInt -> MinInt <= step <= MaxInt -> step <> 0 ->
  exists rs, model_slice (VStr (encode_all cs)) start stop step = Ok (VStr (encode_all rs)) /\
             scalars rs /\
             zlen rs = py_len (zlen cs) start stop step /\ zlen rs <= zlen cs /\
             (rs = [] <-> py_len (zlen cs) start stop step = 0).
Proof.
  intros cs start stop step Hcs HL Hst Hs.
  exists (py_slice cs RuneError start stop step).
  split; [apply model_slice_code_points_python; assumption|].
  destruct (py_slice_length cs RuneError start stop step Hs) as [H1 H2].
  split.
  { (* every selected code point is one of cs *)
    rewrite py_slice_prog.
    destruct (py_indices (zlen cs) start stop step) as [[s e] len] eqn:H.
    pose proof (py_prog_range _ _ _ _ _ _ _ (zlen_nonneg cs) Hs H) as HF.
    unfold scalars in *. rewrite Forall_forall in *. intros x Hx.
    apply in_map_iff in Hx. destruct Hx as (j & <- & Hj). specialize (HF j Hj).
    apply Hcs, nth_In. unfold zlen in HF. lia. }
  split; [exact H1|]. split; [lia|]. apply py_slice_nil_iff; assumption.
Qed.

(* ------------------------------------------------------------------ *)
(* assumptions                                                         *)
(* ------------------------------------------------------------------ *)

Print Assumptions python_same_indices.
Print Assumptions python_same_elements.
Print Assumptions py_slice_length.
Print Assumptions py_slice_length_le.
Print Assumptions py_slice_nil_iff.
Print Assumptions py_len_zero_iff.
Print Assumptions py_slice_in_range.
Print Assumptions py_slice_map.
Print Assumptions py_slice_default.
Print Assumptions py_indices_c_agrees.
Print Assumptions py_slice_c_agrees.
Print Assumptions py_slice_firstn_skipn.
Print Assumptions py_slice_firstn_skipn_nat.
Print Assumptions py_slice_all.
Print Assumptions py_slice_skipn.
Print Assumptions py_slice_firstn.
Print Assumptions py_slice_rev.
Print Assumptions py_slice_zero_rev.
Print Assumptions model_slice_array_python.
Print Assumptions model_slice_array_python_c.
Print Assumptions model_slice_array_shape.
Print Assumptions slice_string_python.
Print Assumptions model_slice_string_python.
Print Assumptions model_slice_string1_python.
Print Assumptions model_slice_code_points_python.
Print Assumptions model_slice_string_code_points.
Print Assumptions model_slice_code_points_shape.
