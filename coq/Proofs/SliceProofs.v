(* C12: the model of slice()/sliceStep() on arrays returns exactly the elements
   visited by the specification's slice walk (Spec/SpecSlice.v), for every
   start/stop (absent or any 64-bit integer) and every non-zero 64-bit step. *)
From Coq Require Import List ZArith Bool Lia.
From JM Require Import Base.Outcome Base.Bytes Base.GoInt Base.Utf8 Json.Value Model.Slice Spec.SpecSlice Proofs.SliceSpec.
Import ListNotations. Open Scope Z_scope.

(* ------------------------------------------------------------------ *)
(* arithmetic progressions                                             *)
(* ------------------------------------------------------------------ *)

(* i, i+step, ..., i+(n-1)*step *)
Fixpoint prog (n : nat) (i step : Z) : list Z :=
  match n with O => [] | S n' => i :: prog n' (i + step) step end.

Lemma gtb_true a b : b < a -> (a >? b) = true.
Proof. intros; apply Z.gtb_lt; lia. Qed.
Lemma gtb_false a b : a <= b -> (a >? b) = false.
Proof. intros; rewrite Z.gtb_ltb; apply Z.ltb_ge; lia. Qed.
Lemma ltb_true a b : a < b -> (a <? b) = true.
Proof. intros; apply Z.ltb_lt; lia. Qed.
Lemma ltb_false a b : b <= a -> (a <? b) = false.
Proof. intros; apply Z.ltb_ge; lia. Qed.
Lemma leb_true a b : a <= b -> (a <=? b) = true.
Proof. intros; apply Z.leb_le; lia. Qed.
Lemma leb_false a b : b < a -> (a <=? b) = false.
Proof. intros; apply Z.leb_gt; lia. Qed.

(* ---- the specification's walk is an arithmetic progression ---- *)

Lemma walk_nil_pos fuel i stop step : 0 < step -> stop <= i -> walk fuel i stop step = [].
Proof.
  intros Hs H. destruct fuel; cbn [walk]; auto.
  rewrite (gtb_true step 0) by lia. rewrite (ltb_false i stop) by lia. reflexivity.
Qed.

Lemma walk_nil_neg fuel i stop step : step < 0 -> i <= stop -> walk fuel i stop step = [].
Proof.
  intros Hs H. destruct fuel; cbn [walk]; auto.
  rewrite (gtb_false step 0) by lia. rewrite (gtb_false i stop) by lia. reflexivity.
Qed.

(* n is the number of visited indices: the n-th one is the first not before stop *)
Lemma walk_count_pos : forall n fuel i stop step,
  0 < step -> (n <= fuel)%nat ->
  stop <= i + Z.of_nat n * step ->
  ((0 < n)%nat -> i + (Z.of_nat n - 1) * step < stop) ->
  walk fuel i stop step = prog n i step.
Proof.
  induction n as [|n IH]; intros fuel i stop step Hs Hf H1 H2.
  - cbn [prog]. apply walk_nil_pos; lia.
  - destruct fuel as [|f]; [lia|]. cbn [walk prog].
    rewrite (gtb_true step 0) by lia.
    assert (0 <= Z.of_nat n * step) by (apply Z.mul_nonneg_nonneg; lia).
    rewrite (ltb_true i stop) by lia.
    f_equal. apply IH; try lia.
Qed.

Lemma walk_count_neg : forall n fuel i stop step,
  step < 0 -> (n <= fuel)%nat ->
  i + Z.of_nat n * step <= stop ->
  ((0 < n)%nat -> stop < i + (Z.of_nat n - 1) * step) ->
  walk fuel i stop step = prog n i step.
Proof.
  induction n as [|n IH]; intros fuel i stop step Hs Hf H1 H2.
  - cbn [prog]. apply walk_nil_neg; lia.
  - destruct fuel as [|f]; [lia|]. cbn [walk prog].
    rewrite (gtb_false step 0) by lia.
    assert (Z.of_nat n * step <= 0) by (apply Z.mul_nonneg_nonpos; lia).
    rewrite (gtb_true i stop) by lia.
    f_equal. apply IH; try lia.
Qed.

(* a progression whose two ends are in an interval stays in the interval *)
Lemma prog_range lo hi : forall n i step,
  ((0 < n)%nat -> lo <= i < hi /\ lo <= i + (Z.of_nat n - 1) * step < hi) ->
  Forall (fun j => lo <= j < hi) (prog n i step).
Proof.
  induction n as [|n IH]; intros i step H; cbn [prog]; constructor.
  - apply H; lia.
  - apply IH. intros Hn. destruct (H ltac:(lia)) as [Hi He].
    destruct (Z.le_ge_cases 0 step).
    + assert (0 <= (Z.of_nat n - 1) * step) by (apply Z.mul_nonneg_nonneg; lia). lia.
    + assert ((Z.of_nat n - 1) * step <= 0) by (apply Z.mul_nonneg_nonpos; lia). lia.
Qed.

(* ------------------------------------------------------------------ *)
(* the model's element access                                          *)
(* ------------------------------------------------------------------ *)

Lemma at_ok {A} (l : list A) j d : 0 <= j < zlen l -> at_ l j = Ok (nth (Z.to_nat j) l d).
Proof.
  intros H. unfold at_.
  rewrite (leb_true 0 j) by lia. rewrite (ltb_true j (zlen l)) by lia. cbn [andb].
  rewrite (nth_error_nth' l d); [reflexivity|]. unfold zlen in H. lia.
Qed.

(* pick reads the progression; the wrap64 on the running index is the identity on
   every index that is read (the one computed after the last read may wrap) *)
Lemma pick_prog {A} (l : list A) d : zlen l <= MaxInt -> forall n j step,
  Forall (fun x => 0 <= x < zlen l) (prog n j step) ->
  pick l n j step = Ok (map (fun x => nth (Z.to_nat x) l d) (prog n j step)).
Proof.
  intros HL. induction n as [|n IH]; intros j step HF; cbn [pick prog map]; auto.
  cbn [prog] in HF. inversion HF as [|? ? Hj HF']; subst.
  rewrite (at_ok l j d Hj). cbn [bind].
  destruct n as [|n'].
  - cbn [pick prog map bind]. reflexivity.
  - assert (Hw : wrap64 (j + step) = j + step).
    { cbn [prog] in HF'. inversion HF'; subst. apply wrap64_id.
      unfold MinInt, MaxInt in *. lia. }
    rewrite Hw. rewrite IH by assumption. cbn [bind]. reflexivity.
Qed.

Lemma skipn_nth {A} (d : A) : forall (l : list A) k,
  (k < length l)%nat -> skipn k l = nth k l d :: skipn (S k) l.
Proof.
  induction l as [|x l IH]; intros k H; cbn [length] in H; [lia|].
  destruct k as [|k]; [reflexivity|].
  cbn [skipn nth]. rewrite IH by lia. reflexivity.
Qed.

Lemma firstn_skipn_prog {A} (l : list A) d : forall n i,
  0 <= i -> i + Z.of_nat n <= zlen l ->
  firstn n (skipn (Z.to_nat i) l) = map (fun x => nth (Z.to_nat x) l d) (prog n i 1).
Proof.
  unfold zlen. induction n as [|n IH]; intros i Hi Hn; [reflexivity|].
  rewrite (skipn_nth d) by lia. cbn [firstn prog map]. f_equal.
  rewrite <- IH by lia. replace (Z.to_nat (i + 1)) with (S (Z.to_nat i)) by lia. reflexivity.
Qed.

Lemma sub_prog {A} (l : list A) d i j : 0 <= i -> i <= j -> j <= zlen l ->
  sub l i j = Ok (map (fun x => nth (Z.to_nat x) l d) (prog (Z.to_nat (j - i)) i 1)).
Proof.
  intros. unfold sub.
  rewrite (leb_true 0 i), (leb_true i j), (leb_true j (zlen l)) by lia. cbn [andb].
  rewrite (firstn_skipn_prog l d) by lia. reflexivity.
Qed.

(* ------------------------------------------------------------------ *)
(* element count: truncated division rounded up                        *)
(* ------------------------------------------------------------------ *)

Definition ceilq (c s : Z) : Z := if Z.rem c s >? 0 then Z.quot c s + 1 else Z.quot c s.

Lemma ceilq_spec c s : 0 < c -> 0 < s ->
  (ceilq c s - 1) * s < c <= ceilq c s * s /\ 1 <= ceilq c s <= c.
Proof.
  intros Hc Hs. unfold ceilq.
  pose proof (Z.quot_rem' c s) as Hq.
  pose proof (Z.rem_bound_pos c s ltac:(lia) ltac:(lia)) as Hr.
  assert (0 <= Z.quot c s) as Hq0 by (apply Z.quot_pos; lia).
  set (q := Z.quot c s) in *. set (r := Z.rem c s) in *.
  destruct (r >? 0) eqn:E; [apply Z.gtb_lt in E | rewrite Z.gtb_ltb in E; apply Z.ltb_ge in E]; nia.
Qed.

(* step = MinInt: -step overflows back to MinInt, the quotient is 0 and the
   remainder positive, so exactly one element is taken *)
Lemma wrap64_neg_MinInt : wrap64 (MinInt * -1) = MinInt.
Proof. reflexivity. Qed.

Lemma ceilq_MinInt c : 0 < c <= MaxInt -> ceilq c MinInt = 1.
Proof.
  intros H. unfold ceilq.
  change MinInt with (- two63).
  rewrite Z.rem_opp_r, Z.quot_opp_r by (unfold two63; lia).
  rewrite Z.rem_small, Z.quot_small by (unfold two63, MaxInt in *; lia).
  rewrite (gtb_true c 0) by lia. reflexivity.
Qed.

(* ------------------------------------------------------------------ *)
(* the model's clamping agrees with the specification's bounds         *)
(* ------------------------------------------------------------------ *)

Ltac brk :=
  repeat (match goal with
  | |- context [if ?a <? ?b then _ else _] =>
      let E := fresh "E" in
      destruct (a <? b) eqn:E; [apply Z.ltb_lt in E | apply Z.ltb_ge in E]
  | |- context [if ?a <=? ?b then _ else _] =>
      let E := fresh "E" in
      destruct (a <=? b) eqn:E; [apply Z.leb_le in E | apply Z.leb_gt in E]
  | |- context [if ?a >=? ?b then _ else _] =>
      let E := fresh "E" in
      destruct (a >=? b) eqn:E; rewrite Z.geb_leb in E;
      [apply Z.leb_le in E | apply Z.leb_gt in E]
  | |- context [if ?a >? ?b then _ else _] =>
      lazymatch a with Z.rem _ _ => fail | _ => idtac end;
      let E := fresh "E" in
      destruct (a >? b) eqn:E; rewrite Z.gtb_ltb in E;
      [apply Z.ltb_lt in E | apply Z.ltb_ge in E]
  end; cbv beta iota).

Lemma norm1_spec L start stop s e :
  0 <= L -> spec_bounds L (Some start) (Some stop) 1 = (s, e) ->
  match norm1 L start stop false with
  | BEmpty => e <= s
  | BRange i j => i = s /\ j = e /\ 0 <= s /\ s < e /\ e <= L
  end.
Proof.
  intros HL Hb. unfold spec_bounds in Hb. rewrite (ltb_false 1 0) in Hb by lia.
  cbv zeta in Hb. injection Hb as <- <-.
  unfold norm1. cbn [negb andb]. cbv zeta.
  brk; lia.
Qed.

Lemma norm_step_pos_spec L start stop step s e :
  0 <= L -> 0 < step -> spec_bounds L (Some start) (Some stop) step = (s, e) ->
  match norm_step L start stop step with
  | None => e <= s
  | Some (i, n) => i = s /\ 0 <= s /\ s < e /\ e <= L /\ exists c, n = ceilq c step /\ c = e - s
  end.
Proof.
  intros HL Hs Hb. unfold spec_bounds in Hb. rewrite (ltb_false step 0) in Hb by lia.
  cbv zeta in Hb. injection Hb as <- <-.
  unfold norm_step. rewrite (gtb_true step 0) by lia.
  cbv zeta.
  brk; try lia; (repeat split; try lia); (eexists; split; [reflexivity | lia]).
Qed.

Lemma norm_step_neg_spec L start stop step s e :
  0 <= L -> step < 0 -> spec_bounds L (Some start) (Some stop) step = (s, e) ->
  match norm_step L start stop step with
  | None => s <= e
  | Some (i, n) => i = s /\ e < s /\ -1 <= e /\ s <= L - 1 /\
                   exists c, n = ceilq c (wrap64 (step * -1)) /\ c = s - e
  end.
Proof.
  intros HL Hs Hb. unfold spec_bounds in Hb. rewrite (ltb_true step 0) in Hb by lia.
  cbv zeta in Hb. injection Hb as <- <-.
  unfold norm_step. rewrite (gtb_false step 0) by lia.
  cbv zeta.
  brk; try lia; (repeat split; try lia); (eexists; split; [reflexivity | lia]).
Qed.

(* absent parts: the parser's sentinels clamp to the specification's defaults *)
Lemma spec_bounds_enc L start stop step :
  0 <= L <= MaxInt -> step <> 0 ->
  spec_bounds L start stop step =
  spec_bounds L (Some (enc_start start step)) (Some (enc_stop stop step)) step.
Proof.
  intros HL Hs. unfold spec_bounds, enc_start, enc_stop. cbv zeta.
  destruct (step <? 0) eqn:E; [apply Z.ltb_lt in E | apply Z.ltb_ge in E];
    destruct start as [a|], stop as [b|]; f_equal;
    change (MaxInt <? 0) with false; change (MinInt <? 0) with true;
    change (0 <? 0) with false; cbv iota; unfold MaxInt, MinInt in *; lia.
Qed.

Lemma enc_start_range start step : int_opt start -> MinInt <= enc_start start step <= MaxInt.
Proof.
  unfold int_opt, enc_start. destruct start; auto.
  destruct (step <? 0); unfold MinInt, MaxInt; lia.
Qed.

Lemma enc_stop_range stop step : int_opt stop -> MinInt <= enc_stop stop step <= MaxInt.
Proof.
  unfold int_opt, enc_stop. destruct stop; auto.
  destruct (step <? 0); unfold MinInt, MaxInt; lia.
Qed.

(* ------------------------------------------------------------------ *)
(* the three code paths, for present start/stop                        *)
(* ------------------------------------------------------------------ *)

Definition spec_some (l : list value) (start stop step : Z) : list value :=
  spec_slice l VNull (Some start) (Some stop) step.

Lemma zlen_nonneg {A} (l : list A) : 0 <= zlen l.
Proof. unfold zlen. lia. Qed.

Lemma slice1_some l start stop : zlen l <= MaxInt ->
  slice (VArr l) start stop = Ok (VArr (spec_some l start stop 1)).
Proof.
  intros HL. pose proof (zlen_nonneg l) as H0.
  unfold spec_some, spec_slice, spec_slice_indices. fold (zlen l).
  destruct (spec_bounds (zlen l) (Some start) (Some stop) 1) as [s e] eqn:Hb.
  pose proof (norm1_spec _ _ _ _ _ H0 Hb) as Hn.
  cbn [slice]. destruct (norm1 (zlen l) start stop false) as [|i j].
  - rewrite walk_nil_pos by lia. reflexivity.
  - destruct Hn as (-> & -> & Hs0 & Hse & HeL).
    rewrite (sub_prog l VNull) by lia. cbn [bind].
    rewrite (walk_count_pos (Z.to_nat (e - s))); try lia. reflexivity.
Qed.

Lemma slice_step_pos_some l start stop step : zlen l <= MaxInt -> 0 < step ->
  slice_step (VArr l) start stop step = Ok (VArr (spec_some l start stop step)).
Proof.
  intros HL Hstep. pose proof (zlen_nonneg l) as H0.
  unfold spec_some, spec_slice, spec_slice_indices. fold (zlen l).
  destruct (spec_bounds (zlen l) (Some start) (Some stop) step) as [s e] eqn:Hb.
  pose proof (norm_step_pos_spec _ _ _ _ _ _ H0 Hstep Hb) as Hn.
  cbn [slice_step]. destruct (norm_step (zlen l) start stop step) as [[i n]|].
  - destruct Hn as (-> & Hs0 & Hse & HeL & c & -> & ->).
    pose proof (ceilq_spec (e - s) step ltac:(lia) Hstep) as [[Hlo Hhi] [Hn1 Hnc]].
    set (n := ceilq (e - s) step) in *.
    rewrite (proj2 (Z.eqb_neq step 0)) by lia.
    rewrite (ltb_false n 0), (gtb_false n MaxInt) by lia. cbn [orb].
    assert (0 <= (n - 1) * step) by (apply Z.mul_nonneg_nonneg; lia).
    rewrite (pick_prog l VNull HL).
    2:{ apply prog_range. intros _. rewrite Z2Nat.id by lia. lia. }
    cbn [bind].
    rewrite (walk_count_pos (Z.to_nat n)); try (rewrite ?Z2Nat.id by lia; lia). reflexivity.
  - rewrite walk_nil_pos by lia. reflexivity.
Qed.

Lemma slice_step_neg_some l start stop step : zlen l <= MaxInt -> MinInt <= step < 0 ->
  slice_step (VArr l) start stop step = Ok (VArr (spec_some l start stop step)).
Proof.
  intros HL Hstep. pose proof (zlen_nonneg l) as H0.
  unfold spec_some, spec_slice, spec_slice_indices. fold (zlen l).
  destruct (spec_bounds (zlen l) (Some start) (Some stop) step) as [s e] eqn:Hb.
  pose proof (norm_step_neg_spec _ _ _ _ _ _ H0 (proj2 Hstep) Hb) as Hn.
  cbn [slice_step]. destruct (norm_step (zlen l) start stop step) as [[i n]|].
  - destruct Hn as (-> & Hes & He1 & HsL & c & -> & ->).
    assert (exists n, ceilq (s - e) (wrap64 (step * -1)) = n /\ 1 <= n <= s - e /\
                      s + n * step <= e /\ e < s + (n - 1) * step) as (n & -> & Hn1 & Hhi & Hlo).
    { destruct (Z.eq_dec step MinInt) as [->|Hne].
      - rewrite wrap64_neg_MinInt. rewrite ceilq_MinInt by lia.
        exists 1. unfold MinInt, MaxInt in *. repeat split; lia.
      - rewrite wrap64_id by (unfold MinInt, MaxInt in *; lia).
        replace (step * -1) with (- step) by lia.
        pose proof (ceilq_spec (s - e) (- step) ltac:(lia) ltac:(lia)) as [[Hlo Hhi] [Hn1 Hnc]].
        eexists; split; [reflexivity|]. repeat split; lia. }
    rewrite (proj2 (Z.eqb_neq step 0)) by lia.
    rewrite (ltb_false n 0), (gtb_false n MaxInt) by lia. cbn [orb].
    assert ((n - 1) * step <= 0) by (apply Z.mul_nonneg_nonpos; lia).
    rewrite (pick_prog l VNull HL).
    2:{ apply prog_range. intros _. rewrite Z2Nat.id by lia. lia. }
    cbn [bind].
    rewrite (walk_count_neg (Z.to_nat n)); try (rewrite ?Z2Nat.id by lia; lia). reflexivity.
  - rewrite walk_nil_neg by lia. reflexivity.
Qed.

(* ------------------------------------------------------------------ *)
(* main theorem                                                        *)
(* ------------------------------------------------------------------ *)

Theorem slice_array_spec : forall (l : list value) (start stop : option Z) (step : Z),
  zlen l <= MaxInt -> int_opt start -> int_opt stop -> MinInt <= step <= MaxInt -> step <> 0 ->
  model_slice (VArr l) start stop step = Ok (VArr (spec_slice l VNull start stop step)).
Proof.
  intros l start stop step HL Hstart Hstop Hstep Hnz.
  pose proof (zlen_nonneg l) as H0.
  assert (spec_slice l VNull start stop step =
          spec_some l (enc_start start step) (enc_stop stop step) step) as ->.
  { unfold spec_some, spec_slice, spec_slice_indices. fold (zlen l).
    rewrite (spec_bounds_enc (zlen l) start stop step) by lia. reflexivity. }
  unfold model_slice. destruct (step =? 1) eqn:E1.
  - apply Z.eqb_eq in E1. subst step. apply slice1_some; assumption.
  - destruct (Z.lt_ge_cases 0 step).
    + apply slice_step_pos_some; assumption.
    + apply slice_step_neg_some; [assumption | lia].
Qed.

Print Assumptions slice_array_spec.
