(* C19: let-bindings are lexically scoped and capture the value at binding time.

   Stated on the reference semantics (Spec/RefEval.v):
   - ref_eval_env_agree : an expression only depends on the bindings of its
     free variables;
   - let_is_substitution : extending the scope with x := v is the same as
     replacing, textually, the references to x that are not re-bound;
   - corollaries: shadowing, siblings do not see each other, capture at
     binding time under a projection, the end of a shadowing scope;
   and, for the model evaluator (Model/Eval.v), eval_env_agree. *)
From Coq Require Import List ZArith Bool Lia.
From JM Require Import Base.Outcome Base.Bytes Json.Value
  Model.Ast Model.Parser Model.Eval Spec.RefAst Spec.RefEval.
Import ListNotations.
Open Scope Z_scope.

(* ------------------------------------------------------------------ *)
(* induction over rexpr (nested lists, rarg, projkind)                 *)
(* ------------------------------------------------------------------ *)

Definition arg_expr (a : rarg) : rexpr := match a with AExpr e => e | ARef e => e end.
Definition kind_cond (k : projkind) : list rexpr := match k with PFilter c => [c] | _ => [] end.

Definition children (e : rexpr) : list rexpr :=
  match e with
  | RSub l r | RPipe l r | ROr l r | RAnd l r | RCmp _ l r | RArith _ l r => [l; r]
  | RIndex l _ | RNot l | RNeg l | RPos l => [l]
  | RProj k l r => kind_cond k ++ [l; r]
  | RMultiList es => es
  | RMultiHash kes => map snd kes
  | RCall _ args => map arg_expr args
  | RLet bs body => body :: map snd bs
  | _ => []
  end.

Section RexprInd.
  Variable P : rexpr -> Prop.
  Hypothesis H : forall e, Forall P (children e) -> P e.

  Fixpoint rexpr_ind' (e : rexpr) : P e :=
    H e
      (match e return Forall P (children e) with
       | RSub l r | RPipe l r | ROr l r | RAnd l r | RCmp _ l r | RArith _ l r =>
         Forall_cons l (rexpr_ind' l) (Forall_cons r (rexpr_ind' r) (Forall_nil P))
       | RIndex l _ | RNot l | RNeg l | RPos l => Forall_cons l (rexpr_ind' l) (Forall_nil P)
       | RProj k l r =>
         let rest := Forall_cons l (rexpr_ind' l) (Forall_cons r (rexpr_ind' r) (Forall_nil P)) in
         match k return Forall P (kind_cond k ++ [l; r]) with
         | PFilter c => Forall_cons c (rexpr_ind' c) rest
         | _ => rest
         end
       | RMultiList es =>
         (fix go (l : list rexpr) : Forall P l :=
            match l with
            | [] => Forall_nil P
            | x :: r => Forall_cons x (rexpr_ind' x) (go r)
            end) es
       | RMultiHash kes =>
         (fix go (l : list (bytes * rexpr)) : Forall P (map snd l) :=
            match l with
            | [] => Forall_nil P
            | (k, x) :: r => Forall_cons x (rexpr_ind' x) (go r)
            end) kes
       | RCall _ args =>
         (fix go (l : list rarg) : Forall P (map arg_expr l) :=
            match l with
            | [] => Forall_nil P
            | AExpr x :: r => Forall_cons x (rexpr_ind' x) (go r)
            | ARef x :: r => Forall_cons x (rexpr_ind' x) (go r)
            end) args
       | RLet bs body =>
         Forall_cons body (rexpr_ind' body)
           ((fix go (l : list (bytes * rexpr)) : Forall P (map snd l) :=
               match l with
               | [] => Forall_nil P
               | (k, x) :: r => Forall_cons x (rexpr_ind' x) (go r)
               end) bs)
       | _ => Forall_nil P
       end).
End RexprInd.

(* ------------------------------------------------------------------ *)
(* free variables, substitution of a value for a variable              *)
(* ------------------------------------------------------------------ *)

(* is y one of the names bound by this list of bindings *)
Definition bound {A} (y : bytes) (bs : list (bytes * A)) : bool := existsb (beqb y) (map fst bs).

Fixpoint free_vars (e : rexpr) : list bytes :=
  match e with
  | RVar x => [x]
  | RSub l r | RPipe l r | ROr l r | RAnd l r | RCmp _ l r | RArith _ l r => free_vars l ++ free_vars r
  | RIndex l _ | RNot l | RNeg l | RPos l => free_vars l
  | RProj k l r =>
    match k with PFilter c => free_vars c | _ => [] end ++ free_vars l ++ free_vars r
  | RMultiList es => flat_map free_vars es
  | RMultiHash kes => flat_map (fun ke => let '(_, x) := ke in free_vars x) kes
  | RCall _ args =>
    flat_map (fun a => match a with AExpr x => free_vars x | ARef x => free_vars x end) args
  | RLet bs body =>
    flat_map (fun b => let '(_, x) := b in free_vars x) bs
    ++ List.filter (fun y => negb (bound y bs)) (free_vars body)
  | _ => []
  end.

Fixpoint subst (x : bytes) (v : value) (e : rexpr) : rexpr :=
  match e with
  | RVar y => if beqb y x then RLiteral v else RVar y
  | RSub l r => RSub (subst x v l) (subst x v r)
  | RPipe l r => RPipe (subst x v l) (subst x v r)
  | ROr l r => ROr (subst x v l) (subst x v r)
  | RAnd l r => RAnd (subst x v l) (subst x v r)
  | RCmp op l r => RCmp op (subst x v l) (subst x v r)
  | RArith op l r => RArith op (subst x v l) (subst x v r)
  | RIndex l i => RIndex (subst x v l) i
  | RNot l => RNot (subst x v l)
  | RNeg l => RNeg (subst x v l)
  | RPos l => RPos (subst x v l)
  | RProj k l r =>
    RProj (match k with PFilter c => PFilter (subst x v c) | _ => k end) (subst x v l) (subst x v r)
  | RMultiList es => RMultiList (map (subst x v) es)
  | RMultiHash kes => RMultiHash (map (fun ke => let '(k, y) := ke in (k, subst x v y)) kes)
  | RCall f args =>
    RCall f (map (fun a => match a with AExpr y => AExpr (subst x v y) | ARef y => ARef (subst x v y) end) args)
  | RLet bs body =>
    RLet (map (fun b => let '(k, y) := b in (k, subst x v y)) bs)
         (if bound x bs then body else subst x v body)
  | _ => e
  end.

(* ------------------------------------------------------------------ *)
(* small facts                                                         *)
(* ------------------------------------------------------------------ *)

Lemma beqb_false_neq a b : beqb a b = false <-> a <> b.
Proof.
  split.
  - intros H E. apply beqb_eq in E. congruence.
  - intros H. destruct (beqb a b) eqn:E; [apply beqb_eq in E; contradiction | reflexivity].
Qed.

Lemma beqb_sym a b : beqb a b = beqb b a.
Proof.
  destruct (beqb a b) eqn:E.
  - apply beqb_eq in E. subst. symmetry. apply beqb_refl.
  - symmetry. apply beqb_false_neq. apply beqb_false_neq in E. congruence.
Qed.

Lemma Forall_diag2 {A} (Q : A -> A -> Prop) l : Forall (fun a => Q a a) l -> Forall2 Q l l.
Proof. induction 1; constructor; assumption. Qed.

Lemma Forall_map2 {A B} (Q : A -> B -> Prop) (f : A -> B) l :
  Forall (fun a => Q a (f a)) l -> Forall2 Q l (map f l).
Proof. induction 1; cbn [map]; constructor; assumption. Qed.

Lemma Forall_map_iff {A B} (P : B -> Prop) (f : A -> B) l : Forall P (map f l) <-> Forall (fun a => P (f a)) l.
Proof.
  induction l as [|a l IH]; cbn [map]; split; intros H; try constructor;
    inversion H; subst; try assumption; apply IH; assumption.
Qed.

Definition is_some {A} (o : option A) : bool := match o with Some _ => true | None => false end.

Lemma proj_list_ext f g l : (forall x, f x = g x) -> proj_list f l = proj_list g l.
Proof. intros H. induction l as [|v r IH]; [reflexivity|]. cbn [proj_list]. rewrite H, IH. reflexivity. Qed.

(* ------------------------------------------------------------------ *)
(* built-in calls only look at the graph of their expression arguments *)
(* ------------------------------------------------------------------ *)

Section Ext.
  Variables f g : value -> outcome value.
  Hypothesis Hfg : forall v, f v = g v.

  Lemma mapM_ext_v l : mapM f l = mapM g l.
  Proof. induction l as [|v r IH]; [reflexivity|]. cbn [mapM]. rewrite Hfg, IH. reflexivity. Qed.
  Lemma map_array_ext v : map_array f v = map_array g v.
  Proof. destruct v; try reflexivity. cbn [map_array]. rewrite mapM_ext_v. reflexivity. Qed.
  Lemma str_keys_ext l : str_keys f l = str_keys g l.
  Proof. induction l as [|v r IH]; [reflexivity|]. cbn [str_keys]. rewrite Hfg, IH. reflexivity. Qed.
  Lemma num_keys_ext l : num_keys f l = num_keys g l.
  Proof. induction l as [|v r IH]; [reflexivity|]. cbn [num_keys]. rewrite Hfg, IH. reflexivity. Qed.
  Lemma keys_for_ext a l : keys_for f a l = keys_for g a l.
  Proof. unfold keys_for. rewrite Hfg, str_keys_ext, num_keys_ext. reflexivity. Qed.
  Lemma sort_array_by_ext v : sort_array_by f v = sort_array_by g v.
  Proof.
    destruct v as [| | | |[|a0 rest]| |]; try reflexivity.
    cbn [sort_array_by]. rewrite keys_for_ext. reflexivity.
  Qed.
  Lemma array_extreme_by_ext gt v : array_extreme_by f gt v = array_extreme_by g gt v.
  Proof.
    destruct v as [| | | |[|a0 rest]| |]; try reflexivity.
    cbn [array_extreme_by]. rewrite keys_for_ext. reflexivity.
  Qed.
  Lemma group_loop_ext l : forall acc, group_loop f l acc = group_loop g l acc.
  Proof.
    induction l as [|v r IH]; intros acc; [reflexivity|]. cbn [group_loop]. rewrite Hfg.
    destruct (g v) as [k| | | |]; try reflexivity. cbn [bind].
    destruct k; try reflexivity. apply IH.
  Qed.
  Lemma group_by_ext v : group_by f v = group_by g v.
  Proof.
    destruct v as [| | | |[|a0 rest]| |]; try reflexivity.
    cbn [group_by]. rewrite group_loop_ext. reflexivity.
  Qed.
End Ext.

Inductive argv_eq : argv -> argv -> Prop :=
| AVeq v : argv_eq (AV v) (AV v)
| AFeq f g : (forall y, f y = g y) -> argv_eq (AF f) (AF g).

Lemma spec_call_ext name l l' : Forall2 argv_eq l l' -> spec_call name l = spec_call name l'.
Proof.
  intros H. unfold spec_call.
  destruct (assoc name function_table) as [[ap fb]|]; [|reflexivity].
  destruct fb as [f1|f2|fby| |fv|f1 f2|f2 f3|f2 f3 f4|f3 f4].
  5:{ destruct fv.
      - generalize (@nil (bytes * value)).
        induction H as [|a a' r r' [v|e e' He] H IH]; intros acc; [reflexivity| |reflexivity].
        destruct v; try reflexivity. apply IH.
      - induction H as [|a a' r r' [v|e e' He] H IH]; [reflexivity| |reflexivity].
        destruct (not_null v); [reflexivity|apply IH].
      - match goal with |- bind ?a _ = bind ?b _ => assert (E : a = b) end.
        { induction H as [|a a' r r' [v|e e' He] H IH]; [reflexivity| |reflexivity].
          destruct v; try reflexivity. rewrite IH. reflexivity. }
        rewrite E. reflexivity. }
  all: repeat (try reflexivity;
               match goal with
               | H : Forall2 argv_eq _ _ |- _ => destruct H as [|? ? ? ? [?|? ? ?] H]
               end).
  - destruct fby; [apply group_by_ext | apply array_extreme_by_ext | apply array_extreme_by_ext
                   | apply sort_array_by_ext]; assumption.
  - apply map_array_ext; assumption.
Qed.

(* ------------------------------------------------------------------ *)
(* the inner loops of ref_eval, named                                  *)
(* ------------------------------------------------------------------ *)

Section Loops.
  Variable ev : rexpr -> outcome value.
  Variable evf : rexpr -> value -> outcome value.

  Definition mlist_loop : list rexpr -> outcome (list value) :=
    fix go l := match l with
                | [] => Ok []
                | x :: r => do v <- ev x; do vs <- go r; Ok (v :: vs)
                end.
  Definition mhash_loop : list (bytes * rexpr) -> outcome (list (bytes * value)) :=
    fix go l := match l with
                | [] => Ok []
                | (k, x) :: r => do v <- ev x; do kvs <- go r; Ok ((k, v) :: kvs)
                end.
  Definition nn_loop : list rarg -> outcome value :=
    fix go l := match l with
                | [] => Ok VNull
                | AExpr x :: r => do v <- ev x; if not_null v then Ok v else go r
                | ARef _ :: _ => Err EInvalidType
                end.
  Definition merge_loop : list rarg -> list (bytes * value) -> outcome value :=
    fix go l acc := match l with
                    | [] => Ok (VObj acc)
                    | AExpr x :: r =>
                      do v <- ev x;
                      match v with
                      | VObj m => go r (fold_left (fun acc kv => assoc_set (fst kv) (snd kv) acc) m acc)
                      | _ => Err EInvalidType
                      end
                    | ARef _ :: _ => Err EInvalidType
                    end.
  Definition zip_loop : list rarg -> outcome (list (list value)) :=
    fix go l := match l with
                | [] => Ok []
                | AExpr x :: r =>
                  do v <- ev x;
                  match v with
                  | VArr c => do cs <- go r; Ok (c :: cs)
                  | _ => Err EInvalidType
                  end
                | ARef _ :: _ => Err EInvalidType
                end.
  Definition args_loop : list rarg -> outcome (list argv) :=
    fix go l := match l with
                | [] => Ok []
                | AExpr x :: r => do v <- ev x; do vs <- go r; Ok (AV v :: vs)
                | ARef x :: r => do vs <- go r; Ok (AF (evf x) :: vs)
                end.
  Definition let_loop : list (bytes * rexpr) -> outcome (list (bytes * value)) :=
    fix go l := match l with
                | [] => Ok []
                | (name, x) :: r =>
                  do v <- ev x; do fr <- go r;
                  Ok (match assoc name fr with Some _ => fr | None => (name, v) :: fr end)
                end.
End Loops.

Definition s_not_null : bytes := [110;111;116;95;110;117;108;108].
Definition s_merge : bytes := [109;101;114;103;101].
Definition s_zip : bytes := [122;105;112].

Section Unfold.
  Variable root : value.
  Variables (cur : value) (vars : env).
  Let ev := fun x => ref_eval root x cur vars.
  Let evf := fun x y => ref_eval root x y vars.

  Lemma ref_eval_multilist es :
    ref_eval root (RMultiList es) cur vars =
    match cur, es with
    | VNull, _ :: _ :: _ => Ok VNull
    | _, _ => do vs <- mlist_loop ev es; Ok (VArr vs)
    end.
  Proof. reflexivity. Qed.

  Lemma ref_eval_multihash kes :
    ref_eval root (RMultiHash kes) cur vars =
    match cur, kes with
    | VNull, _ :: _ :: _ => Ok VNull
    | _, _ => do kvs <- mhash_loop ev kes; Ok (VObj kvs)
    end.
  Proof. reflexivity. Qed.

  Lemma ref_eval_call f args :
    ref_eval root (RCall f args) cur vars =
    if beqb f s_not_null then nn_loop ev args
    else if beqb f s_merge then merge_loop ev args []
    else if beqb f s_zip then
      do cols <- zip_loop ev args;
      let count := fold_left (fun m c => Z.min m (Z.of_nat (length c))) cols 9223372036854775807 in
      Ok (VArr (zip_rows (Z.to_nat count) 0 cols))
    else do avs <- args_loop ev evf args; spec_call f avs.
  Proof. reflexivity. Qed.

  Lemma ref_eval_let bs body :
    ref_eval root (RLet bs body) cur vars =
    do frame <- let_loop ev bs; ref_eval root body cur (frame :: vars).
  Proof. reflexivity. Qed.

  Definition is_multi (e : rexpr) : bool :=
    match e with RMultiList _ | RMultiHash _ => true | _ => false end.

  Lemma ref_eval_sub l r :
    ref_eval root (RSub l r) cur vars =
    do v <- ref_eval root l cur vars;
    if is_multi r && negb (not_null v) then Ok VNull else ref_eval root r v vars.
  Proof.
    cbn [ref_eval]. destruct (ref_eval root l cur vars) as [v| | | |]; try reflexivity.
    cbn [bind]. destruct r; try reflexivity; cbn [is_multi andb]; destruct (not_null v); reflexivity.
  Qed.
End Unfold.

(* ------------------------------------------------------------------ *)
(* extensionality of the loops                                         *)
(* ------------------------------------------------------------------ *)

Section LoopExt.
  Variables ev ev' : rexpr -> outcome value.
  Variables evf evf' : rexpr -> value -> outcome value.

  Definition Rx (e e' : rexpr) : Prop := ev e = ev' e'.
  Definition Rf (e e' : rexpr) : Prop := forall y, evf e y = evf' e' y.
  Inductive Ra : rarg -> rarg -> Prop :=
  | Ra_expr e e' : Rx e e' -> Ra (AExpr e) (AExpr e')
  | Ra_ref e e' : Rf e e' -> Ra (ARef e) (ARef e').
  Definition Rb (b b' : bytes * rexpr) : Prop := fst b = fst b' /\ Rx (snd b) (snd b').

  Lemma mlist_loop_ext l l' : Forall2 Rx l l' -> mlist_loop ev l = mlist_loop ev' l'.
  Proof.
    induction 1 as [|x x' r r' Hx H IH]; [reflexivity|].
    cbn [mlist_loop]. fold (mlist_loop ev r). fold (mlist_loop ev' r'). rewrite Hx, IH. reflexivity.
  Qed.

  Lemma mhash_loop_ext l l' : Forall2 Rb l l' -> mhash_loop ev l = mhash_loop ev' l'.
  Proof.
    induction 1 as [|[k x] [k' x'] r r' [Hk Hx] H IH]; [reflexivity|].
    cbn [fst snd] in Hk, Hx. subst k'.
    cbn [mhash_loop]. fold (mhash_loop ev r). fold (mhash_loop ev' r'). rewrite Hx, IH. reflexivity.
  Qed.

  Lemma let_loop_ext l l' : Forall2 Rb l l' -> let_loop ev l = let_loop ev' l'.
  Proof.
    induction 1 as [|[k x] [k' x'] r r' [Hk Hx] H IH]; [reflexivity|].
    cbn [fst snd] in Hk, Hx. subst k'.
    cbn [let_loop]. fold (let_loop ev r). fold (let_loop ev' r'). rewrite Hx, IH. reflexivity.
  Qed.

  Lemma nn_loop_ext l l' : Forall2 Ra l l' -> nn_loop ev l = nn_loop ev' l'.
  Proof.
    induction 1 as [|a a' r r' [x x' Hx|x x' Hx] H IH]; [reflexivity| |reflexivity].
    cbn [nn_loop]. fold (nn_loop ev r). fold (nn_loop ev' r'). rewrite Hx, IH. reflexivity.
  Qed.

  Lemma merge_loop_ext l l' : Forall2 Ra l l' -> forall acc, merge_loop ev l acc = merge_loop ev' l' acc.
  Proof.
    induction 1 as [|a a' r r' [x x' Hx|x x' Hx] H IH]; intros acc; [reflexivity| |reflexivity].
    cbn [merge_loop]. fold (merge_loop ev r). fold (merge_loop ev' r'). rewrite Hx.
    destruct (ev' x') as [v| | | |]; try reflexivity. cbn [bind]. destruct v; try reflexivity. apply IH.
  Qed.

  Lemma zip_loop_ext l l' : Forall2 Ra l l' -> zip_loop ev l = zip_loop ev' l'.
  Proof.
    induction 1 as [|a a' r r' [x x' Hx|x x' Hx] H IH]; [reflexivity| |reflexivity].
    cbn [zip_loop]. fold (zip_loop ev r). fold (zip_loop ev' r'). rewrite Hx, IH. reflexivity.
  Qed.

  Lemma args_loop_ext l l' name : Forall2 Ra l l' ->
    (do avs <- args_loop ev evf l; spec_call name avs) = (do avs <- args_loop ev' evf' l'; spec_call name avs).
  Proof.
    intros H.
    assert (E : match args_loop ev evf l, args_loop ev' evf' l' with
                | Ok a, Ok b => Forall2 argv_eq a b
                | Err e1, Err e2 => e1 = e2
                | Panic p1, Panic p2 => p1 = p2
                | OutOfFuel, OutOfFuel => True
                | Unmodelled, Unmodelled => True
                | _, _ => False
                end).
    { induction H as [|a a' r r' [x x' Hx|x x' Hx] H IH]; [constructor| |].
      - cbn [args_loop]. fold (args_loop ev evf r). fold (args_loop ev' evf' r'). rewrite Hx.
        destruct (ev' x') as [v| | | |]; cbn [bind]; try exact I; try reflexivity.
        destruct (args_loop ev evf r), (args_loop ev' evf' r'); cbn [bind]; try exact IH; try contradiction.
        constructor; [constructor | exact IH].
      - cbn [args_loop]. fold (args_loop ev evf r). fold (args_loop ev' evf' r').
        destruct (args_loop ev evf r), (args_loop ev' evf' r'); cbn [bind]; try exact IH; try contradiction.
        constructor; [constructor; exact Hx | exact IH]. }
    destruct (args_loop ev evf l), (args_loop ev' evf' l'); cbn [bind]; try contradiction; try congruence.
    apply spec_call_ext. exact E.
  Qed.

  Lemma Ra_length l l' : Forall2 Ra l l' -> length l = length l'.
  Proof. induction 1; cbn [length]; congruence. Qed.
End LoopExt.

(* the names bound by the frame a let builds are those of its bindings *)
Lemma let_loop_names ev bs : forall fr, let_loop ev bs = Ok fr ->
  forall y, is_some (assoc y fr) = bound y bs.
Proof.
  induction bs as [|[name x] r IH]; intros fr H y.
  - cbn in H. injection H as <-. reflexivity.
  - cbn [let_loop] in H. fold (let_loop ev r) in H.
    destruct (ev x) as [v| | | |]; try discriminate. cbn [bind] in H.
    destruct (let_loop ev r) as [fr0| | | |]; try discriminate. cbn [bind] in H.
    specialize (IH fr0 eq_refl).
    unfold bound. cbn [map fst existsb]. fold (bound y r).
    injection H as <-.
    destruct (beqb y name) eqn:E.
    + apply beqb_eq in E. subst y. cbn [orb].
      destruct (assoc name fr0) eqn:A; [rewrite A; reflexivity|].
      cbn [assoc]. rewrite beqb_refl. reflexivity.
    + cbn [orb]. rewrite <- IH.
      destruct (assoc name fr0) eqn:A; [reflexivity|]. cbn [assoc]. rewrite E. reflexivity.
Qed.

(* ------------------------------------------------------------------ *)
(* congruence of ref_eval for every construct that keeps the scope     *)
(* ------------------------------------------------------------------ *)

Lemma Forall2_imp {A B} (P Q : A -> B -> Prop) l l' :
  (forall a b, P a b -> Q a b) -> Forall2 P l l' -> Forall2 Q l l'.
Proof. intros H. induction 1; constructor; auto. Qed.

Section Cong.
  Variable root : value.
  Variables vars1 vars2 : env.

  (* e under vars1 behaves as e' under vars2, whatever the current node *)
  Definition R (e e' : rexpr) : Prop := forall cur, ref_eval root e cur vars1 = ref_eval root e' cur vars2.

  Definition Rk (k k' : projkind) : Prop :=
    match k, k' with
    | PFilter c, PFilter c' => R c c'
    | PFilter _, _ | _, PFilter _ => False
    | _, _ => k = k'
    end.
  Inductive Rarg : rarg -> rarg -> Prop :=
  | Rarg_expr e e' : R e e' -> Rarg (AExpr e) (AExpr e')
  | Rarg_ref e e' : R e e' -> Rarg (ARef e) (ARef e').
  Definition Rbind (b b' : bytes * rexpr) : Prop := fst b = fst b' /\ R (snd b) (snd b').

  Ltac bind_step H :=
    cbn [ref_eval]; rewrite H;
    match goal with |- bind ?o _ = bind ?o _ => destruct o; cbn [bind]; try reflexivity end.

  Lemma cong_index l l' i : R l l' -> R (RIndex l i) (RIndex l' i).
  Proof. intros Hl cur. bind_step Hl. Qed.
  Lemma cong_not l l' : R l l' -> R (RNot l) (RNot l').
  Proof. intros Hl cur. bind_step Hl. Qed.
  Lemma cong_neg l l' : R l l' -> R (RNeg l) (RNeg l').
  Proof. intros Hl cur. bind_step Hl. Qed.
  Lemma cong_pos l l' : R l l' -> R (RPos l) (RPos l').
  Proof. intros Hl cur. bind_step Hl. Qed.
  Lemma cong_pipe l l' r r' : R l l' -> R r r' -> R (RPipe l r) (RPipe l' r').
  Proof. intros Hl Hr cur. bind_step Hl. apply Hr. Qed.
  Lemma cong_or l l' r r' : R l l' -> R r r' -> R (ROr l r) (ROr l' r').
  Proof. intros Hl Hr cur. bind_step Hl. rewrite Hr. reflexivity. Qed.
  Lemma cong_and l l' r r' : R l l' -> R r r' -> R (RAnd l r) (RAnd l' r').
  Proof. intros Hl Hr cur. bind_step Hl. rewrite Hr. reflexivity. Qed.
  Lemma cong_cmp op l l' r r' : R l l' -> R r r' -> R (RCmp op l r) (RCmp op l' r').
  Proof. intros Hl Hr cur. bind_step Hl. rewrite Hr. reflexivity. Qed.
  Lemma cong_arith op l l' r r' : R l l' -> R r r' -> R (RArith op l r) (RArith op l' r').
  Proof. intros Hl Hr cur. bind_step Hl. rewrite Hr. reflexivity. Qed.

  Lemma cong_sub l l' r r' : R l l' -> R r r' -> is_multi r = is_multi r' -> R (RSub l r) (RSub l' r').
  Proof.
    intros Hl Hr Hm cur. rewrite !ref_eval_sub, Hl, Hm.
    destruct (ref_eval root l' cur vars2); cbn [bind]; try reflexivity.
    rewrite Hr. reflexivity.
  Qed.

  Lemma cong_proj k k' l l' r r' : Rk k k' -> R l l' -> R r r' -> R (RProj k l r) (RProj k' l' r').
  Proof.
    intros Hk Hl Hr cur. cbn [ref_eval]. rewrite Hl.
    destruct (ref_eval root l' cur vars2) as [w| | | |]; cbn [bind]; try reflexivity.
    assert (Hp : forall a, proj_list (fun x => ref_eval root r x vars1) a =
                           proj_list (fun x => ref_eval root r' x vars2) a).
    { intros a. apply proj_list_ext. intros x. apply Hr. }
    destruct k, k'; cbn [Rk] in Hk; try contradiction; try discriminate.
    - destruct w; try reflexivity. rewrite Hp. reflexivity.
    - injection Hk as -> -> ->.
      destruct step0 as [[|p|p]|]; try reflexivity;
        (destruct w; try reflexivity; [apply Hr | rewrite Hp; reflexivity]).
    - destruct w; try reflexivity. rewrite Hp. reflexivity.
    - destruct w; try reflexivity.
      erewrite proj_list_ext; [reflexivity|].
      intros x. cbv beta. rewrite Hk, Hr. reflexivity.
    - destruct w; try reflexivity. rewrite Hp. reflexivity.
  Qed.

  Lemma cong_multilist es es' : Forall2 R es es' -> R (RMultiList es) (RMultiList es').
  Proof.
    intros H cur. rewrite !ref_eval_multilist.
    rewrite (mlist_loop_ext _ (fun x => ref_eval root x cur vars2) es es')
      by (eapply Forall2_imp; [|exact H]; intros a b Hab; apply Hab).
    destruct H as [|? ? ? ? _ [|? ? ? ? _ _]]; reflexivity.
  Qed.

  Lemma cong_multihash kes kes' : Forall2 Rbind kes kes' -> R (RMultiHash kes) (RMultiHash kes').
  Proof.
    intros H cur. rewrite !ref_eval_multihash.
    rewrite (mhash_loop_ext _ (fun x => ref_eval root x cur vars2) kes kes')
      by (eapply Forall2_imp; [|exact H]; intros a b [Hab1 Hab2]; split; [exact Hab1|apply Hab2]).
    destruct H as [|? ? ? ? _ [|? ? ? ? _ _]]; reflexivity.
  Qed.

  Lemma cong_call f args args' : Forall2 Rarg args args' -> R (RCall f args) (RCall f args').
  Proof.
    intros H cur. rewrite !ref_eval_call.
    assert (H' : Forall2 (Ra (fun x => ref_eval root x cur vars1) (fun x => ref_eval root x cur vars2)
                             (fun x y => ref_eval root x y vars1) (fun x y => ref_eval root x y vars2))
                         args args').
    { eapply Forall2_imp; [|exact H]. intros a b [e e' He|e e' He]; constructor.
      - apply He.
      - intros y. apply He. }
    destruct (beqb f s_not_null); [eapply nn_loop_ext; exact H'|].
    destruct (beqb f s_merge); [eapply merge_loop_ext; exact H'|].
    destruct (beqb f s_zip); [rewrite (zip_loop_ext _ _ _ _ _ _ H'); reflexivity|].
    eapply args_loop_ext. exact H'.
  Qed.

  (* a let: the frames agree; the body is then evaluated under the extended scopes *)
  Lemma cong_let bs bs' body body' : Forall2 Rbind bs bs' ->
    (forall fr cur, (forall y, is_some (assoc y fr) = bound y bs) ->
                    ref_eval root body cur (fr :: vars1) = ref_eval root body' cur (fr :: vars2)) ->
    R (RLet bs body) (RLet bs' body').
  Proof.
    intros H Hb cur. rewrite !ref_eval_let.
    rewrite (let_loop_ext _ (fun x => ref_eval root x cur vars2) bs bs')
      by (eapply Forall2_imp; [|exact H]; intros a b [Hab1 Hab2]; split; [exact Hab1|apply Hab2]).
    destruct (let_loop (fun x => ref_eval root x cur vars2) bs') as [fr| | | |] eqn:E; cbn [bind]; try reflexivity.
    apply Hb. intros y.
    rewrite (let_loop_names _ _ _ E y).
    unfold bound. f_equal. clear -H. induction H as [|a b r r' [Hab _] H IH]; [reflexivity|].
    cbn [map]. rewrite Hab, IH. reflexivity.
  Qed.
End Cong.

(* ------------------------------------------------------------------ *)
(* 1. an expression depends only on the bindings of its free variables *)
(* ------------------------------------------------------------------ *)

Definition agree_on (xs : list bytes) (vars vars' : env) : Prop :=
  forall x, In x xs -> env_get x vars = env_get x vars'.

Lemma agree_app xs ys vars vars' :
  agree_on (xs ++ ys) vars vars' -> agree_on xs vars vars' /\ agree_on ys vars vars'.
Proof. intros H. split; intros x Hx; apply H; apply in_or_app; auto. Qed.

Lemma env_agree_R root : forall e vars vars', agree_on (free_vars e) vars vars' -> R root vars vars' e e.
Proof.
  intros e. induction e as [e IH] using rexpr_ind'. intros vars vars' Hag.
  destruct e; cbn [children] in IH; cbn [free_vars] in Hag;
    try (intros cur; reflexivity);
    try (pose proof (Forall_inv IH) as Hl; pose proof (Forall_inv (Forall_inv_tail IH)) as Hr;
         apply agree_app in Hag as [Hag1 Hag2]);
    try (pose proof (Forall_inv IH) as Hl).
  - (* RVar *) intros cur. cbn [ref_eval]. rewrite (Hag name (or_introl eq_refl)). reflexivity.
  - (* RSub *) apply cong_sub; [apply Hl | apply Hr | reflexivity]; assumption.
  - (* RIndex *) apply cong_index. apply Hl. assumption.
  - (* RProj *)
    destruct k; cbn [kind_cond app] in IH; cbn [app] in Hag.
    1-3,5: pose proof (Forall_inv IH) as Hl; pose proof (Forall_inv (Forall_inv_tail IH)) as Hr;
      apply agree_app in Hag as [Hag1 Hag2];
      (apply cong_proj; [reflexivity | apply Hl | apply Hr]; assumption).
    apply agree_app in Hag as [Hag0 Hag]. apply agree_app in Hag as [Hag1 Hag2].
    apply cong_proj.
    + cbn [Rk]. apply (Forall_inv IH). assumption.
    + apply (Forall_inv (Forall_inv_tail IH)). assumption.
    + apply (Forall_inv (Forall_inv_tail (Forall_inv_tail IH))). assumption.
  - (* RMultiList *)
    apply cong_multilist. apply Forall_diag2. rewrite Forall_forall in *. intros a Ha.
    apply IH; [exact Ha|]. intros x Hx. apply Hag. apply in_flat_map. exists a. split; assumption.
  - (* RMultiHash *)
    apply cong_multihash. apply Forall_diag2. rewrite Forall_map_iff in IH. rewrite Forall_forall in *.
    intros [k a] Hin. split; [reflexivity|]. cbn [snd]. apply (IH (k, a) Hin).
    intros x Hx. apply Hag. apply in_flat_map. exists (k, a). split; assumption.
  - (* RPipe *) apply cong_pipe; [apply Hl | apply Hr]; assumption.
  - (* ROr *) apply cong_or; [apply Hl | apply Hr]; assumption.
  - (* RAnd *) apply cong_and; [apply Hl | apply Hr]; assumption.
  - (* RNot *) apply cong_not. apply Hl. assumption.
  - (* RCmp *) apply cong_cmp; [apply Hl | apply Hr]; assumption.
  - (* RArith *) apply cong_arith; [apply Hl | apply Hr]; assumption.
  - (* RNeg *) apply cong_neg. apply Hl. assumption.
  - (* RPos *) apply cong_pos. apply Hl. assumption.
  - (* RCall *)
    apply cong_call. apply Forall_diag2. rewrite Forall_map_iff in IH. rewrite Forall_forall in *.
    intros a Hin.
    assert (Ha : agree_on (free_vars (arg_expr a)) vars vars').
    { intros x Hx. apply Hag. apply in_flat_map. exists a. split; [exact Hin|]. destruct a; exact Hx. }
    specialize (IH a Hin vars vars' Ha). destruct a; constructor; exact IH.
  - (* RLet *)
    clear Hl. apply agree_app in Hag as [Hag1 Hag2].
    pose proof (Forall_inv IH) as Hbody. apply Forall_inv_tail in IH.
    apply cong_let.
    + apply Forall_diag2. rewrite Forall_map_iff in IH. rewrite Forall_forall in *.
      intros [k a] Hin. split; [reflexivity|]. cbn [snd]. apply (IH (k, a) Hin).
      intros x Hx. apply Hag1. apply in_flat_map. exists (k, a). split; assumption.
    + intros fr cur Hn. apply Hbody. intros y Hy. cbn [env_get].
      destruct (assoc y fr) eqn:A; [reflexivity|].
      apply Hag2. apply filter_In. split; [exact Hy|].
      rewrite <- Hn, A. reflexivity.
Qed.

Theorem ref_eval_env_agree : forall root e cur vars vars',
  (forall x, In x (free_vars e) -> env_get x vars = env_get x vars') ->
  ref_eval root e cur vars = ref_eval root e cur vars'.
Proof. intros root e cur vars vars' H. apply env_agree_R. exact H. Qed.

Corollary closed_env_irrelevant : forall root e cur vars vars',
  free_vars e = [] -> ref_eval root e cur vars = ref_eval root e cur vars'.
Proof. intros root e cur vars vars' H. apply ref_eval_env_agree. rewrite H. intros x []. Qed.

(* ------------------------------------------------------------------ *)
(* 2. variable references                                              *)
(* ------------------------------------------------------------------ *)

Theorem undefined_variable : forall root x cur vars,
  env_get x vars = None -> ref_eval root (RVar x) cur vars = Err (EUndefinedVariable x).
Proof. intros root x cur vars H. cbn [ref_eval]. rewrite H. reflexivity. Qed.

Theorem defined_variable : forall root x v cur vars,
  env_get x vars = Some v -> ref_eval root (RVar x) cur vars = Ok v.
Proof. intros root x v cur vars H. cbn [ref_eval]. rewrite H. reflexivity. Qed.

(* ------------------------------------------------------------------ *)
(* 3. a binding in scope = substitution of its value                   *)
(* ------------------------------------------------------------------ *)

(* vars1 binds x to v and is otherwise vars2 *)
Definition scope_ext (x : bytes) (v : value) (vars1 vars2 : env) : Prop :=
  env_get x vars1 = Some v /\ forall y, beqb y x = false -> env_get y vars1 = env_get y vars2.

Lemma subst_R root x v : forall e vars1 vars2,
  scope_ext x v vars1 vars2 -> R root vars1 vars2 e (subst x v e).
Proof.
  intros e. induction e as [e IH] using rexpr_ind'. intros vars1 vars2 Hs.
  destruct e; cbn [children] in IH; cbn [subst];
    try (intros cur; reflexivity);
    try (pose proof (Forall_inv IH) as Hl; pose proof (Forall_inv (Forall_inv_tail IH)) as Hr);
    try (pose proof (Forall_inv IH) as Hl).
  - (* RVar *)
    destruct Hs as [H1 H2]. destruct (beqb name x) eqn:E; intros cur; cbn [ref_eval].
    + apply beqb_eq in E. subst name. rewrite H1. reflexivity.
    + rewrite (H2 _ E). reflexivity.
  - (* RSub *)
    apply cong_sub; [apply Hl | apply Hr | ]; try assumption.
    destruct e2; cbn [subst is_multi]; try reflexivity. destruct (beqb _ _); reflexivity.
  - apply cong_index. apply Hl. assumption.
  - (* RProj *)
    destruct k; cbn [kind_cond app] in IH.
    1-3,5: pose proof (Forall_inv IH) as Hl; pose proof (Forall_inv (Forall_inv_tail IH)) as Hr;
      (apply cong_proj; [reflexivity | apply Hl | apply Hr]; assumption).
    apply cong_proj.
    + cbn [Rk]. apply (Forall_inv IH). assumption.
    + apply (Forall_inv (Forall_inv_tail IH)). assumption.
    + apply (Forall_inv (Forall_inv_tail (Forall_inv_tail IH))). assumption.
  - (* RMultiList *)
    apply cong_multilist. apply Forall_map2. eapply Forall_impl; [|exact IH].
    intros a Ha. apply Ha. exact Hs.
  - (* RMultiHash *)
    apply cong_multihash. apply Forall_map2. rewrite Forall_map_iff in IH. rewrite Forall_forall in *.
    intros [k a] Hin. split; [reflexivity|]. cbn [snd]. apply (IH (k, a) Hin). exact Hs.
  - apply cong_pipe; [apply Hl | apply Hr]; assumption.
  - apply cong_or; [apply Hl | apply Hr]; assumption.
  - apply cong_and; [apply Hl | apply Hr]; assumption.
  - apply cong_not. apply Hl. assumption.
  - apply cong_cmp; [apply Hl | apply Hr]; assumption.
  - apply cong_arith; [apply Hl | apply Hr]; assumption.
  - apply cong_neg. apply Hl. assumption.
  - apply cong_pos. apply Hl. assumption.
  - (* RCall *)
    apply cong_call. apply Forall_map2. rewrite Forall_map_iff in IH. rewrite Forall_forall in *.
    intros a Hin. specialize (IH a Hin vars1 vars2 Hs). destruct a; constructor; exact IH.
  - (* RLet *)
    clear Hl. pose proof (Forall_inv IH) as Hbody. apply Forall_inv_tail in IH.
    apply cong_let.
    + apply Forall_map2. rewrite Forall_map_iff in IH. rewrite Forall_forall in *.
      intros [k a] Hin. split; [reflexivity|]. cbn [snd]. apply (IH (k, a) Hin). exact Hs.
    + intros fr cur Hn. destruct Hs as [H1 H2]. destruct (bound x bs) eqn:B.
      * (* x is re-bound: the body is left alone, and sees the same scope *)
        apply ref_eval_env_agree. intros y _. cbn [env_get].
        destruct (assoc y fr) eqn:A; [reflexivity|].
        apply H2. destruct (beqb y x) eqn:E; [|reflexivity].
        apply beqb_eq in E. subst y. rewrite <- Hn, A in B. discriminate.
      * apply Hbody. split.
        -- cbn [env_get]. specialize (Hn x). rewrite B in Hn.
           destruct (assoc x fr); [discriminate|]. exact H1.
        -- intros y E. cbn [env_get]. destruct (assoc y fr); [reflexivity|]. apply H2. exact E.
Qed.

Theorem let_is_substitution : forall root x v e cur vars,
  ref_eval root e cur ([(x, v)] :: vars) = ref_eval root (subst x v e) cur vars.
Proof.
  intros root x v e cur vars. apply subst_R. split.
  - cbn [env_get assoc]. rewrite beqb_refl. reflexivity.
  - intros y E. cbn [env_get assoc]. rewrite E. reflexivity.
Qed.

(* the same, at any depth of the scope chain: the frames in front must not bind x *)
Lemma env_get_app y (pre rest : env) :
  env_get y (pre ++ rest) = match env_get y pre with Some v => Some v | None => env_get y rest end.
Proof.
  induction pre as [|fr pre IH]; [reflexivity|]. cbn [app env_get].
  destruct (assoc y fr); [reflexivity|exact IH].
Qed.

Theorem let_is_substitution_deep : forall root x v e cur pre vars,
  env_get x pre = None ->
  ref_eval root e cur (pre ++ [(x, v)] :: vars) = ref_eval root (subst x v e) cur (pre ++ vars).
Proof.
  intros root x v e cur pre vars Hpre. apply subst_R. split.
  - rewrite env_get_app, Hpre. cbn [env_get assoc]. rewrite beqb_refl. reflexivity.
  - intros y E. rewrite !env_get_app. destruct (env_get y pre); [reflexivity|].
    cbn [env_get assoc]. rewrite E. reflexivity.
Qed.

(* a whole frame: substitute its bindings one after the other (the first entry of a name wins,
   as in assoc: after it has been substituted no reference to that name is left) *)
Fixpoint subst_frame (fr : list (bytes * value)) (e : rexpr) : rexpr :=
  match fr with
  | [] => e
  | (x, v) :: r => subst_frame r (subst x v e)
  end.

Theorem frame_is_substitution : forall root fr e cur vars,
  ref_eval root e cur (fr :: vars) = ref_eval root (subst_frame fr e) cur vars.
Proof.
  intros root fr. induction fr as [|[x v] r IH]; intros e cur vars.
  - cbn [subst_frame]. apply ref_eval_env_agree. intros y _. reflexivity.
  - cbn [subst_frame]. rewrite <- IH. apply subst_R. split.
    + cbn [env_get assoc]. rewrite beqb_refl. reflexivity.
    + intros y E. cbn [env_get assoc]. rewrite E. reflexivity.
Qed.

(* the let construct itself *)
Lemma ref_eval_let1 root x ex body cur vars :
  ref_eval root (RLet [(x, ex)] body) cur vars =
  do v <- ref_eval root ex cur vars; ref_eval root body cur ([(x, v)] :: vars).
Proof.
  rewrite ref_eval_let. cbn [let_loop]. destruct (ref_eval root ex cur vars); reflexivity.
Qed.

(* the bindings are evaluated in the scope and at the current node of the let, once;
   the body then sees exactly their values *)
Theorem let_binds_values : forall root bs body cur vars fr,
  let_loop (fun e => ref_eval root e cur vars) bs = Ok fr ->
  ref_eval root (RLet bs body) cur vars = ref_eval root (subst_frame fr body) cur vars.
Proof.
  intros root bs body cur vars fr H. rewrite ref_eval_let, H. cbn [bind]. apply frame_is_substitution.
Qed.

Theorem let1_is_substitution : forall root x ex body cur vars v,
  ref_eval root ex cur vars = Ok v ->
  ref_eval root (RLet [(x, ex)] body) cur vars = ref_eval root (subst x v body) cur vars.
Proof.
  intros root x ex body cur vars v H. rewrite ref_eval_let1, H. cbn [bind]. apply let_is_substitution.
Qed.

(* an error in a binding is the error of the let; the body is not looked at *)
Theorem let1_binding_error : forall root x ex body cur vars e,
  ref_eval root ex cur vars = Err e -> ref_eval root (RLet [(x, ex)] body) cur vars = Err e.
Proof. intros root x ex body cur vars e H. rewrite ref_eval_let1, H. reflexivity. Qed.

(* ------------------------------------------------------------------ *)
(* 4. consequences                                                     *)
(* ------------------------------------------------------------------ *)

(* the nearest enclosing binder wins *)
Corollary shadowing : forall root x e1 e2 body cur vars v1 v2,
  ref_eval root e1 cur vars = Ok v1 ->
  ref_eval root e2 cur ([(x, v1)] :: vars) = Ok v2 ->
  ref_eval root (RLet [(x, e1)] (RLet [(x, e2)] body)) cur vars =
  ref_eval root body cur ([(x, v2)] :: [(x, v1)] :: vars).
Proof.
  intros root x e1 e2 body cur vars v1 v2 H1 H2.
  rewrite ref_eval_let1, H1. cbn [bind]. rewrite ref_eval_let1, H2. reflexivity.
Qed.

(* ... and the outer binding of the same name is invisible in the inner body *)
Corollary shadowed_binding_is_dead : forall root x body cur vars v1 v2,
  ref_eval root body cur ([(x, v2)] :: [(x, v1)] :: vars) = ref_eval root body cur ([(x, v2)] :: vars).
Proof.
  intros root x body cur vars v1 v2. apply ref_eval_env_agree. intros y _.
  cbn [env_get assoc]. destruct (beqb y x); reflexivity.
Qed.

Corollary shadowing_subst : forall root x e1 e2 body cur vars v1 v2,
  ref_eval root e1 cur vars = Ok v1 ->
  ref_eval root e2 cur ([(x, v1)] :: vars) = Ok v2 ->
  ref_eval root (RLet [(x, e1)] (RLet [(x, e2)] body)) cur vars = ref_eval root (subst x v2 body) cur vars.
Proof.
  intros root x e1 e2 body cur vars v1 v2 H1 H2.
  rewrite (shadowing _ _ _ _ _ _ _ _ _ H1 H2), shadowed_binding_is_dead. apply let_is_substitution.
Qed.

Corollary shadowing_var : forall root x e1 e2 cur vars v1 v2,
  ref_eval root e1 cur vars = Ok v1 ->
  ref_eval root e2 cur ([(x, v1)] :: vars) = Ok v2 ->
  ref_eval root (RLet [(x, e1)] (RLet [(x, e2)] (RVar x))) cur vars = Ok v2.
Proof.
  intros root x e1 e2 cur vars v1 v2 H1 H2.
  rewrite (shadowing _ _ _ _ _ _ _ _ _ H1 H2). apply defined_variable.
  cbn [env_get assoc]. rewrite beqb_refl. reflexivity.
Qed.

(* the bindings of one let do not see each other: a sibling's name is looked up in the
   scope of the let, not in the frame being built (no side condition on x = y needed) *)
Corollary siblings_do_not_see_each_other : forall root x y ex body cur vars vx,
  env_get x vars = None ->
  ref_eval root ex cur vars = Ok vx ->
  ref_eval root (RLet [(x, ex); (y, RVar x)] body) cur vars = Err (EUndefinedVariable x).
Proof.
  intros root x y ex body cur vars vx Hx Hex.
  rewrite ref_eval_let. cbn [let_loop]. rewrite Hex. cbn [bind].
  rewrite (undefined_variable _ _ _ _ Hx). reflexivity.
Qed.

(* ... when the name exists outside, the sibling gets the outer value *)
Corollary siblings_see_the_outer_scope : forall root x y ex cur vars vx v0,
  beqb y x = false ->
  env_get x vars = Some v0 ->
  ref_eval root ex cur vars = Ok vx ->
  ref_eval root (RLet [(x, ex); (y, RVar x)] (RVar y)) cur vars = Ok v0.
Proof.
  intros root x y ex cur vars vx v0 Hyx Hx Hex.
  rewrite ref_eval_let. cbn [let_loop]. rewrite Hex. cbn [bind].
  rewrite (defined_variable _ _ _ _ _ Hx). cbn [bind assoc].
  rewrite beqb_sym, Hyx.
  cbn [ref_eval env_get assoc]. rewrite Hyx, beqb_refl. reflexivity.
Qed.

(* the value is captured at binding time, where the let stands: a projection in the body
   changes the current node, not the variable *)
Corollary visible_in_projection : forall root x ex k l cur vars v,
  ref_eval root ex cur vars = Ok v ->
  ref_eval root (RLet [(x, ex)] (RProj k l (RVar x))) cur vars =
  ref_eval root (RProj (match k with PFilter c => PFilter (subst x v c) | _ => k end)
                       (subst x v l) (RLiteral v)) cur vars.
Proof.
  intros root x ex k l cur vars v H. rewrite (let1_is_substitution _ _ _ _ _ _ _ H).
  cbn [subst]. rewrite beqb_refl. reflexivity.
Qed.

Lemma proj_list_const f v a : (forall x, f x = Ok v) -> not_null v = true ->
  proj_list f a = Ok (map (fun _ => v) a).
Proof.
  intros Hf Hv. induction a as [|y r IH]; [reflexivity|].
  cbn [proj_list map]. rewrite Hf, IH. cbn [bind]. rewrite Hv. reflexivity.
Qed.

(* e.g. `let $x = ex in l[*].$x`: every element of l is mapped to the one value ex had outside *)
Corollary captured_at_binding_time : forall root x ex l cur vars v a,
  ref_eval root ex cur vars = Ok v -> not_null v = true ->
  ref_eval root l cur ([(x, v)] :: vars) = Ok (VArr a) ->
  ref_eval root (RLet [(x, ex)] (RProj PList l (RVar x))) cur vars = Ok (VArr (map (fun _ => v) a)).
Proof.
  intros root x ex l cur vars v a Hex Hv Hl.
  rewrite ref_eval_let1, Hex. cbn [bind ref_eval]. rewrite Hl. cbn [bind].
  rewrite (proj_list_const _ v); [reflexivity| |exact Hv].
  intros y. cbn [env_get assoc]. rewrite beqb_refl. reflexivity.
Qed.

(* in particular the current node itself can be captured *)
Corollary current_node_captured : forall root x l cur vars a,
  not_null cur = true ->
  ref_eval root l cur ([(x, cur)] :: vars) = Ok (VArr a) ->
  ref_eval root (RLet [(x, RCurrent)] (RProj PList l (RVar x))) cur vars = Ok (VArr (map (fun _ => cur) a)).
Proof.
  intros root x l cur vars a Hc Hl. apply captured_at_binding_time; [reflexivity|exact Hc|exact Hl].
Qed.

(* shadowing ends with the body of the inner let *)
Corollary shadow_ends : forall root x e2 cur vars v1 v2,
  not_null cur = true ->   (* a multi-select of two or more on null is null *)
  ref_eval root e2 cur ([(x, v1)] :: vars) = Ok v2 ->
  ref_eval root (RMultiList [RLet [(x, e2)] (RVar x); RVar x]) cur ([(x, v1)] :: vars) = Ok (VArr [v2; v1]).
Proof.
  intros root x e2 cur vars v1 v2 Hc H2.
  rewrite ref_eval_multilist. cbn [mlist_loop].
  rewrite ref_eval_let1, H2. cbn [bind ref_eval env_get assoc]. rewrite beqb_refl. cbn [bind].
  destruct cur; try reflexivity. discriminate.
Qed.

Corollary shadow_ends_let : forall root x e1 e2 cur vars v1 v2,
  not_null cur = true ->
  ref_eval root e1 cur vars = Ok v1 ->
  ref_eval root e2 cur ([(x, v1)] :: vars) = Ok v2 ->
  ref_eval root (RLet [(x, e1)] (RMultiList [RLet [(x, e2)] (RVar x); RVar x])) cur vars = Ok (VArr [v2; v1]).
Proof.
  intros root x e1 e2 cur vars v1 v2 Hc H1 H2.
  rewrite ref_eval_let1, H1. cbn [bind]. apply shadow_ends; assumption.
Qed.

(* a reference with no enclosing binding, in a whole query *)
Corollary unbound_reference : forall x doc, ref_search (RVar x) doc = Err (EUndefinedVariable x).
Proof. intros x doc. reflexivity. Qed.

(* a closed query: free_vars e = [] means that no undefined-variable lookup depends on the caller *)
Corollary closed_query : forall e doc vars, free_vars e = [] -> ref_eval doc e doc vars = ref_search e doc.
Proof. intros e doc vars H. apply closed_env_irrelevant. exact H. Qed.

(* ================================================================== *)
(* 5. the model evaluator (Model/Eval.v): NDefine / NVariable           *)
(* ================================================================== *)

Definition nchildren (n : node) : list node :=
  match n with
  | NCall1 _ c | NNot c | NNegate c | NAssertNumber c | NFilterCurrent c | NFlatten c
  | NFlattenAndProjectCurrent c | NIndex c _ | NObjectValues c | NProjectArrayCurrent c
  | NProjectObjectCurrent c | NPruneArray c | NSelectArraySingleCurrent c
  | NSelectObjectSingleCurrent _ c | NSlice c _ _ | NSliceStep c _ _ _ => [c]
  | NCall2 _ a b | NCallBy _ a b | NMap a b | NBin _ a b | NAnd a b | NOr a b | NFilter a b
  | NFilterAndProjectCurrent a b | NFlattenAndProject a b | NPipe a b | NProjectArray a b
  | NProjectObject a b | NSelectArraySingle a b | NSelectObjectSingle a _ b => [a; b]
  | NCall3 _ a b c | NFilterAndProject a b c => [a; b; c]
  | NCall4 _ a b c d => [a; b; c; d]
  | NCallVar _ l | NSelectArrayCurrent l => l
  | NSelectArray c l => c :: l
  | NSelectObjectCurrent m => map snd m
  | NSelectObject c m => c :: map snd m
  | NDefine bs child => child :: map snd bs
  | _ => []
  end.

Section NodeInd.
  Variable P : node -> Prop.
  Hypothesis H : forall n, Forall P (nchildren n) -> P n.

  Fixpoint node_ind' (n : node) : P n :=
    let list_all := fix go (l : list node) : Forall P l :=
                      match l with
                      | [] => Forall_nil P
                      | x :: r => Forall_cons x (node_ind' x) (go r)
                      end in
    let klist_all := fix go (l : list (bytes * node)) : Forall P (map snd l) :=
                       match l with
                       | [] => Forall_nil P
                       | (k, x) :: r => Forall_cons x (node_ind' x) (go r)
                       end in
    H n
      (match n return Forall P (nchildren n) with
       | NCall1 _ c | NNot c | NNegate c | NAssertNumber c | NFilterCurrent c | NFlatten c
       | NFlattenAndProjectCurrent c | NIndex c _ | NObjectValues c | NProjectArrayCurrent c
       | NProjectObjectCurrent c | NPruneArray c | NSelectArraySingleCurrent c
       | NSelectObjectSingleCurrent _ c | NSlice c _ _ | NSliceStep c _ _ _ =>
         Forall_cons c (node_ind' c) (Forall_nil P)
       | NCall2 _ a b | NCallBy _ a b | NMap a b | NBin _ a b | NAnd a b | NOr a b | NFilter a b
       | NFilterAndProjectCurrent a b | NFlattenAndProject a b | NPipe a b | NProjectArray a b
       | NProjectObject a b | NSelectArraySingle a b | NSelectObjectSingle a _ b =>
         Forall_cons a (node_ind' a) (Forall_cons b (node_ind' b) (Forall_nil P))
       | NCall3 _ a b c | NFilterAndProject a b c =>
         Forall_cons a (node_ind' a) (Forall_cons b (node_ind' b) (Forall_cons c (node_ind' c) (Forall_nil P)))
       | NCall4 _ a b c d =>
         Forall_cons a (node_ind' a) (Forall_cons b (node_ind' b)
           (Forall_cons c (node_ind' c) (Forall_cons d (node_ind' d) (Forall_nil P))))
       | NCallVar _ l | NSelectArrayCurrent l => list_all l
       | NSelectArray c l => Forall_cons c (node_ind' c) (list_all l)
       | NSelectObjectCurrent m => klist_all m
       | NSelectObject c m => Forall_cons c (node_ind' c) (klist_all m)
       | NDefine bs child => Forall_cons child (node_ind' child) (klist_all bs)
       | _ => Forall_nil P
       end).
End NodeInd.

Fixpoint nfree_vars (n : node) : list bytes :=
  match n with
  | NVariable x => [x]
  | NCall1 _ c | NNot c | NNegate c | NAssertNumber c | NFilterCurrent c | NFlatten c
  | NFlattenAndProjectCurrent c | NIndex c _ | NObjectValues c | NProjectArrayCurrent c
  | NProjectObjectCurrent c | NPruneArray c | NSelectArraySingleCurrent c
  | NSelectObjectSingleCurrent _ c | NSlice c _ _ | NSliceStep c _ _ _ => nfree_vars c
  | NCall2 _ a b | NCallBy _ a b | NMap a b | NBin _ a b | NAnd a b | NOr a b | NFilter a b
  | NFilterAndProjectCurrent a b | NFlattenAndProject a b | NPipe a b | NProjectArray a b
  | NProjectObject a b | NSelectArraySingle a b | NSelectObjectSingle a _ b => nfree_vars a ++ nfree_vars b
  | NCall3 _ a b c | NFilterAndProject a b c => nfree_vars a ++ nfree_vars b ++ nfree_vars c
  | NCall4 _ a b c d => nfree_vars a ++ nfree_vars b ++ nfree_vars c ++ nfree_vars d
  | NCallVar _ l | NSelectArrayCurrent l => flat_map nfree_vars l
  | NSelectArray c l => nfree_vars c ++ flat_map nfree_vars l
  | NSelectObjectCurrent m => flat_map (fun kf => let '(_, f) := kf in nfree_vars f) m
  | NSelectObject c m => nfree_vars c ++ flat_map (fun kf => let '(_, f) := kf in nfree_vars f) m
  | NDefine bs child =>
    flat_map (fun kf => let '(_, f) := kf in nfree_vars f) bs
    ++ List.filter (fun y => negb (bound y bs)) (nfree_vars child)
  | _ => []
  end.

(* a child of a node other than NDefine has its free variables among the node's *)
Lemma nchild_incl n c : (forall bs ch, n <> NDefine bs ch) -> In c (nchildren n) ->
  incl (nfree_vars c) (nfree_vars n).
Proof.
  destruct n; cbn [nchildren nfree_vars]; intros Hnd Hin x Hx;
    try (exfalso; eapply Hnd; reflexivity);
    try contradiction;
    try (cbn [In] in Hin; rewrite ?in_app_iff;
         repeat (destruct Hin as [<-|Hin]; [tauto|]); contradiction).
  - apply in_flat_map. exists c. split; assumption.
  - apply in_app_iff. destruct Hin as [<-|Hin]; [left; assumption|right].
    apply in_flat_map. exists c. split; assumption.
  - apply in_flat_map. exists c. split; assumption.
  - apply in_app_iff. destruct Hin as [<-|Hin]; [left; assumption|right].
    apply in_map_iff in Hin as [[k f] [<- Hin]]. apply in_flat_map. exists (k, f). split; assumption.
  - apply in_map_iff in Hin as [[k f] [<- Hin]]. apply in_flat_map. exists (k, f). split; assumption.
Qed.

Section ModelExt.
  Variables f g : value -> outcome value.
  Hypothesis Hfg : forall v, f v = g v.

  Lemma project_list_ext l : project_list f l = project_list g l.
  Proof. induction l as [|v r IH]; [reflexivity|]. cbn [project_list]. rewrite Hfg, IH. reflexivity. Qed.
  Lemma project_array_ext v : project_array f v = project_array g v.
  Proof. destruct v; try reflexivity. cbn [project_array]. rewrite project_list_ext. reflexivity. Qed.
  Lemma project_object_ext v : project_object f v = project_object g v.
  Proof. destruct v; try reflexivity. cbn [project_object]. rewrite project_list_ext. reflexivity. Qed.
  Lemma flatten_and_project_ext v : flatten_and_project f v = flatten_and_project g v.
  Proof. destruct v; try reflexivity. cbn [flatten_and_project]. rewrite project_list_ext. reflexivity. Qed.
  Lemma filter_list_ext l : filter_list f l = filter_list g l.
  Proof. induction l as [|v r IH]; [reflexivity|]. cbn [filter_list]. rewrite Hfg, IH. reflexivity. Qed.
  Lemma filter_array_ext v : filter_array f v = filter_array g v.
  Proof. destruct v; try reflexivity. cbn [filter_array]. rewrite filter_list_ext. reflexivity. Qed.

  Variables f2 g2 : value -> outcome value.
  Hypothesis Hfg2 : forall v, f2 v = g2 v.
  Lemma filter_project_list_ext l : filter_project_list f f2 l = filter_project_list g g2 l.
  Proof.
    induction l as [|v r IH]; [reflexivity|]. cbn [filter_project_list]. rewrite Hfg, Hfg2, IH. reflexivity.
  Qed.
  Lemma filter_and_project_ext v : filter_and_project f f2 v = filter_and_project g g2 v.
  Proof. destruct v; try reflexivity. cbn [filter_and_project]. rewrite filter_project_list_ext. reflexivity. Qed.
End ModelExt.

Ltac rw_children root vars Hc :=
  repeat match goal with
         | |- context [eval root ?c ?x vars] => rewrite (Hc c ltac:(cbn [In]; tauto) x)
         end.
Ltac bind_destruct :=
  match goal with |- bind ?o _ = bind ?o _ => destruct o; cbn [bind]; [|reflexivity..] end.
Ltac closure_ext Hc :=
  first [ apply project_array_ext | apply project_object_ext | apply flatten_and_project_ext
        | apply filter_array_ext | apply filter_and_project_ext | apply map_array_ext
        | apply group_by_ext | apply array_extreme_by_ext | apply sort_array_by_ext ];
  intros ?; apply Hc; cbn [In]; tauto.

(* the frame an NDefine builds has exactly the names of its bindings, in order *)
Definition define_loop (ev : node -> outcome value) : list (bytes * node) -> outcome (list (bytes * value)) :=
  fix go l := match l with
              | [] => Ok []
              | (name, e) :: r => do x <- ev e; do fr <- go r; Ok ((name, x) :: fr)
              end.
Definition nlist_loop (ev : node -> outcome value) : list node -> outcome (list value) :=
  fix go l := match l with
              | [] => Ok []
              | f :: r => do y <- ev f; do ys <- go r; Ok (y :: ys)
              end.

Lemma define_loop_ext ev ev' bs : (forall c, In c (map snd bs) -> ev c = ev' c) ->
  define_loop ev bs = define_loop ev' bs.
Proof.
  induction bs as [|[k e] r IH]; intros H; [reflexivity|].
  cbn [define_loop]. fold (define_loop ev r). fold (define_loop ev' r).
  rewrite (H e (or_introl eq_refl)), IH; [reflexivity|]. intros c Hc. apply H. right. exact Hc.
Qed.
Lemma nlist_loop_ext ev ev' l : (forall c, In c l -> ev c = ev' c) -> nlist_loop ev l = nlist_loop ev' l.
Proof.
  induction l as [|e r IH]; intros H; [reflexivity|].
  cbn [nlist_loop]. fold (nlist_loop ev r). fold (nlist_loop ev' r).
  rewrite (H e (or_introl eq_refl)), IH; [reflexivity|]. intros c Hc. apply H. right. exact Hc.
Qed.
Lemma define_loop_names ev bs : forall fr, define_loop ev bs = Ok fr -> map fst fr = map fst bs.
Proof.
  induction bs as [|[k e] r IH]; intros fr H.
  - injection H as <-. reflexivity.
  - cbn [define_loop] in H. fold (define_loop ev r) in H.
    destruct (ev e); try discriminate. cbn [bind] in H.
    destruct (define_loop ev r) as [fr0| | | |]; try discriminate. cbn [bind] in H.
    injection H as <-. cbn [map fst]. rewrite (IH fr0 eq_refl). reflexivity.
Qed.
Lemma assoc_bound {A} y (fr : list (bytes * A)) : is_some (assoc y fr) = bound y fr.
Proof.
  unfold bound. induction fr as [|[k a] r IH]; [reflexivity|].
  cbn [assoc map fst existsb]. destruct (beqb y k); [reflexivity|exact IH].
Qed.

Lemma eval_define root bs child cur vars :
  eval root (NDefine bs child) cur vars =
  do frame <- define_loop (fun e => eval root e cur vars) bs; eval root child cur (frame :: vars).
Proof. reflexivity. Qed.
Lemma eval_select_array root c fields cur vars :
  eval root (NSelectArray c fields) cur vars =
  do x <- eval root c cur vars;
  if Array.is_null x then Ok VNull else
  do r <- nlist_loop (fun f => eval root f x vars) fields; Ok (VArr r).
Proof. reflexivity. Qed.
Lemma eval_select_array_current root fields cur vars :
  eval root (NSelectArrayCurrent fields) cur vars =
  if Array.is_null cur then Ok VNull else
  do r <- nlist_loop (fun f => eval root f cur vars) fields; Ok (VArr r).
Proof. reflexivity. Qed.
Lemma eval_select_object root c fields cur vars :
  eval root (NSelectObject c fields) cur vars =
  do x <- eval root c cur vars;
  if Array.is_null x then Ok VNull else
  do r <- define_loop (fun f => eval root f x vars) fields; Ok (VObj r).
Proof. reflexivity. Qed.
Lemma eval_select_object_current root fields cur vars :
  eval root (NSelectObjectCurrent fields) cur vars =
  if Array.is_null cur then Ok VNull else
  do r <- define_loop (fun f => eval root f cur vars) fields; Ok (VObj r).
Proof. reflexivity. Qed.

Theorem eval_env_agree : forall root n cur vars vars',
  (forall x, In x (nfree_vars n) -> env_get x vars = env_get x vars') ->
  eval root n cur vars = eval root n cur vars'.
Proof.
  intros root n. induction n as [n IH] using node_ind'. intros cur vars vars' Hag.
  assert (Hc : (forall bs ch, n <> NDefine bs ch) ->
               forall c, In c (nchildren n) -> forall x, eval root c x vars = eval root c x vars').
  { intros Hnd c Hin x. rewrite Forall_forall in IH. apply (IH c Hin).
    intros y Hy. apply Hag. exact (nchild_incl n c Hnd Hin y Hy). }
  destruct n; try (specialize (Hc ltac:(intros ? ?; discriminate))); cbn [nchildren] in Hc;
    try rewrite !eval_define; try rewrite !eval_select_array; try rewrite !eval_select_array_current;
    try rewrite !eval_select_object; try rewrite !eval_select_object_current;
    cbn [eval];
    rw_children root vars Hc; repeat (bind_destruct; rw_children root vars Hc); try reflexivity;
    try (closure_ext Hc).
  - (* NCallBy *) destruct f; closure_ext Hc.
  - (* NCallVar *)
    destruct f.
    + generalize (@nil (bytes * value)). induction args as [|a r IHr]; intros acc; [reflexivity|].
      rewrite (Hc a (or_introl eq_refl)).
      destruct (eval root a cur vars') as [x| | | |]; cbn [bind]; try reflexivity.
      destruct x; try reflexivity. apply IHr.
      * apply (Forall_inv_tail IH).
      * intros y Hy. apply Hag. cbn [nfree_vars flat_map]. apply in_or_app. right. exact Hy.
      * intros c Hin. apply Hc. right. exact Hin.
    + induction args as [|a r IHr]; [reflexivity|].
      rewrite (Hc a (or_introl eq_refl)).
      destruct (eval root a cur vars') as [x| | | |]; cbn [bind]; try reflexivity.
      destruct (Array.is_null x); [|reflexivity]. apply IHr.
      * apply (Forall_inv_tail IH).
      * intros y Hy. apply Hag. cbn [nfree_vars flat_map]. apply in_or_app. right. exact Hy.
      * intros c Hin. apply Hc. right. exact Hin.
    + match goal with |- bind ?a _ = bind ?b _ => assert (E : a = b); [|rewrite E; reflexivity] end.
      induction args as [|a r IHr]; [reflexivity|].
      rewrite (Hc a (or_introl eq_refl)).
      destruct (eval root a cur vars') as [x| | | |]; cbn [bind]; try reflexivity.
      destruct x; try reflexivity. rewrite IHr; [reflexivity| | |].
      * apply (Forall_inv_tail IH).
      * intros y Hy. apply Hag. cbn [nfree_vars flat_map]. apply in_or_app. right. exact Hy.
      * intros c Hin. apply Hc. right. exact Hin.
  - (* NVariable *) rewrite (Hag name (or_introl eq_refl)). reflexivity.
  - (* NDefine *)
    clear Hc. cbn [nchildren] in IH. cbn [nfree_vars] in Hag.
    pose proof (Forall_inv IH) as Hchild. apply Forall_inv_tail in IH. rewrite Forall_forall in IH.
    rewrite (define_loop_ext _ (fun e => eval root e cur vars') vars0).
    + destruct (define_loop (fun e => eval root e cur vars') vars0) as [fr| | | |] eqn:E;
        cbn [bind]; try reflexivity.
      apply Hchild. intros y Hy. cbn [env_get].
      destruct (assoc y fr) eqn:A; [reflexivity|].
      apply Hag. apply in_or_app. right. apply filter_In. split; [exact Hy|].
      unfold bound. rewrite <- (define_loop_names _ _ _ E). fold (bound y fr).
      rewrite <- assoc_bound, A. reflexivity.
    + intros c Hin. apply (IH c Hin). intros y Hy. apply Hag. apply in_or_app. left.
      apply in_map_iff in Hin as [[k e] [<- Hin]]. apply in_flat_map. exists (k, e). split; assumption.
  - (* NProjectArray *)
    destruct a; try closure_ext Hc. destruct (is_slice_node n1); [reflexivity|closure_ext Hc].
  - destruct (Array.is_null a); [reflexivity|].
    rewrite (nlist_loop_ext _ (fun f => eval root f a vars') fields); [reflexivity|].
    intros c Hin. apply Hc. right. exact Hin.
  - destruct (Array.is_null cur); [reflexivity|].
    rewrite (nlist_loop_ext _ (fun f => eval root f cur vars') fields); [reflexivity|].
    intros c Hin. apply Hc. exact Hin.
  - destruct (Array.is_null a); [reflexivity|].
    rewrite (define_loop_ext _ (fun f => eval root f a vars') fields); [reflexivity|].
    intros c Hin. apply Hc. right. exact Hin.
  - destruct (Array.is_null cur); [reflexivity|].
    rewrite (define_loop_ext _ (fun f => eval root f cur vars') fields); [reflexivity|].
    intros c Hin. apply Hc. exact Hin.
Qed.

Corollary eval_closed_env_irrelevant : forall root n cur vars vars',
  nfree_vars n = [] -> eval root n cur vars = eval root n cur vars'.
Proof. intros root n cur vars vars' H. apply eval_env_agree. rewrite H. intros x []. Qed.

Theorem eval_undefined_variable : forall root x cur vars,
  env_get x vars = None -> eval root (NVariable x) cur vars = Err (EUndefinedVariable x).
Proof. intros root x cur vars H. cbn [eval]. rewrite H. reflexivity. Qed.

Theorem eval_defined_variable : forall root x v cur vars,
  env_get x vars = Some v -> eval root (NVariable x) cur vars = Ok v.
Proof. intros root x v cur vars H. cbn [eval]. rewrite H. reflexivity. Qed.

Lemma eval_define1 root x e body cur vars :
  eval root (NDefine [(x, e)] body) cur vars =
  do v <- eval root e cur vars; eval root body cur ([(x, v)] :: vars).
Proof. rewrite eval_define. cbn [define_loop]. destruct (eval root e cur vars); reflexivity. Qed.

(* model: the nearest binder wins and the outer binding of the same name is dead in the inner body *)
Corollary eval_shadowing : forall root x e1 e2 body cur vars v1 v2,
  eval root e1 cur vars = Ok v1 ->
  eval root e2 cur ([(x, v1)] :: vars) = Ok v2 ->
  eval root (NDefine [(x, e1)] (NDefine [(x, e2)] body)) cur vars = eval root body cur ([(x, v2)] :: vars).
Proof.
  intros root x e1 e2 body cur vars v1 v2 H1 H2.
  rewrite eval_define1, H1. cbn [bind]. rewrite eval_define1, H2. cbn [bind].
  apply eval_env_agree. intros y _. cbn [env_get assoc]. destruct (beqb y x); reflexivity.
Qed.

(* model: bindings of one NDefine are evaluated in the scope of the NDefine *)
Corollary eval_siblings_do_not_see_each_other : forall root x y ex body cur vars vx,
  env_get x vars = None ->
  eval root ex cur vars = Ok vx ->
  eval root (NDefine [(x, ex); (y, NVariable x)] body) cur vars = Err (EUndefinedVariable x).
Proof.
  intros root x y ex body cur vars vx Hx Hex.
  rewrite eval_define. cbn [define_loop]. rewrite Hex. cbn [bind].
  rewrite (eval_undefined_variable _ _ _ _ Hx). reflexivity.
Qed.

(* ------------------------------------------------------------------ *)
(* the two notions of free variable agree through unfuse               *)
(* ------------------------------------------------------------------ *)
From JM Require Import Spec.Unfuse.

Lemma in_flat_map_map_iff {A B} (x : bytes) (F : B -> list bytes) (G : A -> B) (Hf : A -> list bytes) l :
  (forall c, In c l -> (In x (F (G c)) <-> In x (Hf c))) ->
  (In x (flat_map F (map G l)) <-> In x (flat_map Hf l)).
Proof.
  induction l as [|a r IH]; intros H; [reflexivity|].
  cbn [map flat_map]. rewrite !in_app_iff, (H a (or_introl eq_refl)), IH; [reflexivity|].
  intros c Hc. apply H. right. exact Hc.
Qed.

Theorem free_vars_unfuse : forall n x, In x (free_vars (unfuse n)) <-> In x (nfree_vars n).
Proof.
  intros n. induction n as [n IH] using node_ind'. intros x.
  rewrite Forall_forall in IH.
  destruct n; cbn [nchildren] in IH;
    try (cbn [unfuse free_vars flat_map nfree_vars app];
         rewrite ?app_nil_r, ?in_app_iff;
         repeat match goal with
                | |- context [In x (free_vars (unfuse ?c))] => rewrite (IH c ltac:(cbn [In]; tauto) x)
                end;
         cbn [In]; tauto).
  - (* NCallVar *)
    cbn [unfuse free_vars nfree_vars]. apply in_flat_map_map_iff. intros c Hc. apply IH. exact Hc.
  - (* NBin *)
    destruct op; cbn [unfuse free_vars nfree_vars]; rewrite !in_app_iff;
      rewrite (IH n1 ltac:(cbn [In]; tauto) x), (IH n2 ltac:(cbn [In]; tauto) x); reflexivity.
  - (* NDefine *)
    cbn [unfuse free_vars nfree_vars]. rewrite !in_app_iff, !filter_In.
    rewrite (IH n (or_introl eq_refl) x).
    assert (Hb : bound x (map (fun kv => (fst kv, unfuse (snd kv))) vars) = bound x vars).
    { unfold bound. rewrite map_map. reflexivity. }
    rewrite Hb.
    assert (Hl : In x (flat_map (fun b : bytes * rexpr => let '(_, e) := b in free_vars e)
                                (map (fun kv => (fst kv, unfuse (snd kv))) vars)) <->
                 In x (flat_map (fun kf : bytes * node => let '(_, f) := kf in nfree_vars f) vars)).
    { apply in_flat_map_map_iff. intros [k c] Hc. cbn [fst snd]. apply IH. right.
      apply in_map_iff. exists (k, c). split; [reflexivity|exact Hc]. }
    rewrite Hl. reflexivity.
  - (* NProjectArray *)
    pose proof (IH n1 ltac:(cbn [In]; tauto) x) as H1.
    pose proof (IH n2 ltac:(cbn [In]; tauto) x) as H2.
    cbn [nfree_vars]. rewrite in_app_iff, <- H1, <- H2.
    destruct n1; cbn [unfuse free_vars flat_map app]; rewrite ?app_nil_r, ?in_app_iff; cbn [In]; tauto.
  - (* NSelectArray *)
    cbn [unfuse free_vars nfree_vars]. rewrite !in_app_iff, (IH n (or_introl eq_refl) x).
    assert (Hl : In x (flat_map free_vars (map unfuse fields)) <-> In x (flat_map nfree_vars fields)).
    { apply in_flat_map_map_iff. intros c Hc. apply IH. right. exact Hc. }
    rewrite Hl. reflexivity.
  - cbn [unfuse free_vars nfree_vars]. apply in_flat_map_map_iff. intros c Hc. apply IH. exact Hc.
  - (* NSelectObject *)
    cbn [unfuse free_vars nfree_vars]. rewrite !in_app_iff, (IH n (or_introl eq_refl) x).
    assert (Hl : In x (flat_map (fun ke : bytes * rexpr => let '(_, e) := ke in free_vars e)
                                (map (fun kv => (fst kv, unfuse (snd kv))) fields)) <->
                 In x (flat_map (fun kf : bytes * node => let '(_, f) := kf in nfree_vars f) fields)).
    { apply in_flat_map_map_iff. intros [k c] Hc. cbn [fst snd]. apply IH. right.
      apply in_map_iff. exists (k, c). split; [reflexivity|exact Hc]. }
    rewrite Hl. reflexivity.
  - cbn [unfuse free_vars nfree_vars]. apply in_flat_map_map_iff. intros [k c] Hc. cbn [fst snd]. apply IH.
    apply in_map_iff. exists (k, c). split; [reflexivity|exact Hc].
Qed.

(* hence the model evaluator depends only on the variables that are free in the meaning of the node *)
Corollary eval_env_agree_unfuse : forall root n cur vars vars',
  (forall x, In x (free_vars (unfuse n)) -> env_get x vars = env_get x vars') ->
  eval root n cur vars = eval root n cur vars'.
Proof.
  intros root n cur vars vars' H. apply eval_env_agree. intros x Hx. apply H. apply free_vars_unfuse. exact Hx.
Qed.

Print Assumptions ref_eval_env_agree.
Print Assumptions eval_env_agree.
Print Assumptions free_vars_unfuse.
Print Assumptions let_is_substitution.
