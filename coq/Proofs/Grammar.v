(* C04 (soundness half): a token-level grammar of the JMESPath Community
   language, written independently of the parser, and the theorem that every
   token sequence the Pratt parser of Model/Parser.v accepts is derivable in
   that grammar. *)
From Coq Require Import List ZArith Bool Lia.
From JM Require Import Base.Outcome Base.Bytes Model.Token Model.Lexer Model.Ast
  Model.Literals Model.Parser Proofs.Termination.
Import ListNotations.
Open Scope Z_scope.

(* ================================================================== *)
(* The grammar                                                         *)
(* ================================================================== *)

(* single-token expressions: identifier (unquoted-string / quoted-string),
   current-node "@", root-node "$", variable-ref, literal "`json`",
   raw-string, and the wildcard "*" *)
Definition atom_t (k : ttype) : bool :=
  match k with
  | TUnquotedIdentifier | TQuotedIdentifier | TCurrent | TRoot | TVariable
  | TJSONLiteral | TStringLiteral | TAsterisk => true
  | _ => false
  end.

(* identifier = unquoted-string / quoted-string *)
Definition ident_t (k : ttype) : bool :=
  match k with TUnquotedIdentifier | TQuotedIdentifier => true | _ => false end.

(* prefix operators: not-expression "!", arithmetic "+" / "-" (the lexer also
   gives the type TSubtract to U+2212) *)
Definition unary_t (k : ttype) : bool :=
  match k with TNot | TAdd | TSubtract => true | _ => false end.

(* infix operators: pipe, or, and, the six comparators, + - * / % // (and the
   non-ASCII spellings, which the lexer maps to TMultiply/TDivide/TSubtract) *)
Definition binary_t (k : ttype) : bool :=
  match k with
  | TPipe | TOr | TAnd
  | TEqual | TNotEqual | TLess | TLessOrEqual | TGreater | TGreaterOrEqual
  | TAdd | TSubtract | TAsterisk | TMultiply | TDivide | TIntegerDivide | TModulo => true
  | _ => false
  end.

(* [number] *)
Inductive gOptNum : list token -> Prop :=
| gOptNum_none : gOptNum []
| gOptNum_some t : ttyp t = TIntegerLiteral -> gOptNum [t].

(* slice-expression = [number] ":" [number] [ ":" [number] ] *)
Inductive gSlice : list token -> Prop :=
| gSlice_2 a c b :
    gOptNum a -> ttyp c = TColon -> gOptNum b -> gSlice (a ++ c :: b)
| gSlice_3 a c b c' s :
    gOptNum a -> ttyp c = TColon -> gOptNum b -> ttyp c' = TColon -> gOptNum s ->
    gSlice (a ++ c :: b ++ c' :: s).

Inductive gE : list token -> Prop :=
(* identifier / "*" / literal / raw-string / current-node / root-node / variable-ref *)
| gE_atom t : atom_t (ttyp t) = true -> gE [t]
(* paren-expression = "(" expression ")" *)
| gE_paren o e c :
    ttyp o = TOpenParen -> gE e -> ttyp c = TCloseParen -> gE (o :: e ++ [c])
| gE_list m : gMList m -> gE m
| gE_hash m : gMHash m -> gE m
| gE_call f : gCall f -> gE f
(* index-expression = bracket-specifier *)
| gE_bracket b : gBracket b -> gE b
(* let-expression = "let" bindings "in" expression *)
| gE_let t bs i e :
    ttyp t = TLet -> gBindings bs -> ttyp i = TIn -> gE e -> gE (t :: bs ++ i :: e)
(* not-expression, "+" expression, "-" expression *)
| gE_unary u e : unary_t (ttyp u) = true -> gE e -> gE (u :: e)
(* pipe / or / and / comparator / arithmetic expression *)
| gE_binary a op b : gE a -> binary_t (ttyp op) = true -> gE b -> gE (a ++ op :: b)
(* sub-expression = expression "." ( ... ) *)
| gE_sub a s : gE a -> gSub s -> gE (a ++ s)
(* index-expression = expression bracket-specifier *)
| gE_index a b : gE a -> gBracket b -> gE (a ++ b)

(* multi-select-list = "[" expression *( "," expression ) "]" *)
with gMList : list token -> Prop :=
| gMList_intro o es c :
    ttyp o = TOpenSqBrace -> gEs es -> ttyp c = TCloseSqBrace -> gMList (o :: es ++ [c])
with gEs : list token -> Prop :=
| gEs_one e : gE e -> gEs e
| gEs_cons e c es : gE e -> ttyp c = TComma -> gEs es -> gEs (e ++ c :: es)

(* multi-select-hash = "{" keyval-expr *( "," keyval-expr ) "}" *)
with gMHash : list token -> Prop :=
| gMHash_intro o kvs c :
    ttyp o = TOpenBrace -> gKVs kvs -> ttyp c = TCloseBrace -> gMHash (o :: kvs ++ [c])
with gKVs : list token -> Prop :=
| gKVs_one kv : gKV kv -> gKVs kv
| gKVs_cons kv c kvs : gKV kv -> ttyp c = TComma -> gKVs kvs -> gKVs (kv ++ c :: kvs)
(* keyval-expr = identifier ":" expression *)
with gKV : list token -> Prop :=
| gKV_intro k c e : ident_t (ttyp k) = true -> ttyp c = TColon -> gE e -> gKV (k :: c :: e)

(* function-expression = unquoted-string "(" [ function-arg *( "," function-arg ) ] ")" *)
with gCall : list token -> Prop :=
| gCall_intro f o args c :
    ttyp f = TUnquotedIdentifier -> ttyp o = TOpenParen -> gArgs args -> ttyp c = TCloseParen ->
    gCall (f :: o :: args ++ [c])
with gArgs : list token -> Prop :=
| gArgs_none : gArgs []
| gArgs_some a : gArgs1 a -> gArgs a
with gArgs1 : list token -> Prop :=
| gArgs1_one a : gArg a -> gArgs1 a
| gArgs1_cons a c r : gArg a -> ttyp c = TComma -> gArgs1 r -> gArgs1 (a ++ c :: r)
(* function-arg = expression / "&" expression *)
with gArg : list token -> Prop :=
| gArg_expr e : gE e -> gArg e
| gArg_ref a e : ttyp a = TExpression -> gE e -> gArg (a :: e)

(* bracket-specifier = "[" (number / "*" / slice-expression) "]" / "[]" / "[?" expression "]"
   with the compound tokens "[*]" (TArrayWildcard), "[]" (TFlatten), "[?" (TFilter) *)
with gBracket : list token -> Prop :=
| gBracket_index o n c :
    ttyp o = TOpenSqBrace -> ttyp n = TIntegerLiteral -> ttyp c = TCloseSqBrace -> gBracket [o; n; c]
| gBracket_star t : ttyp t = TArrayWildcard -> gBracket [t]
| gBracket_slice o s c :
    ttyp o = TOpenSqBrace -> gSlice s -> ttyp c = TCloseSqBrace -> gBracket (o :: s ++ [c])
| gBracket_flatten t : ttyp t = TFlatten -> gBracket [t]
| gBracket_filter o e c :
    ttyp o = TFilter -> gE e -> ttyp c = TCloseSqBrace -> gBracket (o :: e ++ [c])

(* "." ( identifier / multi-select-list / multi-select-hash / function-expression / "*" )
   ".*" is the compound token TObjectWildcard; "." "[*]" is the multi-select-list
   [ * ] whose "[" "*" "]" the lexer fuses into TArrayWildcard *)
with gSub : list token -> Prop :=
| gSub_ident d t : ttyp d = TDot -> ident_t (ttyp t) = true -> gSub [d; t]
| gSub_list d m : ttyp d = TDot -> gMList m -> gSub (d :: m)
| gSub_list_star d t : ttyp d = TDot -> ttyp t = TArrayWildcard -> gSub [d; t]
| gSub_hash d m : ttyp d = TDot -> gMHash m -> gSub (d :: m)
| gSub_call d f : ttyp d = TDot -> gCall f -> gSub (d :: f)
| gSub_star t : ttyp t = TObjectWildcard -> gSub [t]

(* bindings = variable-binding *( "," variable-binding ); variable-binding = variable-ref "=" expression *)
with gBindings : list token -> Prop :=
| gBindings_one v a e :
    ttyp v = TVariable -> ttyp a = TAssign -> gE e -> gBindings (v :: a :: e)
| gBindings_cons v a e c r :
    ttyp v = TVariable -> ttyp a = TAssign -> gE e -> ttyp c = TComma -> gBindings r ->
    gBindings (v :: a :: e ++ c :: r).

(* ================================================================== *)
(* Remainder ("difference list") form, used in the proof               *)
(* ================================================================== *)

(* a prefix of [l] is derivable in [G], [l'] is what is left *)
Definition R (G : list token -> Prop) (l l' : list token) : Prop :=
  exists c, l = c ++ l' /\ G c.

Lemma R_nil G l : R G l [] -> G l.
Proof. intros (c & -> & H). rewrite app_nil_r. exact H. Qed.

Ltac unR :=
  repeat match goal with H : R _ _ _ |- _ => destruct H as (? & ? & ?) end; subst.
Ltac eass := multimatch goal with H : _ |- _ => exact H end.
Ltac listeq := cbn [app]; rewrite <- ?app_assoc; cbn [app]; rewrite <- ?app_assoc; reflexivity.
Ltac solveR ctor :=
  intros; unR; solve [ eexists; split; [| eapply ctor; eass]; listeq ].

Lemma rOptNum_none l : R gOptNum l l.
Proof. solveR gOptNum_none. Qed.
Lemma rOptNum_some t l : ttyp t = TIntegerLiteral -> R gOptNum (t :: l) l.
Proof. solveR gOptNum_some. Qed.

Lemma rSlice_2 l c l1 l2 :
  R gOptNum l (c :: l1) -> ttyp c = TColon -> R gOptNum l1 l2 -> R gSlice l l2.
Proof. solveR gSlice_2. Qed.
Lemma rSlice_3 l c l1 c' l2 l3 :
  R gOptNum l (c :: l1) -> ttyp c = TColon -> R gOptNum l1 (c' :: l2) -> ttyp c' = TColon ->
  R gOptNum l2 l3 -> R gSlice l l3.
Proof. solveR gSlice_3. Qed.

Lemma rBracket_index o n c l :
  ttyp o = TOpenSqBrace -> ttyp n = TIntegerLiteral -> ttyp c = TCloseSqBrace ->
  R gBracket (o :: n :: c :: l) l.
Proof. solveR gBracket_index. Qed.
Lemma rBracket_star t l : ttyp t = TArrayWildcard -> R gBracket (t :: l) l.
Proof. solveR gBracket_star. Qed.
Lemma rBracket_flatten t l : ttyp t = TFlatten -> R gBracket (t :: l) l.
Proof. solveR gBracket_flatten. Qed.
Lemma rBracket_slice o l c l1 :
  ttyp o = TOpenSqBrace -> R gSlice l (c :: l1) -> ttyp c = TCloseSqBrace -> R gBracket (o :: l) l1.
Proof. solveR gBracket_slice. Qed.
Lemma rBracket_filter o l c l1 :
  ttyp o = TFilter -> R gE l (c :: l1) -> ttyp c = TCloseSqBrace -> R gBracket (o :: l) l1.
Proof. solveR gBracket_filter. Qed.

Lemma rE_atom t l : atom_t (ttyp t) = true -> R gE (t :: l) l.
Proof. solveR gE_atom. Qed.
Lemma rE_paren o l c l1 :
  ttyp o = TOpenParen -> R gE l (c :: l1) -> ttyp c = TCloseParen -> R gE (o :: l) l1.
Proof. solveR gE_paren. Qed.
Lemma rE_list l l1 : R gMList l l1 -> R gE l l1.
Proof. solveR gE_list. Qed.
Lemma rE_hash l l1 : R gMHash l l1 -> R gE l l1.
Proof. solveR gE_hash. Qed.
Lemma rE_call l l1 : R gCall l l1 -> R gE l l1.
Proof. solveR gE_call. Qed.
Lemma rE_bracket l l1 : R gBracket l l1 -> R gE l l1.
Proof. solveR gE_bracket. Qed.
Lemma rE_let t l i l1 l2 :
  ttyp t = TLet -> R gBindings l (i :: l1) -> ttyp i = TIn -> R gE l1 l2 -> R gE (t :: l) l2.
Proof. solveR gE_let. Qed.
Lemma rE_unary u l l1 : unary_t (ttyp u) = true -> R gE l l1 -> R gE (u :: l) l1.
Proof. solveR gE_unary. Qed.
Lemma rE_binary l op l1 l2 :
  R gE l (op :: l1) -> binary_t (ttyp op) = true -> R gE l1 l2 -> R gE l l2.
Proof. solveR gE_binary. Qed.
Lemma rE_sub l l1 l2 : R gE l l1 -> R gSub l1 l2 -> R gE l l2.
Proof. solveR gE_sub. Qed.
Lemma rE_index l l1 l2 : R gE l l1 -> R gBracket l1 l2 -> R gE l l2.
Proof. solveR gE_index. Qed.

Lemma rMList_intro o l c l1 :
  ttyp o = TOpenSqBrace -> R gEs l (c :: l1) -> ttyp c = TCloseSqBrace -> R gMList (o :: l) l1.
Proof. solveR gMList_intro. Qed.
Lemma rEs_one l l1 : R gE l l1 -> R gEs l l1.
Proof. solveR gEs_one. Qed.
Lemma rEs_cons l c l1 l2 : R gE l (c :: l1) -> ttyp c = TComma -> R gEs l1 l2 -> R gEs l l2.
Proof. solveR gEs_cons. Qed.

Lemma rMHash_intro o l c l1 :
  ttyp o = TOpenBrace -> R gKVs l (c :: l1) -> ttyp c = TCloseBrace -> R gMHash (o :: l) l1.
Proof. solveR gMHash_intro. Qed.
Lemma rKV_intro k c l l1 :
  ident_t (ttyp k) = true -> ttyp c = TColon -> R gE l l1 -> R gKV (k :: c :: l) l1.
Proof. solveR gKV_intro. Qed.
Lemma rKVs_one l l1 : R gKV l l1 -> R gKVs l l1.
Proof. solveR gKVs_one. Qed.
Lemma rKVs_cons l c l1 l2 : R gKV l (c :: l1) -> ttyp c = TComma -> R gKVs l1 l2 -> R gKVs l l2.
Proof. solveR gKVs_cons. Qed.

Lemma rCall_intro f o l c l1 :
  ttyp f = TUnquotedIdentifier -> ttyp o = TOpenParen -> R gArgs1 l (c :: l1) -> ttyp c = TCloseParen ->
  R gCall (f :: o :: l) l1.
Proof.
  intros; unR. eexists; split; [|eapply gCall_intro; [eass|eass|apply gArgs_some; eass|eass]]. listeq.
Qed.
Lemma rArgs1_one l l1 : R gArg l l1 -> R gArgs1 l l1.
Proof. solveR gArgs1_one. Qed.
Lemma rArgs1_cons l c l1 l2 : R gArg l (c :: l1) -> ttyp c = TComma -> R gArgs1 l1 l2 -> R gArgs1 l l2.
Proof. solveR gArgs1_cons. Qed.
Lemma rArg_expr l l1 : R gE l l1 -> R gArg l l1.
Proof. solveR gArg_expr. Qed.
Lemma rArg_ref a l l1 : ttyp a = TExpression -> R gE l l1 -> R gArg (a :: l) l1.
Proof. solveR gArg_ref. Qed.

Lemma rSub_ident d t l : ttyp d = TDot -> ident_t (ttyp t) = true -> R gSub (d :: t :: l) l.
Proof. solveR gSub_ident. Qed.
Lemma rSub_list d l l1 : ttyp d = TDot -> R gMList l l1 -> R gSub (d :: l) l1.
Proof. solveR gSub_list. Qed.
Lemma rSub_list_star d t l : ttyp d = TDot -> ttyp t = TArrayWildcard -> R gSub (d :: t :: l) l.
Proof. solveR gSub_list_star. Qed.
Lemma rSub_hash d l l1 : ttyp d = TDot -> R gMHash l l1 -> R gSub (d :: l) l1.
Proof. solveR gSub_hash. Qed.
Lemma rSub_call d l l1 : ttyp d = TDot -> R gCall l l1 -> R gSub (d :: l) l1.
Proof. solveR gSub_call. Qed.
Lemma rSub_star t l : ttyp t = TObjectWildcard -> R gSub (t :: l) l.
Proof. solveR gSub_star. Qed.

Lemma rBindings_one v a l l1 :
  ttyp v = TVariable -> ttyp a = TAssign -> R gE l l1 -> R gBindings (v :: a :: l) l1.
Proof. solveR gBindings_one. Qed.
Lemma rBindings_cons v a l c l1 l2 :
  ttyp v = TVariable -> ttyp a = TAssign -> R gE l (c :: l1) -> ttyp c = TComma -> R gBindings l1 l2 ->
  R gBindings (v :: a :: l) l2.
Proof. solveR gBindings_cons. Qed.

(* ---- continuations: what may follow an expression ---- *)
Inductive rK : list token -> list token -> Prop :=
| rK_nil l : rK l l
| rK_bin op l l1 l2 : binary_t (ttyp op) = true -> R gE l l1 -> rK l1 l2 -> rK (op :: l) l2
| rK_sub l l1 l2 : R gSub l l1 -> rK l1 l2 -> rK l l2
| rK_br l l1 l2 : R gBracket l l1 -> rK l1 l2 -> rK l l2.

Lemma rK_trans a b c : rK a b -> rK b c -> rK a c.
Proof.
  induction 1; intros; [assumption| | |].
  - eapply rK_bin; eauto.
  - eapply rK_sub; eauto.
  - eapply rK_br; eauto.
Qed.

(* closure: an expression followed by a continuation is an expression *)
Lemma rK_E : forall l l', rK l l' -> forall l0, R gE l0 l -> R gE l0 l'.
Proof.
  induction 1; intros l0 HH; [assumption| | |].
  - apply IHrK. eapply rE_binary; eassumption.
  - apply IHrK. eapply rE_sub; eassumption.
  - apply IHrK. eapply rE_index; eassumption.
Qed.

(* what "." may be followed by when the parser re-enters expression *)
Definition gDotRhs (c : list token) : Prop :=
  (exists t, c = [t] /\ ident_t (ttyp t) = true) \/ gCall c.

Lemma rSub_rhs d l l1 : ttyp d = TDot -> R gDotRhs l l1 -> R gSub (d :: l) l1.
Proof.
  intros Hd (c & -> & [(t & -> & Ht)|Hc]).
  - apply rSub_ident; assumption.
  - apply rSub_call; [assumption|]. exists c. split; [reflexivity|assumption].
Qed.

(* result of parser.expression: a primary, then a continuation; when the first
   token is an identifier the primary is an identifier or a function call *)
Definition EX (l l' : list token) : Prop :=
  exists l1, R gE l l1 /\ (ident_t (ttyp (hd (Tok TEnd []) l)) = true -> R gDotRhs l l1) /\ rK l1 l'.

Lemma EX_E l l' : EX l l' -> R gE l l'.
Proof. intros (l1 & H1 & _ & H2). eapply rK_E; eassumption. Qed.

Lemma rK_dot d l l' :
  ttyp d = TDot -> ident_t (ttyp (hd (Tok TEnd []) l)) = true -> EX l l' -> rK (d :: l) l'.
Proof.
  intros Hd Hi (l1 & _ & H1 & H2). eapply rK_sub; [|exact H2]. apply rSub_rhs; auto.
Qed.

(* ================================================================== *)
(* Parser states over a token list                                     *)
(* ================================================================== *)
Definition tEnd : token := Tok TEnd [].

Section Sound.
  (* the item that terminates the stream: End for a successful lex, otherwise
     a lexical error (or stuck) *)
  Variable last : item.
  Hypothesis Hlast : last = ITok tEnd \/ forall t, last <> ITok t.

  Definition mkst (l : list token) : pst :=
    {| curr := hd tEnd l; next := hd tEnd (tl l); rest := map ITok (tl (tl l)) ++ [last] |}.

  (* with an error at the end the two-token window is always filled *)
  Definition valid (l : list token) : Prop := last = ITok tEnd \/ (2 <= length l)%nat.

  Definition opost {A} (Q : A -> Prop) (o : outcome A) : Prop :=
    match o with Ok a => Q a | _ => True end.

  Lemma opost_bind {A B} (P : A -> Prop) (Q : B -> Prop) (o : outcome A) (k : A -> outcome B) :
    opost P o -> (forall a, P a -> opost Q (k a)) -> opost Q (bind o k).
  Proof. destruct o; cbn; auto. Qed.
  Lemma opost_mono {A} (P Q : A -> Prop) (o : outcome A) :
    opost P o -> (forall a, P a -> Q a) -> opost Q o.
  Proof. destruct o; cbn; auto. Qed.
  Lemma opost_triv {A} (o : outcome A) : opost (fun _ => True) o.
  Proof. destruct o; exact I. Qed.
  Lemma opost_and {A} (P Q : A -> Prop) (o : outcome A) :
    opost P o -> opost Q o -> opost (fun a => P a /\ Q a) o.
  Proof. destruct o; cbn; auto. Qed.

  Lemma ct_mk l : ct (mkst l) = ttyp (hd tEnd l).
  Proof. reflexivity. Qed.
  Lemma nt_mk l : nt (mkst l) = ttyp (hd tEnd (tl l)).
  Proof. reflexivity. Qed.

  Definition AT (l : list token) (st : pst) : Prop := st = mkst l /\ valid l.

  Lemma pull_tail r : opost (fun tr => fst tr = hd tEnd r /\ snd tr = map ITok (tl r) ++ [last] /\
                                       (last = ITok tEnd \/ r <> []))
                            (pull (map ITok r ++ [last])).
  Proof.
    destruct r as [|a r]; cbn [map app].
    - destruct Hlast as [->|H]; [cbn; auto|].
      destruct last; [exfalso; eapply H; reflexivity|exact I|exact I].
    - cbn [pull opost fst snd hd tl]. split; [reflexivity|]. split; [|right; discriminate].
      destruct r; reflexivity.
  Qed.

  Lemma advance_post l : valid l -> opost (AT (tl l)) (advance (mkst l)).
  Proof.
    intros Hv. unfold advance, mkst at 1. cbn [rest next].
    eapply opost_bind; [apply pull_tail|].
    intros [t r] (H1 & H2 & H3). cbn [fst snd] in *. subst. cbn [opost].
    split; [reflexivity|]. destruct H3 as [H3|H3]; [left; assumption|].
    right. destruct l as [|a [|b [|c l]]]; cbn in *; try congruence; lia.
  Qed.

  Lemma advance2_post l : valid l -> opost (AT (tl (tl l))) (advance2 (mkst l)).
  Proof.
    intros Hv. unfold advance2, mkst at 1. cbn [rest next].
    eapply opost_bind; [apply pull_tail|].
    intros [t r] (H1 & H2 & H3). cbn [fst snd] in *. subst.
    eapply opost_bind; [apply pull_tail|].
    intros [t r] (H1 & H2 & H4). cbn [fst snd] in *. subst. cbn [opost].
    split; [reflexivity|]. destruct H4 as [H4|H4]; [left; assumption|].
    right. destruct l as [|a [|b [|c [|d l]]]]; cbn in *; try congruence; lia.
  Qed.

  (* ---- automation ---- *)
  Lemma hd_tok l k : ttyp (hd tEnd l) = k -> k <> TEnd -> exists t l', l = t :: l' /\ ttyp t = k.
  Proof. destruct l as [|t l']; cbn; [congruence|eauto]. Qed.

  Definition ST {A} (Q : list token -> Prop) (r : A * pst) : Prop :=
    exists l', AT l' (snd r) /\ Q l'.

  (* result of one step of parser.continuation *)
  Definition CS (l : list token) (r : option (node * pst)) : Prop :=
    match r with Some p => ST (rK l) p | None => True end.

  Ltac normE E :=
    try apply negb_is_false in E; try apply is_true in E;
    try rewrite ct_mk in E; try rewrite nt_mk in E; cbn [hd tl] in E.

  Ltac tok E :=
    lazymatch type of E with
    | ttyp (hd tEnd ?L) = _ =>
        is_var L;
        let t := fresh "t" in let l := fresh "l" in
        destruct L as [|t l]; [cbn in E; discriminate E | cbn [hd tl] in *]
    | _ => idtac
    end.

  Ltac branch E := cbn [negb] in E; try discriminate E; normE E; try tok E; try congruence.

  Ltac unpack a HH :=
    lazymatch type of HH with
    | AT _ _ => destruct HH as [-> ?]; cbn [tl] in *
    | ST _ _ =>
        let x := fresh "x" in let l := fresh "l" in let Hv := fresh "Hv" in let HQ := fresh "HQ" in
        destruct a as [x ?]; destruct HH as (l & [Hs Hv] & HQ); cbn [fst snd] in Hs; subst;
        repeat match goal with y : (_ * _)%type |- _ => destruct y end
    | True => clear HH
    | _ => idtac
    end.

  Ltac callee := fail.

  Ltac leaf :=
    cbn [opost]; unfold ST; cbn [fst snd];
    eexists; split; [split; [reflexivity|assumption]|].

  Ltac go :=
    repeat first
    [ progress cbn [bind]
    | match goal with
      | |- opost _ (Err _) => exact I
      | |- opost _ (Panic _) => exact I
      | |- opost _ OutOfFuel => exact I
      | |- opost (ST _) (Ok _) => leaf
      | |- opost (CS _) (Ok None) => exact I
      | |- opost (CS _) (Ok (Some _)) => cbn [opost CS]; leaf
      | |- opost _ (bind (bind _ _) _) => rewrite bind_assoc
      | |- opost _ (bind (if ?c then _ else _) _) =>
          let E := fresh "E" in destruct c eqn:E; branch E
      | |- opost _ (bind (match ?x with _ => _ end) _) =>
          let E := fresh "E" in destruct x eqn:E; branch E
      | |- opost _ (if ?c then _ else _) =>
          let E := fresh "E" in destruct c eqn:E; branch E
      | |- opost _ (match ?x with _ => _ end) =>
          let E := fresh "E" in destruct x eqn:E; branch E
      | |- opost _ (bind _ _) =>
          eapply opost_bind;
          [ callee
          | let a := fresh "a" in let HH := fresh "HH" in intros a HH; unpack a HH ]
      | |- opost (ST _) _ =>
          eapply opost_mono;
          [ callee
          | let a := fresh "a" in let HH := fresh "HH" in intros a HH; unpack a HH; leaf ]
      end ].

  Ltac callee ::=
    first [ apply advance_post; assumption
          | apply advance2_post; assumption
          | match goal with
            | |- opost _ (parse_quoted_identifier _) => apply opost_triv
            | |- opost _ (parse_json_literal _) => apply opost_triv
            end ].

  Create HintDb gram.
  Hint Resolve rOptNum_none rOptNum_some rSlice_2 rSlice_3 rBracket_index rBracket_slice : gram.

  (* parser.index: the inside of "[" ... "]" is a number or a slice *)
  Definition IDX (l l' : list token) : Prop :=
    forall o, ttyp o = TOpenSqBrace -> R gBracket (o :: l) l'.

  Lemma index_post child l : valid l -> opost (ST (IDX l)) (index child (mkst l)).
  Proof.
    intros Hv. unfold index, unexpected_curr, unexpected_next. cbv zeta. go.
    all: intros o Ho.
    all: eauto 8 with gram.
  Qed.

  (* ---- one level of the recursion ---- *)
  Definition RUN (c : pcall) (l : list token) (r : option node * pst) : Prop :=
    match c with
    | CExpr _ => ST (EX l) r
    | CCont _ _ => ST (rK l) r
    end.

  Section Level.
    Variable rec : pcall -> pst -> outcome (option node * pst).
    Variable f : nat.
    Hypothesis Hrec : forall c l, valid l -> opost (RUN c l) (rec c (mkst l)).

    Lemma expr_post_full p l : valid l -> opost (ST (EX l)) (expr rec p (mkst l)).
    Proof.
      intros Hv. unfold expr. eapply opost_bind; [apply (Hrec (CExpr p)); assumption|].
      intros [[n|] st'] H; cbn [opost]; [|exact I].
      destruct H as (l' & H1 & H2). exists l'. split; assumption.
    Qed.

    Lemma expr_post p l : valid l -> opost (ST (R gE l)) (expr rec p (mkst l)).
    Proof.
      intros Hv. eapply opost_mono; [apply expr_post_full; assumption|].
      intros a (l' & H1 & H2). exists l'. split; [assumption|apply EX_E; assumption].
    Qed.

    Lemma rec_cont n p l : valid l -> opost (ST (rK l)) (rec (CCont n p) (mkst l)).
    Proof. intros Hv. apply (Hrec (CCont n p)). assumption. Qed.

    Ltac callee ::=
      first [ apply advance_post; assumption
            | apply advance2_post; assumption
            | apply expr_post; assumption
            | apply rec_cont; assumption
            | apply index_post; assumption
            | match goal with
              | |- opost _ (parse_quoted_identifier _) => apply opost_triv
              | |- opost _ (parse_json_literal _) => apply opost_triv
              end ].

    Lemma projection_post p l : valid l -> opost (ST (rK l)) (projection rec p (mkst l)).
    Proof.
      intros Hv. unfold projection.
      assert (N : opost (ST (rK l)) (Ok (@None node, mkst l))).
      { exists l. split; [split; [reflexivity|assumption]|apply rK_nil]. }
      destruct (ct (mkst l)); try exact N.
      all: match goal with |- opost _ (if ?c then _ else _) => destruct c; [|exact N] end.
      all: apply rec_cont; assumption.
    Qed.

    (* parser.filter: expression "]" *)
    Definition FLT (l l' : list token) : Prop :=
      exists c, R gE l (c :: l') /\ ttyp c = TCloseSqBrace.

    Lemma filter_post l : valid l -> opost (ST (FLT l)) (filter rec (mkst l)).
    Proof.
      intros Hv. unfold filter, unexpected_curr. go. eexists; split; eassumption.
    Qed.

    Ltac callee ::=
      first [ apply advance_post; assumption
            | apply advance2_post; assumption
            | apply expr_post; assumption
            | apply rec_cont; assumption
            | apply index_post; assumption
            | apply projection_post; assumption
            | apply filter_post; assumption
            | match goal with IH : forall _, _ |- _ => apply IH; assumption end
            | match goal with
              | |- opost _ (parse_quoted_identifier _) => apply opost_triv
              | |- opost _ (parse_json_literal _) => apply opost_triv
              end ].

    (* after "[": expression *( "," expression ) "]" *)
    Definition LST (l l' : list token) : Prop :=
      exists c, R gEs l (c :: l') /\ ttyp c = TCloseSqBrace.
    Lemma LST_one l c l' : R gE l (c :: l') -> ttyp c = TCloseSqBrace -> LST l l'.
    Proof. intros. exists c. split; [apply rEs_one|]; assumption. Qed.
    Lemma LST_cons l c l1 l' : R gE l (c :: l1) -> ttyp c = TComma -> LST l1 l' -> LST l l'.
    Proof. intros H1 H2 (c' & H3 & H4). exists c'. split; [eapply rEs_cons; eassumption|assumption]. Qed.

    Lemma select_array_loop_post : forall k child fields l, valid l ->
      opost (ST (LST l)) (select_array_loop rec k child fields (mkst l)).
    Proof.
      induction k as [|k IH]; intros child fields l Hv; [exact I|].
      cbn [select_array_loop]. unfold unexpected_curr. go.
      all: eauto using LST_one, LST_cons.
    Qed.

    (* after "{": keyval-expr *( "," keyval-expr ) "}" *)
    Definition HSH (l l' : list token) : Prop :=
      exists c, R gKVs l (c :: l') /\ ttyp c = TCloseBrace.
    Lemma HSH_one k c l e l' :
      ident_t (ttyp k) = true -> ttyp c = TColon -> R gE l (e :: l') -> ttyp e = TCloseBrace ->
      HSH (k :: c :: l) l'.
    Proof. intros. exists e. split; [apply rKVs_one, rKV_intro|]; assumption. Qed.
    Lemma HSH_cons k c l e l1 l' :
      ident_t (ttyp k) = true -> ttyp c = TColon -> R gE l (e :: l1) -> ttyp e = TComma -> HSH l1 l' ->
      HSH (k :: c :: l) l'.
    Proof.
      intros H1 H2 H3 H4 (c' & H5 & H6). exists c'. split; [|assumption].
      eapply rKVs_cons; [apply rKV_intro; eassumption|assumption|assumption].
    Qed.
    Lemma ident_q t : ttyp t = TQuotedIdentifier -> ident_t (ttyp t) = true.
    Proof. intros ->. reflexivity. Qed.
    Lemma ident_u t : ttyp t = TUnquotedIdentifier -> ident_t (ttyp t) = true.
    Proof. intros ->. reflexivity. Qed.

    Lemma select_object_loop_post : forall k child fields l, valid l ->
      opost (ST (HSH l)) (select_object_loop rec k child fields (mkst l)).
    Proof.
      induction k as [|k IH]; intros child fields l Hv; [exact I|].
      cbn [select_object_loop]. unfold unexpected_curr, unexpected_next. go.
      all: eauto using HSH_one, HSH_cons, ident_q, ident_u.
    Qed.

    (* after "let": bindings "in" *)
    Definition BND (l l' : list token) : Prop :=
      exists i, R gBindings l (i :: l') /\ ttyp i = TIn.
    Lemma BND_one v a l i l' :
      ttyp v = TVariable -> ttyp a = TAssign -> R gE l (i :: l') -> ttyp i = TIn -> BND (v :: a :: l) l'.
    Proof. intros. exists i. split; [apply rBindings_one|]; assumption. Qed.
    Lemma BND_cons v a l c l1 l' :
      ttyp v = TVariable -> ttyp a = TAssign -> R gE l (c :: l1) -> ttyp c = TComma -> BND l1 l' ->
      BND (v :: a :: l) l'.
    Proof.
      intros H1 H2 H3 H4 (i & H5 & H6). exists i. split; [|assumption].
      eapply rBindings_cons; eassumption.
    Qed.

    Lemma let_loop_post : forall k vars l, valid l ->
      opost (ST (BND l)) (let_loop rec k vars (mkst l)).
    Proof.
      induction k as [|k IH]; intros vars l Hv; [exact I|].
      cbn [let_loop]. unfold unexpected_curr, unexpected_next. cbv zeta. go.
      all: eauto using BND_one, BND_cons.
    Qed.

    (* after "(": function-arg *( "," function-arg ) ")" *)
    Definition ARG (l l' : list token) : Prop :=
      exists c, R gArgs1 l (c :: l') /\ ttyp c = TCloseParen.
    Lemma ARG_one l c l' : R gArg l (c :: l') -> ttyp c = TCloseParen -> ARG l l'.
    Proof. intros. exists c. split; [apply rArgs1_one|]; assumption. Qed.
    Lemma ARG_cons l c l1 l' : R gArg l (c :: l1) -> ttyp c = TComma -> ARG l1 l' -> ARG l l'.
    Proof. intros H1 H2 (c' & H3 & H4). exists c'. split; [eapply rArgs1_cons; eassumption|assumption]. Qed.

    Hint Resolve ARG_one ARG_cons rArg_expr rArg_ref : gram.

    Lemma var_args_loop_post : forall k acc l, valid l ->
      opost (ST (ARG l)) (var_args_loop rec k acc (mkst l)).
    Proof.
      induction k as [|k IH]; intros acc l Hv; [exact I|].
      cbn [var_args_loop]. unfold unexpected_curr. cbv zeta. go.
      all: eauto with gram.
    Qed.

    Ltac callee ::=
      first [ apply advance_post; assumption
            | apply advance2_post; assumption
            | apply expr_post; assumption
            | apply rec_cont; assumption
            | apply index_post; assumption
            | apply projection_post; assumption
            | apply filter_post; assumption
            | apply select_array_loop_post; assumption
            | apply select_object_loop_post; assumption
            | apply let_loop_post; assumption
            | apply var_args_loop_post; assumption
            | match goal with
              | |- opost _ (parse_quoted_identifier _) => apply opost_triv
              | |- opost _ (parse_json_literal _) => apply opost_triv
              end ].

    (* after "let": bindings "in" expression *)
    Definition LET (l l' : list token) : Prop :=
      exists i l1, R gBindings l (i :: l1) /\ ttyp i = TIn /\ R gE l1 l'.

    Lemma let_post l : valid l -> opost (ST (LET l)) (let_ rec f (mkst l)).
    Proof.
      intros Hv. unfold let_. go.
      destruct HQ as (i & H1 & H2). exists i. eexists. repeat split; eassumption.
    Qed.

    Lemma parse_args_post ap name l : valid l ->
      opost (ST (ARG l)) (parse_args rec f ap name (mkst l)).
    Proof.
      intros Hv. unfold parse_args, check_not_close, end_args, need_comma, opt_more, unexpected_curr.
      destruct ap; go.
      all: eauto 12 with gram.
    Qed.

    Ltac callee ::=
      first [ apply advance_post; assumption
            | apply advance2_post; assumption
            | apply expr_post; assumption
            | apply rec_cont; assumption
            | apply index_post; assumption
            | apply projection_post; assumption
            | apply filter_post; assumption
            | apply select_array_loop_post; assumption
            | apply select_object_loop_post; assumption
            | apply let_post; assumption
            | apply parse_args_post; assumption
            | match goal with
              | |- opost _ (parse_quoted_identifier _) => apply opost_triv
              | |- opost _ (parse_json_literal _) => apply opost_triv
              end ].

    Lemma function_post t o l :
      ttyp t = TUnquotedIdentifier -> ttyp o = TOpenParen -> valid (t :: o :: l) ->
      opost (ST (R gCall (t :: o :: l))) (function rec f (mkst (t :: o :: l))).
    Proof.
      intros Ht Ho Hv. unfold function. cbv zeta. go.
      destruct HQ as (c & H1 & H2). eapply rCall_intro; eassumption.
    Qed.

    Lemma wrap_slice_projection_post n project l : valid l ->
      opost (ST (rK l)) (wrap_slice_projection rec n project (mkst l)).
    Proof. intros Hv. unfold wrap_slice_projection. go; [assumption|apply rK_nil]. Qed.

    Ltac callee ::=
      first [ apply advance_post; assumption
            | apply advance2_post; assumption
            | apply expr_post_full; assumption
            | apply rec_cont; assumption
            | apply index_post; assumption
            | apply projection_post; assumption
            | apply filter_post; assumption
            | apply select_array_loop_post; assumption
            | apply select_object_loop_post; assumption
            | apply let_post; assumption
            | apply function_post; assumption
            | apply wrap_slice_projection_post; assumption
            | match goal with
              | |- opost _ (parse_quoted_identifier _) => apply opost_triv
              | |- opost _ (parse_json_literal _) => apply opost_triv
              end ].

    Lemma IDX_use o l l' : ttyp o = TOpenSqBrace -> IDX l l' -> R gBracket (o :: l) l'.
    Proof. intros H1 H2. apply H2, H1. Qed.
    Lemma FLT_use o l l' : ttyp o = TFilter -> FLT l l' -> R gBracket (o :: l) l'.
    Proof. intros H1 (c & H2 & H3). eapply rBracket_filter; eassumption. Qed.
    Lemma LST_use o l l' : ttyp o = TOpenSqBrace -> LST l l' -> R gMList (o :: l) l'.
    Proof. intros H1 (c & H2 & H3). eapply rMList_intro; eassumption. Qed.
    Lemma HSH_use o l l' : ttyp o = TOpenBrace -> HSH l l' -> R gMHash (o :: l) l'.
    Proof. intros H1 (c & H2 & H3). eapply rMHash_intro; eassumption. Qed.
    Lemma LET_use t l l' : ttyp t = TLet -> LET l l' -> R gE (t :: l) l'.
    Proof. intros H1 (i & l1 & H2 & H3 & H4). eapply rE_let; eassumption. Qed.
    Lemma rDotRhs_ident t l : ident_t (ttyp t) = true -> R gDotRhs (t :: l) l.
    Proof. intros H. exists [t]. split; [reflexivity|]. left. eauto. Qed.
    Lemma rDotRhs_call l l' : R gCall l l' -> R gDotRhs l l'.
    Proof. intros (c & -> & H). exists c. split; [reflexivity|right; assumption]. Qed.

    Ltac tt :=
      cbn [hd];
      match goal with H : ttyp ?t = _ |- _ (ttyp ?t) = true => rewrite H; reflexivity end.
    Hint Extern 1 (_ (ttyp _) = true) => tt : gram.
    Hint Resolve EX_E rE_atom rE_paren rE_unary rE_bracket rBracket_star rBracket_flatten
      rE_list rE_hash rE_call IDX_use FLT_use LST_use HSH_use LET_use
      rDotRhs_ident rDotRhs_call
      rK_nil rK_bin rK_sub rK_br rK_dot rSub_list_star rSub_hash rSub_list rSub_star : gram.

    (* parser.primaryExpression *)
    Definition PR (l l' : list token) : Prop :=
      R gE l l' /\ (ident_t (ttyp (hd tEnd l)) = true -> R gDotRhs l l').

    Ltac noident :=
      let Hid := fresh "Hid" in
      intros Hid; cbn [hd] in Hid;
      match goal with H : ttyp ?t = _ |- _ =>
        match type of Hid with context [ttyp t] => rewrite H in Hid; try discriminate Hid end end.

    Lemma primary_post l : valid l -> opost (ST (PR l)) (primary rec f (mkst l)).
    Proof.
      intros Hv. unfold primary, select_array, select_object, unexpected_curr. cbv zeta. go.
      all: split; [|noident; eauto with gram].
      all: first [ match goal with H : rK _ _ |- _ => eapply rK_E; [exact H|]; solve [eauto 6 with gram] end
                 | solve [eauto 6 with gram] ].
    Qed.

    Lemma cont_step_post node p l : valid l -> opost (CS l) (cont_step rec f node p (mkst l)).
    Proof.
      intros Hv. unfold cont_step, select_array, select_object, unexpected_curr. cbv zeta.
      destruct (ct (mkst l)) eqn:Ec; branch Ec; cbn [bin_of]; go.
      all: eauto 8 with gram.
    Qed.

    Lemma run_body_post c l : valid l -> opost (RUN c l) (run_body rec f c (mkst l)).
    Proof.
      intros Hv. destruct c as [prec|node prec]; cbn [run_body RUN].
      - eapply opost_bind; [apply primary_post; assumption|].
        intros [n st1] (l1 & [Hs Hv1] & H1 & H2). cbn [snd] in Hs. subst st1.
        eapply opost_mono; [apply rec_cont; assumption|].
        intros [n2 st2] (l2 & Hs & H3). exists l2. split; [assumption|].
        exists l1. repeat split; assumption.
      - assert (N : opost (ST (rK l)) (Ok (node, mkst l))).
        { exists l. split; [split; [reflexivity|assumption]|apply rK_nil]. }
        destruct (precedence (ct (mkst l)) >? prec); [|exact N].
        eapply opost_bind; [apply cont_step_post; assumption|].
        intros [[n st1]|] H; [|exact N].
        destruct H as (l1 & [Hs Hv1] & H1). cbn [snd] in Hs. subst st1.
        eapply opost_mono; [apply rec_cont; assumption|].
        intros [n2 st2] (l2 & Hs & H3). exists l2. split; [assumption|].
        eapply rK_trans; eassumption.
    Qed.
  End Level.

  Lemma run_post : forall fuel c l, valid l -> opost (RUN c l) (run fuel c (mkst l)).
  Proof.
    induction fuel as [|f IH]; intros c l Hv; [exact I|].
    cbn [run]. apply run_body_post; [exact IH|assumption].
  Qed.
End Sound.

(* ================================================================== *)
(* Soundness                                                           *)
(* ================================================================== *)

Lemma parse_items_post last toks fuel :
  (last = ITok tEnd \/ forall t, last <> ITok t) ->
  Forall (fun t => ttyp t <> TEnd) toks ->
  opost (fun _ => last = ITok tEnd /\ gE toks) (parse_items fuel (map ITok toks ++ [last])).
Proof.
  intros Hlast Hne. unfold parse_items.
  eapply opost_bind; [apply pull_tail, Hlast|].
  intros [t1 r1] (H1 & H2 & H3). cbn [fst snd] in *. subst.
  eapply opost_bind; [apply pull_tail, Hlast|].
  intros [t2 r2] (H1 & H2 & H4). cbn [fst snd] in *. subst.
  assert (Hv : valid last toks).
  { destruct H3 as [H3|H3]; [left; assumption|]. destruct H4 as [H4|H4]; [left; assumption|].
    right. destruct toks as [|a [|b r]]; cbn in *; try congruence; lia. }
  eapply opost_bind; [apply (run_post last Hlast fuel (CExpr 1) toks Hv)|].
  intros [[n|] st'] (l' & [Hs Hv'] & HX); [|exact I]. cbn [snd] in Hs. subst st'.
  destruct (negb (is (ct (mkst last l')) TEnd)) eqn:E; [exact I|].
  apply negb_is_false in E. rewrite ct_mk in E.
  apply EX_E in HX. destruct HX as (c & -> & Hc).
  apply Forall_app in Hne. destruct Hne as [_ Hne].
  destruct l' as [|t l'].
  - rewrite app_nil_r. split; [|assumption].
    destruct Hv' as [Hv'|Hv']; [assumption|cbn in Hv'; lia].
  - inversion Hne; subst. cbn in E. contradiction.
Qed.

(* whatever the parser accepts is a sentence of the grammar *)
Theorem parser_sound : forall (toks : list token) fuel n,
  Forall (fun t => ttyp t <> TEnd) toks ->
  parse_items fuel (map ITok toks ++ [ITok (Tok TEnd [])]) = Ok n -> gE toks.
Proof.
  intros toks fuel n Hne E.
  pose proof (parse_items_post (ITok tEnd) toks fuel (or_introl eq_refl) Hne) as H.
  unfold tEnd in H. rewrite E in H. exact (proj2 H).
Qed.

Corollary compile_sound : forall s n, parse s = Ok n ->
  exists toks, lex_all s = map ITok toks ++ [ITok (Tok TEnd [])] /\ gE toks.
Proof.
  intros s n E. destruct (lex_all_shape s) as (toks & last & El & Hl & Hne & _).
  unfold parse in E. rewrite El in E.
  assert (Hlast : last = ITok tEnd \/ forall t, last <> ITok t).
  { destruct Hl as [->|[e ->]]; [left; reflexivity|right; discriminate]. }
  pose proof (parse_items_post last toks (parse_fuel s) Hlast Hne) as H.
  rewrite E in H. destruct H as [-> H]. exists toks. split; [exact El|exact H].
Qed.

(* ================================================================== *)
(* Sanity: the grammar is not vacuous                                  *)
(* ================================================================== *)
Definition starter_t (k : ttype) : bool :=
  atom_t k || unary_t k ||
  match k with
  | TOpenParen | TOpenSqBrace | TOpenBrace | TArrayWildcard | TFlatten | TFilter | TLet => true
  | _ => false
  end.

(* every sentence is non-empty and starts with a token that can start an expression *)
Lemma gE_first l : gE l -> exists t r, l = t :: r /\ starter_t (ttyp t) = true.
Proof.
  induction 1.
  - exists t, []. split; [reflexivity|]. unfold starter_t. rewrite H. reflexivity.
  - eexists _, _. split; [reflexivity|]. rewrite H. reflexivity.
  - inversion H; subst. eexists _, _. split; [reflexivity|]. rewrite H0. reflexivity.
  - inversion H; subst. eexists _, _. split; [reflexivity|]. rewrite H0. reflexivity.
  - inversion H; subst. eexists _, _. split; [reflexivity|]. rewrite H0. reflexivity.
  - inversion H; subst; (eexists _, _; split; [reflexivity|]);
      match goal with H : ttyp ?t = _ |- context [ttyp ?t] => rewrite H; reflexivity end.
  - eexists _, _. split; [reflexivity|]. rewrite H. reflexivity.
  - eexists _, _. split; [reflexivity|]. unfold starter_t. rewrite H, orb_true_r. reflexivity.
  - destruct IHgE1 as (t & r & -> & Ht). eexists _, _. split; [reflexivity|exact Ht].
  - destruct IHgE as (t & r & -> & Ht). eexists _, _. split; [reflexivity|exact Ht].
  - destruct IHgE as (t & r & -> & Ht). eexists _, _. split; [reflexivity|exact Ht].
Qed.

Corollary gE_nonempty : ~ gE [].
Proof. intros H. apply gE_first in H. destruct H as (t & r & H & _). discriminate. Qed.

(* ================================================================== *)
(* An executable recogniser for the grammar                            *)
(* ================================================================== *)
(* Recursive descent over the left-factored form
     E ::= U* P S* ( B E )?
   of the grammar above; every function returns the unread rest. *)

Definition obind {A B} (o : option A) (k : A -> option B) : option B :=
  match o with Some a => k a | None => None end.

(* the first token has type k *)
Definition is_t (k : ttype) (l : list token) : bool :=
  match l with t :: _ => is (ttyp t) k | [] => false end.
Definition sp_tok (k : ttype) (l : list token) : option (list token) :=
  match l with t :: r => if is (ttyp t) k then Some r else None | [] => None end.
Definition sp_optnum (l : list token) : list token :=
  match sp_tok TIntegerLiteral l with Some r => r | None => l end.

(* [number] ":" [number] [ ":" [number] ] "]" *)
Definition sp_slice (l : list token) : option (list token) :=
  obind (sp_tok TColon (sp_optnum l)) (fun l2 =>
    let l3 := sp_optnum l2 in
    match sp_tok TCloseSqBrace l3 with
    | Some r => Some r
    | None => obind (sp_tok TColon l3) (fun l4 => sp_tok TCloseSqBrace (sp_optnum l4))
    end).
(* after "[": number "]" or a slice *)
Definition sp_idx (l : list token) : option (list token) :=
  match obind (sp_tok TIntegerLiteral l) (sp_tok TCloseSqBrace) with
  | Some r => Some r
  | None => sp_slice l
  end.

Inductive smode :=
| ME      (* expression *)
| MK      (* S* ( B E )? *)
| MList   (* expression *( "," expression ) "]" *)
| MHash   (* keyval-expr *( "," keyval-expr ) "}" *)
| MArgs   (* function-arg *( "," function-arg ) ")" *)
| MBinds. (* variable-binding *( "," variable-binding ) "in" *)

(* the token after an item of a comma-separated list: "," continues, the closing token ends *)
Definition sp_sep (close : ttype) (again : list token -> option (list token)) (l : list token)
  : option (list token) :=
  match l with
  | c :: r => if is (ttyp c) TComma then again r else if is (ttyp c) close then Some r else None
  | [] => None
  end.

Fixpoint sp (fuel : nat) (m : smode) (l : list token) : option (list token) :=
  match fuel with
  | O => None
  | S f =>
    (* "(" [args] ")" then the continuation *)
    let call := fun r =>
      obind (sp_tok TOpenParen r) (fun r2 =>
        match sp_tok TCloseParen r2 with
        | Some r3 => sp f MK r3
        | None => obind (sp f MArgs r2) (sp f MK)
        end) in
    match m with
    | ME =>
      match l with
      | [] => None
      | t :: r =>
        if unary_t (ttyp t) then sp f ME r
        else if is (ttyp t) TUnquotedIdentifier && is_t TOpenParen r then call r
        else if atom_t (ttyp t) then sp f MK r
        else match ttyp t with
        | TOpenParen => obind (obind (sp f ME r) (sp_tok TCloseParen)) (sp f MK)
        | TOpenSqBrace =>
          if is_t TIntegerLiteral r || is_t TColon r then obind (sp_idx r) (sp f MK)
          else obind (sp f MList r) (sp f MK)
        | TOpenBrace => obind (sp f MHash r) (sp f MK)
        | TArrayWildcard | TFlatten => sp f MK r
        | TFilter => obind (obind (sp f ME r) (sp_tok TCloseSqBrace)) (sp f MK)
        | TLet => obind (sp f MBinds r) (sp f ME)
        | _ => None
        end
      end
    | MK =>
      match l with
      | [] => Some l
      | t :: r =>
        if binary_t (ttyp t) then sp f ME r
        else match ttyp t with
        | TDot =>
          match r with
          | x :: r2 =>
            if is (ttyp x) TUnquotedIdentifier && is_t TOpenParen r2 then call r2
            else if ident_t (ttyp x) then sp f MK r2
            else match ttyp x with
            | TArrayWildcard => sp f MK r2
            | TOpenSqBrace => obind (sp f MList r2) (sp f MK)
            | TOpenBrace => obind (sp f MHash r2) (sp f MK)
            | _ => None
            end
          | [] => None
          end
        | TObjectWildcard | TArrayWildcard | TFlatten => sp f MK r
        | TFilter => obind (obind (sp f ME r) (sp_tok TCloseSqBrace)) (sp f MK)
        | TOpenSqBrace => obind (sp_idx r) (sp f MK)
        | _ => Some l
        end
      end
    | MList => obind (sp f ME l) (sp_sep TCloseSqBrace (sp f MList))
    | MHash =>
      match l with
      | k :: c :: r =>
        if ident_t (ttyp k) && is (ttyp c) TColon
        then obind (sp f ME r) (sp_sep TCloseBrace (sp f MHash))
        else None
      | _ => None
      end
    | MArgs =>
      obind (sp f ME (match sp_tok TExpression l with Some r => r | None => l end))
            (sp_sep TCloseParen (sp f MArgs))
    | MBinds =>
      match l with
      | v :: a :: r =>
        if is (ttyp v) TVariable && is (ttyp a) TAssign
        then obind (sp f ME r) (sp_sep TIn (sp f MBinds))
        else None
      | _ => None
      end
    end
  end.

Definition spec_fuel (l : list token) : nat := (4 * length l + 8)%nat.
Definition spec_accepts (l : list token) : bool :=
  match sp (spec_fuel l) ME l with Some [] => true | _ => false end.

(* ---- the recogniser only accepts sentences of the grammar ---- *)
Definition spost (Q : list token -> Prop) (o : option (list token)) : Prop :=
  match o with Some l' => Q l' | None => True end.

Lemma sp_tok_some k l r : sp_tok k l = Some r -> exists t, l = t :: r /\ ttyp t = k.
Proof.
  destruct l as [|t l]; cbn; [discriminate|].
  destruct (is (ttyp t) k) eqn:E; [|discriminate]. intros H; inversion H; subst.
  apply is_true in E. eauto.
Qed.

Lemma is_t_true k l : is_t k l = true -> exists t r, l = t :: r /\ ttyp t = k.
Proof. destruct l as [|t r]; cbn; [discriminate|]. intros E. apply is_true in E. eauto. Qed.

Lemma sp_optnum_R l : R gOptNum l (sp_optnum l).
Proof.
  unfold sp_optnum. destruct (sp_tok TIntegerLiteral l) eqn:E.
  - apply sp_tok_some in E. destruct E as (t & -> & Ht). apply rOptNum_some, Ht.
  - apply rOptNum_none.
Qed.

Lemma sp_slice_ok l l' : sp_slice l = Some l' -> exists c, R gSlice l (c :: l') /\ ttyp c = TCloseSqBrace.
Proof.
  unfold sp_slice. pose proof (sp_optnum_R l) as H1.
  destruct (sp_tok TColon (sp_optnum l)) as [l2|] eqn:E1; [|discriminate]. cbn [obind].
  apply sp_tok_some in E1. destruct E1 as (c1 & E1 & Hc1). rewrite E1 in H1.
  pose proof (sp_optnum_R l2) as H2.
  destruct (sp_tok TCloseSqBrace (sp_optnum l2)) as [r|] eqn:E2.
  - intros H; inversion H; subst. apply sp_tok_some in E2. destruct E2 as (c & E2 & Hc).
    rewrite E2 in H2. exists c. split; [eapply rSlice_2; eassumption|assumption].
  - destruct (sp_tok TColon (sp_optnum l2)) as [l4|] eqn:E3; [|discriminate]. cbn [obind].
    apply sp_tok_some in E3. destruct E3 as (c2 & E3 & Hc2). rewrite E3 in H2.
    pose proof (sp_optnum_R l4) as H3. intros E4.
    apply sp_tok_some in E4. destruct E4 as (c & E4 & Hc). rewrite E4 in H3.
    exists c. split; [eapply rSlice_3; eassumption|assumption].
Qed.

Lemma sp_idx_ok l l' : sp_idx l = Some l' -> IDX l l'.
Proof.
  unfold sp_idx. intros H o Ho.
  destruct (obind (sp_tok TIntegerLiteral l) (sp_tok TCloseSqBrace)) as [r|] eqn:E.
  - inversion H; subst.
    destruct (sp_tok TIntegerLiteral l) as [l1|] eqn:E1; [|discriminate]. cbn [obind] in E.
    apply sp_tok_some in E1. destruct E1 as (n & -> & Hn).
    apply sp_tok_some in E. destruct E as (c & -> & Hc). apply rBracket_index; assumption.
  - apply sp_slice_ok in H. destruct H as (c & H1 & H2). eapply rBracket_slice; eassumption.
Qed.

Definition SPEC (m : smode) (l l' : list token) : Prop :=
  match m with
  | ME => R gE l l'
  | MK => rK l l'
  | MList => LST l l'
  | MHash => HSH l l'
  | MArgs => ARG l l'
  | MBinds => BND l l'
  end.

Lemma rCall_noargs f o c l :
  ttyp f = TUnquotedIdentifier -> ttyp o = TOpenParen -> ttyp c = TCloseParen -> R gCall (f :: o :: c :: l) l.
Proof.
  intros. exists [f; o; c]. split; [reflexivity|].
  apply (gCall_intro f o [] c); try assumption. apply gArgs_none.
Qed.
Lemma rCall_args f o l l' :
  ttyp f = TUnquotedIdentifier -> ttyp o = TOpenParen -> ARG l l' -> R gCall (f :: o :: l) l'.
Proof. intros H1 H2 (c & H3 & H4). eapply rCall_intro; eassumption. Qed.

Lemma spost_sep close again (Q : list token -> Prop) l :
  (forall c r, l = c :: r -> ttyp c = TComma -> spost Q (again r)) ->
  (forall c r, l = c :: r -> ttyp c = close -> Q r) ->
  spost Q (sp_sep close again l).
Proof.
  intros H1 H2. unfold sp_sep. destruct l as [|c r]; [exact I|].
  destruct (is (ttyp c) TComma) eqn:E1; [apply is_true in E1; eapply H1; eauto|].
  destruct (is (ttyp c) close) eqn:E2; [apply is_true in E2; cbn; eapply H2; eauto|exact I].
Qed.

Lemma spost_obind (P Q : list token -> Prop) o k :
  spost P o -> (forall a, P a -> spost Q (k a)) -> spost Q (obind o k).
Proof. destruct o; cbn; auto. Qed.

Lemma spost_mono (P Q : list token -> Prop) o : spost P o -> (forall a, P a -> Q a) -> spost Q o.
Proof. destruct o; cbn; auto. Qed.

Lemma spost_tok k (Q : list token -> Prop) l :
  (forall t r, l = t :: r -> ttyp t = k -> Q r) -> spost Q (sp_tok k l).
Proof.
  intros H. destruct (sp_tok k l) eqn:E; [|exact I]. apply sp_tok_some in E.
  destruct E as (t & -> & Ht). cbn. eapply H; eauto.
Qed.

Lemma spost_obind_tok k (Q : list token -> Prop) l cont :
  (forall t r, l = t :: r -> ttyp t = k -> spost Q (cont r)) -> spost Q (obind (sp_tok k l) cont).
Proof.
  intros H. destruct (sp_tok k l) eqn:E; [|exact I]. apply sp_tok_some in E.
  destruct E as (t & -> & Ht). cbn. eapply H; eauto.
Qed.
Lemma spost_match_tok k (Q : list token -> Prop) l A B :
  (forall t r, l = t :: r -> ttyp t = k -> spost Q (A r)) -> spost Q B ->
  spost Q (match sp_tok k l with Some r => A r | None => B end).
Proof.
  intros H HB. destruct (sp_tok k l) eqn:E; [|exact HB]. apply sp_tok_some in E.
  destruct E as (t & -> & Ht). eapply H; eauto.
Qed.

Section SpLevel.
  Variable f : nat.
  Hypothesis IH : forall m l, spost (SPEC m l) (sp f m l).

  (* S* ( B E )? after a primary *)
  Lemma k_after (l0 l : list token) : R gE l0 l -> spost (R gE l0) (sp f MK l).
  Proof.
    intros H. eapply spost_mono; [apply (IH MK)|]. cbn. intros a Ha. eapply rK_E; eassumption.
  Qed.
  Lemma k_after_k (l0 l : list token) : rK l0 l -> spost (rK l0) (sp f MK l).
  Proof.
    intros H. eapply spost_mono; [apply (IH MK)|]. cbn. intros a Ha. eapply rK_trans; eassumption.
  Qed.

  Lemma call_ok t r :
    ttyp t = TUnquotedIdentifier ->
    spost (fun l' => exists l1, R gCall (t :: r) l1 /\ rK l1 l')
      (obind (sp_tok TOpenParen r) (fun r2 =>
         match sp_tok TCloseParen r2 with
         | Some r3 => sp f MK r3
         | None => obind (sp f MArgs r2) (sp f MK)
         end)).
  Proof.
    intros Ht. apply spost_obind_tok. intros o r2 -> Ho. apply spost_match_tok.
    - intros c r3 -> Hc. eapply spost_mono; [apply (IH MK)|]. intros a Ha.
      exists r3. split; [apply rCall_noargs; assumption|exact Ha].
    - eapply spost_obind; [apply (IH MArgs)|]. intros r3 Ha. cbn in Ha.
      eapply spost_mono; [apply (IH MK)|]. intros a Hk.
      exists r3. split; [apply rCall_args; assumption|exact Hk].
  Qed.

  (* expression, closing token, continuation *)
  Lemma enclosed_ok (r : list token) k (G : list token -> Prop) :
    (forall c r2, R gE r (c :: r2) -> ttyp c = k -> G r2) ->
    spost G (obind (sp f ME r) (sp_tok k)).
  Proof.
    intros H. eapply spost_obind; [apply (IH ME)|]. intros a Ha. cbn in Ha.
    apply spost_tok. intros c r2 -> Hc. eapply H; eassumption.
  Qed.

  Lemma sp_step m l : spost (SPEC m l) (sp (S f) m l).
  Proof.
    cbn [sp]. destruct m; cbn [SPEC].
    - (* ME *)
      destruct l as [|t r]; [exact I|].
      destruct (unary_t (ttyp t)) eqn:Eu.
      { eapply spost_mono; [apply (IH ME)|]. intros a Ha. apply rE_unary; assumption. }
      destruct (is (ttyp t) TUnquotedIdentifier && is_t TOpenParen r) eqn:Ec.
      { apply andb_prop in Ec. destruct Ec as [Ec _]. apply is_true in Ec.
        eapply spost_mono; [apply (call_ok t r Ec)|]. intros a (l1 & H1 & H2).
        eapply rK_E; [exact H2|apply rE_call, H1]. }
      destruct (atom_t (ttyp t)) eqn:Ea.
      { apply k_after, rE_atom, Ea. }
      destruct (ttyp t) eqn:Et; try exact I.
      + eapply spost_obind; [apply (IH MHash)|]. intros a Ha.
        apply k_after, rE_hash, HSH_use; assumption.
      + eapply spost_obind with (P := R gE (t :: r)); [|intros; apply k_after; assumption].
        apply (enclosed_ok r). intros c r2 H1 H2. eapply rE_paren; eassumption.
      + destruct (is_t TIntegerLiteral r || is_t TColon r).
        * destruct (sp_idx r) eqn:E; [|exact I]. cbn [obind]. apply sp_idx_ok in E.
          apply k_after, rE_bracket, E, Et.
        * eapply spost_obind; [apply (IH MList)|]. intros a Ha.
          apply k_after, rE_list, LST_use; assumption.
      + apply k_after, rE_bracket, rBracket_star, Et.
      + eapply spost_obind with (P := R gE (t :: r)); [|intros; apply k_after; assumption].
        apply (enclosed_ok r). intros c r2 H1 H2. eapply rE_bracket, rBracket_filter; eassumption.
      + apply k_after, rE_bracket, rBracket_flatten, Et.
      + eapply spost_obind; [apply (IH MBinds)|]. intros a (i & H1 & H2).
        eapply spost_mono; [apply (IH ME)|]. intros b Hb. eapply rE_let; eassumption.
    - (* MK *)
      destruct l as [|t r]; [apply rK_nil|].
      destruct (binary_t (ttyp t)) eqn:Eb.
      { eapply spost_mono; [apply (IH ME)|]. intros a Ha. eapply rK_bin; [assumption|exact Ha|apply rK_nil]. }
      destruct (ttyp t) eqn:Et; try apply rK_nil.
      + destruct (sp_idx r) eqn:E; [|exact I]. cbn [obind]. apply sp_idx_ok in E.
        apply k_after_k. eapply rK_br; [apply E, Et|apply rK_nil].
      + (* [*] *) apply k_after_k. eapply rK_br; [apply rBracket_star, Et|apply rK_nil].
      + (* . *)
        destruct r as [|x r2]; [exact I|].
        destruct (is (ttyp x) TUnquotedIdentifier && is_t TOpenParen r2) eqn:Ec.
        { apply andb_prop in Ec. destruct Ec as [Ec _]. apply is_true in Ec.
          eapply spost_mono; [apply (call_ok x r2 Ec)|]. intros a (l1 & H1 & H2).
          eapply rK_sub; [apply rSub_call; eassumption|exact H2]. }
        destruct (ident_t (ttyp x)) eqn:Ei.
        { apply k_after_k. eapply rK_sub; [apply rSub_ident; assumption|apply rK_nil]. }
        destruct (ttyp x) eqn:Ex; try exact I.
        * eapply spost_obind; [apply (IH MHash)|]. intros a Ha.
          apply k_after_k. eapply rK_sub; [apply rSub_hash, HSH_use; eassumption|apply rK_nil].
        * eapply spost_obind; [apply (IH MList)|]. intros a Ha.
          apply k_after_k. eapply rK_sub; [apply rSub_list, LST_use; eassumption|apply rK_nil].
        * apply k_after_k. eapply rK_sub; [apply rSub_list_star; assumption|apply rK_nil].
      + (* [? *)
        eapply spost_obind with (P := rK (t :: r)); [|intros; apply k_after_k; assumption].
        apply (enclosed_ok r). intros c r2 H1 H2.
        eapply rK_br; [eapply rBracket_filter; eassumption|apply rK_nil].
      + apply k_after_k. eapply rK_br; [apply rBracket_flatten, Et|apply rK_nil].
      + apply k_after_k. eapply rK_sub; [apply rSub_star, Et|apply rK_nil].
    - (* MList *)
      eapply spost_obind; [apply (IH ME)|]. intros a Ha. cbn in Ha. apply spost_sep.
      + intros c r -> Hc. eapply spost_mono; [apply (IH MList)|]. intros b Hb.
        eapply LST_cons; eassumption.
      + intros c r -> Hc. eapply LST_one; eassumption.
    - (* MHash *)
      destruct l as [|k [|c r]]; try exact I.
      destruct (ident_t (ttyp k) && is (ttyp c) TColon) eqn:E; [|exact I].
      apply andb_prop in E. destruct E as [Ek Ec]. apply is_true in Ec.
      eapply spost_obind; [apply (IH ME)|]. intros a Ha. cbn in Ha. apply spost_sep.
      + intros e r2 -> He. eapply spost_mono; [apply (IH MHash)|]. intros b Hb.
        eapply HSH_cons; eassumption.
      + intros e r2 -> He. eapply HSH_one; eassumption.
    - (* MArgs *)
      assert (HA : forall a, R gE (match sp_tok TExpression l with Some r => r | None => l end) a ->
                             R gArg l a).
      { intros a Ha. destruct (sp_tok TExpression l) eqn:E.
        - apply sp_tok_some in E. destruct E as (t & -> & Ht). apply rArg_ref; assumption.
        - apply rArg_expr, Ha. }
      eapply spost_obind; [apply (IH ME)|]. intros a Ha. cbn in Ha. apply HA in Ha. apply spost_sep.
      + intros c r -> Hc. eapply spost_mono; [apply (IH MArgs)|]. intros b Hb.
        eapply ARG_cons; eassumption.
      + intros c r -> Hc. eapply ARG_one; eassumption.
    - (* MBinds *)
      destruct l as [|v [|a r]]; try exact I.
      destruct (is (ttyp v) TVariable && is (ttyp a) TAssign) eqn:E; [|exact I].
      apply andb_prop in E. destruct E as [Ev Ea]. apply is_true in Ev. apply is_true in Ea.
      eapply spost_obind; [apply (IH ME)|]. intros x Hx. cbn in Hx. apply spost_sep.
      + intros e r2 -> He. eapply spost_mono; [apply (IH MBinds)|]. intros b Hb.
        eapply BND_cons; eassumption.
      + intros e r2 -> He. eapply BND_one; eassumption.
  Qed.
End SpLevel.

Lemma sp_sound : forall fuel m l, spost (SPEC m l) (sp fuel m l).
Proof. induction fuel as [|f IH]; intros m l; [exact I|]. apply sp_step, IH. Qed.

Theorem spec_accepts_sound : forall l, spec_accepts l = true -> gE l.
Proof.
  intros l. unfold spec_accepts. pose proof (sp_sound (spec_fuel l) ME l) as H.
  destruct (sp (spec_fuel l) ME l) as [[|? ?]|]; try discriminate.
  intros _. apply R_nil, H.
Qed.

(* ---- the parser is stricter than the token-level grammar: arity, unknown
   names, the position of "&" arguments, slice step 0 and the inner validity
   of literals are reported by the parser under their own error categories ---- *)
Definition toks_of (s : bytes) : list token :=
  flat_map (fun i => match i with
                     | ITok t => if is (ttyp t) TEnd then [] else [t]
                     | _ => []
                     end) (lex_all s).

From Coq Require Import String.
Local Open Scope string_scope.

Example stricter_arity :
  parse (bs "abs()") = Err (EInvalidFunctionCall (bs "abs")) /\ gE (toks_of (bs "abs()")).
Proof. split; [vm_compute; reflexivity|apply spec_accepts_sound; vm_compute; reflexivity]. Qed.
Example stricter_unknown :
  parse (bs "foo(a)") = Err (EUnknownFunction (bs "foo")) /\ gE (toks_of (bs "foo(a)")).
Proof. split; [vm_compute; reflexivity|apply spec_accepts_sound; vm_compute; reflexivity]. Qed.
Example stricter_expref :
  parse (bs "abs(&a)") = Err (EUnexpectedToken (bs "&")) /\ gE (toks_of (bs "abs(&a)")).
Proof. split; [vm_compute; reflexivity|apply spec_accepts_sound; vm_compute; reflexivity]. Qed.
Example stricter_step :
  parse (bs "a[0:1:0]") = Err EInvalidSliceStep /\ gE (toks_of (bs "a[0:1:0]")).
Proof. split; [vm_compute; reflexivity|apply spec_accepts_sound; vm_compute; reflexivity]. Qed.
Example stricter_literal :
  parse (bs "`x`") = Err (EInvalidJSONLiteral (bs "`x`")) /\ gE (toks_of (bs "`x`")).
Proof. split; [vm_compute; reflexivity|apply spec_accepts_sound; vm_compute; reflexivity]. Qed.

Print Assumptions spec_accepts_sound.
Print Assumptions compile_sound.
Print Assumptions parser_sound.
