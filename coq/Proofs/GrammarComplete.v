(* C04 (completeness half, token level): the Pratt parser of Model/Parser.v
   accepts the sentences of the grammar gE of Proofs/Grammar.v.

   parser_complete           on a sentence of gE, with fuel > length, parse_items never panics,
                             never runs out of fuel, and answers Ok or one of the faults [allowed]:
                             unknown function / arity / argument kind at a call site, slice step 0,
                             a token whose own text is invalid (integer out of range, JSON literal,
                             quoted identifier), and "unexpected token" ONLY at an expression
                             reference "&" among the arguments of a call of the wrong shape
   syntax_error_only_at_amp  the same in terms of Api.parse_category, for lexically valid tokens
   no_syntax_error           no "&" in the sentence: the category is never CSyntax
   parser_complete_static    static_ok ts (valid token texts, no zero step, known names, every call
                             of the right shape) -> parse_items returns Ok
   parser_complete_call_free the same for sentences without calls
   parser_incomplete_example abs(&a) is a sentence of gE and a SYNTAX error of the parser: plain
                             completeness is false in the model (and in the library), the "&" clause
                             above cannot be dropped

   Method: gE is flat and ambiguous, so it is first brought into the left-factored form
     LX ::= unary LX | "let" bindings "in" LX | P KX      KX ::= | binary LX | sub KX | bracket KX
   (gE_LX).  The invariant, proved by induction on the fuel (run_spec), says: parser.expression at
   power p in front of (e ++ rest), with LX e and rest starting with a closing token, leaves a
   continuation k (KX k) in front of rest whose first token does not bind tighter than p; the same
   for the loop of parser.continuation in front of (k ++ rest).  At power 1 nothing can be left
   (KX_low1), which is what the callers that expect a closing token need.  Errors are tracked by a
   weakest-precondition predicate wp whose error clause [gerr] is relative to the sentence ts; the
   parser is always in front of a suffix of ts (okl). *)
From Coq Require Import List ZArith Bool Lia.
From JM Require Import Base.Outcome Base.Bytes Json.Value Model.Token Model.Lexer Model.Ast
  Model.Literals Model.Parser.
From JM Require Proofs.Termination Model.Api.
From JM Require Import Proofs.Grammar.
Import ListNotations.
Open Scope Z_scope.

(* ================================================================== *)
(* 1. A left-factored form of the grammar                              *)
(* ================================================================== *)

(* closed primaries: one token, or opener ... closer *)
Inductive gP : list token -> Prop :=
| gP_atom t : atom_t (ttyp t) = true -> gP [t]
| gP_paren o e c : ttyp o = TOpenParen -> gE e -> ttyp c = TCloseParen -> gP (o :: e ++ [c])
| gP_list m : gMList m -> gP m
| gP_hash m : gMHash m -> gP m
| gP_call f : gCall f -> gP f
| gP_bracket b : gBracket b -> gP b.

(* LX ::= unary LX | let bindings in LX | P KX      KX ::= | binary LX | sub KX | bracket KX *)
Inductive LX : list token -> Prop :=
| LX_un u e : unary_t (ttyp u) = true -> LX e -> LX (u :: e)
| LX_let t bs i e : ttyp t = TLet -> gBindings bs -> ttyp i = TIn -> LX e -> LX (t :: bs ++ i :: e)
| LX_pr p k : gP p -> KX k -> LX (p ++ k)
with KX : list token -> Prop :=
| KX_nil : KX []
| KX_bin op e : binary_t (ttyp op) = true -> LX e -> KX (op :: e)
| KX_sub s k : gSub s -> KX k -> KX (s ++ k)
| KX_br b k : gBracket b -> KX k -> KX (b ++ k).

Scheme LX_mut := Minimality for LX Sort Prop
  with KX_mut := Minimality for KX Sort Prop.
Combined Scheme LXKX_ind from LX_mut, KX_mut.

Lemma LXKX_app :
  (forall e, LX e -> forall k, KX k -> LX (e ++ k)) /\
  (forall k1, KX k1 -> forall k, KX k -> KX (k1 ++ k)).
Proof.
  apply LXKX_ind; intros.
  - cbn [app]. apply LX_un; auto.
  - cbn [app]. rewrite <- app_assoc. cbn [app]. apply LX_let; auto.
  - rewrite <- app_assoc. apply LX_pr; auto.
  - assumption.
  - cbn [app]. apply KX_bin; auto.
  - rewrite <- app_assoc. apply KX_sub; auto.
  - rewrite <- app_assoc. apply KX_br; auto.
Qed.

Lemma LX_p p : gP p -> LX p.
Proof. intros H. rewrite <- (app_nil_r p). apply LX_pr; [assumption|constructor]. Qed.

Lemma gE_LX e : gE e -> LX e.
Proof.
  induction 1.
  - apply LX_p, gP_atom; assumption.
  - apply LX_p, gP_paren; assumption.
  - apply LX_p, gP_list; assumption.
  - apply LX_p, gP_hash; assumption.
  - apply LX_p, gP_call; assumption.
  - apply LX_p, gP_bracket; assumption.
  - apply LX_let; assumption.
  - apply LX_un; assumption.
  - apply (proj1 LXKX_app); [assumption|]. apply KX_bin; assumption.
  - apply (proj1 LXKX_app); [assumption|]. rewrite <- (app_nil_r s). apply KX_sub; [assumption|constructor].
  - apply (proj1 LXKX_app); [assumption|]. rewrite <- (app_nil_r b). apply KX_br; [assumption|constructor].
Qed.

Lemma gP_gE p : gP p -> gE p.
Proof.
  destruct 1.
  - apply gE_atom; assumption.
  - apply gE_paren; assumption.
  - apply gE_list; assumption.
  - apply gE_hash; assumption.
  - apply gE_call; assumption.
  - apply gE_bracket; assumption.
Qed.

(* ---- first tokens ---- *)
Definition hdt (l : list token) : ttype := ttyp (hd tEnd l).

(* tokens that may follow a complete expression inside a sentence *)
Definition closer_t (k : ttype) : bool :=
  match k with
  | TEnd | TCloseParen | TCloseSqBrace | TCloseBrace | TComma | TIn => true
  | _ => false
  end.
Definition stop (rest : list token) : Prop := closer_t (hdt rest) = true.

(* tokens that start a continuation *)
Definition khead_t (k : ttype) : bool :=
  binary_t k ||
  match k with
  | TDot | TObjectWildcard | TOpenSqBrace | TArrayWildcard | TFlatten | TFilter => true
  | _ => false
  end.

Lemma gSub_hd s : gSub s -> exists t r, s = t :: r /\ (ttyp t = TDot \/ ttyp t = TObjectWildcard).
Proof. destruct 1; eauto. Qed.

Lemma gBracket_hd b : gBracket b ->
  exists t r, b = t :: r /\
    (ttyp t = TOpenSqBrace \/ ttyp t = TArrayWildcard \/ ttyp t = TFlatten \/ ttyp t = TFilter).
Proof. destruct 1; eauto 8. Qed.

Lemma KX_hd k : KX k -> k = [] \/ khead_t (hdt k) = true.
Proof.
  destruct 1; [left; reflexivity|right..].
  - unfold hdt, khead_t. cbn [hd]. rewrite H. reflexivity.
  - destruct (gSub_hd _ H) as (t & r & -> & [E|E]); unfold hdt; cbn [app hd]; rewrite E; reflexivity.
  - destruct (gBracket_hd _ H) as (t & r & -> & [E|[E|[E|E]]]); unfold hdt; cbn [app hd]; rewrite E; reflexivity.
Qed.

Lemma khead_prec k : khead_t k = true -> 2 <= precedence k /\ k <> TOpenParen /\ closer_t k = false.
Proof. destruct k; try discriminate; cbn; repeat split; try lia; discriminate. Qed.
Lemma closer_prec k : closer_t k = true -> precedence k = 0 /\ k <> TOpenParen.
Proof. destruct k; try discriminate; cbn; split; try reflexivity; discriminate. Qed.

Lemma hdt_app_ne k l : k <> [] -> hdt (k ++ l) = hdt k.
Proof. destruct k; [congruence|reflexivity]. Qed.

(* what follows a complete primary: never "(" *)
Lemma follow_cases k rest : KX k -> stop rest ->
  (k = [] /\ closer_t (hdt (k ++ rest)) = true) \/ (k <> [] /\ khead_t (hdt (k ++ rest)) = true).
Proof.
  intros Hk Hs. destruct (KX_hd k Hk) as [->|H].
  - left. split; [reflexivity|exact Hs].
  - right. assert (k <> []) by (intros ->; discriminate H). split; [assumption|].
    rewrite hdt_app_ne by assumption. exact H.
Qed.

Lemma follow_not_paren k rest : KX k -> stop rest -> hdt (k ++ rest) <> TOpenParen.
Proof.
  intros Hk Hs. destruct (follow_cases k rest Hk Hs) as [[_ H]|[_ H]].
  - apply closer_prec in H. tauto.
  - apply khead_prec in H. tauto.
Qed.

Definition lowhead (p : Z) (k : list token) : Prop :=
  match k with [] => True | t :: _ => precedence (ttyp t) <= p end.

Lemma KX_low1 k : KX k -> lowhead 1 k -> k = [].
Proof.
  intros Hk Hl. destruct (KX_hd k Hk) as [->|H]; [reflexivity|].
  destruct k as [|t k]; [reflexivity|]. unfold hdt in H. cbn [hd] in H.
  apply khead_prec in H. cbn in Hl. lia.
Qed.

Lemma LX_hd e : LX e -> exists t r, e = t :: r /\ starter_t (ttyp t) = true.
Proof.
  destruct 1.
  - exists u, e. split; [reflexivity|]. unfold starter_t. rewrite H, orb_true_r. reflexivity.
  - eexists _, _. split; [reflexivity|]. rewrite H. reflexivity.
  - destruct (gE_first p (gP_gE p H)) as (t & r & -> & Ht). eexists _, _. split; [reflexivity|exact Ht].
Qed.

Lemma starter_not k : starter_t k = true ->
  k <> TIntegerLiteral /\ k <> TColon /\ k <> TExpression /\ k <> TCloseParen.
Proof. destruct k; try discriminate; repeat split; discriminate. Qed.

(* ================================================================== *)
(* 2. Parser states over a token list                                  *)
(* ================================================================== *)
Definition sto (l : list token) : pst :=
  {| curr := hd tEnd l; next := hd tEnd (tl l); rest := map ITok (tl (tl l)) ++ [ITok tEnd] |}.

Lemma pull_sto l : pull (map ITok l ++ [ITok tEnd]) = Ok (hd tEnd l, map ITok (tl l) ++ [ITok tEnd]).
Proof. destruct l as [|t [|u l]]; reflexivity. Qed.
Lemma advance_sto l : advance (sto l) = Ok (sto (tl l)).
Proof. unfold advance, sto. cbn [rest next]. rewrite pull_sto. reflexivity. Qed.
Lemma advance2_sto l : advance2 (sto l) = Ok (sto (tl (tl l))).
Proof. unfold advance2, sto. cbn [rest next]. rewrite pull_sto. cbn [bind]. rewrite pull_sto. reflexivity. Qed.
Lemma ct_sto l : ct (sto l) = hdt l.
Proof. reflexivity. Qed.
Lemma nt_sto l : nt (sto l) = hdt (tl l).
Proof. reflexivity. Qed.
Lemma curr_sto l : curr (sto l) = hd tEnd l.
Proof. reflexivity. Qed.
Lemma next_sto l : next (sto l) = hd tEnd (tl l).
Proof. reflexivity. Qed.

Lemma is_refl t : is t t = true.
Proof. unfold is, ttype_eqb. destruct (ttype_eq_dec t t); congruence. Qed.
Lemma is_neq t u : t <> u -> is t u = false.
Proof. unfold is, ttype_eqb. destruct (ttype_eq_dec t u); congruence. Qed.
Lemma is_eq t u : is t u = true -> t = u.
Proof. unfold is, ttype_eqb. destruct (ttype_eq_dec t u); congruence. Qed.

Lemma parse_items_sto fuel ts :
  parse_items fuel (map ITok ts ++ [ITok tEnd]) =
  bind (run fuel (CExpr 1) (sto ts)) (fun r =>
    match r with
    | (Some n, st) => if negb (is (ct st) TEnd) then unexpected_curr st else Ok n
    | (None, _) => Panic PNilDeref
    end).
Proof. unfold parse_items. rewrite pull_sto. cbn [bind]. rewrite pull_sto. reflexivity. Qed.

Lemma ct_cons t l : ct (sto (t :: l)) = ttyp t.
Proof. reflexivity. Qed.
Lemma nt_cons t l : nt (sto (t :: l)) = hdt l.
Proof. reflexivity. Qed.
Lemma hdt_cons t l : hdt (t :: l) = ttyp t.
Proof. reflexivity. Qed.
Lemma curr_cons t l : curr (sto (t :: l)) = t.
Proof. reflexivity. Qed.
Lemma next_cons t u l : next (sto (t :: u :: l)) = u.
Proof. reflexivity. Qed.
Lemma advance_cons t l : advance (sto (t :: l)) = Ok (sto l).
Proof. apply advance_sto. Qed.
Lemma advance2_cons t u l : advance2 (sto (t :: u :: l)) = Ok (sto l).
Proof. apply advance2_sto. Qed.

Ltac simp_is :=
  repeat match goal with
  | |- context [is ?a ?b] =>
    let v := eval vm_compute in (is a b) in
    match v with
    | true => change (is a b) with true
    | false => change (is a b) with false
    end
  end.

(* symbolic execution of the deterministic steps *)
Ltac sx :=
  repeat first
  [ rewrite ct_cons | rewrite nt_cons | rewrite hdt_cons | rewrite curr_cons | rewrite next_cons
  | rewrite advance_cons | rewrite advance2_cons
  | progress cbn [ttyp tval bind negb andb orb fst snd]
  | progress simp_is ].

(* lists in the form t1 :: t2 :: (e ++ c :: X) *)
Ltac nl := repeat first [rewrite <- app_assoc | progress cbn [app]].
Ltac nl_in H := repeat first [rewrite <- app_assoc in H | progress cbn [app] in H].

(* make the type of a token explicit *)
Ltac conc :=
  repeat match goal with
  | H : ttyp ?t = _ |- _ =>
    is_var t; let ty := fresh "ty" in let tv := fresh "tv" in
    destruct t as [ty tv]; cbn [ttyp] in H; subst
  end.

Lemma pqi_cases v : (exists s, parse_quoted_identifier v = Ok s) \/ parse_quoted_identifier v = Err (EInvalidQuoted v).
Proof. unfold parse_quoted_identifier. destruct (quoted_unescape _ _); eauto. Qed.
Lemma pjl_cases v : (exists n, parse_json_literal v = Ok n) \/ parse_json_literal v = Err (EInvalidJSONLiteral v).
Proof.
  unfold parse_json_literal. cbv zeta. destruct (unescape_backticks (inner v)); [right; reflexivity|].
  match goal with |- context [match ?x with Some _ => _ | None => _ end] => destruct x end; [|right; reflexivity].
  match goal with |- context [match ?x with Some _ => _ | None => _ end] => destruct x end; eauto.
Qed.

(* ---- argument lists split into arguments ---- *)
(* the kinds of arguments each function wants: [true] = expression reference "&" *)
Definition shape_ok (ap : argparser) (fl : list bool) : bool :=
  match ap, fl with
  | AP1, [false] => true
  | AP1to2, [false] | AP1to2, [false; false] => true
  | AP2, [false; false] => true
  | AP2Exp, [false; true] => true
  | AP2Map, [true; false] => true
  | AP2to3, [false; false] | AP2to3, [false; false; false] => true
  | AP2to4, [false; false] | AP2to4, [false; false; false] | AP2to4, [false; false; false; false] => true
  | AP3to4, [false; false; false] | AP3to4, [false; false; false; false] => true
  | APVar, _ :: _ => forallb negb fl
  | _, _ => false
  end.

Inductive gArgF : bool -> list token -> Prop :=
| gArgF_expr e : gE e -> gArgF false e
| gArgF_ref a e : ttyp a = TExpression -> gE e -> gArgF true (a :: e).
Inductive gArgs1F : list bool -> list token -> Prop :=
| gArgs1F_one b a : gArgF b a -> gArgs1F [b] a
| gArgs1F_cons b a c bs r :
    gArgF b a -> ttyp c = TComma -> gArgs1F bs r -> gArgs1F (b :: bs) (a ++ c :: r).
(* a reading of [args] as a list of arguments with the kinds [fl] *)
Definition gArgsF (fl : list bool) (args : list token) : Prop :=
  (fl = [] /\ args = []) \/ gArgs1F fl args.

Lemma gArg_flag a : gArg a -> exists b, gArgF b a.
Proof. intros [e He|amp e Ha He]; eexists; constructor; eassumption. Qed.
Lemma gArgs1_flags args : gArgs1 args -> exists fl, gArgs1F fl args.
Proof.
  induction 1 as [a Ha|a c r Ha Hc Hr [fl IH]].
  - destruct (gArg_flag a Ha) as [b Hb]. exists [b]. constructor. exact Hb.
  - destruct (gArg_flag a Ha) as [b Hb]. exists (b :: fl). constructor; assumption.
Qed.
Lemma gArgs_flags args : gArgs args -> exists fl, gArgsF fl args.
Proof.
  intros [|a Ha].
  - exists []. left. auto.
  - destruct (gArgs1_flags a Ha) as [fl H]. exists fl. right. exact H.
Qed.

(* ================================================================== *)
(* 3. The invariant                                                    *)
(* ================================================================== *)
Section Main.
(* the sentence being parsed; the parser is always in front of a suffix of it *)
Variable ts : list token.
Definition okl (l : list token) : Prop := exists pre, ts = pre ++ l.
Definition A (t : token) : Prop := In t ts.

Lemma okl_cons_r t l : okl (t :: l) -> okl l.
Proof. intros [pre H]. exists (pre ++ [t]). rewrite <- app_assoc. exact H. Qed.
Lemma okl_app_r a b : okl (a ++ b) -> okl b.
Proof. intros [pre H]. exists (pre ++ a). rewrite <- app_assoc. exact H. Qed.
Lemma okl_in l t : okl l -> In t l -> A t.
Proof. intros [pre H] Hin. unfold A. rewrite H. apply in_or_app. right. exact Hin. Qed.

Ltac okt_ H := first [ exact H | (apply okl_cons_r in H; okt_ H) | (apply okl_app_r in H; okt_ H) ].
Ltac okt := match goal with H : okl _ |- okl _ => let H' := fresh in pose proof H as H'; okt_ H' end.
Ltac getA := eapply okl_in; [eassumption|cbn [In]; auto 12].

(* the errors a sentence may get: the four static non-syntax faults, a token
   whose own text is invalid, and an expression reference in value position *)
(* a call of a known function whose arguments, in some reading, do not have
   the number or the kinds the function wants *)
Definition BADCALL : Prop :=
  exists pre fn o args c X ap fb fl,
    ts = pre ++ fn :: o :: args ++ c :: X /\
    ttyp fn = TUnquotedIdentifier /\ ttyp o = TOpenParen /\ ttyp c = TCloseParen /\
    assoc (tval fn) function_table = Some (ap, fb) /\ gArgsF fl args /\ shape_ok ap fl = false.

(* the position of a slice step: after [number] ":" [number] ":" *)
Definition step_site (z : token) : Prop :=
  exists pre a c1 b c2 c X,
    ts = pre ++ a ++ c1 :: b ++ c2 :: z :: c :: X /\
    gOptNum a /\ ttyp c1 = TColon /\ gOptNum b /\ ttyp c2 = TColon /\ ttyp c = TCloseSqBrace.

Definition gerr (e : err) : Prop :=
  match e with
  | EUnknownFunction v =>
      exists pre o X, ts = pre ++ Tok TUnquotedIdentifier v :: o :: X /\ ttyp o = TOpenParen /\
                      assoc v function_table = None
  | EInvalidFunctionCall _ | EInvalidFunctionArgument _ => BADCALL
  | EInvalidSliceStep =>
      exists z, step_site z /\ ttyp z = TIntegerLiteral /\ atoi (tval z) = Some 0
  | EUnexpectedToken v => (exists t, A t /\ ttyp t = TExpression /\ tval t = v) /\ BADCALL
  | EInvalidIndex v => exists t, A t /\ ttyp t = TIntegerLiteral /\ tval t = v /\ atoi v = None
  | EInvalidJSONLiteral v =>
      exists t, A t /\ ttyp t = TJSONLiteral /\ tval t = v /\ parse_json_literal v = Err (EInvalidJSONLiteral v)
  | EInvalidQuoted v =>
      exists t, A t /\ ttyp t = TQuotedIdentifier /\ tval t = v /\ parse_quoted_identifier v = Err (EInvalidQuoted v)
  | _ => False
  end.

(* partial correctness: no panic, only the errors above; running out of fuel is
   excluded separately (Termination) *)
Definition wp {X} (Q : X -> Prop) (o : outcome X) : Prop :=
  match o with Ok a => Q a | Err e => gerr e | OutOfFuel => True | _ => False end.

Lemma wp_bind {X Y} (P : X -> Prop) (Q : Y -> Prop) (o : outcome X) (k : X -> outcome Y) :
  wp P o -> (forall a, P a -> wp Q (k a)) -> wp Q (bind o k).
Proof. destruct o; cbn; auto. Qed.
Lemma wp_mono {X} (P Q : X -> Prop) (o : outcome X) : wp P o -> (forall a, P a -> Q a) -> wp Q o.
Proof. destruct o; cbn; auto. Qed.

Lemma pqi_wp t : A t -> ttyp t = TQuotedIdentifier -> wp (fun _ => True) (parse_quoted_identifier (tval t)).
Proof.
  intros Ha Ht. destruct (pqi_cases (tval t)) as [[s E]|E]; rewrite E; [exact I|].
  exists t. auto.
Qed.
Lemma pjl_wp t : A t -> ttyp t = TJSONLiteral -> wp (fun _ => True) (parse_json_literal (tval t)).
Proof.
  intros Ha Ht. destruct (pjl_cases (tval t)) as [[s E]|E]; rewrite E; [exact I|].
  exists t. auto.
Qed.

(* the state after a call: a continuation [k] is left in front of [rest] *)
Definition RESK0 (rest : list token) (st : pst) : Prop :=
  exists k, st = sto (k ++ rest) /\ KX k /\ okl (k ++ rest).
Definition RESK (p : Z) (rest : list token) (st : pst) : Prop :=
  exists k, st = sto (k ++ rest) /\ KX k /\ okl (k ++ rest) /\ lowhead p k.

Lemma RESK_0 p rest st : RESK p rest st -> RESK0 rest st.
Proof. intros (k & H1 & H2 & H3 & _). exists k. auto. Qed.

(* ---- parser.index on the inside of a bracket-specifier ---- *)
Lemma gOptNum_cases a : gOptNum a -> a = [] \/ exists v, a = [Tok TIntegerLiteral v].
Proof. destruct 1; [left; reflexivity|right]. destruct t as [ty v]. cbn in H. subst. eauto. Qed.

Ltac wperr :=
  cbn [wp];
  first
  [ match goal with
    | G : _ -> gerr EInvalidSliceStep, E1 : (_ =? 0) = true |- gerr EInvalidSliceStep =>
        apply Z.eqb_eq in E1; subst; apply G; first [assumption|reflexivity]
    end
  | cbn [gerr];
    first [ exact I
          | assumption
          | match goal with
            | |- exists t, A t /\ ttyp t = ?K /\ tval t = ?v => exists (Tok K v)
            | |- exists t, A t /\ ttyp t = ?K /\ tval t = ?v /\ _ => exists (Tok K v)
            end; split; [getA|]; cbn [ttyp tval]; repeat split; solve [auto] ] ].

Ltac idx_go :=
  repeat first
  [ progress sx
  | match goal with
    | |- wp _ (Err _) => wperr
    | |- wp _ (Ok _) => cbn [wp fst snd]; reflexivity
    | |- wp _ (bind (match atoi ?v with _ => _ end) _) => let E := fresh "E" in destruct (atoi v) eqn:E
    | |- wp _ (match atoi ?v with _ => _ end) => let E := fresh "E" in destruct (atoi v) eqn:E
    | |- wp _ (if ?c then _ else _) => let E := fresh "E" in destruct c eqn:E
    end ].

Lemma index_index child v c X : ttyp c = TCloseSqBrace -> okl (Tok TIntegerLiteral v :: c :: X) ->
  wp (fun r => snd r = sto X) (index child (sto (Tok TIntegerLiteral v :: c :: X))).
Proof. intros Hc Hok. conc. unfold index, unexpected_curr, unexpected_next. cbv zeta. idx_go.
Qed.

Lemma index_slice child s c X : gSlice s -> ttyp c = TCloseSqBrace -> okl (s ++ c :: X) ->
  wp (fun r => snd r = sto X) (index child (sto (s ++ c :: X))).
Proof.
  intros Hs Hc Hok. conc.
  destruct Hs as [a c1 b Ha Hc1 Hb|a c1 b c2 s3 Ha Hc1 Hb Hc2 Hs3]; conc.
  - apply gOptNum_cases in Ha; apply gOptNum_cases in Hb;
      repeat match goal with H : _ \/ _ |- _ => destruct H as [?|[? ?]] end; subst;
      nl_in Hok; nl;
      unfold index, unexpected_curr, unexpected_next; cbv zeta; idx_go.
  - apply gOptNum_cases in Hs3. destruct Hs3 as [->|[z ->]].
    + apply gOptNum_cases in Ha; apply gOptNum_cases in Hb;
        repeat match goal with H : _ \/ _ |- _ => destruct H as [?|[? ?]] end; subst;
        nl_in Hok; nl;
        unfold index, unexpected_curr, unexpected_next; cbv zeta; idx_go.
    + assert (G : atoi z = Some 0 -> gerr EInvalidSliceStep).
      { intros Hz. exists (Tok TIntegerLiteral z). split; [|split; [reflexivity|exact Hz]].
        destruct Hok as [pre Hpre]. nl_in Hpre.
        eexists pre, a, _, b, _, _, X. split; [exact Hpre|]. repeat split; assumption || reflexivity. }
      apply gOptNum_cases in Ha; apply gOptNum_cases in Hb;
        repeat match goal with H : _ \/ _ |- _ => destruct H as [?|[? ?]] end; subst;
        nl_in Hok; nl;
        unfold index, unexpected_curr, unexpected_next; cbv zeta; idx_go.
Qed.

Ltac stp := unfold stop; reflexivity.

(* ---- function table: a known name is built from the arguments its parser returns ---- *)
Definition compat (ap : argparser) (fb : fbuild) : bool :=
  match ap, fb with
  | AP1, B1 _ | AP1to2, B1or2 _ _ | AP2, B2 _ | AP2Exp, BBy _ | AP2Map, BMap | AP2to3, B2or3 _ _
  | AP2to4, B2to4 _ _ _ | AP3to4, B3or4 _ _ | APVar, BVar _ => true
  | _, _ => false
  end.

Lemma assoc_in {B} k (m : list (bytes * B)) v : assoc k m = Some v -> exists k', In (k', v) m.
Proof.
  induction m as [|[k0 v0] m IH]; [discriminate|]. cbn [assoc]. destruct (beqb k k0).
  - intros E. inversion E; subst. exists k0. left. reflexivity.
  - intros E. destruct (IH E) as [k' Hin]. exists k'. right. exact Hin.
Qed.

Lemma table_compat fn ap fb : assoc fn function_table = Some (ap, fb) -> compat ap fb = true.
Proof.
  intros H. apply assoc_in in H. destruct H as [k' Hin].
  assert (Hall : forallb (fun e : bytes * (argparser * fbuild) => compat (fst (snd e)) (snd (snd e))) function_table = true)
    by (vm_compute; reflexivity).
  rewrite forallb_forall in Hall. apply (Hall _ Hin).
Qed.

Definition arity_ok (ap : argparser) (n : nat) : Prop :=
  match ap with
  | AP1 => n = 1%nat
  | AP1to2 => n = 1%nat \/ n = 2%nat
  | AP2 | AP2Exp | AP2Map => n = 2%nat
  | AP2to3 => n = 2%nat \/ n = 3%nat
  | AP2to4 => n = 2%nat \/ n = 3%nat \/ n = 4%nat
  | AP3to4 => n = 3%nat \/ n = 4%nat
  | APVar => True
  end.

Lemma build_some ap fb (args : list node) :
  compat ap fb = true -> arity_ok ap (List.length args) -> build fb args <> None.
Proof.
  intros Hc Ha.
  destruct ap, fb; try discriminate Hc;
    destruct args as [|a1 [|a2 [|a3 [|a4 [|a5 l]]]]]; cbn in Ha |- *;
    try discriminate; intuition discriminate.
Qed.

Section Level.
Variable rec : pcall -> pst -> outcome (option node * pst).
Variable f : nat.
Hypothesis HE : forall p e rest, LX e -> stop rest -> okl (e ++ rest) -> 0 <= p ->
  wp (fun r => (exists n, fst r = Some n) /\ RESK p rest (snd r)) (rec (CExpr p) (sto (e ++ rest))).
Hypothesis HK : forall o p k rest, KX k -> stop rest -> okl (k ++ rest) -> 0 <= p -> (o = None -> 7 <= p) ->
  wp (fun r => (o <> None -> fst r <> None) /\ RESK p rest (snd r)) (rec (CCont o p) (sto (k ++ rest))).
Hypothesis HA : forall p v l, BADCALL -> A (Tok TExpression v) ->
  wp (fun _ : option node * pst => False) (rec (CExpr p) (sto (Tok TExpression v :: l))).

Lemma expr_spec p e rest : LX e -> stop rest -> okl (e ++ rest) -> 0 <= p ->
  wp (fun r => RESK p rest (snd r)) (expr rec p (sto (e ++ rest))).
Proof.
  intros. unfold expr. eapply wp_bind; [apply HE; assumption|].
  intros [[n|] st] [[n' Hn] HR]; cbn [fst snd] in *; [exact HR|discriminate].
Qed.

Lemma expr1 e rest : gE e -> stop rest -> okl (e ++ rest) ->
  wp (fun r => snd r = sto rest /\ okl rest) (expr rec 1 (sto (e ++ rest))).
Proof.
  intros He Hs Hok.
  eapply wp_mono; [apply expr_spec; [apply gE_LX; assumption|assumption|assumption|lia]|].
  intros [n st] (k & E & Hk & Hok' & Hl). cbn [snd] in *.
  apply KX_low1 in Hl; [|assumption]. subst. cbn [app] in *. auto.
Qed.

Lemma expr_arg a rest : BADCALL -> gArg a -> stop rest -> okl (a ++ rest) ->
  wp (fun r => snd r = sto rest /\ okl rest) (expr rec 1 (sto (a ++ rest))).
Proof.
  intros HB Ha Hs Hok. destruct Ha as [e He|amp e Hamp He].
  - apply expr1; assumption.
  - conc. cbn [app] in *. unfold expr. eapply wp_bind; [apply HA; [exact HB|getA]|]. intros a [].
Qed.

Lemma projection_spec q k rest : KX k -> stop rest -> okl (k ++ rest) -> 7 <= q ->
  wp (fun r => RESK0 rest (snd r)) (projection rec q (sto (k ++ rest))).
Proof.
  intros Hk Hs Hok Hq. unfold projection.
  assert (N : wp (fun r : option node * pst => RESK0 rest (snd r)) (Ok (None, sto (k ++ rest)))).
  { exists k. auto. }
  assert (R : wp (fun r => RESK0 rest (snd r)) (rec (CCont None q) (sto (k ++ rest)))).
  { eapply wp_mono; [apply HK; try assumption; [lia|intros; assumption]|].
    intros a [_ H]. eapply RESK_0, H. }
  destruct (ct (sto (k ++ rest))); try exact N;
    match goal with |- wp _ (if ?c then _ else _) => destruct c; [exact R|exact N] end.
Qed.

Ltac do_expr1 :=
  eapply wp_bind;
  [ apply expr1; [assumption|stp|first [assumption|okt]]
  | let n := fresh "n" in let st := fresh "st" in let E := fresh "E" in let Hok := fresh "Hok" in
    intros [n st] [E Hok]; cbn [snd] in E; subst st ].

Ltac fin := cbn [wp snd fst]; split; [reflexivity|first [assumption|okt]].

Lemma filter_spec e c X : gE e -> ttyp c = TCloseSqBrace -> okl (e ++ c :: X) ->
  wp (fun r => snd r = sto X /\ okl X) (filter rec (sto (e ++ c :: X))).
Proof.
  intros He Hc Hok. conc. unfold filter, unexpected_curr. do_expr1. sx. fin.
Qed.

Lemma select_array_loop_spec : forall k child fields es c X,
  gEs es -> ttyp c = TCloseSqBrace -> okl (es ++ c :: X) ->
  wp (fun r => snd r = sto X /\ okl X) (select_array_loop rec k child fields (sto (es ++ c :: X))).
Proof.
  induction k as [|k IH]; intros child fields es c X Hes Hc Hok; [exact I|].
  cbn [select_array_loop]. unfold unexpected_curr.
  destruct Hes as [e He|e cm es' He Hcm Hes'].
  - conc. do_expr1. sx. destruct fields; fin.
  - conc. nl. nl_in Hok. do_expr1. sx. apply IH; [assumption|reflexivity|okt].
Qed.

Lemma ident_cases t : ident_t (ttyp t) = true ->
  (exists v, t = Tok TUnquotedIdentifier v) \/ (exists v, t = Tok TQuotedIdentifier v).
Proof. destruct t as [ty v]. destruct ty; try discriminate; eauto. Qed.

Ltac do_pqi :=
  eapply wp_bind;
  [ match goal with |- wp _ (parse_quoted_identifier ?v) =>
      apply (pqi_wp (Tok TQuotedIdentifier v)); [getA|reflexivity] end
  | intros ? _ ].

Lemma select_object_loop_spec : forall k child fields kvs c X,
  gKVs kvs -> ttyp c = TCloseBrace -> okl (kvs ++ c :: X) ->
  wp (fun r => snd r = sto X /\ okl X) (select_object_loop rec k child fields (sto (kvs ++ c :: X))).
Proof.
  induction k as [|k IH]; intros child fields kvs c X Hkvs Hc Hok; [exact I|].
  cbn [select_object_loop]. unfold unexpected_curr, unexpected_next.
  destruct Hkvs as [kv Hkv|kv cm kvs' Hkv Hcm Hkvs'];
    destruct Hkv as [key col e Hkey Hcol He]; conc; nl; nl_in Hok;
    apply ident_cases in Hkey; destruct Hkey as [[v ->]|[v ->]]; sx.
  - do_expr1. sx. destruct fields; fin.
  - do_pqi. sx. do_expr1. sx. destruct fields; fin.
  - do_expr1. sx. apply IH; [assumption|reflexivity|okt].
  - do_pqi. sx. do_expr1. sx. apply IH; [assumption|reflexivity|okt].
Qed.

Lemma let_loop_spec : forall k vars bs i X,
  gBindings bs -> ttyp i = TIn -> okl (bs ++ i :: X) ->
  wp (fun r => snd r = sto X /\ okl X) (let_loop rec k vars (sto (bs ++ i :: X))).
Proof.
  induction k as [|k IH]; intros vars bs i X Hbs Hi Hok; [exact I|].
  cbn [let_loop]. unfold unexpected_curr, unexpected_next. cbv zeta.
  destruct Hbs as [v a e Hv Ha He|v a e c r Hv Ha He Hc Hr]; conc; nl; nl_in Hok; sx.
  - do_expr1. sx. fin.
  - do_expr1. sx. apply IH; [assumption|reflexivity|okt].
Qed.

Lemma let_spec bs i e rest : gBindings bs -> ttyp i = TIn -> LX e -> stop rest -> okl (bs ++ i :: e ++ rest) ->
  wp (fun r => RESK0 rest (snd r)) (let_ rec f (sto (bs ++ i :: e ++ rest))).
Proof.
  intros Hbs Hi He Hs Hok. unfold let_.
  eapply wp_bind; [apply let_loop_spec; eassumption|].
  intros [vars st] [E Hok']. cbn [snd] in E. subst st.
  eapply wp_bind; [apply expr_spec; [assumption|assumption|assumption|lia]|].
  intros [n st] H. cbn [snd] in H. cbn [wp snd]. eapply RESK_0, H.
Qed.

(* ---- function arguments ---- *)
(* at the start of an argument *)
Definition ARGS (l X : list token) : Prop :=
  exists args c, l = args ++ c :: X /\ gArgs1 args /\ ttyp c = TCloseParen.
(* after an argument *)
Definition SEP (l X : list token) : Prop :=
  (exists c, l = c :: X /\ ttyp c = TCloseParen) \/
  (exists cm l', l = cm :: l' /\ ttyp cm = TComma /\ ARGS l' X).

Definition SEPst (X : list token) (st : pst) : Prop := exists l', st = sto l' /\ SEP l' X /\ okl l'.
Definition ARGSst (X : list token) (st : pst) : Prop := exists l', st = sto l' /\ ARGS l' X /\ okl l'.

Lemma arg_step l X : BADCALL -> ARGS l X -> okl l -> wp (fun r => SEPst X (snd r)) (expr rec 1 (sto l)).
Proof.
  intros HB (args & c & -> & Hg & Hc) Hok. destruct Hg as [a Ha|a cm r Ha Hcm Hr]; conc; nl; nl_in Hok.
  - eapply wp_mono; [apply expr_arg; [assumption|assumption|stp|assumption]|].
    intros [n st] [E Hok']. cbn [snd] in *. subst st. eexists. split; [reflexivity|]. split; [|assumption].
    left. eexists. split; reflexivity.
  - eapply wp_mono; [apply expr_arg; [assumption|assumption|stp|assumption]|].
    intros [n st] [E Hok']. cbn [snd] in *. subst st. eexists. split; [reflexivity|]. split; [|assumption].
    right. eexists _, _. split; [reflexivity|]. split; [reflexivity|].
    eexists _, _. split; [reflexivity|]. split; [assumption|reflexivity].
Qed.

Lemma gArg_amp a Y : gArg a -> hdt (a ++ Y) = TExpression -> exists v e, a = Tok TExpression v :: e /\ gE e.
Proof.
  intros [e He|amp e Hamp He] H.
  - destruct (gE_first e He) as (t & r & -> & Ht). cbn [app] in H. rewrite hdt_cons in H.
    rewrite H in Ht. discriminate.
  - conc. eauto.
Qed.

Lemma arg_step_amp l X : ARGS l X -> hdt l = TExpression -> okl l ->
  wp (fun r => SEPst X (snd r)) (expr rec 1 (sto (tl l))).
Proof.
  intros (args & c & -> & Hg & Hc) Hh Hok. destruct Hg as [a Ha|a cm r Ha Hcm Hr]; conc; nl; nl_in Hok; nl_in Hh;
    destruct (gArg_amp _ _ Ha Hh) as (v & e & -> & He); cbn [app tl] in *.
  - eapply wp_mono; [apply expr1; [assumption|stp|okt]|].
    intros [n st] [E Hok']. cbn [snd] in *. subst st. eexists. split; [reflexivity|]. split; [|assumption].
    left. eexists. split; reflexivity.
  - eapply wp_mono; [apply expr1; [assumption|stp|okt]|].
    intros [n st] [E Hok']. cbn [snd] in *. subst st. eexists. split; [reflexivity|]. split; [|assumption].
    right. eexists _, _. split; [reflexivity|]. split; [reflexivity|].
    eexists _, _. split; [reflexivity|]. split; [assumption|reflexivity].
Qed.

Lemma end_args_spec name X st : BADCALL -> SEPst X st ->
  wp (fun st' => st' = sto X /\ okl X) (end_args name st).
Proof.
  intros Hn (l & -> & [(c & -> & Hc)|(cm & l' & -> & Hcm & HA')] & Hok); conc; unfold end_args, unexpected_curr; sx.
  - cbn [wp]. split; [reflexivity|okt].
  - exact Hn.
Qed.

Lemma need_comma_spec name X st : BADCALL -> SEPst X st -> wp (ARGSst X) (need_comma name st).
Proof.
  intros Hn (l & -> & [(c & -> & Hc)|(cm & l' & -> & Hcm & HA')] & Hok); conc; unfold need_comma, unexpected_curr; sx.
  - exact Hn.
  - cbn [wp]. eexists. split; [reflexivity|]. split; [assumption|okt].
Qed.

Lemma opt_more_spec X st : SEPst X st ->
  wp (fun r => (fst r = false /\ snd r = sto X /\ okl X) \/ (fst r = true /\ ARGSst X (snd r))) (opt_more st).
Proof.
  intros (l & -> & [(c & -> & Hc)|(cm & l' & -> & Hcm & HA')] & Hok); conc; unfold opt_more, unexpected_curr; sx.
  - cbn [wp fst snd]. left. repeat split. okt.
  - cbn [wp fst snd]. right. split; [reflexivity|]. eexists. split; [reflexivity|]. split; [assumption|okt].
Qed.

Lemma var_args_loop_spec : forall k acc st X, BADCALL -> ARGSst X st ->
  wp (fun r => snd r = sto X /\ okl X) (var_args_loop rec k acc st).
Proof.
  induction k as [|k IH]; intros acc st X HB (l & -> & HA' & Hok); [exact I|].
  cbn [var_args_loop]. unfold unexpected_curr. cbv zeta.
  eapply wp_bind; [eapply arg_step; eassumption|].
  intros [n st] (l' & E & [(c & -> & Hc)|(cm & l'' & -> & Hcm & HA'')] & Hok'); cbn [snd] in E; subst st; conc; sx.
  - fin.
  - apply IH; [exact HB|]. eexists. split; [reflexivity|]. split; [assumption|okt].
Qed.

Ltac a_arg :=
  eapply wp_bind;
  [ match goal with H : ARGSst _ ?st |- wp _ (expr rec 1 ?st) =>
      let l := fresh "l" in let E := fresh "E" in let HA' := fresh "HA'" in let Hok := fresh "Hok" in
      destruct H as (l & E & HA' & Hok); subst; eapply arg_step; eassumption end
  | let n := fresh "n" in let st := fresh "st" in let HS := fresh "HS" in
    intros [n st] HS; cbn [snd] in HS ].
Ltac a_end :=
  eapply wp_bind; [apply end_args_spec; [assumption|eassumption]|];
  let st := fresh "st" in let E := fresh "E" in let Hok := fresh "Hok" in
  intros st [E Hok]; subst st; cbn [wp fst snd List.length arity_ok]; auto 6.
Ltac a_comma :=
  eapply wp_bind; [apply need_comma_spec; [assumption|eassumption]|];
  let st := fresh "st" in let HA' := fresh "HA'" in intros st HA'.
Ltac a_more :=
  eapply wp_bind; [apply opt_more_spec; eassumption|];
  let more := fresh "more" in let st := fresh "st" in let E1 := fresh "E" in let E2 := fresh "E" in
  let Hok := fresh "Hok" in let HA' := fresh "HA'" in
  intros [more st] [(E1 & E2 & Hok)|(E1 & HA')]; cbn [fst snd] in *; subst; cbn [negb];
  [cbn [wp fst snd List.length arity_ok]; auto 6|].

Lemma parse_args_spec ap name st X : BADCALL -> ARGSst X st ->
  wp (fun r => snd r = sto X /\ okl X /\ arity_ok ap (List.length (fst r))) (parse_args rec f ap name st).
Proof.
  intros Hn HA0. unfold parse_args.
  eapply wp_bind with (P := fun _ => True);
    [unfold check_not_close; destruct (is (ct st) TCloseParen); [exact Hn|exact I]|]. intros _ _.
  destruct ap.
  - a_arg. a_end.
  - a_arg. a_more. a_arg. a_end.
  - a_arg. a_comma. a_arg. a_end.
  - a_arg. destruct HS as (l & -> & [(c & -> & Hc)|(cm & l' & -> & Hcm & HA')] & Hok); conc; unfold unexpected_curr; sx.
    + exact Hn.
    + destruct (is (hdt l') TExpression) eqn:Ei; cbn [negb]; [|exact Hn]. apply is_eq in Ei.
      rewrite advance2_sto. cbn [tl bind].
      eapply wp_bind; [eapply arg_step_amp; [eassumption|assumption|okt]|].
      intros [n2 st2] HS. cbn [snd] in HS. a_end.
  - destruct HA0 as (l & -> & HA' & Hok).
    destruct (is (ct (sto l)) TExpression) eqn:Ei; cbn [negb]; [|exact Hn]. rewrite ct_sto in Ei. apply is_eq in Ei.
    rewrite advance_sto. cbn [bind].
    eapply wp_bind; [eapply arg_step_amp; eassumption|].
    intros [n1 st1] HS. cbn [snd] in HS. a_comma. a_arg. a_end.
  - a_arg. a_comma. a_arg. a_more. a_arg. a_end.
  - a_arg. a_comma. a_arg. a_more. a_arg. a_more. a_arg. a_end.
  - a_arg. a_comma. a_arg. a_comma. a_arg. a_more. a_arg. a_end.
  - eapply wp_mono; [apply var_args_loop_spec; eassumption|]. intros r [H1 H2]. cbn [arity_ok]. auto.
Qed.

(* ---- the same for an argument list of the right shape: no fault at all ---- *)
Lemma gE_hd_not e Y : gE e -> hdt (e ++ Y) <> TCloseParen /\ hdt (e ++ Y) <> TExpression.
Proof.
  intros He. destruct (gE_first e He) as (t & r & -> & Ht). cbn [app]. rewrite hdt_cons.
  apply starter_not in Ht. tauto.
Qed.

Lemma var_args_loop_strong : forall k acc fl args c X,
  gArgs1F fl args -> forallb negb fl = true -> ttyp c = TCloseParen -> okl (args ++ c :: X) ->
  wp (fun r => snd r = sto X /\ okl X) (var_args_loop rec k acc (sto (args ++ c :: X))).
Proof.
  induction k as [|k IH]; intros acc fl args c X Hf Hn Hc Hok; [exact I|].
  cbn [var_args_loop]. unfold unexpected_curr. cbv zeta.
  destruct Hf as [b a Ha|b a cm bs r Ha Hcm Hr]; cbn [forallb] in Hn; apply andb_prop in Hn; destruct Hn as [Hb Hn];
    destruct Ha as [e He|amp e Hamp He]; try discriminate Hb; conc; nl; nl_in Hok.
  - do_expr1. sx. fin.
  - do_expr1. sx. eapply IH; [eassumption|assumption|reflexivity|okt].
Qed.

Ltac invF :=
  repeat match goal with
  | H : gArgs1F (_ :: _) _ |- _ => inversion H; subst; clear H
  | H : gArgs1F [] _ |- _ => inversion H
  | H : gArgF _ _ |- _ => inversion H; subst; clear H
  end.

Ltac pa_go :=
  repeat first
  [ progress sx
  | rewrite Termination.bind_assoc
  | match goal with
    | He : gE ?e |- context [is (ct (sto (?e ++ ?Y))) TCloseParen] =>
        rewrite (ct_sto (e ++ Y)), (is_neq _ _ (proj1 (gE_hd_not e Y He)))
    | |- wp _ (bind (expr rec 1 (sto (_ ++ _))) _) => do_expr1
    | |- wp _ (Ok _) => cbn [wp fst snd List.length arity_ok]; repeat split; auto 6; okt
    end ].

Lemma parse_args_strong ap name fl args c X :
  gArgsF fl args -> shape_ok ap fl = true -> ttyp c = TCloseParen -> okl (args ++ c :: X) ->
  wp (fun r => snd r = sto X /\ okl X /\ arity_ok ap (List.length (fst r)))
     (parse_args rec f ap name (sto (args ++ c :: X))).
Proof.
  intros [[-> ->]|Hf] Hsh Hc Hok; [destruct ap; discriminate Hsh|].
  destruct ap.
  9:{ unfold parse_args. destruct fl as [|b fl]; [discriminate Hsh|]. cbn [shape_ok] in Hsh.
      eapply wp_bind with (P := fun _ => True).
      { unfold check_not_close.
        destruct Hf as [b0 a Ha|b0 a cm bs r Ha Hcm Hr]; cbn [forallb] in Hsh; apply andb_prop in Hsh;
          destruct Hsh as [Hb _]; destruct Ha as [e He|amp e Hamp He]; try discriminate Hb; nl;
          rewrite ct_sto, (is_neq _ _ (proj1 (gE_hd_not e _ He))); exact I. }
      intros _ _. eapply wp_mono; [eapply var_args_loop_strong; eassumption|].
      intros r [H1 H2]. cbn [arity_ok]. auto. }
  all: destruct fl as [|[|] [|[|] [|[|] [|[|] [|? ?]]]]]; try discriminate Hsh; invF; conc; nl; nl_in Hok;
    unfold parse_args, check_not_close, end_args, need_comma, opt_more, unexpected_curr; pa_go.
Qed.

Lemma function_spec fn o args c X :
  ttyp fn = TUnquotedIdentifier -> ttyp o = TOpenParen -> gArgs args -> ttyp c = TCloseParen ->
  okl (fn :: o :: args ++ c :: X) ->
  wp (fun r => snd r = sto X /\ okl X) (function rec f (sto (fn :: o :: args ++ c :: X))).
Proof.
  intros Hfn Ho Hargs Hc Hok. destruct fn as [ty nm]. cbn [ttyp] in Hfn. subst ty.
  unfold function. cbv zeta. sx.
  destruct (assoc nm function_table) as [[ap fb]|] eqn:Et.
  2:{ cbn [wp gerr]. destruct Hok as [pre Hpre]. eexists pre, _, _. split; [exact Hpre|]. split; [exact Ho|exact Et]. }
  destruct (gArgs_flags args Hargs) as (fl & Hfl).
  assert (W : wp (fun r => snd r = sto X /\ okl X /\ arity_ok ap (List.length (fst r)))
                 (parse_args rec f ap nm (sto (args ++ c :: X)))).
  { destruct (shape_ok ap fl) eqn:Esh.
    - apply (parse_args_strong ap nm fl); [assumption|assumption|assumption|okt].
    - assert (HB : BADCALL).
      { destruct Hok as [pre Hpre]. exists pre, (Tok TUnquotedIdentifier nm), o, args, c, X, ap, fb, fl.
        repeat split; assumption || reflexivity. }
      destruct Hargs as [|a Ha].
      + conc. cbn [app]. unfold parse_args, check_not_close. sx. exact HB.
      + apply parse_args_spec; [exact HB|]. eexists. split; [reflexivity|]. split; [|okt].
        eexists _, _. split; [reflexivity|]. split; [assumption|exact Hc]. }
  eapply wp_bind; [exact W|].
  intros [ns st] (E & Hok' & Har). cbn [fst snd] in *. subst st.
  destruct (build fb ns) eqn:Eb.
  + cbn [wp snd]. auto.
  + exfalso. eapply build_some; [eapply table_compat; eassumption|eassumption|assumption].
Qed.

(* ---- brackets ---- *)
Lemma wsp_spec n project k rest : KX k -> stop rest -> okl (k ++ rest) ->
  wp (fun r => RESK0 rest (snd r)) (wrap_slice_projection rec n project (sto (k ++ rest))).
Proof.
  intros Hk Hs Hok. unfold wrap_slice_projection. destruct project.
  - eapply wp_bind; [apply projection_spec; try assumption; unfold projection_precedence; lia|].
    intros [rhs st] H. cbn [snd] in H. cbn [wp snd]. exact H.
  - cbn [wp snd]. exists k. auto.
Qed.

Lemma gSlice_hd s Y : gSlice s -> is (hdt (s ++ Y)) TIntegerLiteral || is (hdt (s ++ Y)) TColon = true.
Proof.
  intros Hs. destruct Hs as [a c1 b Ha Hc1 Hb|a c1 b c2 s3 Ha Hc1 Hb Hc2 Hs3]; conc;
    apply gOptNum_cases in Ha; destruct Ha as [->|[v ->]]; reflexivity.
Qed.

Lemma gEs_hd es Y : gEs es -> starter_t (hdt (es ++ Y)) = true.
Proof.
  intros [e He|e c es' He Hc Hes']; destruct (gE_first e He) as (t & r & -> & Ht); exact Ht.
Qed.

Lemma gEs_notidx es Y : gEs es -> is (hdt (es ++ Y)) TIntegerLiteral || is (hdt (es ++ Y)) TColon = false.
Proof.
  intros H. apply (gEs_hd es Y) in H. apply starter_not in H. destruct H as (H1 & H2 & _).
  rewrite (is_neq _ _ H1), (is_neq _ _ H2). reflexivity.
Qed.

Lemma expr_spec' p l e rest : l = e ++ rest -> LX e -> stop rest -> okl l -> 0 <= p ->
  wp (fun r => RESK p rest (snd r)) (expr rec p (sto l)).
Proof. intros ->. apply expr_spec. Qed.

Ltac resk0 :=
  cbn [wp snd fst];
  match goal with
  | H : RESK0 _ _ |- RESK0 _ _ => exact H
  | H : RESK _ _ _ |- RESK0 _ _ => exact (RESK_0 _ _ _ H)
  | |- RESK0 ?rest (sto (?k ++ ?rest)) => exists k; repeat split; [assumption|first [assumption|okt]]
  end.

Ltac do_proj :=
  eapply wp_bind;
  [ apply projection_spec; [assumption|assumption|first [assumption|okt]|first [unfold projection_precedence; lia|cbn; lia]]
  | let c := fresh "c" in let st := fresh "st" in let H := fresh "H" in
    intros [c st] H; cbn [snd] in H ].

Ltac do_expr p e :=
  eapply wp_bind;
  [ eapply (expr_spec' p _ e); [nl; reflexivity| |assumption|first [assumption|okt]|cbn; lia]
  | let n := fresh "n" in let st := fresh "st" in let H := fresh "H" in
    intros [n st] H; cbn [snd] in H ].

Ltac do_index :=
  eapply wp_bind;
  [ first [ apply index_index; [reflexivity|first [assumption|okt]]
          | apply index_slice; [assumption|reflexivity|first [assumption|okt]] ]
  | let n := fresh "n" in let pr := fresh "pr" in let st := fresh "st" in let E := fresh "E" in
    intros [[n pr] st] E; cbn [snd] in E; subst st ].

Ltac do_wsp :=
  eapply wp_bind;
  [ apply wsp_spec; [assumption|assumption|first [assumption|okt]]
  | let n := fresh "n" in let st := fresh "st" in let H := fresh "H" in
    intros [n st] H; cbn [snd] in H ].

Lemma primary_spec e rest : LX e -> stop rest -> okl (e ++ rest) ->
  wp (fun r => RESK0 rest (snd r)) (primary rec f (sto (e ++ rest))).
Proof.
  intros He Hs Hok. destruct He as [u e Hu He|t bs i e Ht Hbs Hi He|p k Hp Hk].
  - destruct u as [ty v]. cbn [ttyp] in Hu. cbn [app] in *.
    destruct ty; try discriminate Hu; unfold primary; sx.
    all: match goal with |- wp _ (bind (expr rec ?p _) _) => do_expr p e; [eassumption|] end.
    all: resk0.
  - conc. nl. nl_in Hok. unfold primary. sx. apply let_spec; try assumption; [reflexivity|okt].
  - destruct Hp as [t Ht|o e c Ho He Hc|m Hm|m Hm|fn Hfn|b Hb].
    + (* atoms *)
      destruct t as [ty v]. cbn [ttyp] in Ht. cbn [app] in *.
      destruct ty; try discriminate Ht; unfold primary; cbv zeta; sx.
      * do_proj. resk0.
      * resk0.
      * eapply wp_bind; [apply (pjl_wp (Tok TJSONLiteral v)); [getA|reflexivity]|]. intros n _. sx. resk0.
      * do_pqi. sx. resk0.
      * resk0.
      * rewrite (is_neq _ _ (follow_not_paren k rest Hk Hs)). sx. resk0.
      * resk0.
      * resk0.
    + (* paren *)
      conc. nl. nl_in Hok. unfold primary, unexpected_curr. sx. do_expr1. sx. resk0.
    + (* multi-select list *)
      destruct Hm as [o es c Ho Hes Hc]. conc. nl. nl_in Hok. unfold primary, select_array. sx.
      rewrite !ct_sto, (gEs_notidx _ _ Hes).
      eapply wp_mono; [apply select_array_loop_spec; [assumption|reflexivity|okt]|].
      intros [n st] [E Hok']. cbn [snd] in *. subst st. resk0.
    + (* multi-select hash *)
      destruct Hm as [o kvs c Ho Hkvs Hc]. conc. nl. nl_in Hok. unfold primary, select_object. sx.
      eapply wp_mono; [apply select_object_loop_spec; [assumption|reflexivity|okt]|].
      intros [n st] [E Hok']. cbn [snd] in *. subst st. resk0.
    + (* call *)
      destruct Hfn as [fn o args c Hf Ho Hargs Hc]. conc. nl. nl_in Hok. unfold primary. sx.
      eapply wp_mono; [apply function_spec; [reflexivity|reflexivity|assumption|reflexivity|assumption]|].
      intros [n st] [E Hok']. cbn [snd] in *. subst st. resk0.
    + (* bracket-specifier in first position *)
      destruct Hb as [o n c Ho Hn Hc|t Ht|o s c Ho Hs' Hc|t Ht|o e c Ho He Hc]; conc; nl; nl_in Hok;
        unfold primary; sx.
      * do_index. apply wsp_spec; [assumption|assumption|okt].
      * do_proj. resk0.
      * rewrite !ct_sto, (gSlice_hd _ _ Hs'). do_index. apply wsp_spec; [assumption|assumption|okt].
      * do_proj. resk0.
      * eapply wp_bind; [apply filter_spec; [assumption|reflexivity|okt]|].
        intros [fl st] [E Hok']. cbn [snd] in E. subst st. do_proj. resk0.
Qed.

Lemma gCall_shape c : gCall c -> exists v r, c = Tok TUnquotedIdentifier v :: r.
Proof. destruct 1 as [fn o args c Hf Ho Hargs Hc]. conc. eauto. Qed.

Lemma binary_prec k : binary_t k = true -> 2 <= precedence k <= 7.
Proof. destruct k; try discriminate; cbn; lia. Qed.

Definition CSR (rest : list token) (r : option (node * pst)) : Prop :=
  exists n st, r = Some (n, st) /\ RESK0 rest st.

Ltac csr := cbn [wp]; eexists _, _; split; [reflexivity|]; resk0.

(* one iteration of parser.continuation on a non-empty continuation *)
Lemma cont_step_spec o k rest : KX k -> k <> [] -> stop rest -> okl (k ++ rest) ->
  (o = None -> binary_t (hdt k) = false) ->
  wp (CSR rest) (cont_step rec f o (precedence (hdt k)) (sto (k ++ rest))).
Proof.
  intros Hk Hne Hs Hok Ho. destruct Hk as [|op e Hop He|s k Hs' Hk|b k Hb Hk]; [congruence|..].
  - (* binary operator *)
    destruct o as [l|]; [|specialize (Ho eq_refl); rewrite hdt_cons in Ho; congruence].
    destruct op as [ty v]. cbn [ttyp] in Hop. cbn [app] in *. rewrite hdt_cons. cbn [ttyp].
    destruct ty; try discriminate Hop; unfold cont_step; sx; cbn [bin_of].
    all: match goal with |- wp _ (bind (expr rec ?p _) _) => do_expr p e; [eassumption|] end.
    all: csr.
  - (* sub-expression *)
    destruct Hs' as [d t Hd Ht|d m Hd Hm|d t Hd Ht|d m Hd Hm|d c Hd Hc|t Ht].
    + conc. apply ident_cases in Ht. cbn [app] in *. rewrite hdt_cons. cbn [ttyp].
      destruct Ht as [[v ->]|[v ->]]; unfold cont_step; sx; cbn [bin_of].
      * do_expr (precedence TDot) (Tok TUnquotedIdentifier v :: k);
          [apply (LX_pr [Tok TUnquotedIdentifier v] k); [apply gP_atom; reflexivity|assumption]|].
        destruct o; csr.
      * do_expr (precedence TDot) (Tok TQuotedIdentifier v :: k);
          [apply (LX_pr [Tok TQuotedIdentifier v] k); [apply gP_atom; reflexivity|assumption]|].
        destruct o; csr.
    + destruct Hm as [o' es c Ho' Hes Hc]. conc. nl. nl_in Hok. rewrite hdt_cons. cbn [ttyp].
      unfold cont_step, select_array. sx. cbn [bin_of].
      eapply wp_bind; [apply select_array_loop_spec; [assumption|reflexivity|okt]|].
      intros [n st] [E Hok']. cbn [snd] in E. subst st. csr.
    + conc. cbn [app] in *. rewrite hdt_cons. cbn [ttyp]. unfold cont_step. sx. cbn [bin_of]. csr.
    + destruct Hm as [o' kvs c Ho' Hkvs Hc]. conc. nl. nl_in Hok. rewrite hdt_cons. cbn [ttyp].
      unfold cont_step, select_object. sx. cbn [bin_of].
      eapply wp_bind; [apply select_object_loop_spec; [assumption|reflexivity|okt]|].
      intros [n st] [E Hok']. cbn [snd] in E. subst st. csr.
    + conc. destruct (gCall_shape _ Hc) as (v & r & ->). nl. nl_in Hok. rewrite hdt_cons. cbn [ttyp].
      unfold cont_step. sx. cbn [bin_of].
      do_expr (precedence TDot) ((Tok TUnquotedIdentifier v :: r) ++ k);
        [apply LX_pr; [apply gP_call; assumption|assumption]|].
      destruct o; csr.
    + conc. cbn [app] in *. rewrite hdt_cons. cbn [ttyp]. unfold cont_step. sx. cbn [bin_of].
      do_proj. csr.
  - (* bracket-specifier *)
    destruct Hb as [o' n c Ho' Hn Hc|t Ht|o' s c Ho' Hs' Hc|t Ht|o' e c Ho' He Hc]; conc; nl; nl_in Hok;
      rewrite hdt_cons; cbn [ttyp]; unfold cont_step; sx; cbn [bin_of].
    + do_index. do_wsp. csr.
    + do_proj. csr.
    + do_index. do_wsp. csr.
    + do_proj. csr.
    + eapply wp_bind; [apply filter_spec; [assumption|reflexivity|okt]|].
      intros [fl st] [E Hok']. cbn [snd] in E. subst st. do_proj. csr.
Qed.

Definition POSTE (p : Z) (rest : list token) (r : option node * pst) : Prop :=
  (exists n, fst r = Some n) /\ RESK p rest (snd r).
Definition POSTK (o : option node) (p : Z) (rest : list token) (r : option node * pst) : Prop :=
  (o <> None -> fst r <> None) /\ RESK p rest (snd r).

Lemma run_body_expr p e rest : LX e -> stop rest -> okl (e ++ rest) -> 0 <= p ->
  wp (POSTE p rest) (run_body rec f (CExpr p) (sto (e ++ rest))).
Proof.
  intros He Hs Hok Hp. cbn [run_body].
  eapply wp_bind; [apply primary_spec; assumption|].
  intros [n st] (k & E & Hk & Hok'). cbn [snd] in E. subst st.
  eapply wp_mono; [apply (HK (Some n) p k rest); try assumption; congruence|].
  intros [o' st'] [H1 H2]. cbn [fst snd] in *. split; [|assumption].
  destruct o' as [n'|]; [cbn [fst]; eauto|]. cbn [fst] in H1. exfalso. apply H1; [discriminate|reflexivity].
Qed.

Lemma run_body_cont o p k rest : KX k -> stop rest -> okl (k ++ rest) -> 0 <= p -> (o = None -> 7 <= p) ->
  wp (POSTK o p rest) (run_body rec f (CCont o p) (sto (k ++ rest))).
Proof.
  intros Hk Hs Hok Hp Ho. cbn [run_body]. cbv zeta. rewrite ct_sto.
  destruct (precedence (hdt (k ++ rest)) >? p) eqn:Ep.
  - apply Z.gtb_lt in Ep.
    destruct (follow_cases k rest Hk Hs) as [[-> Hc]|[Hne Hh]].
    { apply closer_prec in Hc. lia. }
    rewrite hdt_app_ne in * by assumption.
    eapply wp_bind; [apply cont_step_spec; try assumption|].
    { intros ->. specialize (Ho eq_refl). destruct (binary_t (hdt k)) eqn:Eb; [|reflexivity].
      apply binary_prec in Eb. lia. }
    intros r (n & st & -> & k1 & -> & Hk1 & Hok1).
    eapply wp_mono; [apply (HK (Some n) p k1 rest); try assumption; congruence|].
    intros [o' st'] [H1 H2]. cbn [fst snd] in *. split; [|assumption].
    intros _. apply H1. congruence.
  - cbn [wp]. split; [cbn [fst]; auto|]. cbn [snd]. exists k. repeat split; try assumption.
    destruct k as [|t k']; [exact I|]. cbn [app] in Ep. rewrite hdt_cons in Ep. cbn [lowhead].
    rewrite Z.gtb_ltb in Ep. apply Z.ltb_ge in Ep. exact Ep.
Qed.

Lemma run_body_amp p v l : BADCALL -> A (Tok TExpression v) ->
  wp (fun _ : option node * pst => False) (run_body rec f (CExpr p) (sto (Tok TExpression v :: l))).
Proof.
  intros HB Ha. cbn [run_body]. unfold primary, unexpected_curr. sx. cbn [wp gerr].
  split; [|exact HB]. exists (Tok TExpression v). auto.
Qed.
End Level.

(* ---- the invariant holds at every fuel ---- *)
Definition SPEC (rec : pcall -> pst -> outcome (option node * pst)) : Prop :=
  (forall p e rest, LX e -> stop rest -> okl (e ++ rest) -> 0 <= p ->
     wp (POSTE p rest) (rec (CExpr p) (sto (e ++ rest)))) /\
  (forall o p k rest, KX k -> stop rest -> okl (k ++ rest) -> 0 <= p -> (o = None -> 7 <= p) ->
     wp (POSTK o p rest) (rec (CCont o p) (sto (k ++ rest)))) /\
  (forall p v l, BADCALL -> A (Tok TExpression v) ->
     wp (fun _ : option node * pst => False) (rec (CExpr p) (sto (Tok TExpression v :: l)))).

Lemma run_spec : forall fuel, SPEC (run fuel).
Proof.
  induction fuel as [|fuel (IH1 & IH2 & IH3)].
  - split; [|split]; intros; exact I.
  - split; [|split]; intros; cbn [run].
    + apply run_body_expr; assumption.
    + apply run_body_cont; assumption.
    + apply run_body_amp; assumption.
Qed.

Lemma parse_items_wp fuel : gE ts ->
  wp (fun _ => True) (parse_items fuel (map ITok ts ++ [ITok tEnd])).
Proof.
  intros Hg. rewrite parse_items_sto.
  destruct (run_spec fuel) as (H1 & _ & _).
  eapply wp_bind.
  - replace (sto ts) with (sto (ts ++ [])) by (rewrite app_nil_r; reflexivity).
    apply H1; [apply gE_LX; assumption|reflexivity|exists []; rewrite app_nil_r; reflexivity|lia].
  - intros [o st] [[n Hn] (k & E & Hk & Hok' & Hl)]. cbn [fst snd] in *. subst o st.
    apply KX_low1 in Hl; [|assumption]. subst k. cbn [app]. exact I.
Qed.
End Main.

(* ================================================================== *)
(* 4. Completeness                                                     *)
(* ================================================================== *)

(* The answers the parser may give on a sentence [ts] of the grammar, besides Ok:
   - unknown function / wrong number of arguments / argument of the wrong kind,
     each at a call site of [ts]; a slice whose step is the number 0;
   - a token of [ts] whose own text is invalid: an integer outside the int range,
     a JSON literal or a quoted identifier with invalid content;
   - "unexpected token" ONLY at an expression reference "&" of [ts]. *)
Definition allowed (ts : list token) (e : err) : Prop := gerr ts e.

Theorem parser_complete : forall ts, gE ts ->
  forall fuel, (List.length ts < fuel)%nat ->
  match parse_items fuel (map ITok ts ++ [ITok (Tok TEnd [])]) with
  | Ok _ => True
  | Err e => allowed ts e
  | _ => False
  end.
Proof.
  intros ts Hg fuel Hf.
  pose proof (parse_items_wp ts fuel Hg) as H.
  assert (Hn : parse_items fuel (map ITok ts ++ [ITok (Tok TEnd [])]) <> OutOfFuel).
  { eapply Termination.post_no_fuel, Termination.parse_items_post.
    - apply Termination.wfl_shape. left. reflexivity.
    - rewrite app_length, map_length. cbn [List.length]. lia. }
  unfold tEnd in H.
  destruct (parse_items fuel (map ITok ts ++ [ITok (Tok TEnd [])])); cbn [wp] in H; try exact H.
  congruence.
Qed.

(* the form asked for in DESIGN (C04): every large enough fuel *)
Corollary parser_complete_ev : forall ts, gE ts ->
  exists fuel0, forall fuel, (fuel0 <= fuel)%nat ->
  match parse_items fuel (map ITok ts ++ [ITok (Tok TEnd [])]) with
  | Ok _ => True
  | Err e => allowed ts e
  | _ => False
  end.
Proof.
  intros ts Hg. exists (S (List.length ts)). intros fuel Hf. apply parser_complete; [assumption|lia].
Qed.

(* ---- in terms of the error categories of the public API ---- *)
(* the text of a token is valid for its type (a lexical matter, below the grammar) *)
Definition lex_valid (t : token) : Prop :=
  match ttyp t with
  | TIntegerLiteral => atoi (tval t) <> None
  | TJSONLiteral => parse_json_literal (tval t) <> Err (EInvalidJSONLiteral (tval t))
  | TQuotedIdentifier => parse_quoted_identifier (tval t) <> Err (EInvalidQuoted (tval t))
  | _ => True
  end.

Lemma lex_valid_in ts t : Forall lex_valid ts -> In t ts -> lex_valid t.
Proof. intros H. apply Forall_forall. exact H. Qed.

Ltac lexbad H Hv :=
  let t := fresh "t" in let Hin := fresh "Hin" in let Ht := fresh "Ht" in let E := fresh "E" in
  let Hat := fresh "Hat" in let L := fresh "L" in
  destruct H as (t & Hin & Ht & E & Hat); exfalso;
  pose proof (lex_valid_in _ t Hv Hin) as L; unfold lex_valid in L; rewrite Ht, E in L; contradiction.

(* on a sentence with lexically valid tokens the ONLY syntax error is an
   expression reference "&" among the arguments of a call of the wrong shape *)
Theorem syntax_error_only_at_amp : forall ts, gE ts -> Forall lex_valid ts ->
  forall fuel, (List.length ts < fuel)%nat ->
  match parse_items fuel (map ITok ts ++ [ITok (Tok TEnd [])]) with
  | Ok _ => True
  | Err e =>
      Api.parse_category e = Api.CSyntax ->
      (exists t, In t ts /\ ttyp t = TExpression /\ e = EUnexpectedToken (tval t)) /\ BADCALL ts
  | _ => False
  end.
Proof.
  intros ts Hg Hv fuel Hf. pose proof (parser_complete ts Hg fuel Hf) as H.
  destruct (parse_items fuel (map ITok ts ++ [ITok (Tok TEnd [])])) as [n|e| | |]; try exact H.
  unfold allowed in H. intros Hc.
  destruct e; cbn [gerr] in H; try contradiction; try discriminate Hc.
  - destruct H as [(t & Hin & Ht & E) HB]. split; [|exact HB]. exists t. subst. auto.
  - lexbad H Hv.
  - lexbad H Hv.
  - lexbad H Hv.
Qed.

Corollary no_syntax_error : forall ts, gE ts -> Forall lex_valid ts ->
  (forall t, In t ts -> ttyp t <> TExpression) ->
  forall fuel, (List.length ts < fuel)%nat ->
  match parse_items fuel (map ITok ts ++ [ITok (Tok TEnd [])]) with
  | Ok _ => True
  | Err e => Api.parse_category e <> Api.CSyntax
  | _ => False
  end.
Proof.
  intros ts Hg Hv Hamp fuel Hf. pose proof (syntax_error_only_at_amp ts Hg Hv fuel Hf) as H.
  destruct (parse_items fuel (map ITok ts ++ [ITok (Tok TEnd [])])) as [n|e| | |]; try exact H.
  intros Hc. destruct (H Hc) as [(t & Hin & Ht & _) _]. exact (Hamp t Hin Ht).
Qed.

(* ---- the stronger form: statically valid sentences are accepted ---- *)
(* no slice has the step 0 *)
Definition no_zero_step (ts : list token) : Prop :=
  forall z, step_site ts z -> ttyp z = TIntegerLiteral -> atoi (tval z) <> Some 0.
(* every called name is in the function table *)
Definition known_calls (ts : list token) : Prop :=
  forall pre v o X, ts = pre ++ Tok TUnquotedIdentifier v :: o :: X -> ttyp o = TOpenParen ->
    assoc v function_table <> None.
(* every call has the number and the kinds of arguments its function wants,
   however its argument list is read *)
Definition calls_ok (ts : list token) : Prop :=
  forall pre fn o args c X ap fb fl,
    ts = pre ++ fn :: o :: args ++ c :: X ->
    ttyp fn = TUnquotedIdentifier -> ttyp o = TOpenParen -> ttyp c = TCloseParen ->
    assoc (tval fn) function_table = Some (ap, fb) -> gArgsF fl args -> shape_ok ap fl = true.
Definition static_ok (ts : list token) : Prop :=
  Forall lex_valid ts /\ no_zero_step ts /\ known_calls ts /\ calls_ok ts.

Lemma calls_ok_good ts : calls_ok ts -> ~ BADCALL ts.
Proof.
  intros H (pre & fn & o & args & c & X & ap & fb & fl & E & H1 & H2 & H3 & H4 & H5 & H6).
  rewrite (H pre fn o args c X ap fb fl E H1 H2 H3 H4 H5) in H6. discriminate.
Qed.

Theorem parser_complete_static : forall ts, gE ts -> static_ok ts ->
  forall fuel, (List.length ts < fuel)%nat ->
  exists n, parse_items fuel (map ITok ts ++ [ITok (Tok TEnd [])]) = Ok n.
Proof.
  intros ts Hg (Hv & Hz & Hk & Hc) fuel Hf. apply calls_ok_good in Hc.
  pose proof (parser_complete ts Hg fuel Hf) as H.
  destruct (parse_items fuel (map ITok ts ++ [ITok (Tok TEnd [])])) as [n|e| | |]; try contradiction.
  { eauto. }
  exfalso. unfold allowed in H.
  destruct e; cbn [gerr] in H; try contradiction.
  - exact (Hc (proj2 H)).
  - lexbad H Hv.
  - lexbad H Hv.
  - lexbad H Hv.
  - destruct H as (z & Hs & Ht & Hat). exact (Hz z Hs Ht Hat).
  - destruct H as (pre & o & X & E & Ho & Hn). exact (Hk pre f o X E Ho Hn).
Qed.

(* sentences without function calls *)
Definition call_site (ts : list token) : Prop :=
  exists pre v o X, ts = pre ++ Tok TUnquotedIdentifier v :: o :: X /\ ttyp o = TOpenParen.

Corollary parser_complete_call_free : forall ts, gE ts -> Forall lex_valid ts ->
  ~ call_site ts -> no_zero_step ts ->
  forall fuel, (List.length ts < fuel)%nat ->
  exists n, parse_items fuel (map ITok ts ++ [ITok (Tok TEnd [])]) = Ok n.
Proof.
  intros ts Hg Hv Hcs Hz fuel Hf. apply parser_complete_static; try assumption.
  split; [assumption|]. split; [assumption|]. split.
  - intros pre v o X E Ho. exfalso. apply Hcs. exists pre, v, o, X. auto.
  - intros pre fn o args c X ap fb fl E H1 H2 _ _ _. exfalso. apply Hcs.
    destruct fn as [ty v]. cbn [ttyp] in H1. subst ty. exists pre, v, o, (args ++ c :: X). auto.
Qed.

(* ================================================================== *)
(* 5. The exception is real: "&" in value position is a SYNTAX error   *)
(* ================================================================== *)
(* abs(&a) *)
Definition amp_example : list token :=
  [Tok TUnquotedIdentifier [97;98;115]; Tok TOpenParen [40]; Tok TExpression [38];
   Tok TUnquotedIdentifier [97]; Tok TCloseParen [41]].

Theorem parser_incomplete_example :
  gE amp_example /\
  parse_items 6 (map ITok amp_example ++ [ITok (Tok TEnd [])]) = Err (EUnexpectedToken [38]) /\
  Api.parse_category (EUnexpectedToken [38]) = Api.CSyntax /\
  lex_all [97;98;115;40;38;97;41] = map ITok amp_example ++ [ITok (Tok TEnd [])] /\
  parse [97;98;115;40;38;97;41] = Err (EUnexpectedToken [38]).
Proof.
  split; [apply spec_accepts_sound; vm_compute; reflexivity|].
  repeat split; vm_compute; reflexivity.
Qed.

(* the static conditions are satisfiable in the presence of calls: abs(a) *)
Definition call_example : list token :=
  [Tok TUnquotedIdentifier [97;98;115]; Tok TOpenParen [40]; Tok TUnquotedIdentifier [97]; Tok TCloseParen [41]].

Ltac peel :=
  match goal with
  | E : _ = ?pre ++ _ |- _ =>
      is_var pre; destruct pre as [|? pre]; cbn [app] in E; inversion E; subst; clear E
  | E : [] = _ :: _ |- _ => discriminate E
  | E : _ :: _ = [] |- _ => discriminate E
  end.

Example static_ok_call_example : gE call_example /\ static_ok call_example.
Proof.
  split; [apply spec_accepts_sound; vm_compute; reflexivity|].
  unfold static_ok, call_example. split; [|split; [|split]].
  - repeat constructor.
  - intros z (pre & a & c1 & b & c2 & c & X & E & _ & Hc1 & _). exfalso.
    assert (Hin : In c1 [Tok TUnquotedIdentifier [97;98;115]; Tok TOpenParen [40]; Tok TUnquotedIdentifier [97]; Tok TCloseParen [41]]).
    { rewrite E. apply in_or_app. right. apply in_or_app. right. left. reflexivity. }
    cbn [In] in Hin. repeat (destruct Hin as [<-|Hin]; [discriminate Hc1|]). exact Hin.
  - intros pre v o X E Ho. repeat peel; cbn [ttyp] in *; try discriminate.
  - intros pre fn o args c X ap fb fl E Hfn Ho Hc Ha Hfl.
    repeat peel; cbn [ttyp tval] in *; try discriminate.
    vm_compute in Ha. inversion Ha; subst; clear Ha.
    destruct Hfl as [[_ D]|Hfl]; [discriminate D|].
    inversion Hfl as [b a Hb|b a cm bs r Hb Hcm Hr]; subst.
    + inversion Hb; subst; [reflexivity|]. cbn [ttyp] in *. discriminate.
    + exfalso. match goal with H : _ ++ _ :: _ = _ |- _ => symmetry in H end.
      repeat peel; cbn [ttyp] in *; discriminate.
Qed.

(* ================================================================== *)
(* 6. Byte level: Compile                                              *)
(* ================================================================== *)
Lemma map_ITok_inj a : forall b, map ITok a = map ITok b -> a = b.
Proof.
  induction a as [|x a IH]; intros [|y b] H; cbn [map] in H; try discriminate; [reflexivity|].
  inversion H; subst. f_equal. apply IH. assumption.
Qed.

Lemma lexed_shape s ts :
  lex_all s = map ITok ts ++ [ITok (Tok TEnd [])] ->
  (List.length ts <= List.length s)%nat /\ Forall (fun t => ttyp t <> TEnd) ts.
Proof.
  intros E. destruct (Termination.lex_all_shape s) as (toks & last & E2 & _ & Hne & Hl).
  rewrite E in E2. apply app_inj_tail in E2. destruct E2 as [E2 _].
  apply map_ITok_inj in E2. subst. split; assumption.
Qed.
Lemma lexed_length s ts :
  lex_all s = map ITok ts ++ [ITok (Tok TEnd [])] -> (List.length ts <= List.length s)%nat.
Proof. intros E. apply (lexed_shape s ts E). Qed.

(* every string that lexes to a sentence of the grammar which passes the static checks compiles *)
Theorem compile_complete : forall s ts,
  lex_all s = map ITok ts ++ [ITok (Tok TEnd [])] -> gE ts -> static_ok ts ->
  exists n, Api.compile s = Ok n.
Proof.
  intros s ts E Hg Hs. unfold Api.compile, parse. rewrite E.
  apply parser_complete_static; try assumption.
  pose proof (lexed_length s ts E). unfold parse_fuel. lia.
Qed.

(* a string that lexes to a sentence without "&" is never a syntax error of the parser *)
Theorem compile_no_syntax_error : forall s ts,
  lex_all s = map ITok ts ++ [ITok (Tok TEnd [])] -> gE ts -> Forall lex_valid ts ->
  (forall t, In t ts -> ttyp t <> TExpression) ->
  match Api.compile s with
  | Ok _ => True
  | Err e => Api.parse_category e <> Api.CSyntax
  | _ => False
  end.
Proof.
  intros s ts E Hg Hv Hamp. unfold Api.compile, parse. rewrite E.
  apply no_syntax_error; try assumption.
  pose proof (lexed_length s ts E). unfold parse_fuel. lia.
Qed.

(* together with compile_sound (Proofs/Grammar.v): for strings whose tokens pass the static checks,
   Compile succeeds exactly on the sentences of the grammar *)
Theorem compile_iff_sentence : forall s ts,
  lex_all s = map ITok ts ++ [ITok (Tok TEnd [])] -> static_ok ts ->
  ((exists n, Api.compile s = Ok n) <-> gE ts).
Proof.
  intros s ts E Hs. split.
  - intros [n Hn]. unfold Api.compile, parse in Hn. rewrite E in Hn.
    eapply parser_sound; [apply (lexed_shape s ts E)|exact Hn].
  - intros Hg. eapply compile_complete; eassumption.
Qed.

Print Assumptions parser_complete.
Print Assumptions syntax_error_only_at_amp.
Print Assumptions parser_complete_static.
Print Assumptions parser_complete_call_free.
Print Assumptions parser_incomplete_example.
Print Assumptions static_ok_call_example.
Print Assumptions compile_complete.
Print Assumptions compile_no_syntax_error.
Print Assumptions compile_iff_sentence.
